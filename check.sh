#!/bin/sh
# usage: check.sh <property id> [quick|thorough]
# Decides one property statically from the current working tree of /repo.
set -u
VERIF_DIR="$(cd "$(dirname "$0")" && pwd)"
export GOFLAGS=-mod=mod GOPROXY=off GOSUMDB=off GOTOOLCHAIN=local
unset GOWORK
PROP="${1:?property id}"
TIER="${2:-${VERIF_TIER:-quick}}"
REPO="${VERIF_REPO:-/repo}"
( cd "$VERIF_DIR/checker" && go build -o "$VERIF_DIR/bin/ogenverif" ./cmd/ogenverif ) || {
  echo "VIOLATION property=$PROP replay=$VERIF_DIR/evidence/violations/$PROP.txt"
  echo "checker build failed" >&2
  exit 1
}
exec "$VERIF_DIR/bin/ogenverif" -property "$PROP" -tier "$TIER" -repo "$REPO" -verif "$VERIF_DIR"
