#!/bin/bash
# usage: r4_intake.sh <Cxx> ...   — takes /tmp/r4/out/<Cxx>/{a,b,neg} into /verif/seeded (next free ids), confirms each
# in the agent's scratch worktree /tmp/r4/w<Cxx> (confirm_seed.sh; negatives: build + whole suite), records the result.
export GOFLAGS=-mod=mod GOPROXY=off GOSUMDB=off GOTOOLCHAIN=local; unset GOWORK
for P in "$@"; do
  O=/tmp/r4/out/$P; W=/tmp/r4/w$P
  [ -d "$W" ] || { echo "$P: no worktree"; continue; }
  git -C $W checkout -q -- . ; git -C $W clean -fdq
  for v in a b; do
    [ -f $O/$v/patch.diff ] || { echo "$P/$v: no patch"; continue; }
    n=$(ls -d /verif/seeded/$P-* 2>/dev/null | sed "s/.*$P-//" | sort -n | tail -1); n=$((n+1))
    D=/verif/seeded/$P-$n; mkdir -p $D
    cp $O/$v/patch.diff $D/; cp $O/$v/meta.json $D/
    [ -f $O/$v/demo_test.go ] && cp $O/$v/demo_test.go $D/
    [ -f $O/$v/demo.sh ] && cp $O/$v/demo.sh $D/
    res=$(/verif/tools/confirm_seed.sh $D $W 2>&1 | tail -1)
    python3 - "$D/meta.json" "$res" <<'PY'
import json,sys
p=sys.argv[1]; d=json.load(open(p)); d['confirmed_by_builder']=sys.argv[2]; d['round']=4
json.dump(d,open(p,'w'),indent=1,ensure_ascii=False)
PY
    echo "$P-$n ($v): $res"
  done
  if [ -f $O/neg/patch.diff ]; then
    n=$(ls -d /verif/seeded/neg-$P-* 2>/dev/null | sed "s/.*$P-//" | sort -n | tail -1); n=$((n+1))
    D=/verif/seeded/neg-$P-$n; mkdir -p $D
    cp $O/neg/patch.diff $D/; cp $O/neg/meta.json $D/
    cd $W; git apply $D/patch.diff && go build ./... >/dev/null 2>&1; brc=$?
    fails=$(go test -vet=off -count=1 ./... 2>&1 | grep -E "^(--- FAIL|FAIL)" | grep -v "k8s\|TestGenerate \|TestGenerate/Examples \|^FAIL$\|FAIL.github.com/ogen-go/ogen.[0-9]" | head -5)
    git checkout -q -- . ; git clean -fdq; cd /verif
    python3 - "$D/meta.json" "build_rc=$brc other_test_failures=[$fails]" <<'PY'
import json,sys
p=sys.argv[1]; d=json.load(open(p)); d['confirmed_by_builder']=sys.argv[2]; d['round']=4; d['negative_control']=True
json.dump(d,open(p,'w'),indent=1,ensure_ascii=False)
PY
    echo "neg-$P-$n: build_rc=$brc other_test_failures=[$fails]"
  fi
done
