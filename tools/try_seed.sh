#!/bin/sh
# usage: try_seed.sh <property> <patch.diff>   — applies the patch to /repo, runs the quick check, reverts.
PROP=$1; PATCH=$2
cd /repo || exit 2
if [ -n "$(git status --porcelain)" ]; then echo "repo dirty"; exit 2; fi
git apply "$PATCH" || { echo "patch does not apply"; exit 2; }
/verif/check.sh "$PROP" quick > /tmp/try_seed.out 2>&1; rc=$?
git checkout -- . ; git clean -fdq
grep -a -E "^(FINDING|VIOLATION|KNOWN|OK)" /tmp/try_seed.out | cut -c1-400
echo "exit=$rc"
