#!/usr/bin/env python3
"""Regenerates /verif/MANIFEST.json from the table below (one entry per
property actually implemented). Run after adding a property; validates against
the schema."""
import json, os, sys

ALL = ["C%02d" % i for i in range(1, 21)]

NA = {
 "C14": "byte-identity of checked-in vs regenerated packages is decided only by executing the generator and comparing outputs; no static rule implies it (DESIGN.md C14)",
 "C17": "equality of outcomes across document spellings is decided inside the YAML library and by runtime values; the only structural proxy found is not a necessary condition (DESIGN.md C17)",
}

# property -> (category, text, note, technique)
CLAIMS = {}
here = os.path.dirname(os.path.abspath(__file__))
exec(open(os.path.join(here, "claims.py")).read())

checks = []
for pid in ALL:
    if pid not in CLAIMS:
        continue
    cat, text, note, tech = CLAIMS[pid]
    checks.append({
        "property_id": pid,
        "quick_cmd": "/verif/check.sh %s quick" % pid,
        "thorough_cmd": "/verif/check.sh %s thorough" % pid,
        "evidence_file": "/verif/evidence/%s.json" % pid,
        "replay_cmd_template": "cat {path}",
        "engine": "ogenverif",
        "level_claimed": {"category": cat, "text": text, "design_ref": "DESIGN.md §2 " + pid},
        "level_note": note,
        "technique": tech,
    })
na = []
for pid in ALL:
    if pid in CLAIMS:
        continue
    na.append({"property_id": pid, "reason": NA.get(pid, "check not built yet at this commit (planned in DESIGN.md §2); nothing is claimed")})

m = {
 "version": 1,
 "setup_cmd": "cd /verif/checker && GOFLAGS=-mod=mod GOPROXY=off GOSUMDB=off GOTOOLCHAIN=local GOWORK=off go build -o /verif/bin/ogenverif ./cmd/ogenverif",
 "hooks": {
  "guard": "verif",
  "enable": "none needed: the checker reads /repo's source; no hook code exists in /repo",
  "baseline_off_cmd": "cd /repo && GOFLAGS=-mod=mod go test -json -vet=off -count=1 -timeout 25m ./...",
  "source_commits": [],
  "add_only": True,
 },
 "engines": [{
  "name": "ogenverif", "path": "/verif/checker", "serves_properties": sorted(CLAIMS),
  "kind_free_text": "repository-specific static analyser: go/packages + go/types + go/ssa + call graphs (RTA/CHA/VTA), text/template/parse for the generator templates, the compiler's check_bce pass as bounds-obligation enumerator",
 }],
 "checks": checks,
 "not_applicable": na,
 "notes": "Technique family: static analysis only; every verdict is computed from /repo's current source (see DESIGN.md). fix: commits in /repo are listed in known_findings.json.",
}
out = os.path.join(os.path.dirname(here), "MANIFEST.json")
json.dump(m, open(out, "w"), indent=1)
open(out, "a").write("\n")
try:
    import jsonschema
    jsonschema.validate(m, json.load(open("/root/.vp/MANIFEST.schema.json")))
    print("MANIFEST.json valid,", len(checks), "checks,", len(na), "not applicable")
except ImportError:
    print("written (jsonschema not available)")
