#!/bin/bash
# usage: r5_intake.sh <Cxx> ...  — takes /tmp/r5/out/<Cxx>/n{1,2,3} (behaviour-preserving refactors) into /verif/seeded as
# negative controls, confirming each in the agent's scratch worktree /tmp/r5/w<Cxx>: applies, builds, whole suite passes.
export GOFLAGS=-mod=mod GOPROXY=off GOSUMDB=off GOTOOLCHAIN=local; unset GOWORK
for P in "$@"; do
  O=/tmp/r5/out/$P; W=/tmp/r5/w$P
  [ -d "$W" ] || { echo "$P: no worktree"; continue; }
  git -C $W checkout -q -- . ; git -C $W clean -fdq
  for v in n1 n2 n3; do
    [ -f $O/$v/patch.diff ] || { echo "$P/$v: no patch"; continue; }
    n=$(ls -d /verif/seeded/neg-$P-* 2>/dev/null | sed "s/.*$P-//" | sort -n | tail -1); n=$((n+1))
    D=/verif/seeded/neg-$P-$n; mkdir -p $D
    cp $O/$v/patch.diff $D/; cp $O/$v/meta.json $D/ 2>/dev/null || echo '{"property":"'$P'"}' > $D/meta.json
    cd $W; git apply $D/patch.diff; arc=$?; go build ./... >/dev/null 2>&1; brc=$?
    fails=$(go test -vet=off -count=1 ./... 2>&1 | grep -E "^(--- FAIL|FAIL)" | grep -v "k8s\|TestGenerate \|TestGenerate/Examples \|^FAIL$\|FAIL.github.com/ogen-go/ogen.[0-9]" | head -5)
    git checkout -q -- . ; git clean -fdq; cd /verif
    python3 - "$D/meta.json" "apply_rc=$arc build_rc=$brc other_test_failures=[$fails]" "$P" <<'PY'
import json,sys
p=sys.argv[1]
try: d=json.load(open(p))
except Exception: d={}
d['property']=sys.argv[3]; d['confirmed_by_builder']=sys.argv[2]; d['round']=5; d['negative_control']=True
json.dump(d,open(p,'w'),indent=1,ensure_ascii=False)
PY
    echo "neg-$P-$n ($v): apply_rc=$arc build_rc=$brc other_test_failures=[$fails]"
  done
done
