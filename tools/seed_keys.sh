#!/bin/bash
# For every seed reported in seeded/RESULTS.md, re-runs the check that reported it and lists the finding keys.
# Output: /tmp/seed_keys.log, one line per seed: <seed> <check> <keys…>. Seeds whose keys are only vacuity /
# shape guards (floor, anchor:, :shape, fatal, undecided) are caught by a guard, not by a rule.
cd /verif
grep -E "^\| (C|neg)" seeded/RESULTS.md | while IFS='|' read -r _ id by exp got rules _; do
  id=$(echo $id); by=$(echo $by | awk '{print $1}'); got=$(echo $got)
  [ "$got" = "VIOLATION" ] || continue
  cd /repo; git apply /verif/seeded/$id/patch.diff 2>/dev/null || { echo "$id APPLYFAIL"; continue; }
  /verif/check.sh $by quick > /tmp/sk.out 2>&1
  git checkout -q -- . ; git clean -fdq
  keys=$(grep -a "^FINDING" /tmp/sk.out | grep -a -o 'key="[^"]*"' | sort -u | tr '\n' ' ')
  echo "$id $by $keys"
done
