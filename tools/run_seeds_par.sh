#!/bin/bash
# usage: run_seeds_par.sh <scratch dir outside /repo and /verif> [slots]
# Same job as run_seeds.sh (every seeded change against the quick check of its property, then of the properties under
# "cross_check"; negative controls must stay silent; writes seeded/RESULTS.md), but on <slots> scratch worktrees of
# /repo in parallel, each with its own copy of /verif's tables and fixtures, so neither /repo nor /verif/evidence is
# touched while it runs. The worktrees and copies are removed at the end.
export GOFLAGS=-mod=mod GOPROXY=off GOSUMDB=off GOTOOLCHAIN=local; unset GOWORK
S=${1:?scratch dir}; N=${2:-6}
mkdir -p "$S" || exit 2
( cd /verif/checker && go build -o "$S/ogv" ./cmd/ogenverif ) || exit 2
seeds=$(cd /verif/seeded && for d in */; do [ -f "$d/patch.diff" ] && echo "${d%/}"; done)
# SEEDS_ONLY="id id …" restricts the run; OUT=<file> writes the table there instead of seeded/RESULTS.md
[ -n "${SEEDS_ONLY:-}" ] && seeds="$SEEDS_ONLY"
for i in $(seq 1 $N); do
  rm -rf "$S/v$i"; mkdir -p "$S/v$i"
  rsync -a --exclude .git --exclude seeded --exclude bin --exclude evidence --exclude checker /verif/ "$S/v$i/"
  mkdir -p "$S/v$i/evidence"
  git -C /repo worktree remove --force "$S/w$i" >/dev/null 2>&1
  git -C /repo worktree add -f --detach "$S/w$i" HEAD -q || exit 2
  : > "$S/out.$i"
done
slot_run() {
  i=$1; shift
  W="$S/w$i"; V="$S/v$i"
  try() { # property patch → prints FINDING/VIOLATION/OK lines
    git -C "$W" checkout -q -- . ; git -C "$W" clean -fdq
    git -C "$W" apply "$2" || { echo "ERROR patch does not apply"; return; }
    "$S/ogv" -property "$1" -tier quick -repo "$W" -verif "$V" 2>&1 | grep -a -E "^(FINDING|VIOLATION|KNOWN|OK)" | cut -c1-400
    git -C "$W" checkout -q -- . ; git -C "$W" clean -fdq
  }
  for id in "$@"; do
    d=/verif/seeded/$id
    prop=$(python3 -c "import json;print(json.load(open('$d/meta.json'))['property'])")
    cross=$(python3 -c "import json;print(' '.join(json.load(open('$d/meta.json')).get('cross_check',[])))")
    exp=VIOLATION; case $id in neg-*) exp=OK;; esac
    res=$(try $prop $d/patch.diff); by=$prop
    if ! echo "$res" | grep -a -q "^VIOLATION"; then
      for cp in $cross; do
        res2=$(try $cp $d/patch.diff)
        if echo "$res2" | grep -a -q "^VIOLATION"; then res="$res2"; by="$cp (cross-check)"; break; fi
      done
    fi
    rules=$(echo "$res" | grep -a "^FINDING" | grep -o "rule=R[0-9.a-z]*" | sort -u | tr '\n' ' ')
    verdict=$(echo "$res" | grep -a -q "^VIOLATION" && echo VIOLATION || (echo "$res" | grep -a -q "^OK" && echo OK || echo ERROR))
    echo "| $id | $by | $exp | $verdict | $rules |" >> "$S/out.$i"
  done
}
i=0; declare -a lists
for id in $seeds; do k=$(( i % N + 1 )); lists[$k]="${lists[$k]} $id"; i=$((i+1)); done
for k in $(seq 1 $N); do slot_run $k ${lists[$k]} & done
wait
out=${OUT:-/verif/seeded/RESULTS.md}
echo "| seed | property | expected | check result | rules that fired |" > $out
echo "|---|---|---|---|---|" >> $out
cat "$S"/out.* | sort -t'|' -k2,2 >> $out
for i in $(seq 1 $N); do git -C /repo worktree remove --force "$S/w$i"; rm -rf "$S/v$i"; done
rm -f "$S"/out.* "$S/ogv"
total=$(grep -c "^| [Cn]" $out); caught=$(grep -a "| VIOLATION | VIOLATION |" $out | wc -l); cross=$(grep -a "(cross-check) | VIOLATION | VIOLATION" $out | wc -l)
missed=$(grep -a "| VIOLATION | OK |" $out | cut -d'|' -f2 | tr -d ' ' | tr '\n' ' ')
negs=$(grep -a "^| neg-" $out | wc -l); negok=$(grep -a "^| neg-.*| OK | OK |" $out | wc -l)
errs=$(grep -a "| ERROR |" $out | cut -d'|' -f2 | tr -d ' ' | tr '\n' ' ')
echo "caught=$caught cross=$cross missed=[$missed] negatives=$negok/$negs errors=[$errs] total=$total"
