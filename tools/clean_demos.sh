#!/bin/bash
# usage: clean_demos.sh <scratch worktree at main> — runs every seed's demo on the CLEAN tree; each must pass (rc 0).
# A demo that fails on the clean tree means a later fix changed the behaviour the demo relies on.
export GOFLAGS=-mod=mod GOPROXY=off GOSUMDB=off GOTOOLCHAIN=local; unset GOWORK
WT=$1
cd $WT || exit 2
git checkout -q -- . ; git clean -fdq
for d in /verif/seeded/*/; do
  SEED=${d%/}; n=$(basename $SEED)
  [ -f $SEED/patch.diff ] || continue
  if [ -f $SEED/demo.sh ]; then sh $SEED/demo.sh $WT >/dev/null 2>&1; rc=$?
  elif [ -f $SEED/demo_test.go ]; then
    dir=$(python3 -c "import json;print(json.load(open('$SEED/meta.json')).get('demo_dir','.'))"); dir=${dir#/}; dir=${dir%/}
    cp $SEED/demo_test.go $WT/$dir/zz_demo_test.go
    (cd $WT/$dir && go test -vet=off -count=1 -run 'Demo|Seed|C[0-9][0-9]' . >/dev/null 2>&1); rc=$?
    rm -f $WT/$dir/zz_demo_test.go
  else rc=-1; fi
  echo "$n clean_rc=$rc"
  git checkout -q -- . ; git clean -fdq
done
