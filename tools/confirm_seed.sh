#!/bin/bash
# usage: confirm_seed.sh <seed dir under /verif/seeded> <scratch worktree>
# Confirms: patch applies, builds, existing tests pass (k8s excepted), demo fails with patch and passes without.
export GOFLAGS=-mod=mod GOPROXY=off GOSUMDB=off GOTOOLCHAIN=local; unset GOWORK
SEED=$1; WT=$2
cd $WT || exit 2
git checkout -q -- . ; git clean -fdq
run_demo() {
  if [ -f $SEED/demo.sh ]; then sh $SEED/demo.sh $WT >/dev/null 2>&1; return $?; fi
  dir=$(python3 -c "import json;print(json.load(open('$SEED/meta.json')).get('demo_dir','.'))")
  dir=${dir#/}; dir=${dir%/}
  cp $SEED/demo_test.go $WT/$dir/zz_demo_test.go
  (cd $WT/$dir && go test -vet=off -count=1 -run 'Demo|Seed|C[0-9][0-9]' . >/tmp/demo.out 2>&1); rc=$?
  rm -f $WT/$dir/zz_demo_test.go
  return $rc
}
run_demo; clean_rc=$?
git apply $SEED/patch.diff || { echo "$SEED: APPLY FAILED"; exit 1; }
go build ./... >/dev/null 2>&1; build_rc=$?
run_demo; patched_rc=$?
fails=$(go test -vet=off -count=1 ./... 2>&1 | grep -E "^(--- FAIL|FAIL)" | grep -v "k8s\|TestGenerate \|TestGenerate/Examples \|^FAIL$\|FAIL.github.com/ogen-go/ogen.[0-9]" | head -5)
git checkout -q -- . ; git clean -fdq
echo "$(basename $SEED): demo_clean_rc=$clean_rc build_rc=$build_rc demo_patched_rc=$patched_rc other_test_failures=[$fails]"
