# property -> (category, text, level_note, technique)
CLAIMS["C20"] = (
 "proof",
 "Every path of the SSA control-flow graphs of cmd/ogen main/run/generate/cleanDir and every callee in an RTA call graph of the pre-IR stage is examined: no filesystem mutation in the ogen module can run before ogen.Parse and gen.NewGenerator have both succeeded (three user-path exemptions decided by dataflow on the path argument), the only destructive call is os.Remove of Join(targetDir, entry.Name()) guarded by !IsDir, the approved suffix and prefix tests and --clean, the generator's own file names satisfy that predicate, and every failure edge exits non-zero.",
 "Trusted: go/ssa, RTA's over-approximation of dynamic calls, the frozen list of filesystem-mutating std APIs; only call sites inside the ogen module are examined (dependencies trusted); OS-call behaviour and symlinks are out of scope.",
 "static analysis: SSA dominance + assumption-pruned CFG reachability + RTA call-graph who-may-call rule",
)
CLAIMS["C12"] = (
 "other",
 "Structural part only: (a) NormalizeEscapedPath cannot panic — every bounds check the compiler cannot prove is discharged by a dominating guard (lexical guard recogniser + linear prover) or a reviewed table entry; (b) the byte classes (unreserved, hex, unhex, upper-casing) are tabulated exhaustively over all 256 bytes by constant folding and compared with RFC 3986; unhex is applied only after ishex on the same value; (c) every consumer (duplicate-path detection, path parser) compares normalised text. Idempotence, canonical form and octet preservation of the rewriting loop are value properties and are not decided.",
 "Trusted: the compiler's prove pass as enumerator (check_bce), go/ssa, integer overflow ignored, reviewed table tables/panic_justified.json. The generated router's use of the normalised path is checked under C05/C15 once S2 rules exist.",
 "static analysis: compiler-enumerated bounds obligations + guard dominance, finite-domain constant folding of byte predicates, SSA dataflow to sinks",
)
CLAIMS["C13"] = (
 "other",
 "Structural part only: all exported text codecs of conv and json are paired by name and Go type; each pair is reduced by SSA inlining and constant propagation to its sequence of library calls, and the decoder's sequence must be the element-wise inverse of the encoder's (same base, bitSize not narrower than the type, same layout constant, same Unix unit, parser of the same family as the formatter); float formatting must use shortest round-trip precision or enough digits; fixed scratch buffers must fit the widest output; json.hexEncode's 36 constant destination indices are each written once with the right nibble. The value-level round trip inside strconv/time/netip/uuid/url is trusted via a frozen inverse table, not decided.",
 "Trusted: frozen inverse table of library formatter/parser pairs and their maximum output widths; go/ssa. Time-format resolution loss and url.URL normal forms are not covered.",
 "static analysis: sibling cross-check of encoder/decoder call sequences after SSA inlining + constant propagation; constant-index coverage",
)
CLAIMS["C18"] = (
 "other",
 "Four structural necessary conditions of json.Equal being semantic equality: the type dispatch is exhaustive over jx.Type and mismatched types are unequal; in the number comparison no possibly-true result flows from a float64 comparison (floats only decide inequality; byte/zero/big.Rat comparisons decide equality); every constant-true return has consumed a value from both decoders (so composites containing null compare); the enum duplicate scan applies Equal to every pair of distinct members of one list and rejects on true. The equivalence-relation laws over all JSON texts (e.g. objects with duplicate keys) are not decided.",
 "Trusted: jx.Decoder methods consume exactly one value; Num.Float64 rounding is monotone; go/ssa.",
 "static analysis: SSA dataflow from comparison operators to return values, dominance of consuming calls, AST rule on the nested enum scan",
)
CLAIMS["C16"] = (
 "other",
 "Five narrow structural necessary conditions of RFC 6901 resolution: the tilde table is exactly {~1→/, ~0→~} applied simultaneously (or ~1 first) with a fast path guarded for every key; unescaping is applied to each '/'-split token and its result is what lookup receives; the '#' form is percent-decoded before splitting; member lookup is string equality returning the adjacent value and index lookup is base-10 unsigned; all compiler-unproven bounds checks of the package are discharged. Which node a (document, pointer) pair designates is a runtime-value relation and is not decided.",
 "Trusted: yaml mapping nodes have even Content length (table entry); compiler check_bce; go/ssa.",
 "static analysis: SSA value-flow between split, unescape and lookup; constant-table extraction; compiler-enumerated bounds obligations",
)
CLAIMS["C08"] = (
 "other",
 "Decided: every constant the converter substitutes denotes the ECMA-262 set it stands for (dot, \\s, \\S, [] and [^]; the denotation of each constant is computed with regexp/syntax and compared with sets frozen from ECMA-262 §12.2/§12.3); the fallback wiring that makes 'never approximated' and 'reports its original text' hold (Convert says ok only when parsing recorded no error; look-around, back-references and \\S-in-class record one; Compile hands the ORIGINAL pattern with ECMAScript|Unicode to regexp2 on every path that does not return a goRegexp built under both success edges; orig/String() carry the original); and all compiler-unproven bounds checks of the package are discharged (nine by reviewed parser-invariant entries). Language equality of an arbitrary pattern and its rewriting (the token-level rewriting loop) is NOT decided.",
 "Trusted: regexp/syntax as evaluator of constant classes; reference sets frozen from ECMA-262; regexp2.Regexp.String returns its source; reviewed table entries for the parser's offset invariant.",
 "static analysis: constant-table denotation check, SSA dominance/dataflow on Compile/Convert, compiler-enumerated bounds obligations",
)
CLAIMS["C06"] = (
 "other",
 "Exhaustive over the finite configuration space admitted by the parser's style table (read from the composite literal in validateParamStyle) and isSupportedParamStyle: for each (location, style, explode, shape) the runtime encoder and decoder are partially evaluated with those fields bound to constants, and (1) the delimiter constants reaching encoder sinks equal those reaching decoder sinks and both equal the OpenAPI 3.0.3 style table, (2) the encoder refuses items/names/values containing the active separator before escaping, (3) no panic is reachable on either side, including the no-value state; plus isParamAllowed is exhaustive over ir.Kind and recurses into every component type, every site enabling the uri feature is paired with it, cookie escaping tables are an inverse pair (tabulated over all bytes), and all compiler-unproven bounds checks and explicit panics of package uri are discharged. The value-level inverse decode(encode(v)) == v, empty strings/collections and escaping inside net/url are NOT decided.",
 "Trusted: the E4 partial evaluator (loops not summarised), the reference style table frozen from OpenAPI 3.0.3, reviewed table entries (cursor invariant, nested-shape panics discharged through R06.4), generated code passes style constants (checked under C01 once built).",
 "static analysis: finite-configuration constant propagation with branch pruning (partial evaluation of the typed AST), exhaustive enumeration of the admission table, finite-domain byte tables, compiler-enumerated bounds obligations",
)
CLAIMS["C15"] = (
 "other",
 "Path properties of every generated handler for all requests, per expansion (S2: templates expanded by cmd/ogen built from the current tree over the go:generate fixtures — a build step; every verdict is a static rule over the expanded code's SSA): every path through handle<Op>Request writes at least one response and a second write happens only on the error edge of the first; every call of the user handler (also inside the HookMiddleware closure) is dominated by the success edges of every security call, the requirement test, parameter decoding and request decoding, and each failure edge builds the stage's error type; request decoders refuse unknown content types and trailing JSON; S1: error type → status constants (401/400/400/415 before generic/501/500), 404 and 405+Allow defaults; all compiler-unproven bounds checks and explicit panics of conv, json, http, validate, ogenerrors, middleware are discharged. net/http's parsing, resource exhaustion, user handlers, and specs outside the fixture corpus (for S2 rules) are NOT decided.",
 "Trusted: cmd/ogen as macro-expander; fixture corpus (quick: 8 fixtures, thorough: all directives with present inputs); reviewed table entries; go/ssa dominance.",
 "static analysis: must-pass-through and dominance rules on the SSA of regenerated handlers, constant-return analysis, compiler-enumerated bounds obligations",
)
CLAIMS["C09"] = (
 "other",
 "Per expansion (S2: every generated handler and client method evaluating security, for all requests and credential subsets): the user handler is dominated by the success edge of every security call and by the satisfied requirement test, failures build SecurityError (→401 constant); bit discipline (k-th scheme sets exactly bit (k/8,k%8) on its accepted edge, distinct bits, masks ⊆ settable bits, array long enough) and the requirement closure has the shape OR-over-alternatives of AND-over-bits (matched on SSA loop structure) for server and client; the client writes each scheme's credential to the carrier the server reads; S1: template div/mod constants equal bitset.Set's, one index per scheme name, operation-level security replaces global. One known finding: an error from one scheme short-circuits alternatives that do not contain it. Requirement structures outside the fixture corpus (S2 rules) and the user's SecurityHandler are NOT decided.",
 "Trusted: cmd/ogen as macro-expander; fixture corpus; go/ssa dominance and loop structure.",
 "static analysis: SSA dominance, constant extraction of bit indices and masks, loop-shape matching, sibling agreement of client/server credential carriers",
)
CLAIMS["C05"] = (
 "other",
 "Path properties of the generated matcher for every request, per expansion (S2: router.tmpl expanded by cmd/ogen built from the current tree over the fixtures; static rules over the expanded AST/SSA): captured arguments are slash-free; ServeHTTP and FindPath contain the same decision tree (normalised token streams: prefixes, head bytes, parameter indices/delimiters, leaf method→operation/arity); static children precede the parameter child and every exit after consuming input restores elem; every 405's Allow string is the comma-join of that leaf's methods; every path of ServeHTTP performs exactly one of handler/notAllowed/notFound; handler calls pass args[0..n) in order and matching runs on the normalised, prefix-cut path. Two known findings (tail-delimited parameters capture '/', break-without-restore mis-dispatch). Radix-tree construction for route sets outside the corpus is NOT decided.",
 "Trusted: cmd/ogen as macro-expander; fixture corpus; the regular statement shapes of router.tmpl (other shapes are reported undecided).",
 "static analysis: decision-tree extraction from the regenerated router's AST, sibling comparison ServeHTTP/FindPath, path-sensitive restore rule, SSA must/at-most-one outcome analysis",
)
CLAIMS["C19"] = (
 "other",
 "A static race-freedom argument that holds for every schedule: no instruction outside package initialisers / sync.Once bodies stores to a package-level variable or through a pointer, map or slice loaded from one (runtime packages and every expanded package); a *big.Rat loaded from a validator is never a mutating receiver; in every generated send<Op> the mutated *url.URL is the result of uri.Clone/url.Parse; no method of the shared Server/Client types stores through its receiver; pooled jx objects are not used after a non-deferred Put nor stored away. Thread-safety of dependencies, user handlers and outcome-equality beyond the absence of shared mutable state are NOT decided.",
 "Trusted: sync.Pool/sync.Once internals; aliasing approximated by address roots (global / receiver = shared, Alloc / call result = local); fixture corpus for S2 rules; frozen list of mutating big.Rat methods.",
 "static analysis: effect / who-may-write analysis on SSA address roots, typestate on pooled objects",
)
CLAIMS["C07"] = (
 "other",
 "Structural necessary conditions of '$ref is transparent and cycles terminate': AddKey/Delete pairing (Delete of the same key deferred on AddKey's success edge before any return, nowhere else) and the measure (AddKey refuses at depth 0 and for keys in progress, decrements; Delete increments and removes); a dereferenced target is parsed only under a successful AddKey in every resolving function (incl. every instantiation of resolveComponent); results cached by reference key depend only on the key (parse callbacks capture nothing but the parser) — two known findings (resolveHeader captures headerName, resolvePathItem captures itemPath); recursive struct types are checked after all operations and required recursion is an error; the schema-depth panic is paired with its recover on every entry. Structural equality of a spec with its inlined form, Expand round trip and multi-file URL resolution values are NOT decided.",
 "Trusted: go/ssa (generic instantiations included); the parser is single-threaded per parse.",
 "static analysis: typestate/pairing on SSA (defer + dominance), closure free-variable rule for cached callbacks, call-order and error-propagation checks",
)
CLAIMS["C10"] = (
 "other",
 "Structural necessary conditions of deterministic, race-free generation, for every map order and schedule: (R10.1) every `range` over a map in the 15 generator-path packages is classified on SSA by the effects that can leave its body — keyed inserts, element-local writes, commutative accumulation, constant flags, append-then-sort and diagnostic returns are order-free; anything else must carry a reviewed reason (20 sites) or is a violation; (R10.2) every method invocable from a template (name and argument count occur in a template selector) and every FuncMap function has an empty who-may-write summary, and the goroutines of WriteSource store to no shared variable; (R10.3) package-level state is written only at initialisation and the pooled buffer is Reset before use; (R10.4) every comparator sort is keyed by what its comparator reads and needs a reviewed reason why equal keys cannot reorder map-derived input. Byte-identity of outputs, nondeterminism inside dependencies (imports.Process, yaml) and the race detector's verdict are NOT decided.",
 "Trusted: tables/maporder_exceptions.json; E9 address-root alias approximation; text/template visits map keys in sorted order and calls a method only with the written argument count.",
 "static analysis: SSA effect classification of map-range bodies, who-may-write summaries over the call graph for template-invocable functions, goroutine capture analysis, global-write and sort-comparator enumeration with a reviewed table",
)
CLAIMS["C11"] = (
 "other",
 "Panic-freedom obligations on the input-facing generator code: every explicit panic site of the generation path (17 packages) is the default of an exhaustive switch over a closed constant set, an exported IR helper reachable only from templates (text/template converts the panic into an error; checked by who-references analysis on SSA), or has a reviewed justification; every compiler-unproven bounds check on a text operand (string/[]byte/[]rune) is discharged by a dominating guard or a reviewed entry; every function of openapi/parser and jsonschema that can return (nil, nil) is enumerated from its (possibly defer-spilled) constant returns and every dereference of such a result — also after it was stored in a map and ranged — is dominated by a nil test. A new panic site, unproven text index or unchecked nullable result is a violation until triaged. Termination time, memory, stack depth and position correctness are NOT decided; bounds checks on slices of IR objects are out of scope.",
 "Trusted: compiler check_bce as enumerator; reviewed table (50 generator-path entries); text/template safeCall semantics.",
 "static analysis: compiler-enumerated bounds obligations + guard recogniser, explicit-panic enumeration with exhaustive-switch and who-references discharge, type-directed nilness rule on SSA",
)
