# property -> (category, text, level_note, technique)
CLAIMS["C20"] = (
 "proof",
 "Every path of the SSA control-flow graphs of cmd/ogen main/run/generate/cleanDir and every callee in an RTA call graph of the pre-IR stage is examined: no filesystem mutation in the ogen module can run before ogen.Parse and gen.NewGenerator have both succeeded (three user-path exemptions decided by dataflow on the path argument), the only destructive call is os.Remove of Join(targetDir, entry.Name()) guarded by !IsDir, the approved suffix and prefix tests and --clean, the generator's own file names satisfy that predicate, and every failure edge exits non-zero.",
 "Trusted: go/ssa, RTA's over-approximation of dynamic calls, the frozen list of filesystem-mutating std APIs; only call sites inside the ogen module are examined (dependencies trusted); OS-call behaviour and symlinks are out of scope.",
 "static analysis: SSA dominance + assumption-pruned CFG reachability + RTA call-graph who-may-call rule",
)
CLAIMS["C12"] = (
 "other",
 "Structural part only: (a) NormalizeEscapedPath cannot panic — every bounds check the compiler cannot prove is discharged by a dominating guard (lexical guard recogniser + linear prover) or a reviewed table entry; (b) the byte classes (unreserved, hex, unhex, upper-casing) are tabulated exhaustively over all 256 bytes by constant folding and compared with RFC 3986; unhex is applied only after ishex on the same value; (c) every consumer (duplicate-path detection, path parser) compares normalised text. Idempotence, canonical form and octet preservation of the rewriting loop are value properties and are not decided.",
 "Trusted: the compiler's prove pass as enumerator (check_bce), go/ssa, integer overflow ignored, reviewed table tables/panic_justified.json. The generated router's use of the normalised path is checked under C05/C15 once S2 rules exist.",
 "static analysis: compiler-enumerated bounds obligations + guard dominance, finite-domain constant folding of byte predicates, SSA dataflow to sinks",
)
CLAIMS["C13"] = (
 "other",
 "Structural part only: all exported text codecs of conv and json are paired by name and Go type; each pair is reduced by SSA inlining and constant propagation to its sequence of library calls, and the decoder's sequence must be the element-wise inverse of the encoder's (same base, bitSize not narrower than the type, same layout constant, same Unix unit, parser of the same family as the formatter); float formatting must use shortest round-trip precision or enough digits; fixed scratch buffers must fit the widest output; json.hexEncode's 36 constant destination indices are each written once with the right nibble. The value-level round trip inside strconv/time/netip/uuid/url is trusted via a frozen inverse table, not decided.",
 "Trusted: frozen inverse table of library formatter/parser pairs and their maximum output widths; go/ssa. Time-format resolution loss and url.URL normal forms are not covered.",
 "static analysis: sibling cross-check of encoder/decoder call sequences after SSA inlining + constant propagation; constant-index coverage",
)
