#!/bin/bash
# Runs every seeded change under /verif/seeded against the quick check of its property
# and writes seeded/RESULTS.md (caught / missed; negative controls must stay silent).
cd /verif
out=seeded/RESULTS.md
echo "| seed | property | expected | check result | rules that fired |" > $out
echo "|---|---|---|---|---|" >> $out
for d in seeded/*/; do
  id=$(basename $d); [ -f $d/patch.diff ] || continue
  if [ -n "$1" ] && [[ "$id" != $1* ]]; then continue; fi
  prop=$(python3 -c "import json;print(json.load(open('$d/meta.json'))['property'])")
  exp=VIOLATION; case $id in neg-*) exp=OK;; esac
  res=$(tools/try_seed.sh $prop /verif/$d/patch.diff)
  rules=$(echo "$res" | grep "^FINDING" | grep -o "rule=R[0-9.]*" | sort -u | tr '\n' ' ')
  verdict=$(echo "$res" | grep -q "^VIOLATION" && echo VIOLATION || (echo "$res" | grep -q "^OK" && echo OK || echo ERROR))
  echo "| $id | $prop | $exp | $verdict | $rules |" >> $out
  echo "$id $prop expected=$exp got=$verdict $rules"
done
