#!/bin/bash
# Runs every seeded change under /verif/seeded against the quick check of its property
# (and, if that stays silent, of the properties listed under "cross_check" in its meta.json)
# and writes seeded/RESULTS.md (caught / missed; negative controls must stay silent).
cd /verif
out=seeded/RESULTS.md
echo "| seed | property | expected | check result | rules that fired |" > $out
echo "|---|---|---|---|---|" >> $out
for d in seeded/*/; do
  id=$(basename $d); [ -f $d/patch.diff ] || continue
  if [ -n "$1" ] && [[ "$id" != $1* ]]; then continue; fi
  prop=$(python3 -c "import json;print(json.load(open('$d/meta.json'))['property'])")
  cross=$(python3 -c "import json;print(' '.join(json.load(open('$d/meta.json')).get('cross_check',[])))")
  exp=VIOLATION; case $id in neg-*) exp=OK;; esac
  res=$(tools/try_seed.sh $prop /verif/$d/patch.diff)
  by=$prop
  if ! echo "$res" | grep -a -q "^VIOLATION"; then
    for cp in $cross; do
      res2=$(tools/try_seed.sh $cp /verif/$d/patch.diff)
      if echo "$res2" | grep -a -q "^VIOLATION"; then res="$res2"; by="$cp (cross-check)"; break; fi
    done
  fi
  rules=$(echo "$res" | grep -a "^FINDING" | grep -o "rule=R[0-9.a-z]*" | sort -u | tr '\n' ' ')
  verdict=$(echo "$res" | grep -a -q "^VIOLATION" && echo VIOLATION || (echo "$res" | grep -a -q "^OK" && echo OK || echo ERROR))
  echo "| $id | $by | $exp | $verdict | $rules |" >> $out
  echo "$id $by expected=$exp got=$verdict $rules"
done
