// Package effects implements engine E9: a who-may-write analysis on go/ssa.
// For every function of the analysed packages it computes which memory
// outside the function's own allocations it may write, expressed in terms of
// its parameters (by index), captured variables and package-level variables;
// summaries are propagated bottom-up through static calls and through CHA
// resolution of interface calls inside the module, to a fixpoint.
package effects

import (
	"fmt"
	"go/token"
	"go/types"
	"os"
	"sort"
	"strings"

	"golang.org/x/tools/go/ssa"

	"ogenverif/internal/core"
)

// RootKind classifies what an address is rooted in.
type RootKind int

const (
	Local RootKind = iota
	Param
	Free
	Global
	Unknown
)

// Root of an address.
type Root struct {
	Kind  RootKind
	Index int       // Param / Free index
	Val   ssa.Value // the Alloc / Parameter / FreeVar / Global
	// Deep: the address was reached by loading a reference out of the root cell and addressing through it
	// ((*cell).f, (*cell)[i]); for a captured variable this means the write lands in whatever the variable
	// refers to, not in the variable itself.
	Deep bool
}

func (r Root) String() string {
	switch r.Kind {
	case Local:
		return "local"
	case Param:
		return fmt.Sprintf("param#%d", r.Index)
	case Free:
		return fmt.Sprintf("free#%d", r.Index)
	case Global:
		if g, ok := r.Val.(*ssa.Global); ok {
			return "global " + g.Name()
		}
		return "global"
	}
	return "unknown"
}

// RootOf follows an address / reference value to its root.
func RootOf(v ssa.Value) Root { return rootOf(v, 0, map[ssa.Value]bool{}) }

// CellContentRoot is the root of what the variable cell (an Alloc or a FreeVar,
// as found among closure bindings) refers to.
func CellContentRoot(cell ssa.Value) Root {
	switch x := cell.(type) {
	case *ssa.Alloc:
		return allocContent(x, 0, map[ssa.Value]bool{})
	case *ssa.FreeVar:
		r := RootOf(x)
		r.Deep = true
		return r
	}
	return RootOf(cell)
}

// allocContent: the worst root among the values stored into a local cell.
func allocContent(al *ssa.Alloc, depth int, seen map[ssa.Value]bool) Root {
	worst := Root{Kind: Local, Val: al}
	if al.Referrers() == nil || seen[al] {
		return worst
	}
	seen[al] = true
	for _, ref := range *al.Referrers() {
		st, ok := ref.(*ssa.Store)
		if !ok || st.Addr != ssa.Value(al) {
			continue
		}
		if r := rootOf(st.Val, depth+1, seen); r.Kind > worst.Kind {
			worst = r
		}
	}
	return worst
}

// structFieldContent: the worst root among what field f of the local struct
// cell can hold — values stored into that field, and the same field of whole
// struct values copied into the cell.
func structFieldContent(al *ssa.Alloc, f int, depth int, seen map[ssa.Value]bool) Root {
	worst := Root{Kind: Local, Val: al}
	if al.Referrers() == nil {
		return worst
	}
	for _, ref := range *al.Referrers() {
		switch x := ref.(type) {
		case *ssa.Store:
			if x.Addr == ssa.Value(al) {
				if r := rootOf(x.Val, depth+1, seen); r.Kind > worst.Kind {
					worst = r
				}
			}
		case *ssa.FieldAddr:
			if x.Field != f || x.Referrers() == nil {
				continue
			}
			for _, u := range *x.Referrers() {
				if st, ok := u.(*ssa.Store); ok && st.Addr == ssa.Value(x) {
					if r := rootOf(st.Val, depth+1, seen); r.Kind > worst.Kind {
						worst = r
					}
				}
			}
		}
	}
	return worst
}

func rootOf(v ssa.Value, depth int, seen map[ssa.Value]bool) Root {
	deep := false
	ret := func(r Root) Root {
		if deep {
			r.Deep = true
		}
		return r
	}
	for depth < 64 {
		depth++
		switch x := v.(type) {
		case *ssa.Global:
			return ret(Root{Kind: Global, Val: x})
		case *ssa.Alloc:
			return ret(Root{Kind: Local, Val: x})
		case *ssa.MakeMap, *ssa.MakeSlice, *ssa.MakeChan, *ssa.MakeClosure, *ssa.Const, *ssa.Function, *ssa.Builtin:
			return Root{Kind: Local, Val: x}
		case *ssa.MakeInterface:
			v = x.X
		case *ssa.Parameter:
			fn := x.Parent()
			for i, p := range fn.Params {
				if p == x {
					return Root{Kind: Param, Index: i, Val: x}
				}
			}
			return Root{Kind: Unknown, Val: x}
		case *ssa.FreeVar:
			fn := x.Parent()
			for i, p := range fn.FreeVars {
				if p == x {
					return ret(Root{Kind: Free, Index: i, Val: x})
				}
			}
			return Root{Kind: Unknown, Val: x}
		case *ssa.FieldAddr:
			v = x.X
		case *ssa.IndexAddr:
			v = x.X
		case *ssa.Field:
			v = x.X
		case *ssa.Index:
			v = x.X
		case *ssa.Slice:
			v = x.X
		case *ssa.UnOp:
			if x.Op != token.MUL {
				return Root{Kind: Local, Val: x}
			}
			// a reference loaded out of a local variable cell and addressed through: the write lands in what
			// the variable refers to
			if al, ok := x.X.(*ssa.Alloc); ok && isRefType(x.Type()) {
				return allocContent(al, depth, seen)
			}
			// a reference loaded out of a field of a local struct variable (a spilled value receiver or
			// parameter): what the variable was filled from decides where the write lands
			if fa, ok := x.X.(*ssa.FieldAddr); ok && isRefType(x.Type()) {
				if al, ok := fa.X.(*ssa.Alloc); ok {
					return structFieldContent(al, fa.Field, depth, seen)
				}
			}
			deep = true
			v = x.X
		case *ssa.ChangeType:
			v = x.X
		case *ssa.ChangeInterface:
			v = x.X
		case *ssa.Convert:
			v = x.X
		case *ssa.Lookup:
			v = x.X
		case *ssa.TypeAssert:
			v = x.X
		case *ssa.Extract:
			v = x.Tuple
		case *ssa.Next:
			v = x.Iter
		case *ssa.Range:
			v = x.X
		case *ssa.Phi:
			worst := Root{Kind: Local, Val: x}
			if seen[x] {
				return worst
			}
			seen[x] = true
			for _, e := range x.Edges {
				r := rootOf(e, depth, seen)
				if r.Kind > worst.Kind {
					worst = r
				}
			}
			return worst
		case *ssa.Call:
			// a call result: fresh unless the callee is known to return one of its arguments; treated as
			// fresh (callers that need more use summaries)
			return Root{Kind: Local, Val: x}
		case *ssa.BinOp:
			return Root{Kind: Local, Val: x}
		default:
			if os.Getenv("OGENVERIF_EFFDEBUG") != "" {
				fmt.Fprintf(os.Stderr, "effects: unknown root %T %v in %v\n", v, v, v.Parent())
			}
			return Root{Kind: Unknown, Val: v}
		}
	}
	return Root{Kind: Unknown, Val: v}
}

// Effect is one possible write outside the function's own allocations.
type Effect struct {
	Root  RootKind
	Deep  bool   // Free: through the reference held by the captured variable, not the variable itself
	Index int    // parameter index for Param
	Name  string // global name for Global
	Kind  string // store | mapinsert | ext:<callee> | unknown:<what>
	Via   string // where it happens (function)
	Pos   token.Pos
}

func (e Effect) key() string {
	return fmt.Sprintf("%d/%d/%s/%s/%v", e.Root, e.Index, e.Name, e.Kind, e.Deep)
}

func (e Effect) String() string {
	where := "?"
	switch e.Root {
	case Param:
		where = fmt.Sprintf("param#%d", e.Index)
	case Global:
		where = "global " + e.Name
	case Free:
		where = fmt.Sprintf("captured#%d", e.Index)
	case Unknown:
		where = "unknown memory"
	}
	return fmt.Sprintf("%s of %s (in %s)", e.Kind, where, e.Via)
}

// Summary of a function.
type Summary struct {
	Effects map[string]Effect
}

// Analysis holds summaries.
type Analysis struct {
	Prog    *core.Prog
	Sum     map[*ssa.Function]*Summary
	benign  func(callee string) bool
	implsOf map[string][]*ssa.Function // method name → module methods
	inScope func(*ssa.Function) bool
	bySig   map[string][]*ssa.Function // address-taken functions by signature
	boundOf map[*ssa.Function]bool     // candidate entered through a bound method value
	// where bound method values of a method are made (x.m as a value): the receiver is Bindings[0]
	boundSites   map[*ssa.Function][]*ssa.MakeClosure
	boundEscapes map[*ssa.Function]bool // the wrapper is referenced other than through a MakeClosure
	scratch map[string]bool            // scratch type (see scratchTypes) → verified call-local
}

func sigKey(sig *types.Signature) string {
	var sb strings.Builder
	sb.WriteString("func(")
	for i := 0; i < sig.Params().Len(); i++ {
		sb.WriteString(types.TypeString(sig.Params().At(i).Type(), nil))
		sb.WriteByte(',')
	}
	if sig.Variadic() {
		sb.WriteString("...")
	}
	sb.WriteString(")(")
	for i := 0; i < sig.Results().Len(); i++ {
		sb.WriteString(types.TypeString(sig.Results().At(i).Type(), nil))
		sb.WriteByte(',')
	}
	sb.WriteByte(')')
	return sb.String()
}

// benignExternal lists external callees that are treated as having no
// relevant effect (logging, error construction, pure helpers).
func benignExternal(name string) bool {
	for _, p := range []string{
		"go.uber.org/zap", "(*go.uber.org/zap", "(go.uber.org/zap",
		"github.com/go-faster/errors.", "errors.", "fmt.Sprint", "fmt.Errorf", "fmt.Sprintf",
		"strings.", "strconv.", "unicode", "utf8.", "unicode/utf8.", "path.", "path/filepath.", "net/url.", "(*net/url.URL).", "mime.",
		"slices.Contains", "slices.Index", "slices.Clone", "slices.Equal", "slices.Max", "slices.Min", "slices.BinarySearch", "slices.ContainsFunc", "slices.IndexFunc",
		"maps.Keys", "maps.Values", "maps.Clone", "golang.org/x/exp/maps.Keys", "golang.org/x/exp/maps.Values", "golang.org/x/exp/maps.Clone",
		"reflect.DeepEqual", "reflect.TypeOf", "reflect.ValueOf", "math.", "math/big.", "(*math/big.", "time.", "(time.", "bytes.Equal", "bytes.Contains", "bytes.Index",
		"(*strings.Builder).String", "(*strings.Builder).Len", "(*bytes.Buffer).String", "(*bytes.Buffer).Len", "(*bytes.Buffer).Bytes",
		"(github.com/go-faster/jx.", "github.com/go-faster/jx.", "(*github.com/go-faster/jx.Decoder)", "(github.com/go-faster/yaml.", "(*github.com/go-faster/yaml.Node).",
		"(*regexp.Regexp).", "regexp.", "(*strings.Replacer).", "context.", "sync.", "(*sync.", "go/token.", "(net/http.Header).Get", "net/http.StatusText", "net/http.CanonicalHeaderKey",
		"golang.org/x/text", "encoding/json.Marshal", "encoding/json.Valid", "(encoding/json.", "github.com/go-faster/yaml.Marshal",
		"runtime.", "os.Getenv", "unsafe.", "(*golang.org/x/sync/errgroup.Group).SetLimit", "runtime/pprof.Labels",
	} {
		if strings.HasPrefix(name, p) {
			return true
		}
	}
	return false
}

// Analyze computes summaries for every function for which inScope is true.
func Analyze(prog *core.Prog, inScope func(*ssa.Function) bool) *Analysis {
	a := &Analysis{Prog: prog, Sum: map[*ssa.Function]*Summary{}, benign: benignExternal, implsOf: map[string][]*ssa.Function{}, inScope: inScope}
	var fns []*ssa.Function
	seen := map[*ssa.Function]bool{}
	var add func(f *ssa.Function)
	add = func(f *ssa.Function) {
		if f == nil || seen[f] || f.Blocks == nil {
			return
		}
		seen[f] = true
		fns = append(fns, f)
		for _, an := range f.AnonFuncs {
			add(an)
		}
	}
	for _, p := range prog.SSA.AllPackages() {
		for _, f := range core.PkgFuncs(prog.SSA, p) {
			if inScope(f) {
				add(f)
			}
		}
	}
	// generic instantiations reachable from scope
	for i := 0; i < len(fns); i++ {
		for _, b := range fns[i].Blocks {
			for _, in := range b.Instrs {
				if call, ok := in.(ssa.CallInstruction); ok {
					if cal := call.Common().StaticCallee(); cal != nil && !seen[cal] && cal.Blocks != nil && core.InModule(cal) {
						add(cal)
					}
				}
			}
		}
	}
	a.bySig = map[string][]*ssa.Function{}
	a.boundOf = map[*ssa.Function]bool{}
	a.boundSites = map[*ssa.Function][]*ssa.MakeClosure{}
	a.boundEscapes = map[*ssa.Function]bool{}
	for _, f := range fns {
		for _, b := range f.Blocks {
			for _, in := range b.Instrs {
				var ops []*ssa.Value
				for _, op := range in.Operands(ops) {
					var g *ssa.Function
					switch x := (*op).(type) {
					case *ssa.Function:
						g = x
					case *ssa.MakeClosure:
						g, _ = x.Fn.(*ssa.Function)
					}
					if g == nil {
						continue
					}
					// a bound method value p.parseX: the candidate is the method itself, keyed by the signature of the
					// bound value (receiver dropped)
					if strings.HasSuffix(g.Name(), "$bound") {
						if obj, ok := g.Object().(*types.Func); ok {
							if m := prog.SSA.FuncValue(obj); m != nil {
								k := sigKey(g.Signature)
								dup := false
								for _, h := range a.bySig[k] {
									if h == m {
										dup = true
									}
								}
								if !dup {
									a.bySig[k] = append(a.bySig[k], m)
									a.boundOf[m] = true
								}
								// where the bound method value is made: the MakeClosure itself (operand Fn) or a use of
								// its value as an operand of another instruction
								var mc *ssa.MakeClosure
								if x, ok := (*op).(*ssa.MakeClosure); ok {
									mc = x
								} else if x, ok := in.(*ssa.MakeClosure); ok {
									mc = x
								}
								if mc != nil && len(mc.Bindings) > 0 {
									known := false
									for _, o := range a.boundSites[m] {
										if o == mc {
											known = true
										}
									}
									if !known {
										a.boundSites[m] = append(a.boundSites[m], mc)
									}
								} else {
									a.boundEscapes[m] = true
								}
							}
						}
						continue
					}
					// not in callee position
					if call, ok := in.(ssa.CallInstruction); ok && call.Common().Value == *op {
						continue
					}
					k := sigKey(g.Signature)
					dup := false
					for _, h := range a.bySig[k] {
						if h == g {
							dup = true
						}
					}
					if !dup {
						a.bySig[k] = append(a.bySig[k], g)
					}
				}
			}
		}
	}
	for _, f := range fns {
		a.Sum[f] = &Summary{Effects: map[string]Effect{}}
		if f.Signature.Recv() != nil && f.Parent() == nil {
			a.implsOf[f.Name()] = append(a.implsOf[f.Name()], f)
		}
	}
	sort.Slice(fns, func(i, j int) bool { return fns[i].String() < fns[j].String() })
	for changed, iter := true, 0; changed && iter < 30; iter++ {
		changed = false
		for _, f := range fns {
			if a.step(f) {
				changed = true
			}
		}
	}
	if pat := os.Getenv("OGENVERIF_EFFDUMP"); pat != "" {
		for _, f := range fns {
			if !strings.Contains(core.FuncName(f), pat) {
				continue
			}
			var keys []string
			for k := range a.Sum[f].Effects {
				keys = append(keys, k)
			}
			sort.Strings(keys)
			for _, k := range keys {
				e := a.Sum[f].Effects[k]
				fmt.Fprintf(os.Stderr, "EFFDUMP %s: %s at %v\n", core.FuncName(f), e.String(), prog.SSA.Fset.Position(e.Pos))
			}
		}
	}
	return a
}

func (a *Analysis) addEffect(f *ssa.Function, e Effect) bool {
	s := a.Sum[f]
	k := e.key()
	if _, ok := s.Effects[k]; ok {
		return false
	}
	s.Effects[k] = e
	return true
}

// mapRoot translates a root seen inside f into an effect of f.
func (a *Analysis) effectFor(f *ssa.Function, r Root, kind string, pos token.Pos) (Effect, bool) {
	via := core.FuncName(f)
	switch r.Kind {
	case Local:
		return Effect{}, false
	case Param:
		return Effect{Root: Param, Index: r.Index, Kind: kind, Via: via, Pos: pos}, true
	case Global:
		name := ""
		if g, ok := r.Val.(*ssa.Global); ok {
			name = g.Pkg.Pkg.Name() + "." + g.Name()
		}
		return Effect{Root: Global, Name: name, Kind: kind, Via: via, Pos: pos}, true
	case Free:
		return Effect{Root: Free, Index: r.Index, Kind: kind, Via: via, Pos: pos, Deep: r.Deep}, true
	}
	if os.Getenv("OGENVERIF_EFFDEBUG") != "" {
		fmt.Fprintf(os.Stderr, "effects: unknown-root effect %s in %s at %v: root kind=%d deep=%v val %T %v\n", kind, via, f.Prog.Fset.Position(pos), r.Kind, r.Deep, r.Val, r.Val)
	}
	return Effect{Root: Unknown, Kind: kind, Via: via, Pos: pos}, true
}

// CalleeEffects returns the effects of a call instruction expressed on the
// caller's values: each effect is paired with the caller-side value it
// applies to (nil for global / unknown).
type CallEffect struct {
	Effect Effect
	On     ssa.Value
}

// OnRoot is the caller-side root the effect applies to: for an effect through
// the reference held by a captured variable it is the root of what the bound
// cell refers to.
func (ce CallEffect) OnRoot() Root {
	if ce.Effect.Root == Free && ce.Effect.Deep {
		return CellContentRoot(ce.On)
	}
	return RootOf(ce.On)
}

func (a *Analysis) CalleeEffects(call ssa.CallInstruction) []CallEffect {
	cc := call.Common()
	var out []CallEffect
	args := cc.Args
	apply := func(g *ssa.Function, actuals []ssa.Value, bindings []ssa.Value) {
		s := a.Sum[g]
		if s == nil {
			return
		}
		var keys []string
		for k := range s.Effects {
			keys = append(keys, k)
		}
		sort.Strings(keys)
		for _, k := range keys {
			e := s.Effects[k]
			switch e.Root {
			case Param:
				if e.Index < len(actuals) {
					out = append(out, CallEffect{e, actuals[e.Index]})
				} else {
					out = append(out, CallEffect{e, nil})
				}
			case Free:
				if e.Index < len(bindings) {
					out = append(out, CallEffect{e, bindings[e.Index]})
				} else {
					out = append(out, CallEffect{Effect{Root: Unknown, Kind: e.Kind, Via: e.Via, Pos: e.Pos}, nil})
				}
			default:
				out = append(out, CallEffect{e, nil})
			}
		}
	}
	if cc.IsInvoke() {
		// CHA inside the module: every module method with this name and a receiver implementing the interface
		found := false
		iface, _ := cc.Value.Type().Underlying().(*types.Interface)
		for _, m := range a.implsOf[cc.Method.Name()] {
			if iface != nil {
				rt := m.Signature.Recv().Type()
				if !types.Implements(rt, iface) && !types.Implements(types.NewPointer(rt), iface) {
					continue
				}
			}
			found = true
			apply(m, append([]ssa.Value{cc.Value}, args...), nil)
		}
		if !found {
			name := core.CalleeName(cc)
			if !a.benign("("+types.TypeString(cc.Value.Type(), nil)+")."+cc.Method.Name()) && !benignIface(cc) {
				out = append(out, CallEffect{Effect{Root: Unknown, Kind: "unknown:" + name, Via: core.FuncName(call.Parent()), Pos: call.Pos()}, nil})
			}
		}
		return out
	}
	if g := cc.StaticCallee(); g != nil {
		if n := core.FuncName(g); strings.HasPrefix(n, "(ogen/jsonschema.externalResolver).") || strings.HasPrefix(n, "(ogen/jsonschema.NoExternal).") {
			return nil // fetching of remote documents: results are cached by location; fetch order is not output
		}
		if n := core.FuncName(g); strings.HasPrefix(n, "(*ogen/location.MultiError).Report") {
			return nil // diagnostics collection: report order is not generation output
		}
		if _, ok := a.Sum[g]; ok {
			var bindings []ssa.Value
			if mc, ok := cc.Value.(*ssa.MakeClosure); ok {
				bindings = mc.Bindings
			}
			apply(g, args, bindings)
			return out
		}
		name := core.CalleeName(cc)
		if a.benign(name) {
			return nil
		}
		// library methods that insert into / delete from the map they are called on
		switch name {
		case "(net/http.Header).Set", "(net/http.Header).Add", "(net/http.Header).Del",
			"(net/textproto.MIMEHeader).Set", "(net/textproto.MIMEHeader).Add", "(net/textproto.MIMEHeader).Del",
			"(net/url.Values).Set", "(net/url.Values).Add", "(net/url.Values).Del":
			if len(args) > 0 {
				out = append(out, CallEffect{Effect{Root: Unknown, Kind: "mapinsert", Via: core.FuncName(call.Parent()), Pos: call.Pos()}, args[0]})
			}
			return out
		}
		// external function: may write through its reference arguments
		for _, arg := range args {
			if isRefType(arg.Type()) {
				out = append(out, CallEffect{Effect{Root: Unknown, Kind: "ext:" + name, Via: core.FuncName(call.Parent()), Pos: call.Pos()}, arg})
			}
		}
		return out
	}
	if _, isB := cc.Value.(*ssa.Builtin); isB {
		b := cc.Value.(*ssa.Builtin)
		switch b.Name() {
		case "copy":
			out = append(out, CallEffect{Effect{Root: Unknown, Kind: "store", Via: core.FuncName(call.Parent()), Pos: call.Pos()}, args[0]})
		case "delete":
			out = append(out, CallEffect{Effect{Root: Unknown, Kind: "mapinsert", Via: core.FuncName(call.Parent()), Pos: call.Pos()}, args[0]})
		case "append":
			// append writes into the spare capacity of its first argument's backing array (unless the capacity
			// was clipped with a full slice expression)
			if len(args) == 2 {
				if sl, ok := args[0].(*ssa.Slice); ok && sl.Max != nil {
					break
				}
				if c, ok := args[0].(*ssa.Const); ok && c.IsNil() {
					break
				}
				out = append(out, CallEffect{Effect{Root: Unknown, Kind: "append", Via: core.FuncName(call.Parent()), Pos: call.Pos()}, args[0]})
			}
		}
		return out
	}
	// dynamic call through a function value: closure created locally?
	if mc, ok := cc.Value.(*ssa.MakeClosure); ok {
		if g, ok := mc.Fn.(*ssa.Function); ok {
			apply(g, args, mc.Bindings)
			return out
		}
	}
	// a local variable holding a closure (f := func…; f()) — resolve through the single store
	if g, bindings := resolveFuncValue(cc.Value); g != nil {
		if _, ok := a.Sum[g]; ok {
			apply(g, args, bindings)
			return out
		}
	}
	// a phi / bound method value of external benign functions (parser := r.root.Parse; parser(ref))
	if allBenignFuncValues(cc.Value, a.benign, 0) {
		return out
	}
	// class-hierarchy resolution of function values: every address-taken function of the analysed packages
	// with the same signature may be the callee
	if sig, ok := cc.Value.Type().Underlying().(*types.Signature); ok {
		cands := a.bySig[sigKey(sig)]
		if len(cands) > 0 {
			for _, g := range cands {
				if _, ok := a.Sum[g]; !ok {
					continue
				}
				var bindings []ssa.Value
				// bindings of a closure are unknown at this call site: effects on captured variables are reported
				// as effects on unknown memory unless the closure was created in this very function
				s := a.Sum[g]
				var keys []string
				for k := range s.Effects {
					keys = append(keys, k)
				}
				sort.Strings(keys)
				shift := 0
				if a.boundOf[g] {
					shift = 1 // candidate is the method behind a bound-method value: param#0 is the bound receiver
				}
				for _, k := range keys {
					e := s.Effects[k]
					switch e.Root {
					case Param:
						if e.Index-shift >= 0 && e.Index-shift < len(args) {
							out = append(out, CallEffect{e, args[e.Index-shift]})
						} else if a.boundRecvIsCreatorLocal(g) {
							// every bound method value of g was made over a receiver that is a local of the function that
							// made it (c := newCollector(); walk(ops, c.visit)): the write is private to that activation
							continue
						} else {
							out = append(out, CallEffect{Effect{Root: Unknown, Kind: e.Kind, Via: e.Via + " (bound receiver of a callback)", Pos: e.Pos}, nil})
						}
					case Free:
						_ = bindings
						// where was the callback created? a captured variable that is a local of the creating
						// function is private to that function's activation
						if a.freeIsCreatorLocal(g, e.Index, e.Deep) {
							continue
						}
						out = append(out, CallEffect{Effect{Root: Unknown, Kind: e.Kind, Via: e.Via + " (captured variable of a callback)", Pos: e.Pos}, nil})
					default:
						out = append(out, CallEffect{e, nil})
					}
				}
			}
			return out
		}
	}
	out = append(out, CallEffect{Effect{Root: Unknown, Kind: "unknown:dynamic call", Via: core.FuncName(call.Parent()), Pos: call.Pos()}, nil})
	return out
}

func allBenignFuncValues(v ssa.Value, benign func(string) bool, depth int) bool {
	if depth > 4 {
		return false
	}
	switch x := v.(type) {
	case *ssa.MakeClosure:
		f, ok := x.Fn.(*ssa.Function)
		if !ok {
			return false
		}
		name := strings.TrimSuffix(core.FuncName(f), "$bound")
		return strings.HasSuffix(f.Name(), "$bound") && benign(name)
	case *ssa.Function:
		return benign(core.FuncName(x))
	case *ssa.Phi:
		for _, e := range x.Edges {
			if !allBenignFuncValues(e, benign, depth+1) {
				return false
			}
		}
		return len(x.Edges) > 0
	}
	return false
}

func benignIface(cc *ssa.CallCommon) bool {
	switch cc.Method.Name() {
	case "Error", "String", "Unwrap", "Is", "As", "Len", "Less", "Close", "Read", "Get", "Do", "RoundTrip":
		// diagnostics, ordering predicates, and I/O of remote reference fetching (results are cached by URL;
		// the order of fetches is not generation output)
		return true
	}
	return false
}

func resolveFuncValue(v ssa.Value) (*ssa.Function, []ssa.Value) {
	switch x := v.(type) {
	case *ssa.Function:
		return x, nil
	case *ssa.MakeClosure:
		if f, ok := x.Fn.(*ssa.Function); ok {
			return f, x.Bindings
		}
	case *ssa.UnOp:
		if x.Op == token.MUL {
			if al, ok := x.X.(*ssa.Alloc); ok {
				var val ssa.Value
				n := 0
				for _, ref := range *al.Referrers() {
					if st, ok := ref.(*ssa.Store); ok && st.Addr == ssa.Value(al) {
						val = st.Val
						n++
					}
				}
				if n == 1 {
					return resolveFuncValue(val)
				}
			}
		}
	case *ssa.Phi:
	}
	return nil, nil
}

func isRefType(t types.Type) bool {
	switch t.Underlying().(type) {
	case *types.Pointer, *types.Slice, *types.Map, *types.Interface, *types.Chan, *types.Signature:
		return true
	}
	return false
}

// balancedPairs: a push onto dynamically scoped state whose pop is deferred
// in the same function leaves that state as it found it when the function
// returns; neither call is an effect of the function. Reviewed: both pairs are
// "currently being visited" sets used for cycle detection.
var balancedPairs = map[string]string{
	"(*ogen/jsonpointer.ResolveCtx).AddKey": "(*ogen/jsonpointer.ResolveCtx).Delete", // resolve stack: pushed after the lookup, popped by defer in both resolvers
	"(*ogen/gen/ir.walkpath).add":           "(*ogen/gen/ir.walkpath).delete",        // recursion walk path: `path.add(t); defer path.delete(t)`
}

// scratchTypes: struct types that only ever live for the duration of one call tree — allocated by a function as a
// local, handed down as a receiver / argument / closure capture, never stored into anything that outlives the call and
// never returned. Writes through their methods are bookkeeping of that call tree, not effects of the functions that
// make them. The property is not taken on trust: verifyScratch checks it on the loaded program, and when it does not
// hold the methods are analysed like any other call.
var scratchTypes = map[string]string{
	"ogen/gen/ir.walkpath": "visited / current-path / done sets of one NeedValidation or RecursiveTo walk (`&walkpath{}` in the exported entry point)",
}

func scratchTypeOf(t types.Type) string {
	if p, ok := t.Underlying().(*types.Pointer); ok {
		t = p.Elem()
	}
	n, ok := types.Unalias(t).(*types.Named)
	if !ok || n.Obj().Pkg() == nil {
		return ""
	}
	if !core.InModulePath(n.Obj().Pkg().Path()) {
		return ""
	}
	name := "ogen" + strings.TrimPrefix(n.Obj().Pkg().Path(), core.Module) + "." + n.Obj().Name()
	if _, ok := scratchTypes[name]; ok {
		return name
	}
	return ""
}

// verifyScratch: no value of pointer-to-scratch type is stored into non-local memory, put into an interface, a map, a
// slice or a channel, or returned, anywhere in the program.
func (a *Analysis) verifyScratch() {
	a.scratch = map[string]bool{}
	for name := range scratchTypes {
		a.scratch[name] = true
	}
	for fn := range ssautilAll(a.Prog) {
		for _, b := range fn.Blocks {
			for _, in := range b.Instrs {
				escape := func(v ssa.Value) {
					if v == nil {
						return
					}
					if name := scratchTypeOf(v.Type()); name != "" {
						if _, isPtr := v.Type().Underlying().(*types.Pointer); isPtr {
							a.scratch[name] = false
						}
					}
				}
				switch x := in.(type) {
				case *ssa.Store:
					if _, local := x.Addr.(*ssa.Alloc); !local {
						escape(x.Val)
					}
				case *ssa.Return:
					for _, r := range x.Results {
						escape(r)
					}
				case *ssa.MakeInterface:
					escape(x.X)
				case *ssa.MapUpdate:
					escape(x.Key)
					escape(x.Value)
				case *ssa.Send:
					escape(x.X)
				case *ssa.Go:
					for _, arg := range x.Common().Args {
						escape(arg)
					}
				}
			}
		}
	}
}

func ssautilAll(prog *core.Prog) map[*ssa.Function]bool {
	out := map[*ssa.Function]bool{}
	var add func(f *ssa.Function)
	add = func(f *ssa.Function) {
		if f == nil || out[f] || f.Blocks == nil {
			return
		}
		out[f] = true
		for _, an := range f.AnonFuncs {
			add(an)
		}
	}
	for _, p := range prog.SSA.AllPackages() {
		if p.Pkg == nil || !core.InModulePath(p.Pkg.Path()) {
			continue
		}
		for _, f := range core.PkgFuncs(prog.SSA, p) {
			add(f)
		}
	}
	return out
}

// scratchMethod: the call is a method call on a verified scratch object.
func (a *Analysis) scratchMethod(call ssa.CallInstruction) bool {
	g := call.Common().StaticCallee()
	if g == nil || g.Signature.Recv() == nil {
		return false
	}
	name := scratchTypeOf(g.Signature.Recv().Type())
	if name == "" {
		return false
	}
	if a.scratch == nil {
		a.verifyScratch()
	}
	return a.scratch[name]
}

func callsNamed(f *ssa.Function, name string, deferredOnly bool) bool {
	for _, b := range f.Blocks {
		for _, in := range b.Instrs {
			call, ok := in.(ssa.CallInstruction)
			if !ok {
				continue
			}
			_, isDefer := in.(*ssa.Defer)
			if g := call.Common().StaticCallee(); g != nil {
				if core.FuncName(g) == name && (isDefer || !deferredOnly) {
					return true
				}
				// defer func() { x.pop() }()
				if isDefer && g.Parent() == f && callsNamed(g, name, false) {
					return true
				}
			}
		}
	}
	return false
}

// balanced reports whether the call is one half of a push / deferred-pop pair within f.
func balanced(f *ssa.Function, call ssa.CallInstruction) bool {
	g := call.Common().StaticCallee()
	if g == nil {
		return false
	}
	name := core.FuncName(g)
	if pop, ok := balancedPairs[name]; ok {
		return callsNamed(f, pop, true)
	}
	for push, pop := range balancedPairs {
		if name != pop {
			continue
		}
		if _, isDefer := call.(*ssa.Defer); isDefer {
			return callsNamed(f, push, false)
		}
		// inside a closure the parent defers
		if p := f.Parent(); p != nil {
			for _, b := range p.Blocks {
				for _, in := range b.Instrs {
					if d, ok := in.(*ssa.Defer); ok && d.Common().StaticCallee() == f {
						return callsNamed(p, push, false)
					}
				}
			}
		}
	}
	return false
}

func (a *Analysis) step(f *ssa.Function) bool {
	changed := false
	for _, b := range f.Blocks {
		for _, in := range b.Instrs {
			if call, ok := in.(ssa.CallInstruction); ok && (balanced(f, call) || a.scratchMethod(call)) {
				continue
			}
			switch x := in.(type) {
			case *ssa.Store:
				if e, ok := a.effectFor(f, RootOf(x.Addr), "store", x.Pos()); ok {
					if a.addEffect(f, e) {
						changed = true
					}
				}
			case *ssa.MapUpdate:
				if e, ok := a.effectFor(f, RootOf(x.Map), "mapinsert", x.Pos()); ok {
					if a.addEffect(f, e) {
						changed = true
					}
				}
			case *ssa.Send:
				if a.addEffect(f, Effect{Root: Unknown, Kind: "unknown:channel send", Via: core.FuncName(f), Pos: x.Pos()}) {
					changed = true
				}
			case ssa.CallInstruction:
				for _, ce := range a.CalleeEffects(x) {
					var e Effect
					ok := true
					if ce.On != nil {
						e, ok = a.effectFor(f, ce.OnRoot(), ce.Effect.Kind, x.Pos())
						e.Via = ce.Effect.Via
					} else {
						e = ce.Effect
					}
					if ok && a.addEffect(f, e) {
						changed = true
					}
				}
			}
		}
	}
	return changed
}

// freeIsCreatorLocal: at every MakeClosure site of g the idx-th binding is
// rooted in a local allocation of the creating function.
// boundRecvIsCreatorLocal: all bound method values of g seen in the analysed packages bind a receiver whose root is a
// local of the function that makes the value (same argument as freeIsCreatorLocal for captured variables).
func (a *Analysis) boundRecvIsCreatorLocal(g *ssa.Function) bool {
	if a.boundEscapes[g] || len(a.boundSites[g]) == 0 {
		return false
	}
	for _, mc := range a.boundSites[g] {
		if RootOf(mc.Bindings[0]).Kind != Local {
			return false
		}
	}
	return true
}

func (a *Analysis) freeIsCreatorLocal(g *ssa.Function, idx int, deep bool) bool {
	p := g.Parent()
	if p == nil {
		return false
	}
	n := 0
	for _, b := range p.Blocks {
		for _, in := range b.Instrs {
			mc, ok := in.(*ssa.MakeClosure)
			if !ok || mc.Fn != g || idx >= len(mc.Bindings) {
				continue
			}
			n++
			r := RootOf(mc.Bindings[idx])
			if deep {
				r = CellContentRoot(mc.Bindings[idx])
			}
			if r.Kind != Local {
				return false
			}
		}
	}
	return n > 0
}
