// Package peval implements engine E4: finite-configuration constant
// propagation. Selected struct fields (style, explode, typ, …) are bound to
// each value of their finite domains and the function's syntax tree is
// partially evaluated: branches with constant conditions are pruned, local
// variables, constant struct and map literals are tracked, same-package
// callees are entered with their arguments. The result per configuration is
// the list of reachable *sink calls* with their constant arguments, the
// reachable panics, and the abstract return values. Loops are not summarised:
// variables assigned in a loop are unknown inside and after it, but sink
// constants in executable loop bodies are still collected. Nothing of the
// subject program is executed; this is the abstract interpretation a compiler
// performs for conditional constant propagation, on the typed AST.
package peval

import (
	"fmt"
	"go/ast"
	"go/constant"
	"go/token"
	"go/types"
	"strings"
	"unicode/utf8"

	"golang.org/x/tools/go/packages"
	"golang.org/x/tools/go/types/typeutil"
)

// Kind of an abstract value.
type Kind int

const (
	Unknown Kind = iota
	Const
	Nil
	NonNil
	Struct
	Map
)

// Val is an abstract value.
type Val struct {
	Kind   Kind
	K      constant.Value
	Fields map[string]Val // Struct
	Keys   []Val          // Map
	Vals   []Val          // Map
}

func K(v constant.Value) Val { return Val{Kind: Const, K: v} }

var unknown = Val{}

func (v Val) String() string {
	switch v.Kind {
	case Const:
		if v.K.Kind() == constant.Int {
			if n, ok := constant.Int64Val(v.K); ok && n >= 32 && n < 127 {
				return fmt.Sprintf("%q", rune(n))
			}
		}
		return v.K.ExactString()
	case Nil:
		return "nil"
	case NonNil:
		return "non-nil"
	case Struct:
		var parts []string
		for k, f := range v.Fields {
			parts = append(parts, k+":"+f.String())
		}
		return "{" + strings.Join(parts, ",") + "}"
	case Map:
		return fmt.Sprintf("map[%d]", len(v.Keys))
	}
	return "_"
}

func equalVal(a, b Val) (eq, known bool) {
	switch {
	case a.Kind == Const && b.Kind == Const:
		if a.K.Kind() != b.K.Kind() {
			return false, true
		}
		return constant.Compare(a.K, token.EQL, b.K), true
	case a.Kind == Nil && b.Kind == Nil:
		return true, true
	case (a.Kind == Nil && (b.Kind == NonNil || b.Kind == Struct || b.Kind == Map)) || (b.Kind == Nil && (a.Kind == NonNil || a.Kind == Struct || a.Kind == Map)):
		return false, true
	case a.Kind == Struct && b.Kind == Struct:
		if len(a.Fields) != len(b.Fields) {
			return false, false
		}
		all := true
		for k, fa := range a.Fields {
			fb, ok := b.Fields[k]
			if !ok {
				return false, false
			}
			eq, known := equalVal(fa, fb)
			if !known {
				return false, false
			}
			if !eq {
				all = false
			}
		}
		return all, true
	}
	return false, false
}

func sameVal(a, b Val) bool {
	if a.Kind != b.Kind {
		return false
	}
	switch a.Kind {
	case Unknown:
		return true
	case Nil, NonNil:
		return true
	}
	eq, known := equalVal(a, b)
	return eq && known
}

// Sink is one reachable call with constant arguments (or a string
// concatenation with a constant operand, or a panic).
type Sink struct {
	Kind   string // call | concat | panic
	In     string // enclosing function
	Callee string
	Args   []Val
	ArgSrc []string // source text of each argument
	Pos    token.Pos
}

func (s Sink) String() string {
	var as []string
	for _, a := range s.Args {
		as = append(as, a.String())
	}
	return fmt.Sprintf("%s %s(%s) in %s", s.Kind, s.Callee, strings.Join(as, ","), s.In)
}

// Result of evaluating one entry function under one binding.
type Result struct {
	Sinks     []Sink
	Panics    []Sink
	Returns   [][]Val
	Imprecise []string
}

// Eval is configured per package.
type Eval struct {
	Pkg   *packages.Package
	Info  *types.Info
	Decls map[*types.Func]*ast.FuncDecl
	// Bind maps a struct field name to the value it is assumed to hold.
	Bind map[string]Val
	// Extra packages whose functions may be entered.
	res   *Result
	stack []*types.Func
	curFn string
	// Entered accumulates every function whose body was evaluated (across runs).
	Entered map[*types.Func]bool
}

// New prepares an evaluator for the given packages (functions of all of them
// can be entered).
func New(pkgs ...*packages.Package) *Eval {
	e := &Eval{Pkg: pkgs[0], Decls: map[*types.Func]*ast.FuncDecl{}}
	info := &types.Info{
		Types: map[ast.Expr]types.TypeAndValue{}, Defs: map[*ast.Ident]types.Object{}, Uses: map[*ast.Ident]types.Object{},
		Selections: map[*ast.SelectorExpr]*types.Selection{}, Implicits: map[ast.Node]types.Object{},
	}
	for _, p := range pkgs {
		for k, v := range p.TypesInfo.Types {
			info.Types[k] = v
		}
		for k, v := range p.TypesInfo.Defs {
			info.Defs[k] = v
		}
		for k, v := range p.TypesInfo.Uses {
			info.Uses[k] = v
		}
		for k, v := range p.TypesInfo.Selections {
			info.Selections[k] = v
		}
		for _, f := range p.Syntax {
			for _, d := range f.Decls {
				if fd, ok := d.(*ast.FuncDecl); ok && fd.Body != nil {
					if fn, ok := p.TypesInfo.Defs[fd.Name].(*types.Func); ok {
						e.Decls[fn] = fd
					}
				}
			}
		}
	}
	e.Info = info
	return e
}

// FindFunc finds a function or method ("T.M") declaration by name.
func (e *Eval) FindFunc(pkgPath, name string) (*types.Func, *ast.FuncDecl) {
	for fn, fd := range e.Decls {
		if fn.Pkg() == nil || fn.Pkg().Path() != pkgPath {
			continue
		}
		n := fn.Name()
		if sig := fn.Type().(*types.Signature); sig.Recv() != nil {
			t := sig.Recv().Type()
			if p, ok := t.(*types.Pointer); ok {
				t = p.Elem()
			}
			if nt, ok := t.(*types.Named); ok {
				n = nt.Obj().Name() + "." + n
			}
		}
		if n == name {
			return fn, fd
		}
	}
	return nil, nil
}

type env struct {
	vars map[types.Object]Val
	dead bool // returned or panicked
	brk  bool
	cont bool
}

func (v *env) clone() *env {
	n := &env{vars: make(map[types.Object]Val, len(v.vars)), dead: v.dead, brk: v.brk, cont: v.cont}
	for k, x := range v.vars {
		n.vars[k] = x
	}
	return n
}

func (v *env) stopped() bool { return v.dead || v.brk || v.cont }

func join(a, b *env) *env {
	n := &env{vars: map[types.Object]Val{}}
	for k, x := range a.vars {
		if y, ok := b.vars[k]; ok && sameVal(x, y) {
			n.vars[k] = x
		} else {
			n.vars[k] = unknown
		}
	}
	for k := range b.vars {
		if _, ok := a.vars[k]; !ok {
			n.vars[k] = unknown
		}
	}
	return n
}

// Run evaluates fd with the given argument values (receiver first for
// methods; missing ones are unknown).
func (e *Eval) Run(fn *types.Func, args []Val) *Result {
	e.res = &Result{}
	e.stack = nil
	e.call(fn, args)
	return e.res
}

func (e *Eval) call(fn *types.Func, args []Val) []Val {
	fd := e.Decls[fn]
	if fd == nil {
		return nil
	}
	for _, s := range e.stack {
		if s == fn {
			return nil // recursion: give up on the value, sinks were collected by the outer activation
		}
	}
	if len(e.stack) > 8 {
		e.res.Imprecise = append(e.res.Imprecise, "call depth limit at "+fn.Name())
		return nil
	}
	e.stack = append(e.stack, fn)
	if e.Entered == nil {
		e.Entered = map[*types.Func]bool{}
	}
	e.Entered[fn] = true
	saved := e.curFn
	e.curFn = funcDisplayName(fn)
	v := &env{vars: map[types.Object]Val{}}
	i := 0
	if fd.Recv != nil {
		for _, f := range fd.Recv.List {
			for _, n := range f.Names {
				if i < len(args) {
					v.vars[e.Info.Defs[n]] = args[i]
				}
			}
		}
		i = 1
	}
	for _, f := range fd.Type.Params.List {
		for _, n := range f.Names {
			if i < len(args) {
				v.vars[e.Info.Defs[n]] = args[i]
			}
			i++
		}
	}
	nBefore := len(e.res.Returns)
	e.block(fd.Body.List, v)
	rets := e.res.Returns[nBefore:]
	var out []Val
	for ri, r := range rets {
		if ri == 0 {
			out = append([]Val{}, r...)
			continue
		}
		for j := range out {
			if j >= len(r) || !sameVal(out[j], r[j]) {
				out[j] = unknown
			}
		}
	}
	if len(e.stack) > 1 {
		e.res.Returns = e.res.Returns[:nBefore] // only the entry function's returns are reported
	}
	e.stack = e.stack[:len(e.stack)-1]
	e.curFn = saved
	return out
}

func funcDisplayName(fn *types.Func) string {
	n := fn.Name()
	if sig := fn.Type().(*types.Signature); sig.Recv() != nil {
		t := sig.Recv().Type()
		if p, ok := t.(*types.Pointer); ok {
			t = p.Elem()
		}
		if nt, ok := t.(*types.Named); ok {
			n = nt.Obj().Name() + "." + n
		}
	}
	return n
}

func (e *Eval) block(list []ast.Stmt, v *env) {
	for _, s := range list {
		if v.stopped() {
			return
		}
		e.stmt(s, v)
	}
}

func assignedIn(info *types.Info, n ast.Node) map[types.Object]bool {
	out := map[types.Object]bool{}
	ast.Inspect(n, func(m ast.Node) bool {
		switch s := m.(type) {
		case *ast.AssignStmt:
			for _, l := range s.Lhs {
				if id, ok := l.(*ast.Ident); ok {
					if o := info.Uses[id]; o != nil {
						out[o] = true
					}
					if o := info.Defs[id]; o != nil {
						out[o] = true
					}
				}
			}
		case *ast.IncDecStmt:
			if id, ok := s.X.(*ast.Ident); ok {
				if o := info.Uses[id]; o != nil {
					out[o] = true
				}
			}
		case *ast.RangeStmt:
			for _, x := range []ast.Expr{s.Key, s.Value} {
				if id, ok := x.(*ast.Ident); ok {
					if o := info.Defs[id]; o != nil {
						out[o] = true
					}
					if o := info.Uses[id]; o != nil {
						out[o] = true
					}
				}
			}
		}
		return true
	})
	return out
}

func (e *Eval) assign(lhs ast.Expr, val Val, v *env) {
	if id, ok := lhs.(*ast.Ident); ok {
		if id.Name == "_" {
			return
		}
		if o := e.Info.Defs[id]; o != nil {
			v.vars[o] = val
			return
		}
		if o := e.Info.Uses[id]; o != nil {
			v.vars[o] = val
		}
		return
	}
	// stores to fields / elements are not tracked; evaluate sub-expressions for sinks
	e.expr(lhs, v)
}

func (e *Eval) stmt(s ast.Stmt, v *env) {
	switch s := s.(type) {
	case *ast.ExprStmt:
		if call, ok := s.X.(*ast.CallExpr); ok {
			if id, ok := call.Fun.(*ast.Ident); ok && id.Name == "panic" {
				if _, isB := e.Info.Uses[id].(*types.Builtin); isB {
					var args []Val
					var src []string
					for _, a := range call.Args {
						args = append(args, e.expr(a, v))
						src = append(src, types.ExprString(a))
					}
					e.res.Panics = append(e.res.Panics, Sink{Kind: "panic", In: e.curFn, Callee: "panic", Args: args, ArgSrc: src, Pos: call.Pos()})
					v.dead = true
					return
				}
			}
		}
		e.expr(s.X, v)
	case *ast.AssignStmt:
		switch {
		case len(s.Lhs) == 2 && len(s.Rhs) == 1:
			// comma-ok map lookup or multi-value call
			if ix, ok := ast.Unparen(s.Rhs[0]).(*ast.IndexExpr); ok {
				m := e.expr(ix.X, v)
				k := e.expr(ix.Index, v)
				if m.Kind == Map {
					val, found, known := lookupMap(m, k)
					if known {
						e.assign(s.Lhs[0], val, v)
						e.assign(s.Lhs[1], K(constant.MakeBool(found)), v)
						return
					}
				}
				e.assign(s.Lhs[0], unknown, v)
				e.assign(s.Lhs[1], unknown, v)
				return
			}
			rv := e.exprMulti(s.Rhs[0], v)
			for i, l := range s.Lhs {
				if i < len(rv) {
					e.assign(l, rv[i], v)
				} else {
					e.assign(l, unknown, v)
				}
			}
		case len(s.Lhs) == len(s.Rhs):
			vals := make([]Val, len(s.Rhs))
			for i, r := range s.Rhs {
				vals[i] = e.expr(r, v)
			}
			for i, l := range s.Lhs {
				val := vals[i]
				if s.Tok != token.ASSIGN && s.Tok != token.DEFINE {
					cur := e.expr(l, v)
					op := map[token.Token]token.Token{token.ADD_ASSIGN: token.ADD, token.SUB_ASSIGN: token.SUB, token.OR_ASSIGN: token.OR, token.AND_ASSIGN: token.AND, token.MUL_ASSIGN: token.MUL, token.REM_ASSIGN: token.REM, token.QUO_ASSIGN: token.QUO}[s.Tok]
					val = e.binop(op, cur, val, l, s.Rhs[i], s.Pos())
				}
				e.assign(l, val, v)
			}
		default:
			rv := e.exprMulti(s.Rhs[0], v)
			for i, l := range s.Lhs {
				if i < len(rv) {
					e.assign(l, rv[i], v)
				} else {
					e.assign(l, unknown, v)
				}
			}
		}
	case *ast.DeclStmt:
		gd, ok := s.Decl.(*ast.GenDecl)
		if !ok {
			return
		}
		for _, sp := range gd.Specs {
			vs, ok := sp.(*ast.ValueSpec)
			if !ok {
				continue
			}
			for i, n := range vs.Names {
				val := unknown
				if i < len(vs.Values) {
					val = e.expr(vs.Values[i], v)
				} else if len(vs.Values) == 0 {
					val = zeroVal(e.Info.TypeOf(n))
				}
				if o := e.Info.Defs[n]; o != nil {
					v.vars[o] = val
				}
			}
		}
	case *ast.IncDecStmt:
		e.assign(s.X, unknown, v)
	case *ast.IfStmt:
		if s.Init != nil {
			e.stmt(s.Init, v)
		}
		c := e.expr(s.Cond, v)
		if c.Kind == Const && c.K.Kind() == constant.Bool {
			if constant.BoolVal(c.K) {
				e.block(s.Body.List, v)
			} else if s.Else != nil {
				e.stmt(s.Else, v)
			}
			return
		}
		a := v.clone()
		e.block(s.Body.List, a)
		b := v.clone()
		if s.Else != nil {
			e.stmt(s.Else, b)
		}
		switch {
		case a.stopped() && b.stopped():
			*v = *a
			v.dead = a.dead && b.dead
			v.brk = a.brk || b.brk
			v.cont = a.cont || b.cont
		case a.stopped():
			*v = *b
		case b.stopped():
			*v = *a
		default:
			*v = *join(a, b)
		}
	case *ast.BlockStmt:
		e.block(s.List, v)
	case *ast.SwitchStmt:
		e.switchStmt(s, v)
	case *ast.TypeSwitchStmt:
		// all clauses possible
		var outs []*env
		hasDefault := false
		for _, st := range s.Body.List {
			cc := st.(*ast.CaseClause)
			if cc.List == nil {
				hasDefault = true
			}
			c := v.clone()
			e.block(cc.Body, c)
			c.brk = false
			outs = append(outs, c)
		}
		if !hasDefault {
			outs = append(outs, v.clone())
		}
		e.merge(v, outs)
	case *ast.ForStmt:
		if s.Init != nil {
			e.stmt(s.Init, v)
		}
		for o := range assignedIn(e.Info, s) {
			v.vars[o] = unknown
		}
		if s.Cond != nil {
			c := e.expr(s.Cond, v)
			if c.Kind == Const && c.K.Kind() == constant.Bool && !constant.BoolVal(c.K) {
				return
			}
		}
		b := v.clone()
		e.block(s.Body.List, b)
		if s.Post != nil && !b.dead {
			b.brk, b.cont = false, false
			e.stmt(s.Post, b)
		}
		for o := range assignedIn(e.Info, s) {
			v.vars[o] = unknown
		}
	case *ast.RangeStmt:
		e.expr(s.X, v)
		for o := range assignedIn(e.Info, s) {
			v.vars[o] = unknown
		}
		b := v.clone()
		e.block(s.Body.List, b)
		for o := range assignedIn(e.Info, s) {
			v.vars[o] = unknown
		}
	case *ast.ReturnStmt:
		var vals []Val
		if len(s.Results) == 1 {
			vals = e.exprMulti(s.Results[0], v)
		} else {
			for _, r := range s.Results {
				vals = append(vals, e.expr(r, v))
			}
		}
		e.res.Returns = append(e.res.Returns, vals)
		v.dead = true
	case *ast.BranchStmt:
		switch s.Tok {
		case token.BREAK:
			v.brk = true
		case token.CONTINUE:
			v.cont = true
		case token.GOTO:
			e.res.Imprecise = append(e.res.Imprecise, "goto in "+e.curFn)
		}
	case *ast.LabeledStmt:
		e.stmt(s.Stmt, v)
	case *ast.DeferStmt:
		e.expr(s.Call, v)
	case *ast.GoStmt:
		e.expr(s.Call, v)
	case *ast.SendStmt:
		e.expr(s.Value, v)
	case *ast.SelectStmt:
		for _, st := range s.Body.List {
			cc := st.(*ast.CommClause)
			c := v.clone()
			e.block(cc.Body, c)
		}
	}
}

func (e *Eval) merge(v *env, outs []*env) {
	var acc *env
	allDead, anyCont, anyBrk := true, false, false
	for _, o := range outs {
		if !o.dead {
			allDead = false
		}
		anyCont = anyCont || o.cont
		anyBrk = anyBrk || o.brk
		if o.stopped() {
			continue
		}
		if acc == nil {
			acc = o
			continue
		}
		acc = join(acc, o)
	}
	if acc == nil {
		if len(outs) > 0 {
			*v = *outs[0]
		}
		v.dead = allDead
		v.cont = anyCont && !allDead
		v.brk = anyBrk && !allDead
		return
	}
	*v = *acc
}

func (e *Eval) switchStmt(s *ast.SwitchStmt, v *env) {
	if s.Init != nil {
		e.stmt(s.Init, v)
	}
	var tag Val
	if s.Tag != nil {
		tag = e.expr(s.Tag, v)
	}
	clauses := s.Body.List
	// decide
	chosen := -1
	undecided := false
	def := -1
	for i, st := range clauses {
		cc := st.(*ast.CaseClause)
		if cc.List == nil {
			def = i
			continue
		}
		for _, x := range cc.List {
			cv := e.expr(x, v)
			if s.Tag != nil {
				eq, known := equalVal(tag, cv)
				if !known {
					undecided = true
				} else if eq && chosen < 0 && !undecided {
					chosen = i
				}
			} else {
				if cv.Kind == Const && cv.K.Kind() == constant.Bool {
					if constant.BoolVal(cv.K) && chosen < 0 && !undecided {
						chosen = i
					}
				} else {
					undecided = true
				}
			}
			if chosen >= 0 || undecided {
				break
			}
		}
		if chosen >= 0 || undecided {
			break
		}
	}
	runClause := func(i int, c *env) {
		for ; i < len(clauses); i++ {
			cc := clauses[i].(*ast.CaseClause)
			e.block(cc.Body, c)
			if n := len(cc.Body); n > 0 && !c.stopped() {
				if b, ok := cc.Body[n-1].(*ast.BranchStmt); ok && b.Tok == token.FALLTHROUGH {
					continue
				}
			}
			break
		}
		c.brk = false
	}
	if !undecided {
		if chosen < 0 {
			chosen = def
		}
		if chosen >= 0 {
			runClause(chosen, v)
		}
		return
	}
	var outs []*env
	for i := range clauses {
		c := v.clone()
		runClause(i, c)
		outs = append(outs, c)
	}
	if def < 0 {
		outs = append(outs, v.clone())
	}
	e.merge(v, outs)
}

func zeroVal(t types.Type) Val {
	if t == nil {
		return unknown
	}
	switch u := t.Underlying().(type) {
	case *types.Basic:
		switch {
		case u.Info()&types.IsBoolean != 0:
			return K(constant.MakeBool(false))
		case u.Info()&types.IsString != 0:
			return K(constant.MakeString(""))
		case u.Info()&types.IsInteger != 0:
			return K(constant.MakeInt64(0))
		}
	case *types.Pointer, *types.Slice, *types.Map, *types.Interface, *types.Signature:
		return Val{Kind: Nil}
	}
	return unknown
}

func lookupMap(m, k Val) (Val, bool, bool) {
	for i, mk := range m.Keys {
		eq, known := equalVal(mk, k)
		if !known {
			return unknown, false, false
		}
		if eq {
			return m.Vals[i], true, true
		}
	}
	return unknown, false, true
}

func (e *Eval) exprMulti(x ast.Expr, v *env) []Val {
	if call, ok := ast.Unparen(x).(*ast.CallExpr); ok {
		return e.callExpr(call, v)
	}
	return []Val{e.expr(x, v)}
}

func (e *Eval) expr(x ast.Expr, v *env) Val {
	if x == nil {
		return unknown
	}
	if tv, ok := e.Info.Types[x]; ok {
		if tv.Value != nil {
			return K(tv.Value)
		}
		if tv.IsNil() {
			return Val{Kind: Nil}
		}
	}
	switch n := x.(type) {
	case *ast.ParenExpr:
		return e.expr(n.X, v)
	case *ast.Ident:
		if o := e.Info.Uses[n]; o != nil {
			if val, ok := v.vars[o]; ok {
				return val
			}
		}
		return unknown
	case *ast.SelectorExpr:
		if sel := e.Info.Selections[n]; sel != nil && sel.Kind() == types.FieldVal {
			base := e.expr(n.X, v)
			if base.Kind == Struct {
				if f, ok := base.Fields[n.Sel.Name]; ok {
					return f
				}
			}
			if b, ok := e.Bind[n.Sel.Name]; ok {
				return b
			}
			return unknown
		}
		e.expr(n.X, v)
		return unknown
	case *ast.StarExpr:
		return e.expr(n.X, v)
	case *ast.UnaryExpr:
		a := e.expr(n.X, v)
		switch n.Op {
		case token.NOT:
			if a.Kind == Const && a.K.Kind() == constant.Bool {
				return K(constant.MakeBool(!constant.BoolVal(a.K)))
			}
		case token.AND:
			if a.Kind == Struct {
				return a
			}
			return Val{Kind: NonNil}
		case token.SUB:
			if a.Kind == Const {
				return K(constant.UnaryOp(token.SUB, a.K, 0))
			}
		}
		return unknown
	case *ast.BinaryExpr:
		a := e.expr(n.X, v)
		if (n.Op == token.LAND || n.Op == token.LOR) && a.Kind == Const && a.K.Kind() == constant.Bool {
			if n.Op == token.LAND && !constant.BoolVal(a.K) {
				return a
			}
			if n.Op == token.LOR && constant.BoolVal(a.K) {
				return a
			}
			return e.expr(n.Y, v)
		}
		b := e.expr(n.Y, v)
		return e.binop(n.Op, a, b, n.X, n.Y, n.Pos())
	case *ast.CallExpr:
		r := e.callExpr(n, v)
		if len(r) >= 1 {
			return r[0]
		}
		return unknown
	case *ast.CompositeLit:
		t := e.Info.TypeOf(n)
		if t == nil {
			return unknown
		}
		switch u := t.Underlying().(type) {
		case *types.Struct:
			out := Val{Kind: Struct, Fields: map[string]Val{}}
			for i := 0; i < u.NumFields(); i++ {
				out.Fields[u.Field(i).Name()] = zeroVal(u.Field(i).Type())
			}
			for i, el := range n.Elts {
				if kv, ok := el.(*ast.KeyValueExpr); ok {
					if id, ok := kv.Key.(*ast.Ident); ok {
						out.Fields[id.Name] = e.expr(kv.Value, v)
					}
				} else if i < u.NumFields() {
					out.Fields[u.Field(i).Name()] = e.expr(el, v)
				}
			}
			return out
		case *types.Map:
			out := Val{Kind: Map}
			for _, el := range n.Elts {
				kv, ok := el.(*ast.KeyValueExpr)
				if !ok {
					continue
				}
				out.Keys = append(out.Keys, e.elemLit(kv.Key, u.Key(), v))
				out.Vals = append(out.Vals, e.elemLit(kv.Value, u.Elem(), v))
			}
			return out
		default:
			for _, el := range n.Elts {
				if kv, ok := el.(*ast.KeyValueExpr); ok {
					e.expr(kv.Value, v)
				} else {
					e.expr(el, v)
				}
			}
			return Val{Kind: NonNil}
		}
	case *ast.IndexExpr:
		m := e.expr(n.X, v)
		k := e.expr(n.Index, v)
		if m.Kind == Map {
			if val, found, known := lookupMap(m, k); known {
				if found {
					return val
				}
				if mt, ok := e.Info.TypeOf(n.X).Underlying().(*types.Map); ok {
					return zeroVal(mt.Elem())
				}
			}
		}
		return unknown
	case *ast.SliceExpr:
		e.expr(n.X, v)
		e.expr(n.Low, v)
		e.expr(n.High, v)
		return unknown
	case *ast.FuncLit:
		// the literal may run: collect its sinks with unknown parameters
		c := v.clone()
		c.dead, c.brk, c.cont = false, false, false
		nRet := len(e.res.Returns)
		e.block(n.Body.List, c)
		e.res.Returns = e.res.Returns[:nRet]
		return Val{Kind: NonNil}
	case *ast.TypeAssertExpr:
		e.expr(n.X, v)
		return unknown
	case *ast.KeyValueExpr:
		return e.expr(n.Value, v)
	}
	return unknown
}

// elemLit evaluates a composite-literal element whose type may be elided.
func (e *Eval) elemLit(x ast.Expr, t types.Type, v *env) Val {
	if cl, ok := x.(*ast.CompositeLit); ok && cl.Type == nil {
		switch u := t.Underlying().(type) {
		case *types.Struct:
			out := Val{Kind: Struct, Fields: map[string]Val{}}
			for i := 0; i < u.NumFields(); i++ {
				out.Fields[u.Field(i).Name()] = zeroVal(u.Field(i).Type())
			}
			for i, el := range cl.Elts {
				if kv, ok := el.(*ast.KeyValueExpr); ok {
					if id, ok := kv.Key.(*ast.Ident); ok {
						out.Fields[id.Name] = e.expr(kv.Value, v)
					}
				} else if i < u.NumFields() {
					out.Fields[u.Field(i).Name()] = e.expr(el, v)
				}
			}
			return out
		case *types.Map:
			out := Val{Kind: Map}
			for _, el := range cl.Elts {
				if kv, ok := el.(*ast.KeyValueExpr); ok {
					out.Keys = append(out.Keys, e.elemLit(kv.Key, u.Key(), v))
					out.Vals = append(out.Vals, e.elemLit(kv.Value, u.Elem(), v))
				}
			}
			return out
		}
	}
	return e.expr(x, v)
}

func (e *Eval) binop(op token.Token, a, b Val, xa, xb ast.Expr, pos token.Pos) Val {
	switch op {
	case token.EQL, token.NEQ:
		if eq, known := equalVal(a, b); known {
			if op == token.NEQ {
				eq = !eq
			}
			return K(constant.MakeBool(eq))
		}
		return unknown
	}
	if a.Kind == Const && b.Kind == Const {
		switch op {
		case token.LSS, token.LEQ, token.GTR, token.GEQ:
			if a.K.Kind() == b.K.Kind() {
				return K(constant.MakeBool(constant.Compare(a.K, op, b.K)))
			}
		case token.ADD, token.SUB, token.MUL, token.AND, token.OR, token.XOR:
			if a.K.Kind() == b.K.Kind() {
				return K(constant.BinaryOp(a.K, op, b.K))
			}
		case token.REM:
			if a.K.Kind() == constant.Int && b.K.Kind() == constant.Int && constant.Sign(b.K) != 0 {
				return K(constant.BinaryOp(a.K, token.REM, b.K))
			}
		case token.QUO:
			if a.K.Kind() == constant.Int && b.K.Kind() == constant.Int && constant.Sign(b.K) != 0 {
				return K(constant.BinaryOp(a.K, token.QUO_ASSIGN, b.K))
			}
		case token.SHL, token.SHR:
			if n, ok := constant.Uint64Val(b.K); ok && a.K.Kind() == constant.Int {
				return K(constant.Shift(a.K, op, uint(n)))
			}
		case token.LAND:
			return K(constant.MakeBool(constant.BoolVal(a.K) && constant.BoolVal(b.K)))
		case token.LOR:
			return K(constant.MakeBool(constant.BoolVal(a.K) || constant.BoolVal(b.K)))
		}
		return unknown
	}
	// string concatenation with one constant operand is a sink
	if op == token.ADD {
		for i, s := range []Val{a, b} {
			if s.Kind == Const && s.K.Kind() == constant.String {
				args := []Val{unknown, unknown}
				args[i] = s
				e.res.Sinks = append(e.res.Sinks, Sink{Kind: "concat", In: e.curFn, Callee: "+", Args: args,
					ArgSrc: []string{exprStr(xa), exprStr(xb)}, Pos: pos})
			}
		}
	}
	return unknown
}

func exprStr(x ast.Expr) string {
	if x == nil {
		return ""
	}
	return types.ExprString(x)
}

func (e *Eval) callExpr(call *ast.CallExpr, v *env) []Val {
	// conversion
	if tv, ok := e.Info.Types[call.Fun]; ok && tv.IsType() && len(call.Args) == 1 {
		a := e.expr(call.Args[0], v)
		if a.Kind == Const {
			if b, ok := tv.Type.Underlying().(*types.Basic); ok {
				switch {
				case b.Info()&types.IsString != 0 && a.K.Kind() == constant.Int:
					n, _ := constant.Int64Val(a.K)
					return []Val{K(constant.MakeString(string(rune(n))))}
				case b.Info()&types.IsString != 0 && a.K.Kind() == constant.String,
					b.Info()&types.IsInteger != 0 && a.K.Kind() == constant.Int,
					b.Info()&types.IsBoolean != 0 && a.K.Kind() == constant.Bool:
					return []Val{a}
				}
			}
			return []Val{unknown}
		}
		if a.Kind == Nil {
			return []Val{a}
		}
		return []Val{unknown}
	}
	var args []Val
	var src []string
	for _, a := range call.Args {
		args = append(args, e.expr(a, v))
		src = append(src, types.ExprString(a))
	}
	// builtins
	if id, ok := ast.Unparen(call.Fun).(*ast.Ident); ok {
		if _, isB := e.Info.Uses[id].(*types.Builtin); isB {
			anyConst := false
			for _, a := range args {
				if a.Kind == Const {
					anyConst = true
				}
			}
			if anyConst && (id.Name == "append") {
				e.res.Sinks = append(e.res.Sinks, Sink{Kind: "call", In: e.curFn, Callee: "builtin " + id.Name, Args: args, ArgSrc: src, Pos: call.Pos()})
			}
			if id.Name == "len" && len(args) == 1 && args[0].Kind == Const && args[0].K.Kind() == constant.String {
				return []Val{K(constant.MakeInt64(int64(len(constant.StringVal(args[0].K)))))}
			}
			// len([]rune(s)) / len([]byte(s)) of a constant string
			if id.Name == "len" && len(call.Args) == 1 {
				if conv, ok := ast.Unparen(call.Args[0]).(*ast.CallExpr); ok && len(conv.Args) == 1 {
					if tv, ok := e.Info.Types[conv.Fun]; ok && tv.IsType() {
						if sl, ok := tv.Type.Underlying().(*types.Slice); ok {
							if bt, ok := sl.Elem().Underlying().(*types.Basic); ok {
								if a := e.expr(conv.Args[0], v); a.Kind == Const && a.K.Kind() == constant.String {
									str := constant.StringVal(a.K)
									switch bt.Kind() {
									case types.Int32:
										return []Val{K(constant.MakeInt64(int64(len([]rune(str)))))}
									case types.Uint8:
										return []Val{K(constant.MakeInt64(int64(len(str))))}
									}
								}
							}
						}
					}
				}
			}
			return []Val{unknown}
		}
	}
	fn := typeutil.StaticCallee(e.Info, call)
	name := "dynamic"
	var recv Val
	hasRecv := false
	if fn != nil {
		name = fn.FullName()
		if sig := fn.Type().(*types.Signature); sig.Recv() != nil {
			if se, ok := ast.Unparen(call.Fun).(*ast.SelectorExpr); ok {
				recv = e.expr(se.X, v)
				hasRecv = true
			}
		}
	} else {
		e.expr(call.Fun, v)
		name = "dynamic " + types.ExprString(call.Fun)
	}
	anyConst := false
	for _, a := range args {
		if a.Kind == Const {
			anyConst = true
		}
	}
	if fn != nil && fn.Pkg() != nil && fn.Pkg().Path() == "unicode/utf8" && len(args) == 1 && args[0].Kind == Const && args[0].K.Kind() == constant.String {
		switch fn.Name() {
		case "RuneCountInString":
			return []Val{K(constant.MakeInt64(int64(utf8.RuneCountInString(constant.StringVal(args[0].K)))))}
		case "ValidString":
			return []Val{K(constant.MakeBool(utf8.ValidString(constant.StringVal(args[0].K))))}
		}
	}
	if anyConst {
		e.res.Sinks = append(e.res.Sinks, Sink{Kind: "call", In: e.curFn, Callee: name, Args: args, ArgSrc: src, Pos: call.Pos()})
	}
	if fn != nil && e.Decls[fn] != nil {
		full := args
		if hasRecv {
			full = append([]Val{recv}, args...)
		}
		r := e.call(fn, full)
		if r != nil {
			return r
		}
	}
	// results unknown; errors.New etc. are non-nil
	if fn != nil {
		if sig, ok := fn.Type().(*types.Signature); ok {
			out := make([]Val, sig.Results().Len())
			if fn.Pkg() != nil && (fn.Pkg().Path() == "github.com/go-faster/errors" || fn.Pkg().Path() == "errors" || fn.Pkg().Path() == "fmt") &&
				(fn.Name() == "New" || fn.Name() == "Errorf" || fn.Name() == "Wrap" || fn.Name() == "Wrapf") && len(out) == 1 {
				out[0] = Val{Kind: NonNil}
			}
			return out
		}
	}
	return []Val{unknown}
}

// EvalExpr evaluates a closed expression (e.g. a constant composite literal)
// in an empty environment.
func (e *Eval) EvalExpr(x ast.Expr) Val {
	e.res = &Result{}
	return e.expr(x, &env{vars: map[types.Object]Val{}})
}
