// Package tmpl is the template front end (engine E2/E3): it parses the
// generator's text/template sources into trees and answers structural
// questions about them. Templates are analysed as programs; nothing is
// executed.
package tmpl

import (
	"fmt"
	"os"
	"path/filepath"
	"sort"
	"strings"
	"text/template/parse"
)

// Set is the parsed template set.
type Set struct {
	Root    string
	Trees   map[string]*parse.Tree // define name → tree
	FileOf  map[string]string      // define name → file (relative to the template dir)
	Files   []string
	Defines map[string][]string // file → define names
	Source  map[string]string   // file → text
}

// Load parses every *.tmpl under gen/_template.
func Load(repo string) (*Set, error) {
	root := filepath.Join(repo, "gen", "_template")
	s := &Set{Root: root, Trees: map[string]*parse.Tree{}, FileOf: map[string]string{}, Defines: map[string][]string{}, Source: map[string]string{}}
	err := filepath.Walk(root, func(p string, info os.FileInfo, err error) error {
		if err != nil || info.IsDir() || !strings.HasSuffix(p, ".tmpl") {
			return err
		}
		b, err := os.ReadFile(p)
		if err != nil {
			return err
		}
		rel, _ := filepath.Rel(root, p)
		s.Files = append(s.Files, rel)
		s.Source[rel] = string(b)
		t := parse.New(rel)
		t.Mode = parse.SkipFuncCheck | parse.ParseComments
		trees := map[string]*parse.Tree{}
		if _, err := t.Parse(string(b), "", "", trees); err != nil {
			return fmt.Errorf("template %s does not parse: %w", rel, err)
		}
		for name, tr := range trees {
			if name == rel {
				continue // the file's top-level (only comments/defines)
			}
			if _, dup := s.Trees[name]; dup {
				return fmt.Errorf("template %q defined twice (%s and %s)", name, s.FileOf[name], rel)
			}
			s.Trees[name] = tr
			s.FileOf[name] = rel
			s.Defines[rel] = append(s.Defines[rel], name)
		}
		return nil
	})
	if err != nil {
		return nil, err
	}
	if len(s.Trees) == 0 {
		return nil, fmt.Errorf("no templates found under %s", root)
	}
	sort.Strings(s.Files)
	return s, nil
}

// Walk visits every node of a tree.
func Walk(n parse.Node, f func(parse.Node) bool) {
	if n == nil || isNilNode(n) {
		return
	}
	if !f(n) {
		return
	}
	switch x := n.(type) {
	case *parse.ListNode:
		for _, c := range x.Nodes {
			Walk(c, f)
		}
	case *parse.ActionNode:
		Walk(x.Pipe, f)
	case *parse.PipeNode:
		for _, d := range x.Decl {
			Walk(d, f)
		}
		for _, c := range x.Cmds {
			Walk(c, f)
		}
	case *parse.CommandNode:
		for _, a := range x.Args {
			Walk(a, f)
		}
	case *parse.IfNode:
		Walk(x.Pipe, f)
		Walk(x.List, f)
		Walk(x.ElseList, f)
	case *parse.RangeNode:
		Walk(x.Pipe, f)
		Walk(x.List, f)
		Walk(x.ElseList, f)
	case *parse.WithNode:
		Walk(x.Pipe, f)
		Walk(x.List, f)
		Walk(x.ElseList, f)
	case *parse.TemplateNode:
		Walk(x.Pipe, f)
	case *parse.ChainNode:
		Walk(x.Node, f)
	}
}

func isNilNode(n parse.Node) bool {
	switch x := n.(type) {
	case *parse.ListNode:
		return x == nil
	case *parse.PipeNode:
		return x == nil
	case *parse.ActionNode:
		return x == nil
	case *parse.IfNode:
		return x == nil
	case *parse.RangeNode:
		return x == nil
	case *parse.WithNode:
		return x == nil
	case *parse.TemplateNode:
		return x == nil
	case *parse.CommandNode:
		return x == nil
	case *parse.ChainNode:
		return x == nil
	}
	return false
}

// FuncConstArgs returns the last numeric argument of every call of fn in
// the defines of file.
func (s *Set) FuncConstArgs(file, fn string) []int64 {
	var out []int64
	for _, name := range s.Defines[file] {
		Walk(s.Trees[name].Root, func(n parse.Node) bool {
			cmd, ok := n.(*parse.CommandNode)
			if !ok || len(cmd.Args) < 2 {
				return true
			}
			id, ok := cmd.Args[0].(*parse.IdentifierNode)
			if !ok || id.Ident != fn {
				return true
			}
			if num, ok := cmd.Args[len(cmd.Args)-1].(*parse.NumberNode); ok && num.IsInt {
				out = append(out, num.Int64)
			}
			return true
		})
	}
	return out
}

// Line returns the 1-based line of a node position within its file.
func (s *Set) Line(define string, pos parse.Pos) int {
	src := s.Source[s.FileOf[define]]
	if int(pos) > len(src) {
		return 0
	}
	return 1 + strings.Count(src[:pos], "\n")
}
