package tmpl

// Engine E2: static typing of the generator's text/template sources against
// the Go types of the IR. Dot starts as gen.TemplateConfig in every root
// template and flows through range / with / template, variables, field and
// method chains (resolved with go/types under text/template's lookup rules),
// the FuncMap and the text/template builtins. A value whose static type is an
// interface is ⊤ (unknown): selectors on it are counted, not judged.
//
// Output: problems (unresolvable selectors, arity / assignability errors,
// undefined templates), the set of Go functions the templates can call, and
// one Emission per printing action with its static type, provenance and the
// lexical context of the surrounding Go source.

import (
	"fmt"
	"go/ast"
	"go/token"
	"go/types"
	"sort"
	"strings"
	"text/template/parse"

	"golang.org/x/tools/go/packages"
)

// Prov is the provenance of a template value.
type Prov struct {
	Kind  string       // dot | field | method | func | lit | var | index | unknown
	Name  string       // selector / function name / literal text
	Obj   types.Object // *types.Var (field) or *types.Func (method, FuncMap function)
	Recv  *Prov        // receiver of a field / method
	RecvT types.Type   // static type of the receiver
	T     types.Type   // static type of the value
	Args  []*Prov      // call arguments (func, method)
}

func (p *Prov) String() string {
	if p == nil {
		return "?"
	}
	switch p.Kind {
	case "field", "method":
		s := p.Recv.String() + "." + p.Name
		if len(p.Args) > 0 {
			var a []string
			for _, x := range p.Args {
				a = append(a, x.String())
			}
			s += "(" + strings.Join(a, ", ") + ")"
		}
		return s
	case "func":
		var a []string
		for _, x := range p.Args {
			a = append(a, x.String())
		}
		return p.Name + "(" + strings.Join(a, ", ") + ")"
	case "lit":
		return p.Name
	case "dot":
		return "·"
	case "var":
		return p.Name
	}
	return "?"
}

// TV is a typed template value. T == nil means ⊤.
type TV struct {
	T    types.Type
	Prov *Prov
}

// Problem is a typing error of the templates.
type Problem struct {
	Define string
	File   string
	Line   int
	Key    string // stable identity: define + construct
	Msg    string
}

// Emission is one printing action.
type Emission struct {
	Define  string
	File    string
	Line    int
	Node    string // the action as written
	Val     TV
	Context string // code | string | rawstring | comment
	Prefix  string // text of the current output line before the action
	DotType string
}

// Checker holds the typing state.
type Checker struct {
	Set       *Set
	Gen       *packages.Package
	Funcs     map[string]*types.Signature
	FuncObjs  map[string]types.Object // named functions registered in the FuncMap
	FuncLits  map[string]*ast.FuncLit
	Roots     []string
	RootType  types.Type
	Problems  []Problem
	Emissions []Emission
	Called    map[*types.Func]bool // methods and named FuncMap functions the templates invoke
	UsedFuncs map[string]bool
	Unknown   int // selectors on ⊤
	Resolved  int // selectors resolved
	Pairs     int // (define, dot type) pairs analysed
	memo      map[string]bool
	probSeen  map[string]bool
	emitSeen  map[string]bool
}

// NewChecker reads the root list and the FuncMap out of package gen.
func NewChecker(set *Set, gen *packages.Package) (*Checker, error) {
	c := &Checker{Set: set, Gen: gen, Funcs: map[string]*types.Signature{}, FuncObjs: map[string]types.Object{}, FuncLits: map[string]*ast.FuncLit{},
		Called: map[*types.Func]bool{}, UsedFuncs: map[string]bool{}, memo: map[string]bool{}, probSeen: map[string]bool{}, emitSeen: map[string]bool{}}
	obj := gen.Types.Scope().Lookup("TemplateConfig")
	if obj == nil {
		return nil, fmt.Errorf("gen.TemplateConfig not found")
	}
	c.RootType = obj.Type()
	for _, f := range gen.Syntax {
		for _, d := range f.Decls {
			fd, ok := d.(*ast.FuncDecl)
			if !ok || fd.Body == nil {
				continue
			}
			switch {
			case fd.Name.Name == "templateFunctions" && fd.Recv == nil:
				ast.Inspect(fd.Body, func(n ast.Node) bool {
					cl, ok := n.(*ast.CompositeLit)
					if !ok {
						return true
					}
					if t := gen.TypesInfo.TypeOf(cl); t == nil || !strings.HasSuffix(t.String(), "template.FuncMap") {
						return true
					}
					for _, e := range cl.Elts {
						kv, ok := e.(*ast.KeyValueExpr)
						if !ok {
							continue
						}
						k, ok := kv.Key.(*ast.BasicLit)
						if !ok || k.Kind != token.STRING {
							continue
						}
						name := strings.Trim(k.Value, "\"`")
						sig, _ := gen.TypesInfo.TypeOf(kv.Value).(*types.Signature)
						if sig == nil {
							continue
						}
						c.Funcs[name] = sig
						switch v := kv.Value.(type) {
						case *ast.Ident:
							c.FuncObjs[name] = gen.TypesInfo.Uses[v]
						case *ast.SelectorExpr:
							c.FuncObjs[name] = gen.TypesInfo.Uses[v.Sel]
						case *ast.FuncLit:
							c.FuncLits[name] = v
						}
					}
					return false
				})
			case fd.Name.Name == "WriteSource":
				// the root table: composite literals {"name", enabled}
				ast.Inspect(fd.Body, func(n ast.Node) bool {
					cl, ok := n.(*ast.CompositeLit)
					if !ok || len(cl.Elts) != 2 {
						return true
					}
					if bl, ok := cl.Elts[0].(*ast.BasicLit); ok && bl.Kind == token.STRING {
						if bt, ok := gen.TypesInfo.TypeOf(cl.Elts[1]).Underlying().(*types.Basic); ok && bt.Info()&types.IsBoolean != 0 {
							c.Roots = append(c.Roots, strings.Trim(bl.Value, "\""))
						}
					}
					return true
				})
			}
		}
	}
	if len(c.Funcs) == 0 {
		return nil, fmt.Errorf("FuncMap literal of gen.templateFunctions not found")
	}
	if len(c.Roots) == 0 {
		return nil, fmt.Errorf("root template table of gen.WriteSource not found")
	}
	return c, nil
}

// Run types every root template with dot = TemplateConfig.
func (c *Checker) Run() {
	for _, r := range c.Roots {
		if _, ok := c.Set.Trees[r]; !ok {
			c.problem(r, 0, "root:"+r, fmt.Sprintf("WriteSource generates template %q, which is not defined", r))
			continue
		}
		c.define(r, TV{T: c.RootType, Prov: &Prov{Kind: "dot"}})
	}
	sort.Slice(c.Problems, func(i, j int) bool { return c.Problems[i].Key < c.Problems[j].Key })
}

func (c *Checker) problem(define string, pos parse.Pos, key, msg string) {
	k := define + "|" + key
	if c.probSeen[k] {
		return
	}
	c.probSeen[k] = true
	c.Problems = append(c.Problems, Problem{Define: define, File: c.Set.FileOf[define], Line: c.Set.Line(define, pos), Key: k, Msg: msg})
}

// ---- scopes

type cell struct{ v TV }

type scope struct {
	vars   map[string]*cell
	parent *scope
}

func (s *scope) lookup(name string) *cell {
	for ; s != nil; s = s.parent {
		if c, ok := s.vars[name]; ok {
			return c
		}
	}
	return nil
}

func (s *scope) push() *scope { return &scope{vars: map[string]*cell{}, parent: s} }

type state struct {
	define string
	root   TV
	prefix string // current output line
}

func typeKey(t types.Type) string {
	if t == nil {
		return "⊤"
	}
	return types.TypeString(t, nil)
}

func (c *Checker) define(name string, dot TV) {
	key := name + "|" + typeKey(dot.T)
	if c.memo[key] {
		return
	}
	c.memo[key] = true
	c.Pairs++
	tr := c.Set.Trees[name]
	st := &state{define: name, root: dot}
	sc := (&scope{vars: map[string]*cell{}}).push()
	sc.vars["$"] = &cell{dot}
	c.list(st, sc, dot, tr.Root)
}

func (c *Checker) list(st *state, sc *scope, dot TV, l *parse.ListNode) {
	if l == nil {
		return
	}
	for _, n := range l.Nodes {
		c.node(st, sc, dot, n)
	}
}

func (c *Checker) node(st *state, sc *scope, dot TV, n parse.Node) {
	switch x := n.(type) {
	case *parse.TextNode:
		t := string(x.Text)
		if i := strings.LastIndexByte(t, '\n'); i >= 0 {
			st.prefix = t[i+1:]
		} else {
			st.prefix += t
		}
	case *parse.ActionNode:
		v := c.pipeline(st, sc, dot, x.Pipe)
		if len(x.Pipe.Decl) == 0 {
			c.emit(st, dot, x, v)
			st.prefix += "‹v›"
		}
	case *parse.IfNode:
		inner := sc.push()
		c.pipeline(st, inner, dot, x.Pipe)
		p0 := st.prefix
		c.list(st, inner.push(), dot, x.List)
		p1 := st.prefix
		st.prefix = p0
		c.list(st, inner.push(), dot, x.ElseList)
		st.prefix = joinPrefix(st.prefix, p1, false)
	case *parse.WithNode:
		inner := sc.push()
		v := c.pipeline(st, inner, dot, x.Pipe)
		p0 := st.prefix
		c.list(st, inner.push(), v, x.List)
		p1 := st.prefix
		st.prefix = p0
		c.list(st, inner.push(), dot, x.ElseList)
		st.prefix = joinPrefix(st.prefix, p1, false)
	case *parse.RangeNode:
		inner := sc.push()
		// evaluate the pipeline without binding its declarations to the whole value
		decl := x.Pipe.Decl
		v := c.pipelineValue(st, inner, dot, x.Pipe)
		key, elem := c.rangeTypes(st, x, v)
		switch len(decl) {
		case 1:
			inner.vars[decl[0].Ident[0]] = &cell{elem}
		case 2:
			inner.vars[decl[0].Ident[0]] = &cell{key}
			inner.vars[decl[1].Ident[0]] = &cell{elem}
		}
		p0 := st.prefix
		c.list(st, inner.push(), elem, x.List)
		p1 := st.prefix
		st.prefix = p0
		c.list(st, inner.push(), dot, x.ElseList)
		st.prefix = joinPrefix(st.prefix, p1, false)
	case *parse.TemplateNode:
		if _, ok := c.Set.Trees[x.Name]; !ok {
			c.problem(st.define, x.Pos, "template:"+x.Name, fmt.Sprintf("template %q is not defined", x.Name))
			return
		}
		arg := TV{}
		if x.Pipe != nil {
			arg = c.pipeline(st, sc.push(), dot, x.Pipe)
		} else {
			arg = TV{T: types.Typ[types.UntypedNil], Prov: &Prov{Kind: "lit", Name: "nil"}}
		}
		c.define(x.Name, TV{T: arg.T, Prov: &Prov{Kind: "dot"}})
		st.prefix += "‹t:" + x.Name + "›"
	case *parse.ListNode:
		c.list(st, sc, dot, x)
	case *parse.CommentNode, *parse.BreakNode, *parse.ContinueNode:
	default:
		c.problem(st.define, n.Position(), fmt.Sprintf("node:%T", n), fmt.Sprintf("unhandled template node %T", n))
	}
}

// joinPrefix picks the line prefix to continue with after a branch.
func joinPrefix(a, b string, _ bool) string {
	if len(b) > len(a) {
		return b
	}
	return a
}

func (c *Checker) rangeTypes(st *state, x *parse.RangeNode, v TV) (key, elem TV) {
	if v.T == nil {
		return TV{}, TV{}
	}
	t := v.T
	if p, ok := t.Underlying().(*types.Pointer); ok {
		t = p.Elem()
	}
	switch u := t.Underlying().(type) {
	case *types.Slice:
		return TV{T: types.Typ[types.Int]}, TV{T: u.Elem(), Prov: &Prov{Kind: "index", Name: "[]", Recv: v.Prov}}
	case *types.Array:
		return TV{T: types.Typ[types.Int]}, TV{T: u.Elem(), Prov: &Prov{Kind: "index", Name: "[]", Recv: v.Prov}}
	case *types.Map:
		return TV{T: u.Key(), Prov: &Prov{Kind: "index", Name: "key", Recv: v.Prov}}, TV{T: u.Elem(), Prov: &Prov{Kind: "index", Name: "[]", Recv: v.Prov}}
	case *types.Chan:
		return TV{T: types.Typ[types.Int]}, TV{T: u.Elem()}
	case *types.Basic:
		if u.Info()&types.IsInteger != 0 {
			return TV{T: types.Typ[types.Int]}, TV{T: types.Typ[types.Int]}
		}
	case *types.Interface:
		return TV{}, TV{}
	}
	c.problem(st.define, x.Pos, "range:"+x.Pipe.String(), fmt.Sprintf("range over %s of type %s", x.Pipe.String(), typeKey(v.T)))
	return TV{}, TV{}
}

// pipeline evaluates a pipeline and performs its declarations / assignments.
func (c *Checker) pipeline(st *state, sc *scope, dot TV, p *parse.PipeNode) TV {
	if p == nil {
		return TV{}
	}
	v := c.pipelineValue(st, sc, dot, p)
	for _, d := range p.Decl {
		name := d.Ident[0]
		if p.IsAssign {
			cl := sc.lookup(name)
			if cl == nil {
				c.problem(st.define, p.Pos, "assign:"+name, fmt.Sprintf("assignment to undeclared variable %s", name))
				continue
			}
			if cl.v.T != nil && v.T != nil && !types.Identical(cl.v.T, v.T) {
				cl.v = TV{}
			} else if cl.v.T != nil && v.T == nil {
				cl.v = TV{}
			} else if cl.v.T != nil {
				cl.v = TV{T: cl.v.T, Prov: &Prov{Kind: "var", Name: name}}
			}
		} else {
			sc.vars[name] = &cell{v}
		}
	}
	return v
}

func (c *Checker) pipelineValue(st *state, sc *scope, dot TV, p *parse.PipeNode) TV {
	var v TV
	have := false
	for _, cmd := range p.Cmds {
		var final *TV
		if have {
			vv := v
			final = &vv
		}
		v = c.command(st, sc, dot, cmd, final)
		have = true
	}
	return v
}

func (c *Checker) command(st *state, sc *scope, dot TV, cmd *parse.CommandNode, final *TV) TV {
	first := cmd.Args[0]
	args := cmd.Args[1:]
	switch x := first.(type) {
	case *parse.FieldNode:
		return c.chain(st, sc, dot, dot, x.Ident, args, final, x.Pos, x.String())
	case *parse.ChainNode:
		recv := c.arg(st, sc, dot, x.Node)
		return c.chain(st, sc, dot, recv, x.Field, args, final, x.Pos, x.String())
	case *parse.VariableNode:
		cl := sc.lookup(x.Ident[0])
		if cl == nil {
			c.problem(st.define, x.Pos, "var:"+x.Ident[0], fmt.Sprintf("undefined variable %s", x.Ident[0]))
			return TV{}
		}
		v := cl.v
		if v.Prov == nil && v.T != nil {
			v.Prov = &Prov{Kind: "var", Name: x.Ident[0]}
		}
		if len(x.Ident) == 1 {
			c.noArgs(st, x.Pos, x.String(), args, final)
			return v
		}
		return c.chain(st, sc, dot, v, x.Ident[1:], args, final, x.Pos, x.String())
	case *parse.IdentifierNode:
		return c.call(st, sc, dot, x, args, final)
	case *parse.PipeNode:
		c.noArgs(st, x.Pos, "(pipeline)", args, final)
		return c.pipeline(st, sc, dot, x)
	}
	c.noArgs(st, first.Position(), first.String(), args, final)
	return c.arg(st, sc, dot, first)
}

func (c *Checker) noArgs(st *state, pos parse.Pos, what string, args []parse.Node, final *TV) {
	if len(args) > 0 || final != nil {
		c.problem(st.define, pos, "args:"+what, fmt.Sprintf("can't give argument to non-function %s", what))
	}
}

// arg evaluates an operand.
func (c *Checker) arg(st *state, sc *scope, dot TV, n parse.Node) TV {
	switch x := n.(type) {
	case *parse.DotNode:
		return dot
	case *parse.NilNode:
		return TV{T: types.Typ[types.UntypedNil], Prov: &Prov{Kind: "lit", Name: "nil"}}
	case *parse.FieldNode:
		return c.chain(st, sc, dot, dot, x.Ident, nil, nil, x.Pos, x.String())
	case *parse.VariableNode:
		cl := sc.lookup(x.Ident[0])
		if cl == nil {
			c.problem(st.define, x.Pos, "var:"+x.Ident[0], fmt.Sprintf("undefined variable %s", x.Ident[0]))
			return TV{}
		}
		v := cl.v
		if v.Prov == nil && v.T != nil {
			v.Prov = &Prov{Kind: "var", Name: x.Ident[0]}
		}
		if len(x.Ident) == 1 {
			return v
		}
		return c.chain(st, sc, dot, v, x.Ident[1:], nil, nil, x.Pos, x.String())
	case *parse.PipeNode:
		return c.pipeline(st, sc, dot, x)
	case *parse.IdentifierNode:
		return c.call(st, sc, dot, x, nil, nil)
	case *parse.ChainNode:
		recv := c.arg(st, sc, dot, x.Node)
		return c.chain(st, sc, dot, recv, x.Field, nil, nil, x.Pos, x.String())
	case *parse.BoolNode:
		return TV{T: types.Typ[types.UntypedBool], Prov: &Prov{Kind: "lit", Name: x.String()}}
	case *parse.StringNode:
		return TV{T: types.Typ[types.UntypedString], Prov: &Prov{Kind: "lit", Name: x.Quoted}}
	case *parse.NumberNode:
		switch {
		case x.IsInt:
			return TV{T: types.Typ[types.UntypedInt], Prov: &Prov{Kind: "lit", Name: x.Text}}
		case x.IsFloat:
			return TV{T: types.Typ[types.UntypedFloat], Prov: &Prov{Kind: "lit", Name: x.Text}}
		}
		return TV{T: types.Typ[types.UntypedInt], Prov: &Prov{Kind: "lit", Name: x.Text}}
	}
	return TV{}
}

// chain resolves recv.A.B.C; args and the piped value apply to the last element.
func (c *Checker) chain(st *state, sc *scope, dot, recv TV, idents []string, args []parse.Node, final *TV, pos parse.Pos, text string) TV {
	v := recv
	for i, id := range idents {
		last := i == len(idents)-1
		var a []parse.Node
		var f *TV
		if last {
			a, f = args, final
		}
		v = c.field(st, sc, dot, v, id, a, f, pos, text)
	}
	return v
}

func (c *Checker) field(st *state, sc *scope, dot, recv TV, name string, args []parse.Node, final *TV, pos parse.Pos, text string) TV {
	var argv []TV
	for _, a := range args {
		argv = append(argv, c.arg(st, sc, dot, a))
	}
	if final != nil {
		argv = append(argv, *final)
	}
	if recv.T == nil {
		c.Unknown++
		return TV{}
	}
	t := recv.T
	if b, ok := t.(*types.Basic); ok && b.Kind() == types.UntypedNil {
		c.problem(st.define, pos, "nilptr:"+text, fmt.Sprintf("nil pointer evaluating %s", text))
		return TV{}
	}
	if _, isIface := t.Underlying().(*types.Interface); isIface {
		// the dynamic value decides: ⊤ (a method of the interface itself is still resolvable)
		if obj, _, _ := types.LookupFieldOrMethod(t, true, c.Gen.Types, name); obj != nil {
			if fn, ok := obj.(*types.Func); ok {
				c.Resolved++
				return c.methodResult(st, recv, fn, argv, pos, text)
			}
		}
		c.Unknown++
		return TV{}
	}
	if !token.IsExported(name) {
		c.problem(st.define, pos, "unexported:"+text, fmt.Sprintf("%s: %s is an unexported field or method of %s", text, name, typeKey(t)))
		return TV{}
	}
	obj, _, _ := types.LookupFieldOrMethod(t, true, c.Gen.Types, name)
	switch o := obj.(type) {
	case *types.Func:
		c.Resolved++
		return c.methodResult(st, recv, o, argv, pos, text)
	case *types.Var:
		c.Resolved++
		if len(argv) > 0 {
			c.problem(st.define, pos, "fieldargs:"+text, fmt.Sprintf("%s: %s is a field of %s, not a method, but has %d arguments", text, name, typeKey(t), len(argv)))
		}
		return TV{T: o.Type(), Prov: &Prov{Kind: "field", Name: name, Obj: o, Recv: recv.Prov, RecvT: recv.T, T: o.Type()}}
	}
	// map with string keys
	base := t
	if p, ok := base.Underlying().(*types.Pointer); ok {
		base = p.Elem()
	}
	if m, ok := base.Underlying().(*types.Map); ok {
		if b, ok := m.Key().Underlying().(*types.Basic); ok && b.Info()&types.IsString != 0 {
			c.Resolved++
			return TV{T: m.Elem(), Prov: &Prov{Kind: "index", Name: name, Recv: recv.Prov, RecvT: recv.T, T: m.Elem()}}
		}
	}
	c.problem(st.define, pos, "field:"+typeKey(t)+"."+name, fmt.Sprintf("%s: can't evaluate field %s in type %s", text, name, typeKey(t)))
	return TV{}
}

func (c *Checker) methodResult(st *state, recv TV, fn *types.Func, argv []TV, pos parse.Pos, text string) TV {
	c.Called[fn] = true
	sig := fn.Type().(*types.Signature)
	var ap []*Prov
	for _, a := range argv {
		ap = append(ap, a.Prov)
	}
	res := c.checkCall(st, sig, fn.Name(), argv, pos, text)
	return TV{T: res, Prov: &Prov{Kind: "method", Name: fn.Name(), Obj: fn, Recv: recv.Prov, RecvT: recv.T, Args: ap, T: res}}
}

// checkCall checks arity, result shape and assignability; returns the first result type.
func (c *Checker) checkCall(st *state, sig *types.Signature, name string, argv []TV, pos parse.Pos, text string) types.Type {
	np := sig.Params().Len()
	if sig.Variadic() {
		if len(argv) < np-1 {
			c.problem(st.define, pos, "arity:"+text, fmt.Sprintf("%s: wrong number of args for %s: want at least %d got %d", text, name, np-1, len(argv)))
		}
	} else if len(argv) != np {
		c.problem(st.define, pos, "arity:"+text, fmt.Sprintf("%s: wrong number of args for %s: want %d got %d", text, name, np, len(argv)))
	}
	switch sig.Results().Len() {
	case 1:
	case 2:
		if !isErrorType(sig.Results().At(1).Type()) {
			c.problem(st.define, pos, "results:"+text, fmt.Sprintf("%s: second result of %s is not error", text, name))
		}
	default:
		c.problem(st.define, pos, "results:"+text, fmt.Sprintf("%s: %s has %d results; a template can call only functions with 1 or 2", text, name, sig.Results().Len()))
		return nil
	}
	for i, a := range argv {
		var pt types.Type
		switch {
		case sig.Variadic() && i >= np-1:
			pt = sig.Params().At(np - 1).Type().(*types.Slice).Elem()
		case i < np:
			pt = sig.Params().At(i).Type()
		default:
			continue
		}
		if a.T == nil {
			continue
		}
		if !argCompatible(a.T, pt) {
			c.problem(st.define, pos, fmt.Sprintf("argtype:%s#%d", text, i), fmt.Sprintf("%s: argument %d of %s has type %s, want %s", text, i, name, typeKey(a.T), typeKey(pt)))
		}
	}
	return sig.Results().At(0).Type()
}

func isErrorType(t types.Type) bool {
	return types.Identical(t, types.Universe.Lookup("error").Type())
}

// argCompatible mirrors text/template's validateType: assignable, or one
// level of pointer indirection either way, or an untyped constant that fits.
func argCompatible(at, pt types.Type) bool {
	if _, ok := pt.Underlying().(*types.Interface); ok {
		if types.AssignableTo(at, pt) {
			return true
		}
		if p, ok := at.(*types.Pointer); ok {
			return types.AssignableTo(p.Elem(), pt)
		}
		return types.AssignableTo(types.NewPointer(at), pt)
	}
	if b, ok := at.(*types.Basic); ok && b.Info()&types.IsUntyped != 0 {
		pb, ok := pt.Underlying().(*types.Basic)
		switch b.Kind() {
		case types.UntypedNil:
			switch pt.Underlying().(type) {
			case *types.Pointer, *types.Map, *types.Slice, *types.Chan, *types.Signature, *types.Interface:
				return true
			}
			return false
		case types.UntypedBool:
			return ok && pb.Info()&types.IsBoolean != 0
		case types.UntypedString:
			return ok && pb.Info()&types.IsString != 0
		case types.UntypedInt:
			return ok && pb.Info()&(types.IsInteger|types.IsFloat|types.IsComplex) != 0
		case types.UntypedFloat:
			return ok && pb.Info()&(types.IsFloat|types.IsComplex) != 0
		}
		return ok
	}
	if types.AssignableTo(at, pt) {
		return true
	}
	if p, ok := at.Underlying().(*types.Pointer); ok && types.AssignableTo(p.Elem(), pt) {
		return true
	}
	if p, ok := pt.Underlying().(*types.Pointer); ok && types.AssignableTo(at, p.Elem()) {
		return true
	}
	return false
}

// call evaluates a function identifier: builtins and the FuncMap.
func (c *Checker) call(st *state, sc *scope, dot TV, id *parse.IdentifierNode, args []parse.Node, final *TV) TV {
	var argv []TV
	for _, a := range args {
		argv = append(argv, c.arg(st, sc, dot, a))
	}
	if final != nil {
		argv = append(argv, *final)
	}
	var ap []*Prov
	for _, a := range argv {
		ap = append(ap, a.Prov)
	}
	prov := &Prov{Kind: "func", Name: id.Ident, Args: ap}
	c.UsedFuncs[id.Ident] = true
	if sig, ok := c.Funcs[id.Ident]; ok {
		if o, ok := c.FuncObjs[id.Ident].(*types.Func); ok {
			c.Called[o] = true
			prov.Obj = o
		}
		res := c.checkCall(st, sig, id.Ident, argv, id.Pos, id.Ident)
		return TV{T: res, Prov: prov}
	}
	need := func(min, max int) {
		if len(argv) < min || (max >= 0 && len(argv) > max) {
			c.problem(st.define, id.Pos, "arity:"+id.Ident, fmt.Sprintf("wrong number of args for %s: got %d", id.Ident, len(argv)))
		}
	}
	str := types.Typ[types.String]
	boolT := types.Typ[types.Bool]
	switch id.Ident {
	case "and", "or":
		need(1, -1)
		var t types.Type
		for i, a := range argv {
			if a.T == nil {
				return TV{Prov: prov}
			}
			if i == 0 {
				t = a.T
			} else if !types.Identical(t, a.T) {
				return TV{Prov: prov}
			}
		}
		return TV{T: t, Prov: prov}
	case "not":
		need(1, 1)
		return TV{T: boolT, Prov: prov}
	case "eq":
		need(2, -1)
		c.comparable(st, id, argv, true)
		return TV{T: boolT, Prov: prov}
	case "ne", "lt", "le", "gt", "ge":
		need(2, 2)
		c.comparable(st, id, argv, id.Ident == "ne")
		return TV{T: boolT, Prov: prov}
	case "len":
		need(1, 1)
		if len(argv) == 1 && argv[0].T != nil {
			t := argv[0].T
			if p, ok := t.Underlying().(*types.Pointer); ok {
				t = p.Elem()
			}
			switch u := t.Underlying().(type) {
			case *types.Slice, *types.Array, *types.Map, *types.Chan, *types.Interface:
			case *types.Basic:
				if u.Info()&types.IsString == 0 {
					c.problem(st.define, id.Pos, "len:"+typeKey(t), fmt.Sprintf("len of type %s", typeKey(t)))
				}
			default:
				c.problem(st.define, id.Pos, "len:"+typeKey(t), fmt.Sprintf("len of type %s", typeKey(t)))
			}
		}
		return TV{T: types.Typ[types.Int], Prov: prov}
	case "index":
		need(1, -1)
		if len(argv) == 0 || argv[0].T == nil {
			return TV{Prov: prov}
		}
		t := argv[0].T
		for range argv[1:] {
			if p, ok := t.Underlying().(*types.Pointer); ok {
				t = p.Elem()
			}
			switch u := t.Underlying().(type) {
			case *types.Slice:
				t = u.Elem()
			case *types.Array:
				t = u.Elem()
			case *types.Map:
				t = u.Elem()
			case *types.Basic:
				t = types.Typ[types.Uint8]
			case *types.Interface:
				return TV{Prov: prov}
			default:
				c.problem(st.define, id.Pos, "index:"+typeKey(t), fmt.Sprintf("can't index item of type %s", typeKey(t)))
				return TV{Prov: prov}
			}
		}
		return TV{T: t, Prov: prov}
	case "slice":
		need(1, 4)
		if len(argv) > 0 {
			return TV{T: argv[0].T, Prov: prov}
		}
		return TV{Prov: prov}
	case "print", "println", "printf", "html", "js", "urlquery":
		if id.Ident == "printf" {
			need(1, -1)
		}
		return TV{T: str, Prov: prov}
	case "call":
		need(1, -1)
		if len(argv) > 0 && argv[0].T != nil {
			if sig, ok := argv[0].T.Underlying().(*types.Signature); ok {
				res := c.checkCall(st, sig, "call", argv[1:], id.Pos, "call")
				return TV{T: res, Prov: prov}
			}
		}
		return TV{Prov: prov}
	}
	c.problem(st.define, id.Pos, "func:"+id.Ident, fmt.Sprintf("function %q not defined", id.Ident))
	return TV{}
}

// comparable mirrors text/template's basicKind compatibility for eq/lt…
func (c *Checker) comparable(st *state, id *parse.IdentifierNode, argv []TV, eqOnly bool) {
	if len(argv) < 2 || argv[0].T == nil {
		return
	}
	k0 := basicClass(argv[0].T)
	for i, a := range argv[1:] {
		if a.T == nil {
			continue
		}
		k := basicClass(a.T)
		if k0 == "other" || k == "other" {
			if eqOnly && (types.Identical(argv[0].T, a.T) || isNilT(a.T) || isNilT(argv[0].T)) && types.Comparable(argv[0].T) {
				continue
			}
			if _, ok := argv[0].T.Underlying().(*types.Interface); ok {
				continue
			}
			if _, ok := a.T.Underlying().(*types.Interface); ok {
				continue
			}
			c.problem(st.define, id.Pos, fmt.Sprintf("compare:%s#%d:%s", id.Ident, i, typeKey(a.T)), fmt.Sprintf("%s: incompatible types for comparison: %s and %s", id.Ident, typeKey(argv[0].T), typeKey(a.T)))
			continue
		}
		if k0 != k && !(isIntClass(k0) && isIntClass(k)) {
			c.problem(st.define, id.Pos, fmt.Sprintf("compare:%s#%d:%s", id.Ident, i, typeKey(a.T)), fmt.Sprintf("%s: incompatible types for comparison: %s and %s", id.Ident, typeKey(argv[0].T), typeKey(a.T)))
		}
	}
}

func isNilT(t types.Type) bool {
	b, ok := t.(*types.Basic)
	return ok && b.Kind() == types.UntypedNil
}

func isIntClass(k string) bool { return k == "int" || k == "uint" }

func basicClass(t types.Type) string {
	b, ok := t.Underlying().(*types.Basic)
	if !ok {
		return "other"
	}
	switch {
	case b.Info()&types.IsBoolean != 0:
		return "bool"
	case b.Info()&types.IsString != 0:
		return "string"
	case b.Info()&types.IsUnsigned != 0:
		return "uint"
	case b.Info()&types.IsInteger != 0:
		return "int"
	case b.Info()&types.IsFloat != 0:
		return "float"
	case b.Info()&types.IsComplex != 0:
		return "complex"
	}
	return "other"
}

// ---- emissions

func (c *Checker) emit(st *state, dot TV, x *parse.ActionNode, v TV) {
	key := fmt.Sprintf("%s|%d|%s", st.define, x.Pos, typeKey(v.T))
	if c.emitSeen[key] {
		return
	}
	c.emitSeen[key] = true
	c.Emissions = append(c.Emissions, Emission{
		Define: st.define, File: c.Set.FileOf[st.define], Line: c.Set.Line(st.define, x.Pos), Node: x.String(),
		Val: v, Context: lexContext(st.prefix), Prefix: st.prefix, DotType: typeKey(dot.T),
	})
}

// lexContext classifies the Go lexical context at the end of the line prefix.
func lexContext(prefix string) string {
	inStr, inRaw, inChar := false, false, false
	for i := 0; i < len(prefix); i++ {
		ch := prefix[i]
		switch {
		case inStr:
			if ch == '\\' {
				i++
			} else if ch == '"' {
				inStr = false
			}
		case inRaw:
			if ch == '`' {
				inRaw = false
			}
		case inChar:
			if ch == '\\' {
				i++
			} else if ch == '\'' {
				inChar = false
			}
		default:
			switch ch {
			case '"':
				inStr = true
			case '`':
				inRaw = true
			case '\'':
				inChar = true
			case '/':
				if i+1 < len(prefix) && prefix[i+1] == '/' {
					return "comment"
				}
			}
		}
	}
	switch {
	case inStr:
		return "string"
	case inRaw:
		return "rawstring"
	}
	return "code"
}

// ReachedDefines lists the defines typed at least once.
func (c *Checker) ReachedDefines() []string {
	set := map[string]bool{}
	for k := range c.memo {
		set[k[:strings.IndexByte(k, '|')]] = true
	}
	var out []string
	for k := range set {
		out = append(out, k)
	}
	sort.Strings(out)
	return out
}
