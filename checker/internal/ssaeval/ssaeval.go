// Package ssaeval folds the SSA form of small pure functions over constants:
// integer / boolean arithmetic, comparisons, conversions, phis, branches and
// static calls of functions that can be folded the same way. It exists to
// tabulate finite decision tables (a function of one or two bytes) exactly as
// the compiler's constant folder would; anything outside that fragment
// (memory, strings, interfaces, loops beyond a step budget) makes the result
// "unknown", never a guess.
package ssaeval

import (
	"fmt"
	"go/constant"
	"go/token"
	"go/types"

	"golang.org/x/tools/go/ssa"
)

// Val is a folded value; nil means unknown.
type Val = constant.Value

// Outcome of walking a function body from a block.
type Outcome struct {
	Kind    string // "stop" (a caller-supplied stop instruction was reached), "return", "unknown"
	Stop    ssa.Instruction
	Results []Val
	Why     string
}

// Env binds SSA values to constants ahead of the walk (parameters, loads the
// caller has identified) and lets the caller force conditions it treats as
// assumptions.
type Env struct {
	Bind map[ssa.Value]Val
	// StopAt: reaching one of these instructions ends the walk with Kind "stop".
	StopAt map[ssa.Instruction]bool
	// StopBlock: entering one of these blocks ends the walk with Kind "stop" (Stop = first instruction).
	StopBlock map[*ssa.BasicBlock]bool
	Budget    int
	// OnCall observes every call instruction of the walked function (not of callees) with its folded arguments.
	OnCall func(call *ssa.Call, args []Val)
	depth  int
}

func trunc(v Val, t types.Type) Val {
	if v == nil {
		return nil
	}
	b, ok := t.Underlying().(*types.Basic)
	if !ok || v.Kind() != constant.Int {
		return v
	}
	i, exact := constant.Int64Val(v)
	if !exact {
		if u, ok := constant.Uint64Val(v); ok {
			i = int64(u)
		} else {
			return nil
		}
	}
	switch b.Kind() {
	case types.Uint8:
		return constant.MakeInt64(int64(uint8(i)))
	case types.Int8:
		return constant.MakeInt64(int64(int8(i)))
	case types.Uint16:
		return constant.MakeInt64(int64(uint16(i)))
	case types.Int16:
		return constant.MakeInt64(int64(int16(i)))
	case types.Uint32:
		return constant.MakeInt64(int64(uint32(i)))
	case types.Int32:
		return constant.MakeInt64(int64(int32(i)))
	case types.Uint64, types.Uint, types.Uintptr:
		return constant.MakeUint64(uint64(i))
	}
	return constant.MakeInt64(i)
}

// Call folds fn on constant arguments.
func Call(fn *ssa.Function, args []Val) ([]Val, error) {
	env := &Env{Bind: map[ssa.Value]Val{}, Budget: 4000}
	return env.call(fn, args)
}

func (e *Env) call(fn *ssa.Function, args []Val) ([]Val, error) {
	if fn == nil || fn.Blocks == nil {
		return nil, fmt.Errorf("no body for %v", fn)
	}
	if e.depth > 8 {
		return nil, fmt.Errorf("call depth")
	}
	sub := &Env{Bind: map[ssa.Value]Val{}, Budget: e.Budget, depth: e.depth + 1}
	for i, p := range fn.Params {
		if i < len(args) {
			sub.Bind[p] = args[i]
		}
	}
	out := sub.Walk(fn.Blocks[0], nil)
	if out.Kind != "return" {
		return nil, fmt.Errorf("%s: %s", fn.Name(), out.Why)
	}
	return out.Results, nil
}

func (e *Env) val(v ssa.Value) Val {
	if c, ok := v.(*ssa.Const); ok {
		if c.Value == nil {
			return nil
		}
		return trunc(c.Value, c.Type())
	}
	return e.Bind[v]
}

// Walk interprets from block b (entered from pred, for phis).
func (e *Env) Walk(b, pred *ssa.BasicBlock) Outcome {
	steps := 0
	for {
		next, out, _ := e.block(b, pred, &steps)
		if out != nil {
			return *out
		}
		pred, b = b, next
	}
}

// Explore interprets like Walk, but where a branch condition does not fold it
// follows both successors (each with its own copy of the bindings). A path ends
// at a stop instruction / stop block, at a return, when it re-enters a block it
// has entered three times along the same edge (loops are unrolled three times,
// then cut and reported as Kind "cut"), or when the budget runs out. All path outcomes are returned;
// more than maxPaths paths yields one extra outcome of Kind "unknown".
func (e *Env) Explore(b *ssa.BasicBlock, maxPaths int) []Outcome {
	var outs []Outcome
	type visitKey struct{ b, pred *ssa.BasicBlock }
	var rec func(env *Env, b, pred *ssa.BasicBlock, seen map[visitKey]int)
	rec = func(env *Env, b, pred *ssa.BasicBlock, seen map[visitKey]int) {
		steps := 0
		for {
			if len(outs) > maxPaths {
				return
			}
			k := visitKey{b, pred}
			if seen[k] >= 3 {
				outs = append(outs, Outcome{Kind: "cut", Why: "loop"})
				return
			}
			seen[k]++
			next, out, fork := env.block(b, pred, &steps)
			if fork {
				for _, s := range b.Succs {
					sub := &Env{Bind: make(map[ssa.Value]Val, len(env.Bind)), StopAt: env.StopAt, StopBlock: env.StopBlock, Budget: env.Budget, OnCall: env.OnCall, depth: env.depth}
					for k, v := range env.Bind {
						sub.Bind[k] = v
					}
					seen2 := make(map[visitKey]int, len(seen))
					for k, n := range seen {
						seen2[k] = n
					}
					rec(sub, s, b, seen2)
				}
				return
			}
			if out != nil {
				outs = append(outs, *out)
				return
			}
			pred, b = b, next
		}
	}
	rec(e, b, nil, map[visitKey]int{})
	if len(outs) > maxPaths {
		outs = append(outs, Outcome{Kind: "unknown", Why: "path budget exhausted"})
	}
	return outs
}

// block interprets one block. It returns the successor to continue with, or a
// final outcome; fork reports that the block ends in a branch whose condition
// did not fold (out then carries the "unknown" outcome Walk returns).
func (e *Env) block(b, pred *ssa.BasicBlock, steps *int) (next *ssa.BasicBlock, out *Outcome, fork bool) {
	if e.StopBlock[b] {
		return nil, &Outcome{Kind: "stop", Stop: b.Instrs[0]}, false
	}
	for _, in := range b.Instrs {
		*steps++
		if *steps > e.Budget {
			return nil, &Outcome{Kind: "unknown", Why: "step budget exhausted"}, false
		}
		if e.StopAt[in] {
			return nil, &Outcome{Kind: "stop", Stop: in}, false
		}
		switch x := in.(type) {
		case *ssa.Phi:
			if pred == nil {
				continue
			}
			for i, p := range b.Preds {
				if p == pred {
					e.Bind[x] = e.val(x.Edges[i])
				}
			}
		case *ssa.BinOp:
			if _, pre := e.Bind[x]; pre {
				continue // forced by the caller
			}
			e.Bind[x] = binop(x.Op, e.val(x.X), e.val(x.Y), x.Type())
		case *ssa.UnOp:
			if _, pre := e.Bind[x]; pre {
				continue
			}
			a := e.val(x.X)
			switch {
			case a == nil:
				e.Bind[x] = nil
			case x.Op == token.NOT && a.Kind() == constant.Bool:
				e.Bind[x] = constant.MakeBool(!constant.BoolVal(a))
			case x.Op == token.SUB && a.Kind() == constant.Int:
				e.Bind[x] = trunc(constant.UnaryOp(token.SUB, a, 0), x.Type())
			case x.Op == token.XOR && a.Kind() == constant.Int:
				e.Bind[x] = trunc(constant.UnaryOp(token.XOR, a, 0), x.Type())
			default:
				e.Bind[x] = nil
			}
		case *ssa.Convert:
			if _, pre := e.Bind[x]; pre {
				continue
			}
			e.Bind[x] = trunc(e.val(x.X), x.Type())
		case *ssa.ChangeType:
			e.Bind[x] = e.val(x.X)
		case *ssa.Call:
			if _, pre := e.Bind[x]; pre {
				continue
			}
			callee := x.Common().StaticCallee()
			var args []Val
			known := true
			for _, a := range x.Common().Args {
				v := e.val(a)
				if v == nil {
					known = false
				}
				args = append(args, v)
			}
			if e.OnCall != nil {
				e.OnCall(x, args)
			}
			if callee == nil || !known || callee.Blocks == nil {
				e.Bind[x] = nil
				continue
			}
			res, err := e.call(callee, args)
			if err != nil || len(res) != 1 {
				e.Bind[x] = nil
				continue
			}
			e.Bind[x] = res[0]
		case *ssa.If:
			c := e.val(x.Cond)
			if c == nil || c.Kind() != constant.Bool {
				return nil, &Outcome{Kind: "unknown", Why: fmt.Sprintf("branch on a value outside the folding fragment at %v", b.Parent().Prog.Fset.Position(x.Pos()))}, true
			}
			if constant.BoolVal(c) {
				next = b.Succs[0]
			} else {
				next = b.Succs[1]
			}
		case *ssa.Jump:
			next = b.Succs[0]
		case *ssa.Return:
			var rs []Val
			for _, r := range x.Results {
				rs = append(rs, e.val(r))
			}
			return nil, &Outcome{Kind: "return", Results: rs}, false
		case *ssa.DebugRef:
		default:
			// anything else (memory, strings, allocation) produces an unknown value; effects are not modelled
			if v, ok := in.(ssa.Value); ok {
				if _, pre := e.Bind[v]; !pre {
					e.Bind[v] = nil
				}
			}
		}
	}
	if next == nil {
		return nil, &Outcome{Kind: "unknown", Why: "block ends in an unsupported instruction"}, false
	}
	return next, nil, false
}

func binop(op token.Token, a, b Val, t types.Type) Val {
	if a == nil || b == nil {
		return nil
	}
	switch op {
	case token.EQL, token.NEQ, token.LSS, token.LEQ, token.GTR, token.GEQ:
		if a.Kind() == constant.Bool && b.Kind() == constant.Bool {
			switch op {
			case token.EQL:
				return constant.MakeBool(constant.BoolVal(a) == constant.BoolVal(b))
			case token.NEQ:
				return constant.MakeBool(constant.BoolVal(a) != constant.BoolVal(b))
			}
			return nil
		}
		if a.Kind() != b.Kind() {
			return nil
		}
		return constant.MakeBool(constant.Compare(a, op, b))
	case token.ADD, token.SUB, token.MUL, token.AND, token.OR, token.XOR, token.AND_NOT:
		if a.Kind() != constant.Int || b.Kind() != constant.Int {
			return nil
		}
		return trunc(constant.BinaryOp(a, op, b), t)
	case token.QUO, token.REM:
		if a.Kind() != constant.Int || b.Kind() != constant.Int || constant.Sign(b) == 0 {
			return nil
		}
		if op == token.QUO {
			return trunc(constant.BinaryOp(a, token.QUO_ASSIGN, b), t)
		}
		return trunc(constant.BinaryOp(a, token.REM, b), t)
	case token.SHL, token.SHR:
		if a.Kind() != constant.Int || b.Kind() != constant.Int {
			return nil
		}
		s, ok := constant.Uint64Val(b)
		if !ok || s > 63 {
			return nil
		}
		return trunc(constant.Shift(a, op, uint(s)), t)
	}
	return nil
}
