// Package byteset implements engine E5: it computes, by exhaustive constant
// folding over the 256 values of one byte parameter, the exact table of a
// loop-free, call-free function (comparisons with constants, switch case
// lists, && || !, affine arithmetic, constant array/string lookups). Anything
// outside that fragment is reported as undecided. No code of the subject is
// run: the function's syntax tree is folded with go/constant, the way a
// compiler folds constants.
package byteset

import (
	"fmt"
	"go/ast"
	"go/constant"
	"go/token"
	"go/types"
)

// Table is the result for each input byte.
type Table struct {
	Bool   [256]bool
	Byte   [256]int64
	IsBool bool
}

// Set returns the bytes for which a bool table is true.
func (t *Table) Set() []byte {
	var out []byte
	for i := 0; i < 256; i++ {
		if t.Bool[i] {
			out = append(out, byte(i))
		}
	}
	return out
}

type evalErr struct{ msg string }

func (e evalErr) Error() string { return e.msg }

type evaluator struct {
	info *types.Info
	vars map[types.Object]constant.Value
	// Globals resolves package-level constant tables (arrays / strings).
	globals func(obj types.Object) ast.Expr
	// Callee resolves same-package pure helper functions.
	callee func(obj types.Object) *ast.FuncDecl
	depth  int
}

// Options configures resolution of package-level tables and helpers.
type Options struct {
	Globals func(obj types.Object) ast.Expr
	Callee  func(obj types.Object) *ast.FuncDecl
}

// EvalFunc tabulates fd over all values of its single integer-typed
// parameter restricted to 0..255.
func EvalFunc(info *types.Info, fd *ast.FuncDecl, opt Options) (*Table, error) {
	if fd.Type.Params == nil || fd.Type.Params.NumFields() != 1 || fd.Type.Results == nil || fd.Type.Results.NumFields() != 1 {
		return nil, evalErr{"function is not of the form f(x byte) T"}
	}
	param := info.Defs[fd.Type.Params.List[0].Names[0]]
	rt := info.TypeOf(fd.Type.Results.List[0].Type)
	tbl := &Table{}
	if b, ok := rt.Underlying().(*types.Basic); ok && b.Kind() == types.Bool {
		tbl.IsBool = true
	}
	for i := 0; i < 256; i++ {
		ev := &evaluator{info: info, vars: map[types.Object]constant.Value{param: constant.MakeInt64(int64(i))}, globals: opt.Globals, callee: opt.Callee}
		v, err := ev.block(fd.Body.List)
		if err != nil {
			return nil, err
		}
		if v == nil {
			return nil, evalErr{"function may fall off its end"}
		}
		if tbl.IsBool {
			tbl.Bool[i] = constant.BoolVal(v)
		} else {
			n, _ := constant.Int64Val(v)
			tbl.Byte[i] = n
		}
	}
	return tbl, nil
}

func (e *evaluator) block(list []ast.Stmt) (constant.Value, error) {
	for _, s := range list {
		v, err := e.stmt(s)
		if err != nil || v != nil {
			return v, err
		}
	}
	return nil, nil
}

func (e *evaluator) stmt(s ast.Stmt) (constant.Value, error) {
	switch s := s.(type) {
	case *ast.ReturnStmt:
		if len(s.Results) != 1 {
			return nil, evalErr{"return with ≠1 results"}
		}
		return e.expr(s.Results[0])
	case *ast.IfStmt:
		if s.Init != nil {
			return nil, evalErr{"if with init statement"}
		}
		c, err := e.expr(s.Cond)
		if err != nil {
			return nil, err
		}
		if constant.BoolVal(c) {
			return e.block(s.Body.List)
		}
		switch el := s.Else.(type) {
		case nil:
			return nil, nil
		case *ast.BlockStmt:
			return e.block(el.List)
		case *ast.IfStmt:
			return e.stmt(el)
		}
		return nil, evalErr{"unsupported else"}
	case *ast.SwitchStmt:
		if s.Init != nil {
			return nil, evalErr{"switch with init statement"}
		}
		var tag constant.Value
		if s.Tag != nil {
			t, err := e.expr(s.Tag)
			if err != nil {
				return nil, err
			}
			tag = t
		}
		var def *ast.CaseClause
		for _, st := range s.Body.List {
			cc := st.(*ast.CaseClause)
			if cc.List == nil {
				def = cc
				continue
			}
			for _, x := range cc.List {
				v, err := e.expr(x)
				if err != nil {
					return nil, err
				}
				match := false
				if tag != nil {
					match = constant.Compare(tag, token.EQL, v)
				} else {
					match = constant.BoolVal(v)
				}
				if match {
					if n := len(cc.Body); n > 0 {
						if b, ok := cc.Body[n-1].(*ast.BranchStmt); ok && b.Tok == token.FALLTHROUGH {
							return nil, evalErr{"fallthrough"}
						}
					}
					return e.block(cc.Body)
				}
			}
		}
		if def != nil {
			return e.block(def.Body)
		}
		return nil, nil
	case *ast.BlockStmt:
		return e.block(s.List)
	case *ast.AssignStmt:
		if s.Tok == token.DEFINE && len(s.Lhs) == len(s.Rhs) {
			for i, l := range s.Lhs {
				id, ok := l.(*ast.Ident)
				if !ok {
					return nil, evalErr{"assignment to non-identifier"}
				}
				v, err := e.expr(s.Rhs[i])
				if err != nil {
					return nil, err
				}
				if o := e.info.Defs[id]; o != nil {
					e.vars[o] = v
				}
			}
			return nil, nil
		}
		return nil, evalErr{"assignment outside the fragment"}
	}
	return nil, evalErr{fmt.Sprintf("statement %T outside the fragment", s)}
}

func (e *evaluator) wrap(v constant.Value, t types.Type) constant.Value {
	b, ok := t.Underlying().(*types.Basic)
	if !ok || v.Kind() != constant.Int {
		return v
	}
	n, exact := constant.Int64Val(v)
	if !exact {
		return v
	}
	switch b.Kind() {
	case types.Uint8:
		return constant.MakeInt64(int64(uint8(n)))
	case types.Int8:
		return constant.MakeInt64(int64(int8(n)))
	case types.Uint16:
		return constant.MakeInt64(int64(uint16(n)))
	case types.Int16:
		return constant.MakeInt64(int64(int16(n)))
	case types.Uint32:
		return constant.MakeInt64(int64(uint32(n)))
	case types.Int32:
		return constant.MakeInt64(int64(int32(n)))
	}
	return v
}

func (e *evaluator) expr(x ast.Expr) (constant.Value, error) {
	if tv, ok := e.info.Types[x]; ok && tv.Value != nil {
		return tv.Value, nil
	}
	switch v := x.(type) {
	case *ast.ParenExpr:
		return e.expr(v.X)
	case *ast.Ident:
		o := e.info.Uses[v]
		if val, ok := e.vars[o]; ok {
			return val, nil
		}
		return nil, evalErr{"free variable " + v.Name}
	case *ast.UnaryExpr:
		a, err := e.expr(v.X)
		if err != nil {
			return nil, err
		}
		switch v.Op {
		case token.NOT:
			return constant.MakeBool(!constant.BoolVal(a)), nil
		case token.SUB, token.XOR, token.ADD:
			return e.wrap(constant.UnaryOp(v.Op, a, 0), e.info.TypeOf(x)), nil
		}
	case *ast.BinaryExpr:
		switch v.Op {
		case token.LAND, token.LOR:
			a, err := e.expr(v.X)
			if err != nil {
				return nil, err
			}
			if v.Op == token.LAND && !constant.BoolVal(a) {
				return constant.MakeBool(false), nil
			}
			if v.Op == token.LOR && constant.BoolVal(a) {
				return constant.MakeBool(true), nil
			}
			return e.expr(v.Y)
		}
		a, err := e.expr(v.X)
		if err != nil {
			return nil, err
		}
		b, err := e.expr(v.Y)
		if err != nil {
			return nil, err
		}
		switch v.Op {
		case token.EQL, token.NEQ, token.LSS, token.LEQ, token.GTR, token.GEQ:
			return constant.MakeBool(constant.Compare(a, v.Op, b)), nil
		case token.ADD, token.SUB, token.MUL, token.AND, token.OR, token.XOR, token.AND_NOT:
			return e.wrap(constant.BinaryOp(a, v.Op, b), e.info.TypeOf(x)), nil
		case token.QUO, token.REM:
			if constant.Sign(b) == 0 {
				return nil, evalErr{"division by zero"}
			}
			op := v.Op
			if op == token.QUO {
				op = token.QUO_ASSIGN // integer division
			}
			return e.wrap(constant.BinaryOp(a, op, b), e.info.TypeOf(x)), nil
		case token.SHL, token.SHR:
			n, _ := constant.Uint64Val(b)
			return e.wrap(constant.Shift(a, v.Op, uint(n)), e.info.TypeOf(x)), nil
		}
	case *ast.CallExpr:
		// conversions
		if tv, ok := e.info.Types[v.Fun]; ok && tv.IsType() && len(v.Args) == 1 {
			a, err := e.expr(v.Args[0])
			if err != nil {
				return nil, err
			}
			return e.wrap(a, tv.Type), nil
		}
		// same-package pure helper
		if id, ok := v.Fun.(*ast.Ident); ok && e.callee != nil && len(v.Args) == 1 {
			if fd := e.callee(e.info.Uses[id]); fd != nil && e.depth < 4 {
				a, err := e.expr(v.Args[0])
				if err != nil {
					return nil, err
				}
				if fd.Type.Params.NumFields() != 1 {
					return nil, evalErr{"helper with ≠1 params"}
				}
				sub := &evaluator{info: e.info, globals: e.globals, callee: e.callee, depth: e.depth + 1,
					vars: map[types.Object]constant.Value{e.info.Defs[fd.Type.Params.List[0].Names[0]]: a}}
				r, err := sub.block(fd.Body.List)
				if err != nil {
					return nil, err
				}
				if r == nil {
					return nil, evalErr{"helper falls off its end"}
				}
				return r, nil
			}
		}
		return nil, evalErr{"call outside the fragment: " + types.ExprString(v.Fun)}
	case *ast.IndexExpr:
		idx, err := e.expr(v.Index)
		if err != nil {
			return nil, err
		}
		n, _ := constant.Int64Val(idx)
		// constant string
		if tv, ok := e.info.Types[v.X]; ok && tv.Value != nil && tv.Value.Kind() == constant.String {
			s := constant.StringVal(tv.Value)
			if n < 0 || int(n) >= len(s) {
				return nil, evalErr{"constant index out of range"}
			}
			return constant.MakeInt64(int64(s[n])), nil
		}
		if id, ok := v.X.(*ast.Ident); ok && e.globals != nil {
			if init := e.globals(e.info.Uses[id]); init != nil {
				return e.indexLit(init, n)
			}
		}
		return nil, evalErr{"index of non-constant table " + types.ExprString(v.X)}
	}
	return nil, evalErr{fmt.Sprintf("expression %s outside the fragment", types.ExprString(x))}
}

// indexLit evaluates lit[n] for a composite literal of an array type with
// constant elements (keyed or positional).
func (e *evaluator) indexLit(init ast.Expr, n int64) (constant.Value, error) {
	cl, ok := init.(*ast.CompositeLit)
	if !ok {
		return nil, evalErr{"table initialiser is not a composite literal"}
	}
	t := e.info.TypeOf(cl)
	arr, ok := t.Underlying().(*types.Array)
	if !ok {
		return nil, evalErr{"table is not an array"}
	}
	if n < 0 || n >= arr.Len() {
		return nil, evalErr{"table index out of range"}
	}
	next := int64(0)
	var found constant.Value
	for _, el := range cl.Elts {
		val := el
		if kv, ok := el.(*ast.KeyValueExpr); ok {
			ktv, ok := e.info.Types[kv.Key]
			if !ok || ktv.Value == nil {
				return nil, evalErr{"non-constant key in table"}
			}
			next, _ = constant.Int64Val(ktv.Value)
			val = kv.Value
		}
		if next == n {
			tv, ok := e.info.Types[val]
			if !ok || tv.Value == nil {
				return nil, evalErr{"non-constant element in table"}
			}
			found = tv.Value
		}
		next++
	}
	if found == nil {
		// zero value
		if b, ok := arr.Elem().Underlying().(*types.Basic); ok && b.Kind() == types.Bool {
			return constant.MakeBool(false), nil
		}
		return constant.MakeInt64(0), nil
	}
	return found, nil
}

// ArrayLit returns the elements of a constant array literal.
func ArrayLit(info *types.Info, init ast.Expr) ([]constant.Value, error) {
	cl, ok := init.(*ast.CompositeLit)
	if !ok {
		return nil, evalErr{"not a composite literal"}
	}
	arr, ok := info.TypeOf(cl).Underlying().(*types.Array)
	if !ok {
		return nil, evalErr{"not an array"}
	}
	e := &evaluator{info: info}
	out := make([]constant.Value, arr.Len())
	for i := range out {
		v, err := e.indexLit(init, int64(i))
		if err != nil {
			return nil, err
		}
		out[i] = v
	}
	return out, nil
}
