package core

import (
	"fmt"
	"go/constant"
	"go/token"
	"go/types"
	"sort"
	"strings"

	"golang.org/x/tools/go/callgraph"
	"golang.org/x/tools/go/ssa"
)

func ptrTo(t types.Type) types.Type { return types.NewPointer(t) }

// FuncName renders a function as pkgpath.Name or (pkgpath.T).Name, with the
// subject module prefix shortened to "ogen".
func FuncName(f *ssa.Function) string {
	if f == nil {
		return "<nil>"
	}
	s := f.String()
	if o := f.Origin(); o != nil {
		s = o.String()
	}
	return ShortPkg(s)
}

// ShortPkg shortens the module path prefix.
func ShortPkg(s string) string {
	return strings.ReplaceAll(s, Module, "ogen")
}

// CalleeName gives a stable name of the callee of a call: static callees as
// FuncName, interface invokes as "invoke <iface>.<method>", dynamic calls as
// "dynamic".
func CalleeName(cc *ssa.CallCommon) string {
	if cc.IsInvoke() {
		return "invoke " + ShortPkg(types.TypeString(cc.Value.Type(), nil)) + "." + cc.Method.Name()
	}
	if f := cc.StaticCallee(); f != nil {
		return FuncName(f)
	}
	if b, ok := cc.Value.(*ssa.Builtin); ok {
		return "builtin " + b.Name()
	}
	return "dynamic"
}

// IsCallTo reports whether the call statically targets pkgPath.name (name may
// be "T.M" for methods, receiver pointer-ness ignored).
func IsCallTo(cc *ssa.CallCommon, pkgPath, name string) bool {
	f := cc.StaticCallee()
	if f == nil {
		return false
	}
	return IsFunc(f, pkgPath, name)
}

// IsFunc reports whether f is pkgPath.name ("T.M" for methods).
func IsFunc(f *ssa.Function, pkgPath, name string) bool {
	if f == nil {
		return false
	}
	if o := f.Origin(); o != nil {
		f = o
	}
	obj := f.Object()
	if obj == nil || obj.Pkg() == nil || obj.Pkg().Path() != pkgPath {
		return false
	}
	if i := strings.IndexByte(name, '.'); i >= 0 {
		sig := f.Signature
		if sig.Recv() == nil {
			return false
		}
		return recvTypeName(sig.Recv().Type()) == name[:i] && obj.Name() == name[i+1:]
	}
	return f.Signature.Recv() == nil && obj.Name() == name
}

func recvTypeName(t types.Type) string {
	if p, ok := t.(*types.Pointer); ok {
		t = p.Elem()
	}
	if n, ok := t.(*types.Named); ok {
		return n.Obj().Name()
	}
	return ""
}

// NamedOf returns (pkgpath, name) of a possibly pointer-wrapped named type.
func NamedOf(t types.Type) (string, string) {
	if p, ok := t.(*types.Pointer); ok {
		t = p.Elem()
	}
	if a, ok := t.(*types.Alias); ok {
		t = types.Unalias(a)
	}
	if n, ok := t.(*types.Named); ok {
		if n.Obj().Pkg() == nil {
			return "", n.Obj().Name()
		}
		return n.Obj().Pkg().Path(), n.Obj().Name()
	}
	return "", ""
}

// AllFuncs returns fn and all anonymous functions nested in it.
func AllFuncs(fn *ssa.Function) []*ssa.Function {
	out := []*ssa.Function{fn}
	for _, a := range fn.AnonFuncs {
		out = append(out, AllFuncs(a)...)
	}
	return out
}

// PkgFuncs enumerates every source function (incl. methods and closures) of an
// SSA package, sorted by position.
func PkgFuncs(prog *ssa.Program, pkg *ssa.Package) []*ssa.Function {
	var out []*ssa.Function
	seen := map[*ssa.Function]bool{}
	add := func(f *ssa.Function) {
		if f == nil || seen[f] || f.Synthetic != "" && !strings.HasPrefix(f.Synthetic, "package init") {
			return
		}
		for _, g := range AllFuncs(f) {
			if !seen[g] {
				seen[g] = true
				out = append(out, g)
			}
		}
	}
	for _, m := range pkg.Members {
		switch m := m.(type) {
		case *ssa.Function:
			add(m)
		case *ssa.Type:
			for _, t := range []types.Type{m.Type(), types.NewPointer(m.Type())} {
				ms := prog.MethodSets.MethodSet(t)
				for i := 0; i < ms.Len(); i++ {
					f := prog.MethodValue(ms.At(i))
					if f != nil && f.Pkg == pkg && f.Synthetic == "" {
						add(f)
					}
				}
			}
		}
	}
	sort.SliceStable(out, func(i, j int) bool {
		if out[i].Pos() != out[j].Pos() {
			return out[i].Pos() < out[j].Pos()
		}
		return out[i].String() < out[j].String()
	})
	return out
}

// Calls enumerates call instructions (call, go, defer) of a function body.
func Calls(fn *ssa.Function) []ssa.CallInstruction {
	var out []ssa.CallInstruction
	for _, b := range fn.Blocks {
		for _, in := range b.Instrs {
			if c, ok := in.(ssa.CallInstruction); ok {
				out = append(out, c)
			}
		}
	}
	return out
}

// ConstString returns the string constant value of v.
func ConstString(v ssa.Value) (string, bool) {
	c, ok := v.(*ssa.Const)
	if !ok || c.Value == nil || c.Value.Kind() != constant.String {
		return "", false
	}
	return constant.StringVal(c.Value), true
}

// ConstInt returns the int constant value of v.
func ConstInt(v ssa.Value) (int64, bool) {
	if cv, ok := v.(*ssa.Convert); ok {
		v = cv.X
	}
	c, ok := v.(*ssa.Const)
	if !ok || c.Value == nil {
		return 0, false
	}
	if c.Value.Kind() != constant.Int {
		return 0, false
	}
	i, ok := constant.Int64Val(c.Value)
	return i, ok
}

// IsNilConst reports whether v is the nil constant.
func IsNilConst(v ssa.Value) bool {
	c, ok := v.(*ssa.Const)
	return ok && c.Value == nil
}

// ErrValueOf returns the SSA values that carry the error result of a call:
// the call itself if it returns a single error, or the Extracts of the error
// component of a tuple.
func ErrValueOf(call ssa.Value) []ssa.Value {
	var out []ssa.Value
	t := call.Type()
	if tup, ok := t.(*types.Tuple); ok {
		for i := 0; i < tup.Len(); i++ {
			if isErrorType(tup.At(i).Type()) {
				for _, r := range *call.Referrers() {
					if e, ok := r.(*ssa.Extract); ok && e.Index == i {
						out = append(out, e)
					}
				}
			}
		}
		return out
	}
	if isErrorType(t) {
		out = append(out, call)
	}
	return out
}

func isErrorType(t types.Type) bool {
	n, ok := t.(*types.Named)
	return ok && n.Obj().Pkg() == nil && n.Obj().Name() == "error"
}

// IsErrorType is exported for rules.
func IsErrorType(t types.Type) bool { return isErrorType(t) }

// SuccessBlocks returns, for an error value, the blocks entered on the
// "err == nil" edge of every If that tests it against nil. Only edges whose
// target has the If's block as its sole predecessor are returned (so that the
// target being a dominator really means "the success edge was taken").
func SuccessBlocks(errv ssa.Value) []*ssa.BasicBlock {
	var out []*ssa.BasicBlock
	for _, v := range aliasesOf(errv) {
		for _, r := range *v.Referrers() {
			bo, ok := r.(*ssa.BinOp)
			if !ok || (bo.Op != token.NEQ && bo.Op != token.EQL) {
				continue
			}
			if !(IsNilConst(bo.X) || IsNilConst(bo.Y)) {
				continue
			}
			for _, br := range *bo.Referrers() {
				iff, ok := br.(*ssa.If)
				if !ok {
					continue
				}
				blk := iff.Block()
				succ := blk.Succs[1] // false edge of "err != nil"
				if bo.Op == token.EQL {
					succ = blk.Succs[0]
				}
				if len(succ.Preds) == 1 {
					out = append(out, succ)
				}
			}
		}
	}
	return out
}

// aliasesOf follows trivial copies: ChangeInterface / MakeInterface are not
// followed; phi nodes with a single distinct non-nil operand are not
// followed either. Today only the value itself.
func aliasesOf(v ssa.Value) []ssa.Value { return []ssa.Value{v} }

// DominatedBySuccess reports whether block b is dominated by the success edge
// of some nil-test of an error result of call.
func DominatedBySuccess(call ssa.Value, b *ssa.BasicBlock) bool {
	for _, ev := range ErrValueOf(call) {
		for _, sb := range SuccessBlocks(ev) {
			if sb.Dominates(b) {
				return true
			}
		}
	}
	return false
}

// EdgeBlocks returns the block entered when cond evaluates to want, for every
// If on cond — looking through `!` — restricted to single-pred targets.
func EdgeBlocks(cond ssa.Value, want bool) []*ssa.BasicBlock {
	var out []*ssa.BasicBlock
	if cond.Referrers() == nil {
		return nil
	}
	for _, r := range *cond.Referrers() {
		switch r := r.(type) {
		case *ssa.If:
			i := 0
			if !want {
				i = 1
			}
			s := r.Block().Succs[i]
			if len(s.Preds) == 1 {
				out = append(out, s)
			}
		case *ssa.UnOp:
			if r.Op == token.NOT {
				out = append(out, EdgeBlocks(r, !want)...)
			}
		}
	}
	return out
}

// Reach computes the set of functions reachable from roots in cg, remembering
// one predecessor edge per function for path reporting.
type Reach struct {
	From map[*ssa.Function]*callgraph.Edge
	Set  map[*ssa.Function]bool
}

func Reachable(cg *callgraph.Graph, roots []*ssa.Function, follow func(e *callgraph.Edge) bool) *Reach {
	r := &Reach{From: map[*ssa.Function]*callgraph.Edge{}, Set: map[*ssa.Function]bool{}}
	var queue []*ssa.Function
	for _, f := range roots {
		if f != nil && !r.Set[f] {
			r.Set[f] = true
			queue = append(queue, f)
		}
	}
	for len(queue) > 0 {
		f := queue[0]
		queue = queue[1:]
		n := cg.Nodes[f]
		if n == nil {
			continue
		}
		for _, e := range n.Out {
			if follow != nil && !follow(e) {
				continue
			}
			g := e.Callee.Func
			if !r.Set[g] {
				r.Set[g] = true
				r.From[g] = e
				queue = append(queue, g)
			}
		}
	}
	return r
}

// Path renders the call path from a root to f.
func (r *Reach) Path(f *ssa.Function) string {
	var parts []string
	for i := 0; f != nil && i < 40; i++ {
		parts = append(parts, FuncName(f))
		e := r.From[f]
		if e == nil {
			break
		}
		f = e.Caller.Func
	}
	for i, j := 0, len(parts)-1; i < j; i, j = i+1, j-1 {
		parts[i], parts[j] = parts[j], parts[i]
	}
	return strings.Join(parts, " → ")
}

// InModule reports whether f belongs to a package of the subject module.
func InModule(f *ssa.Function) bool {
	p := f.Package()
	if p == nil && f.Origin() != nil {
		p = f.Origin().Package()
	}
	if p == nil && f.Parent() != nil {
		return InModule(f.Parent())
	}
	return p != nil && (p.Pkg.Path() == Module || strings.HasPrefix(p.Pkg.Path(), Module+"/"))
}

// FuncPkgPath returns the package path of f ("" when unknown).
func FuncPkgPath(f *ssa.Function) string {
	for f != nil {
		if p := f.Package(); p != nil {
			return p.Pkg.Path()
		}
		if o := f.Origin(); o != nil && o != f {
			f = o
			continue
		}
		f = f.Parent()
	}
	return ""
}

// Describe renders an instruction briefly.
func Describe(in ssa.Instruction) string {
	if v, ok := in.(ssa.Value); ok {
		return fmt.Sprintf("%s = %s", v.Name(), in.String())
	}
	return in.String()
}

// InstrPos returns the best available position of an instruction.
func InstrPos(in ssa.Instruction) token.Pos {
	if p := in.Pos(); p.IsValid() {
		return p
	}
	if c, ok := in.(ssa.CallInstruction); ok {
		if p := c.Common().Pos(); p.IsValid() {
			return p
		}
	}
	// fall back to the nearest positioned instruction in the block
	b := in.Block()
	if b != nil {
		for _, x := range b.Instrs {
			if p := x.Pos(); p.IsValid() {
				return p
			}
		}
		if b.Parent() != nil {
			return b.Parent().Pos()
		}
	}
	return token.NoPos
}

// SameValue reports structural equality of two pure SSA values (go/ssa does
// no CSE, so `s[i+1]` evaluated twice yields two instructions). Only
// side-effect-free, memory-independent operators are compared structurally:
// constants, parameters, BinOp/UnOp(non-load), Convert, string Lookup/Index
// (strings are immutable), Slice of strings, Extract of the same tuple.
func SameValue(a, b ssa.Value) bool { return sameValue(a, b, 0) }

func sameValue(a, b ssa.Value, d int) bool {
	if a == b {
		return true
	}
	if d > 8 || a == nil || b == nil {
		return false
	}
	switch x := a.(type) {
	case *ssa.Const:
		y, ok := b.(*ssa.Const)
		if !ok || !types.Identical(x.Type(), y.Type()) {
			return false
		}
		if x.Value == nil || y.Value == nil {
			return x.Value == nil && y.Value == nil
		}
		return constant.Compare(x.Value, token.EQL, y.Value)
	case *ssa.BinOp:
		y, ok := b.(*ssa.BinOp)
		return ok && x.Op == y.Op && sameValue(x.X, y.X, d+1) && sameValue(x.Y, y.Y, d+1)
	case *ssa.UnOp:
		y, ok := b.(*ssa.UnOp)
		if !ok || x.Op != y.Op || x.Op == token.MUL || x.Op == token.ARROW {
			return false
		}
		return sameValue(x.X, y.X, d+1)
	case *ssa.Convert:
		y, ok := b.(*ssa.Convert)
		return ok && types.Identical(x.Type(), y.Type()) && sameValue(x.X, y.X, d+1)
	case *ssa.Lookup:
		y, ok := b.(*ssa.Lookup)
		if !ok || x.CommaOk || y.CommaOk {
			return false
		}
		if bt, isB := x.X.Type().Underlying().(*types.Basic); !isB || bt.Info()&types.IsString == 0 {
			return false
		}
		return sameValue(x.X, y.X, d+1) && sameValue(x.Index, y.Index, d+1)
	case *ssa.Index:
		y, ok := b.(*ssa.Index)
		if !ok {
			return false
		}
		if bt, isB := x.X.Type().Underlying().(*types.Basic); !isB || bt.Info()&types.IsString == 0 {
			return false
		}
		return sameValue(x.X, y.X, d+1) && sameValue(x.Index, y.Index, d+1)
	case *ssa.Slice:
		y, ok := b.(*ssa.Slice)
		if !ok {
			return false
		}
		if bt, isB := x.X.Type().Underlying().(*types.Basic); !isB || bt.Info()&types.IsString == 0 {
			return false
		}
		return sameValue(x.X, y.X, d+1) && sameOpt(x.Low, y.Low, d) && sameOpt(x.High, y.High, d)
	case *ssa.Extract:
		y, ok := b.(*ssa.Extract)
		return ok && x.Index == y.Index && x.Tuple == y.Tuple
	}
	return false
}

func sameOpt(a, b ssa.Value, d int) bool {
	if a == nil || b == nil {
		return a == nil && b == nil
	}
	return sameValue(a, b, d+1)
}

// PhiClosure returns the set of values v may take through phi nodes.
func PhiClosure(v ssa.Value) []ssa.Value {
	seen := map[ssa.Value]bool{}
	var out []ssa.Value
	var walk func(v ssa.Value)
	walk = func(v ssa.Value) {
		if seen[v] {
			return
		}
		seen[v] = true
		if p, ok := v.(*ssa.Phi); ok {
			for _, e := range p.Edges {
				walk(e)
			}
			return
		}
		out = append(out, v)
	}
	walk(v)
	return out
}

// ReturnsError reports whether some result of fn is of type error.
func ReturnsError(fn *ssa.Function) bool {
	res := fn.Signature.Results()
	for i := 0; i < res.Len(); i++ {
		if isErrorType(res.At(i).Type()) {
			return true
		}
	}
	return false
}

// InModulePath reports whether the import path belongs to the subject module.
func InModulePath(p string) bool { return p == Module || strings.HasPrefix(p, Module+"/") }
