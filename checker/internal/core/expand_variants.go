package core

import (
	"bytes"
	"fmt"
	"os"
	"os/exec"
	"path/filepath"
	"sort"
	"strings"

	"golang.org/x/tools/go/packages"
)

// Variant is one feature configuration of the generator.
type Variant struct {
	Name       string
	DisableAll bool
	Enable     []string
	Disable    []string
}

// VariantResult is the outcome of expanding one fixture under one variant.
type VariantResult struct {
	Fixture string
	Variant string
	// GenErr: the generator failed; Unparsable says it failed on its own output (goimports / format).
	GenErr     string
	Unparsable bool
	Files      int
	TypeErrors []string
}

func (v Variant) yaml() string {
	var b strings.Builder
	b.WriteString("generator:\n  features:\n")
	if v.DisableAll {
		b.WriteString("    disable_all: true\n")
	}
	list := func(k string, xs []string) {
		if len(xs) == 0 {
			return
		}
		b.WriteString("    " + k + ":\n")
		for _, x := range xs {
			b.WriteString("      - \"" + x + "\"\n")
		}
	}
	list("enable", v.Enable)
	list("disable", v.Disable)
	return b.String()
}

// ExpandVariants expands config-less fixtures under feature variants with the generator built from the current
// tree and type-checks every result. Generated _test.go files are kept out (they are compiled by `go test` only).
func (c *Ctx) ExpandVariants(names []string, variants []Variant) ([]VariantResult, error) {
	root, err := c.Scratch("s2v")
	if err != nil {
		return nil, err
	}
	bin := filepath.Join(root, "ogen-gen")
	cmd := exec.Command("go", "build", "-o", bin, "./cmd/ogen")
	cmd.Dir = c.Repo
	cmd.Env = goEnv()
	if out, err := cmd.CombinedOutput(); err != nil {
		return nil, fmt.Errorf("S2: building cmd/ogen from the current tree failed: %v\n%s", err, out)
	}
	var dirs []directive
	for _, g := range []string{"internal/integration/generate.go", "examples/generate.go"} {
		ds, err := readDirectives(filepath.Join(c.Repo, g))
		if err != nil {
			return nil, err
		}
		dirs = append(dirs, ds...)
	}
	want := map[string]bool{}
	for _, n := range names {
		want[n] = true
	}
	var fixtures []*Fixture
	for _, d := range dirs {
		fx, err := parseDirective(d)
		if err != nil {
			return nil, err
		}
		if !want[fx.Name] {
			continue
		}
		if fx.Config != "" {
			return nil, fmt.Errorf("S2 variants: fixture %s has its own config; only config-less fixtures are varied", fx.Name)
		}
		if st, err := os.Stat(fx.Spec); err != nil || st.Size() == 0 {
			continue
		}
		fixtures = append(fixtures, fx)
	}
	if len(fixtures) == 0 {
		return nil, fmt.Errorf("S2 variants: none of %v found", names)
	}
	mod := filepath.Join(root, "mod")
	os.MkdirAll(mod, 0o755)
	type job struct {
		fx  *Fixture
		v   Variant
		dir string
		pkg string
	}
	var jobs []job
	for _, fx := range fixtures {
		for i, v := range variants {
			name := fmt.Sprintf("%s_v%02d", fx.Name, i)
			jobs = append(jobs, job{fx, v, filepath.Join(mod, name), name})
		}
	}
	results := make([]VariantResult, len(jobs))
	sem := make(chan struct{}, 12)
	done := make(chan int, len(jobs))
	for i, j := range jobs {
		i, j := i, j
		go func() {
			sem <- struct{}{}
			defer func() { <-sem; done <- i }()
			res := VariantResult{Fixture: j.fx.Name, Variant: j.v.Name}
			cfgPath := filepath.Join(root, j.pkg+".yml")
			os.WriteFile(cfgPath, []byte(j.v.yaml()), 0o644)
			cmd := exec.Command(bin, "--target", j.dir, "--package", "api", "--clean", "--config", cfgPath, j.fx.Spec)
			cmd.Dir = filepath.Dir(j.fx.Origin)
			cmd.Env = goEnv()
			var out bytes.Buffer
			cmd.Stdout, cmd.Stderr = &out, &out
			if err := cmd.Run(); err != nil {
				msg := out.String()
				res.Unparsable = strings.Contains(msg, "goimports") || strings.Contains(msg, "format:")
				// keep the diagnostic lines only
				var keep []string
				for _, ln := range strings.Split(msg, "\n") {
					t := strings.TrimSpace(ln)
					if strings.HasPrefix(t, "- ") {
						keep = append(keep, strings.TrimPrefix(t, "- "))
					}
				}
				res.GenErr = strings.Join(keep, " / ")
				if res.GenErr == "" {
					res.GenErr = err.Error()
				}
				os.RemoveAll(j.dir)
			}
			results[i] = res
		}()
	}
	for range jobs {
		<-done
	}
	os.Remove(bin)
	gomod := "module expansions\n\ngo 1.23\n\nrequire " + Module + " v0.0.0\n\nreplace " + Module + " => " + c.Repo + "\n"
	os.WriteFile(filepath.Join(mod, "go.mod"), []byte(gomod), 0o644)
	if sum, err := os.ReadFile(filepath.Join(c.Repo, "go.sum")); err == nil {
		os.WriteFile(filepath.Join(mod, "go.sum"), sum, 0o644)
	}
	filepath.Walk(mod, func(p string, info os.FileInfo, err error) error {
		if err == nil && strings.HasSuffix(p, "_test.go") {
			os.Remove(p)
		}
		return nil
	})
	cfg := &packages.Config{
		Mode: packages.NeedName | packages.NeedFiles | packages.NeedCompiledGoFiles | packages.NeedImports | packages.NeedTypes | packages.NeedSyntax | packages.NeedTypesInfo | packages.NeedDeps,
		Dir:  mod,
		Env:  goEnv(),
	}
	pkgs, err := packages.Load(cfg, "./...")
	if err != nil {
		return nil, fmt.Errorf("S2 variants: load: %w", err)
	}
	by := map[string]*packages.Package{}
	for _, p := range pkgs {
		by[filepath.Base(p.PkgPath)] = p
	}
	for i, j := range jobs {
		if results[i].GenErr != "" {
			continue
		}
		p := by[j.pkg]
		if p == nil {
			results[i].TypeErrors = []string{"package was not loaded"}
			continue
		}
		results[i].Files = len(p.GoFiles)
		for _, e := range p.Errors {
			msg := e.Error()
			msg = strings.ReplaceAll(msg, mod+"/", "")
			results[i].TypeErrors = append(results[i].TypeErrors, msg)
		}
	}
	sort.SliceStable(results, func(a, b int) bool {
		if results[a].Fixture != results[b].Fixture {
			return results[a].Fixture < results[b].Fixture
		}
		return results[a].Variant < results[b].Variant
	})
	return results, nil
}
