package core

import (
	"bufio"
	"bytes"
	"fmt"
	"os"
	"os/exec"
	"path/filepath"
	"sort"
	"strings"
	"sync"
)

// Fixture is one go:generate directive of the repository expanded by the
// generator built from the current tree (subject S2, DESIGN.md §0).
type Fixture struct {
	Name    string // target directory name, e.g. sample_api
	Package string // Go package name
	Spec    string // absolute path of the spec
	Config  string // absolute path of the config ("" = none)
	Dir     string // scratch directory holding the expansion
	PkgPath string // import path inside the scratch module
	Origin  string // generate.go the directive was read from
}

// Expansion is the S2 subject: templates expanded over fixture specs.
type Expansion struct {
	Dir      string // scratch module root
	Fixtures []*Fixture
	Skipped  []string // directive → reason
	Prog     *Prog
}

// QuickFixtures is the subset expanded by the quick tier.
var QuickFixtures = []string{"sample_api", "test_parameters", "test_security", "test_form", "test_http_requests",
	"test_http_responses", "test_webhooks", "ex_route_params", "ex_oauth2", "sample_err", "test_client_options"}

type directive struct {
	origin string
	dir    string
	args   []string
}

func readDirectives(file string) ([]directive, error) {
	f, err := os.Open(file)
	if err != nil {
		return nil, err
	}
	defer f.Close()
	var out []directive
	sc := bufio.NewScanner(f)
	for sc.Scan() {
		ln := strings.TrimSpace(sc.Text())
		if !strings.HasPrefix(ln, "//go:generate go run ") {
			continue
		}
		fields := strings.Fields(strings.TrimPrefix(ln, "//go:generate go run "))
		if len(fields) == 0 || !strings.HasSuffix(fields[0], "cmd/ogen") {
			continue
		}
		out = append(out, directive{origin: file, dir: filepath.Dir(file), args: fields[1:]})
	}
	return out, sc.Err()
}

func parseDirective(d directive) (*Fixture, error) {
	fx := &Fixture{Package: "api", Origin: d.origin}
	abs := func(p string) string {
		if filepath.IsAbs(p) {
			return p
		}
		return filepath.Clean(filepath.Join(d.dir, p))
	}
	args := d.args
	for i := 0; i < len(args); i++ {
		a := strings.TrimLeft(args[i], "-")
		if !strings.HasPrefix(args[i], "-") {
			fx.Spec = abs(args[i])
			continue
		}
		val := ""
		if eq := strings.IndexByte(a, '='); eq >= 0 {
			a, val = a[:eq], a[eq+1:]
		}
		switch a {
		case "v", "clean":
		case "config", "target", "package":
			if val == "" && i+1 < len(args) {
				i++
				val = args[i]
			}
			switch a {
			case "config":
				fx.Config = abs(val)
			case "target":
				fx.Name = filepath.Base(val)
			case "package":
				fx.Package = val
			}
		default:
			return nil, fmt.Errorf("unknown flag %q in go:generate directive of %s", args[i], d.origin)
		}
	}
	if fx.Name == "" || fx.Spec == "" {
		return nil, fmt.Errorf("directive without target/spec in %s: %v", d.origin, d.args)
	}
	return fx, nil
}

var expandMu sync.Mutex

// Expand builds cmd/ogen from the current tree and expands the templates over
// the go:generate fixtures (names == nil: all). The result is cached per Ctx.
func (c *Ctx) Expand(names []string) (*Expansion, error) {
	expandMu.Lock()
	defer expandMu.Unlock()
	if c.expanded != nil {
		return c.expanded, nil
	}
	root, err := c.Scratch("s2")
	if err != nil {
		return nil, err
	}
	bin := filepath.Join(root, "ogen-gen")
	cmd := exec.Command("go", "build", "-o", bin, "./cmd/ogen")
	cmd.Dir = c.Repo
	cmd.Env = goEnv()
	if out, err := cmd.CombinedOutput(); err != nil {
		return nil, fmt.Errorf("S2: building cmd/ogen from the current tree failed: %v\n%s", err, out)
	}
	var dirs []directive
	for _, g := range []string{"internal/integration/generate.go", "examples/generate.go"} {
		ds, err := readDirectives(filepath.Join(c.Repo, g))
		if err != nil {
			return nil, fmt.Errorf("S2: %v", err)
		}
		dirs = append(dirs, ds...)
	}
	if len(dirs) == 0 {
		return nil, fmt.Errorf("S2: no go:generate directives found")
	}
	want := map[string]bool{}
	for _, n := range names {
		want[n] = true
	}
	ex := &Expansion{Dir: filepath.Join(root, "mod")}
	if err := os.MkdirAll(ex.Dir, 0o755); err != nil {
		return nil, err
	}
	var fixtures []*Fixture
	for _, d := range dirs {
		fx, err := parseDirective(d)
		if err != nil {
			return nil, fmt.Errorf("S2: %v", err)
		}
		if len(want) > 0 && !want[fx.Name] {
			continue
		}
		if st, err := os.Stat(fx.Spec); err != nil || st.Size() == 0 {
			ex.Skipped = append(ex.Skipped, fx.Name+": input spec missing or emptied in this sandbox")
			continue
		}
		fx.Dir = filepath.Join(ex.Dir, fx.Name)
		fx.PkgPath = "expansions/" + fx.Name
		fixtures = append(fixtures, fx)
	}
	// the verification's own fixture specs (shapes the repository's corpus lacks): always expanded
	if extra, _ := filepath.Glob(filepath.Join(c.VerifDir, "fixtures", "*")); len(extra) > 0 {
		sort.Strings(extra)
		for _, spec := range extra {
			ext := filepath.Ext(spec)
			if ext != ".json" && ext != ".yml" && ext != ".yaml" {
				continue
			}
			name := "vf_" + strings.TrimSuffix(filepath.Base(spec), ext)
			fx := &Fixture{Name: name, Package: "api", Spec: spec, Origin: filepath.Join(c.Repo, "internal/integration/generate.go"),
				Dir: filepath.Join(ex.Dir, name), PkgPath: "expansions/" + name}
			// an ogen config next to the spec: fixtures/configs/<base>.yml
			if cfg := filepath.Join(c.VerifDir, "fixtures", "configs", strings.TrimSuffix(filepath.Base(spec), ext)+".yml"); fileExists(cfg) {
				fx.Config = cfg
			}
			fixtures = append(fixtures, fx)
		}
	}
	for n := range want {
		found := false
		for _, fx := range fixtures {
			if fx.Name == n {
				found = true
			}
		}
		if !found {
			return nil, fmt.Errorf("S2: fixture %q has no go:generate directive (or its spec is missing)", n)
		}
	}
	// run the generator (macro expansion step), in parallel
	type result struct {
		fx  *Fixture
		err error
	}
	ch := make(chan result, len(fixtures))
	sem := make(chan struct{}, 8)
	for _, fx := range fixtures {
		fx := fx
		go func() {
			sem <- struct{}{}
			defer func() { <-sem }()
			args := []string{"--target", fx.Dir, "--package", fx.Package}
			if fx.Config != "" {
				args = append(args, "--config", fx.Config)
			}
			args = append(args, fx.Spec)
			cmd := exec.Command(bin, args...)
			cmd.Dir = filepath.Dir(fx.Origin)
			cmd.Env = goEnv() // goimports inside the generator shells out to `go`: keep it offline and on the local toolchain
			var out bytes.Buffer
			cmd.Stdout, cmd.Stderr = &out, &out
			if err := cmd.Run(); err != nil {
				tail := out.String()
				if len(tail) > 1500 {
					tail = tail[len(tail)-1500:]
				}
				ch <- result{fx, fmt.Errorf("S2: expanding %s failed: %v\n%s", fx.Name, err, tail)}
				return
			}
			ch <- result{fx, nil}
		}()
	}
	for range fixtures {
		r := <-ch
		if r.err != nil {
			return nil, r.err
		}
	}
	sort.Slice(fixtures, func(i, j int) bool { return fixtures[i].Name < fixtures[j].Name })
	ex.Fixtures = fixtures
	// scratch module
	gomod := "module expansions\n\ngo 1.23\n\nrequire " + Module + " v0.0.0\n\nreplace " + Module + " => " + c.Repo + "\n"
	if err := os.WriteFile(filepath.Join(ex.Dir, "go.mod"), []byte(gomod), 0o644); err != nil {
		return nil, err
	}
	if sum, err := os.ReadFile(filepath.Join(c.Repo, "go.sum")); err == nil {
		os.WriteFile(filepath.Join(ex.Dir, "go.sum"), sum, 0o644)
	}
	// generated test files are not part of the analysed program
	filepath.Walk(ex.Dir, func(p string, info os.FileInfo, err error) error {
		if err == nil && strings.HasSuffix(p, "_test.go") {
			os.Remove(p)
		}
		return nil
	})
	prog, err := c.ProgramIn(ex.Dir, nil, "./...")
	if err != nil {
		return nil, fmt.Errorf("S2: expansions do not load/type-check: %w", err)
	}
	ex.Prog = prog
	os.Remove(bin)
	c.expanded = ex
	return ex, nil
}

// FixtureNames lists the expanded fixtures.
func (e *Expansion) FixtureNames() []string {
	var out []string
	for _, f := range e.Fixtures {
		out = append(out, f.Name)
	}
	return out
}

func fileExists(p string) bool {
	st, err := os.Stat(p)
	return err == nil && !st.IsDir()
}
