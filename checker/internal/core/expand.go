package core

// Expansion is the S2 subject: templates expanded over fixture specs.
type Expansion struct {
	Dir string
}
