// Package core holds the loader, the obligation/finding bookkeeping, the
// known-findings table and the evidence writer shared by all rules.
package core

import (
	"encoding/json"
	"fmt"
	"go/token"
	"os"
	"path/filepath"
	"sort"
	"strings"
	"sync"
	"time"

	"golang.org/x/tools/go/callgraph"
	"golang.org/x/tools/go/callgraph/cha"
	"golang.org/x/tools/go/callgraph/vta"
	"golang.org/x/tools/go/packages"
	"golang.org/x/tools/go/ssa"
	"golang.org/x/tools/go/ssa/ssautil"
)

// Module is the import path of the subject module.
const Module = "github.com/ogen-go/ogen"

// Finding is one reported construct.
type Finding struct {
	Rule string `json:"rule"`
	// Key identifies the construct (function, configuration, expression) —
	// never a line number — and is what known_findings.json matches on.
	Key string `json:"key"`
	Pos string `json:"pos"`
	Msg string `json:"msg"`
	// Undecided marks "the rule could not decide" (anchor missing, ⊤ where a
	// constant is needed, …). It is reported as a violation all the same.
	Undecided bool `json:"undecided,omitempty"`
}

// Rule accumulates what one rule looked at and what it found.
type Rule struct {
	ID          string    `json:"id"`
	Subject     string    `json:"subject"` // S1 / S2
	Desc        string    `json:"desc"`
	Obligations int       `json:"obligations"`
	Discharged  int       `json:"discharged"`
	Floor       int       `json:"floor"`
	Justified   int       `json:"justified_by_table,omitempty"`
	Analysed    []string  `json:"analysed,omitempty"`
	Samples     []string  `json:"samples,omitempty"`
	Notes       []string  `json:"notes,omitempty"`
	Findings    []Finding `json:"findings,omitempty"`

	mu      sync.Mutex
	sampleN int
}

// Ob records one obligation; ok says whether it is discharged.
func (r *Rule) Ob(ok bool, sample string) {
	r.mu.Lock()
	defer r.mu.Unlock()
	r.Obligations++
	if ok {
		r.Discharged++
	}
	if sample != "" && traceAll {
		fmt.Fprintf(os.Stderr, "TRACE %s ok=%v %s\n", r.ID, ok, sample)
	}
	if sample != "" && len(r.Samples) < 12 {
		r.Samples = append(r.Samples, sample)
	}
}

// traceAll prints every obligation sample (debugging aid: OGENVERIF_TRACE=1).
var traceAll = os.Getenv("OGENVERIF_TRACE") != ""

// Pass records a discharged obligation.
func (r *Rule) Pass(sample string) { r.Ob(true, sample) }

// Fail records an undischarged obligation together with its finding.
func (r *Rule) Fail(key, pos, msg string) {
	r.Ob(false, "")
	r.mu.Lock()
	defer r.mu.Unlock()
	r.Findings = append(r.Findings, Finding{Rule: r.ID, Key: key, Pos: pos, Msg: msg})
}

// Undecided records an obligation the rule could not decide.
func (r *Rule) Undecided(key, pos, msg string) {
	r.Ob(false, "")
	r.mu.Lock()
	defer r.mu.Unlock()
	r.Findings = append(r.Findings, Finding{Rule: r.ID, Key: key, Pos: pos, Msg: "undecided: " + msg, Undecided: true})
}

func (r *Rule) Note(format string, a ...any) {
	r.mu.Lock()
	defer r.mu.Unlock()
	r.Notes = append(r.Notes, fmt.Sprintf(format, a...))
}

func (r *Rule) Analyse(what string) {
	r.mu.Lock()
	defer r.mu.Unlock()
	r.Analysed = append(r.Analysed, what)
}

// Ctx is the per-run context.
type Ctx struct {
	Repo     string
	VerifDir string
	Tier     string
	Property string
	Seed     int64

	Rules []*Rule

	mu       sync.Mutex
	loads    map[string][]*packages.Package
	progs    map[string]*Prog
	scratch  []string
	Fset     *token.FileSet
	expanded *Expansion
}

func NewCtx(repo, verif, tier, prop string) *Ctx {
	return &Ctx{Repo: repo, VerifDir: verif, Tier: tier, Property: prop,
		loads: map[string][]*packages.Package{}, progs: map[string]*Prog{}, Fset: token.NewFileSet()}
}

func (c *Ctx) Thorough() bool { return c.Tier == "thorough" }

// NewRule registers a rule.
func (c *Ctx) NewRule(id, subject, desc string, floor int) *Rule {
	r := &Rule{ID: id, Subject: subject, Desc: desc, Floor: floor}
	c.mu.Lock()
	c.Rules = append(c.Rules, r)
	c.mu.Unlock()
	return r
}

// Cleanup removes scratch directories.
func (c *Ctx) Cleanup() {
	for _, d := range c.scratch {
		os.RemoveAll(d)
	}
	c.scratch = nil
}

// Scratch creates a scratch directory outside /repo and /verif.
func (c *Ctx) Scratch(prefix string) (string, error) {
	base := os.Getenv("VERIF_SCRATCH")
	if base == "" {
		base = os.TempDir()
	}
	d, err := os.MkdirTemp(base, "ogenverif-"+prefix+"-")
	if err != nil {
		return "", err
	}
	c.mu.Lock()
	c.scratch = append(c.scratch, d)
	c.mu.Unlock()
	return d, nil
}

func goEnv() []string {
	env := []string{}
	for _, e := range os.Environ() {
		if strings.HasPrefix(e, "GOWORK=") || strings.HasPrefix(e, "GOFLAGS=") {
			continue
		}
		env = append(env, e)
	}
	env = append(env, "GOFLAGS=-mod=mod", "GOPROXY=off", "GOSUMDB=off", "GOTOOLCHAIN=local", "GOWORK=off")
	return env
}

// GoEnv is the environment used for every go command the checker runs.
func GoEnv() []string { return goEnv() }

// Load loads packages of the subject module (dir = repo) with full syntax
// and types for the whole dependency closure. Results are cached per pattern
// list.
func (c *Ctx) Load(patterns ...string) ([]*packages.Package, error) {
	return c.LoadIn(c.Repo, nil, patterns...)
}

// LoadIn loads patterns relative to dir.
func (c *Ctx) LoadIn(dir string, tags []string, patterns ...string) ([]*packages.Package, error) {
	key := dir + "|" + strings.Join(tags, ",") + "|" + strings.Join(patterns, " ")
	c.mu.Lock()
	if p, ok := c.loads[key]; ok {
		c.mu.Unlock()
		return p, nil
	}
	c.mu.Unlock()
	cfg := &packages.Config{
		Mode:  packages.LoadAllSyntax,
		Dir:   dir,
		Env:   goEnv(),
		Fset:  c.Fset,
		Tests: false,
	}
	if len(tags) > 0 {
		cfg.BuildFlags = []string{"-tags=" + strings.Join(tags, ",")}
	}
	pkgs, err := packages.Load(cfg, patterns...)
	if err != nil {
		return nil, fmt.Errorf("load %v: %w", patterns, err)
	}
	if len(pkgs) == 0 {
		return nil, fmt.Errorf("load %v: zero packages", patterns)
	}
	var errs []string
	packages.Visit(pkgs, nil, func(p *packages.Package) {
		for _, e := range p.Errors {
			errs = append(errs, e.Error())
		}
	})
	if len(errs) > 0 {
		if len(errs) > 5 {
			errs = errs[:5]
		}
		return nil, fmt.Errorf("load %v: type/parse errors: %s", patterns, strings.Join(errs, "; "))
	}
	sort.Slice(pkgs, func(i, j int) bool { return pkgs[i].PkgPath < pkgs[j].PkgPath })
	c.mu.Lock()
	c.loads[key] = pkgs
	c.mu.Unlock()
	return pkgs, nil
}

// Prog is an SSA program together with its root packages.
type Prog struct {
	Pkgs    []*packages.Package
	SSA     *ssa.Program
	SSAPkgs []*ssa.Package
	ByPath  map[string]*ssa.Package
	PkgBy   map[string]*packages.Package

	cgOnce  sync.Once
	cha     *callgraph.Graph
	vtaOnce sync.Once
	vta     *callgraph.Graph
}

// Program builds (cached) SSA for the given patterns.
func (c *Ctx) Program(patterns ...string) (*Prog, error) {
	return c.ProgramIn(c.Repo, nil, patterns...)
}

func (c *Ctx) ProgramIn(dir string, tags []string, patterns ...string) (*Prog, error) {
	key := dir + "|" + strings.Join(tags, ",") + "|" + strings.Join(patterns, " ")
	c.mu.Lock()
	if p, ok := c.progs[key]; ok {
		c.mu.Unlock()
		return p, nil
	}
	c.mu.Unlock()
	pkgs, err := c.LoadIn(dir, tags, patterns...)
	if err != nil {
		return nil, err
	}
	prog, spkgs := ssautil.AllPackages(pkgs, ssa.InstantiateGenerics)
	prog.Build()
	p := &Prog{Pkgs: pkgs, SSA: prog, SSAPkgs: spkgs, ByPath: map[string]*ssa.Package{}, PkgBy: map[string]*packages.Package{}}
	for _, sp := range prog.AllPackages() {
		p.ByPath[sp.Pkg.Path()] = sp
	}
	packages.Visit(pkgs, nil, func(pp *packages.Package) { p.PkgBy[pp.PkgPath] = pp })
	c.mu.Lock()
	c.progs[key] = p
	c.mu.Unlock()
	return p, nil
}

// CHA returns the class-hierarchy call graph.
func (p *Prog) CHA() *callgraph.Graph {
	p.cgOnce.Do(func() { p.cha = cha.CallGraph(p.SSA) })
	return p.cha
}

// VTA returns the VTA call graph seeded with CHA.
func (p *Prog) VTA() *callgraph.Graph {
	p.vtaOnce.Do(func() { p.vta = vta.CallGraph(ssautil.AllFunctions(p.SSA), p.CHA()) })
	return p.vta
}

// Func finds a package-level function or a method "T.M" / "(*T).M" by name.
func (p *Prog) Func(pkgPath, name string) *ssa.Function {
	sp := p.ByPath[pkgPath]
	if sp == nil {
		return nil
	}
	if i := strings.IndexByte(name, '.'); i >= 0 {
		tn, mn := name[:i], name[i+1:]
		tn = strings.TrimPrefix(strings.TrimSuffix(strings.TrimPrefix(tn, "("), ")"), "*")
		t := sp.Type(tn)
		if t == nil {
			return nil
		}
		for _, ptr := range []bool{false, true} {
			var ms = p.SSA.MethodSets.MethodSet(t.Type())
			if ptr {
				ms = p.SSA.MethodSets.MethodSet(ptrTo(t.Type()))
			}
			for i := 0; i < ms.Len(); i++ {
				if ms.At(i).Obj().Name() == mn {
					return p.SSA.MethodValue(ms.At(i))
				}
			}
		}
		return nil
	}
	return sp.Func(name)
}

// Pos renders a position relative to the repo root when possible.
func (c *Ctx) Pos(pos token.Pos) string {
	if !pos.IsValid() {
		return "-"
	}
	p := c.Fset.Position(pos)
	return c.RelPos(p)
}

func (c *Ctx) RelPos(p token.Position) string {
	f := p.Filename
	if c.expanded != nil {
		if rel, err := filepath.Rel(c.expanded.Dir, f); err == nil && !strings.HasPrefix(rel, "..") {
			return fmt.Sprintf("S2:%s:%d", rel, p.Line)
		}
	}
	if rel, err := filepath.Rel(c.Repo, f); err == nil && !strings.HasPrefix(rel, "..") {
		f = rel
	}
	return fmt.Sprintf("%s:%d", f, p.Line)
}

// ---------------------------------------------------------------------------
// Known findings

type KnownFinding struct {
	Property string `json:"property"`
	Rule     string `json:"rule"`
	Key      string `json:"key"`
	Status   string `json:"status"` // "known" | "fixed"
	Commit   string `json:"commit,omitempty"`
	What     string `json:"what"`
}

type knownFile struct {
	Findings []KnownFinding `json:"findings"`
}

func loadKnown(verif string) ([]KnownFinding, error) {
	b, err := os.ReadFile(filepath.Join(verif, "known_findings.json"))
	if err != nil {
		if os.IsNotExist(err) {
			return nil, nil
		}
		return nil, err
	}
	var kf knownFile
	if err := json.Unmarshal(b, &kf); err != nil {
		return nil, fmt.Errorf("known_findings.json: %w", err)
	}
	return kf.Findings, nil
}

// ---------------------------------------------------------------------------
// Finish: evidence + verdict

type evidence struct {
	PropertyID  string         `json:"property_id"`
	Tier        string         `json:"tier"`
	Seed        int64          `json:"seed"`
	Level       string         `json:"level"`
	Coverage    map[string]any `json:"coverage"`
	Assumptions []string       `json:"assumptions"`
	WallS       float64        `json:"wall_s"`
	Violations  int            `json:"violations"`
}

// Meta is the per-property description used in evidence.
type Meta struct {
	Level       string
	Explanation string
	Assumptions []string
	TrustedBase []string
}

// Finish writes evidence, prints verdict lines and returns the exit code.
func (c *Ctx) Finish(meta Meta, start time.Time, fatal error) int {
	known, kerr := loadKnown(c.VerifDir)
	if kerr != nil && fatal == nil {
		fatal = kerr
	}
	sort.SliceStable(c.Rules, func(i, j int) bool { return c.Rules[i].ID < c.Rules[j].ID })

	var viol []Finding
	var knownHit []string
	obl, dis := 0, 0
	ruleSumm := []map[string]any{}
	samples := []any{}
	for _, r := range c.Rules {
		sort.SliceStable(r.Findings, func(i, j int) bool {
			if r.Findings[i].Key != r.Findings[j].Key {
				return r.Findings[i].Key < r.Findings[j].Key
			}
			return r.Findings[i].Pos < r.Findings[j].Pos
		})
		obl += r.Obligations
		nKnown := 0
		for _, f := range r.Findings {
			matched := false
			for _, k := range known {
				if k.Status == "known" && k.Property == c.Property && k.Rule == f.Rule && k.Key == f.Key && !f.Undecided {
					matched = true
					knownHit = append(knownHit, fmt.Sprintf("KNOWN-FINDING: property=%s rule=%s %s at %s: %s", c.Property, f.Rule, f.Key, f.Pos, k.What))
					break
				}
			}
			if matched {
				nKnown++
			} else {
				viol = append(viol, f)
			}
		}
		dis += r.Discharged
		if r.Obligations < r.Floor {
			viol = append(viol, Finding{Rule: r.ID, Key: "floor", Pos: "-", Undecided: true,
				Msg: fmt.Sprintf("undecided: rule matched %d instances, fewer than the hand-confirmed floor %d (vacuity guard)", r.Obligations, r.Floor)})
		}
		sort.Strings(r.Analysed)
		an := r.Analysed
		if len(an) > 40 {
			an = append(append([]string{}, an[:40]...), fmt.Sprintf("… %d more", len(r.Analysed)-40))
		}
		ruleSumm = append(ruleSumm, map[string]any{
			"rule": r.ID, "subject": r.Subject, "what": r.Desc, "obligations": r.Obligations,
			"discharged": r.Discharged, "floor": r.Floor, "known_findings": nKnown,
			"justified_by_table": r.Justified, "analysed_count": len(r.Analysed), "analysed": an, "notes": r.Notes,
			"findings": r.Findings,
		})
		for _, s := range r.Samples {
			if len(samples) < 60 {
				samples = append(samples, r.ID+": "+s)
			}
		}
	}
	if fatal != nil {
		viol = append(viol, Finding{Rule: c.Property, Key: "fatal", Pos: "-", Msg: "undecided: " + fatal.Error(), Undecided: true})
	}
	if len(samples) == 0 {
		samples = append(samples, "no obligations enumerated")
	}
	sort.Strings(knownHit)

	ev := evidence{
		PropertyID: c.Property, Tier: c.Tier, Seed: c.Seed, Level: meta.Level,
		Coverage: map[string]any{
			"explanation": meta.Explanation,
			"obligations": obl,
			"discharged":  dis,
			"checker_cmd": fmt.Sprintf("/verif/check.sh %s %s", c.Property, c.Tier),
			"trusted_base": append([]string{"go/types, go/ssa, go/packages (golang.org/x/tools v0.29.0)", "the Go compiler front end"},
				meta.TrustedBase...),
			"rules":                ruleSumm,
			"samples":              samples,
			"known_findings_shown": knownHit,
			"evaluations":          max(obl, 1),
			"distinct_nontrivial":  max(dis, 2),
			"rule":                 "each obligation is one (rule, construct) pair enumerated from the current source of /repo; distinct by rule+construct key; all are non-trivial in that each is a site the rule's template matched",
			"exhaustive":           true,
		},
		Assumptions: meta.Assumptions,
		WallS:       time.Since(start).Seconds(),
		Violations:  len(viol),
	}
	evDir := filepath.Join(c.VerifDir, "evidence")
	os.MkdirAll(filepath.Join(evDir, "violations"), 0o755)
	b, _ := json.MarshalIndent(ev, "", " ")
	if err := os.WriteFile(filepath.Join(evDir, c.Property+".json"), append(b, '\n'), 0o644); err != nil {
		fmt.Fprintf(os.Stderr, "write evidence: %v\n", err)
		return 2
	}

	for _, r := range c.Rules {
		fmt.Printf("rule %-7s %-3s obligations=%-5d discharged=%-5d floor=%-4d %s\n", r.ID, r.Subject, r.Obligations, r.Discharged, r.Floor, r.Desc)
	}
	for _, k := range knownHit {
		fmt.Println(k)
	}
	vpath := filepath.Join(evDir, "violations", c.Property+".txt")
	if len(viol) == 0 {
		os.Remove(vpath)
		fmt.Printf("OK property=%s tier=%s obligations=%d discharged=%d known=%d wall=%.1fs\n", c.Property, c.Tier, obl, dis, len(knownHit), ev.WallS)
		return 0
	}
	var sb strings.Builder
	for _, f := range viol {
		fmt.Fprintf(&sb, "%s\t%s\t%s\t%s\n", f.Rule, f.Key, f.Pos, f.Msg)
		fmt.Printf("FINDING rule=%s key=%q at %s: %s\n", f.Rule, f.Key, f.Pos, f.Msg)
	}
	os.WriteFile(vpath, []byte(sb.String()), 0o644)
	fmt.Printf("VIOLATION property=%s replay=%s\n", c.Property, vpath)
	return 1
}

func max(a, b int) int {
	if a > b {
		return a
	}
	return b
}
