package panicob

import (
	"fmt"
	"go/ast"
	"go/constant"
	"go/token"
	"go/types"
	"sort"
	"strings"

	"golang.org/x/tools/go/ast/astutil"
)

// lin is Σ coef[a]·a + k over integer atoms.
type lin struct {
	coef map[string]int64
	k    int64
}

func (l lin) clone() lin {
	m := make(map[string]int64, len(l.coef))
	for a, c := range l.coef {
		m[a] = c
	}
	return lin{m, l.k}
}

func (l lin) add(o lin, s int64) lin {
	r := l.clone()
	for a, c := range o.coef {
		r.coef[a] += s * c
		if r.coef[a] == 0 {
			delete(r.coef, a)
		}
	}
	r.k += s * o.k
	return r
}

func (l lin) isConst() bool { return len(l.coef) == 0 }

func (l lin) String() string {
	var as []string
	for a := range l.coef {
		as = append(as, a)
	}
	sort.Strings(as)
	var sb strings.Builder
	for _, a := range as {
		fmt.Fprintf(&sb, "%+d·%s ", l.coef[a], a)
	}
	fmt.Fprintf(&sb, "%+d", l.k)
	return sb.String()
}

func konst(k int64) lin { return lin{map[string]int64{}, k} }

// fact is "l ≥ 0", established at position at.
type fact struct {
	l    lin
	at   token.Pos
	why  string
	deps map[types.Object]bool
	// sel: some atom is rooted in a selector / pointer path, so calls that
	// mention the root may invalidate it.
	sel bool
	// global: flow-insensitive invariant, never killed.
	global bool
}

// env analyses one function body.
type env struct {
	info *types.Info
	fset *token.FileSet
	fn   ast.Node // *ast.FuncDecl or *ast.FuncLit
	body *ast.BlockStmt

	atoms    map[string]atomInfo
	assigns  map[types.Object][]token.Pos // positions where obj is (re)assigned, excluding its declaration
	defs     map[types.Object][]ast.Expr  // all values assigned, nil entry for unknown/increment handled separately
	incOnly  map[types.Object]bool
	addrOf   map[types.Object]bool
	calls    []callInfo
	gotoLbl  []token.Pos
	nonNeg   map[types.Object]int // 0 unknown, 1 in progress, 2 yes, 3 no
	litSpans [][2]token.Pos
}

type atomInfo struct {
	deps map[types.Object]bool
	sel  bool
}

type callInfo struct {
	pos  token.Pos
	objs map[types.Object]bool
}

func newEnv(info *types.Info, fset *token.FileSet, fn ast.Node) *env {
	e := &env{info: info, fset: fset, fn: fn, atoms: map[string]atomInfo{},
		assigns: map[types.Object][]token.Pos{}, defs: map[types.Object][]ast.Expr{},
		incOnly: map[types.Object]bool{}, addrOf: map[types.Object]bool{}, nonNeg: map[types.Object]int{}}
	switch f := fn.(type) {
	case *ast.FuncDecl:
		e.body = f.Body
	case *ast.FuncLit:
		e.body = f.Body
	}
	if e.body != nil {
		e.scan()
	}
	return e
}

func (e *env) obj(id *ast.Ident) types.Object {
	if o := e.info.Uses[id]; o != nil {
		return o
	}
	return e.info.Defs[id]
}

func rootIdent(x ast.Expr) *ast.Ident {
	for {
		switch v := x.(type) {
		case *ast.Ident:
			return v
		case *ast.SelectorExpr:
			x = v.X
		case *ast.IndexExpr:
			x = v.X
		case *ast.StarExpr:
			x = v.X
		case *ast.ParenExpr:
			x = v.X
		case *ast.SliceExpr:
			x = v.X
		default:
			return nil
		}
	}
}

// scan records assignments, address-of, calls and goto labels.
func (e *env) scan() {
	targets := map[string]bool{}
	ast.Inspect(e.body, func(n ast.Node) bool {
		if b, ok := n.(*ast.BranchStmt); ok && b.Tok == token.GOTO && b.Label != nil {
			targets[b.Label.Name] = true
		}
		return true
	})
	record := func(lhs ast.Expr, rhs ast.Expr, pos token.Pos, isDef bool) {
		id := rootIdent(lhs)
		if id == nil {
			return
		}
		o := e.obj(id)
		if o == nil {
			return
		}
		if _, plain := lhs.(*ast.Ident); plain {
			e.defs[o] = append(e.defs[o], rhs)
			if isDef && e.info.Defs[id] != nil {
				return // declaration, not a re-assignment
			}
		}
		e.assigns[o] = append(e.assigns[o], pos)
	}
	ast.Inspect(e.body, func(n ast.Node) bool {
		switch n := n.(type) {
		case *ast.LabeledStmt:
			if targets[n.Label.Name] {
				e.gotoLbl = append(e.gotoLbl, n.Pos())
			}
		case *ast.FuncLit:
			e.litSpans = append(e.litSpans, [2]token.Pos{n.Pos(), n.End()})
		case *ast.AssignStmt:
			for i, l := range n.Lhs {
				var r ast.Expr
				if len(n.Rhs) == len(n.Lhs) {
					r = n.Rhs[i]
				}
				if n.Tok != token.ASSIGN && n.Tok != token.DEFINE {
					// op-assign: keep as synthetic binary expr for nonNeg analysis
					if len(n.Rhs) == 1 {
						op := map[token.Token]token.Token{token.ADD_ASSIGN: token.ADD, token.SUB_ASSIGN: token.SUB, token.MUL_ASSIGN: token.MUL,
							token.QUO_ASSIGN: token.QUO, token.REM_ASSIGN: token.REM, token.SHR_ASSIGN: token.SHR, token.AND_ASSIGN: token.AND}[n.Tok]
						if op != 0 {
							r = &ast.BinaryExpr{X: l, Op: op, Y: n.Rhs[0]}
						} else {
							r = nil
						}
					}
				}
				record(l, r, n.End(), n.Tok == token.DEFINE)
			}
		case *ast.IncDecStmt:
			var r ast.Expr
			if n.Tok == token.INC {
				r = &ast.BinaryExpr{X: n.X, Op: token.ADD, Y: &ast.BasicLit{Kind: token.INT, Value: "1"}}
			} else {
				r = &ast.BinaryExpr{X: n.X, Op: token.SUB, Y: &ast.BasicLit{Kind: token.INT, Value: "1"}}
			}
			record(n.X, r, n.End(), false)
		case *ast.RangeStmt:
			if n.Key != nil {
				if id, ok := n.Key.(*ast.Ident); ok {
					if o := e.obj(id); o != nil {
						e.defs[o] = append(e.defs[o], rangeKeyMarker)
						if n.Tok != token.DEFINE {
							e.assigns[o] = append(e.assigns[o], n.Pos())
						}
					}
				}
			}
			if n.Value != nil {
				if id, ok := n.Value.(*ast.Ident); ok {
					if o := e.obj(id); o != nil {
						e.defs[o] = append(e.defs[o], nil)
						if n.Tok != token.DEFINE {
							e.assigns[o] = append(e.assigns[o], n.Pos())
						}
					}
				}
			}
		case *ast.ValueSpec:
			for i, id := range n.Names {
				if o := e.info.Defs[id]; o != nil {
					if i < len(n.Values) {
						e.defs[o] = append(e.defs[o], n.Values[i])
					} else if len(n.Values) == 0 {
						e.defs[o] = append(e.defs[o], &ast.BasicLit{Kind: token.INT, Value: "0"})
					} else {
						e.defs[o] = append(e.defs[o], nil)
					}
				}
			}
		case *ast.UnaryExpr:
			if n.Op == token.AND {
				if id := rootIdent(n.X); id != nil {
					if o := e.obj(id); o != nil {
						e.addrOf[o] = true
					}
				}
			}
		case *ast.CallExpr:
			ci := callInfo{pos: n.Pos(), objs: map[types.Object]bool{}}
			ast.Inspect(n, func(m ast.Node) bool {
				if id, ok := m.(*ast.Ident); ok {
					if o := e.obj(id); o != nil {
						if _, isVar := o.(*types.Var); isVar {
							ci.objs[o] = true
						}
					}
				}
				return true
			})
			if tv, ok := e.info.Types[n.Fun]; ok && tv.IsType() {
				break // conversion
			}
			if id, ok := n.Fun.(*ast.Ident); ok {
				// builtins never change the length of any slice/string other than through
				// the assignment of their result, which is recorded as an assignment
				if _, isB := e.obj(id).(*types.Builtin); isB {
					break
				}
			}
			e.calls = append(e.calls, ci)
		}
		return true
	})
}

var rangeKeyMarker = &ast.BasicLit{Kind: token.INT, Value: "0"}

// isNonNegExpr: flow-insensitive "expression is ≥ 0".
func (e *env) isNonNegExpr(x ast.Expr) bool {
	if x == nil {
		return false
	}
	if tv, ok := e.info.Types[x]; ok {
		if tv.Value != nil {
			if tv.Value.Kind() == constant.Int {
				return constant.Sign(tv.Value) >= 0
			}
			return false
		}
		if b, ok := tv.Type.Underlying().(*types.Basic); ok && b.Info()&types.IsUnsigned != 0 {
			return true
		}
	}
	switch v := x.(type) {
	case *ast.BasicLit:
		return v.Kind == token.INT && !strings.HasPrefix(v.Value, "-")
	case *ast.ParenExpr:
		return e.isNonNegExpr(v.X)
	case *ast.Ident:
		if o, ok := e.obj(v).(*types.Var); ok {
			return e.isNonNegVar(o)
		}
	case *ast.BinaryExpr:
		switch v.Op {
		case token.ADD, token.MUL, token.QUO, token.REM, token.SHR, token.AND:
			return e.isNonNegExpr(v.X) && e.isNonNegExpr(v.Y)
		}
	case *ast.CallExpr:
		if id, ok := v.Fun.(*ast.Ident); ok {
			if _, isB := e.obj(id).(*types.Builtin); isB {
				switch id.Name {
				case "len", "cap", "copy":
					return true
				case "min":
					for _, a := range v.Args {
						if !e.isNonNegExpr(a) {
							return false
						}
					}
					return true
				case "max":
					for _, a := range v.Args {
						if e.isNonNegExpr(a) {
							return true
						}
					}
				}
			}
		}
		// conversion of a non-negative value to a signed integer type
		if tv, ok := e.info.Types[v.Fun]; ok && tv.IsType() && len(v.Args) == 1 {
			if b, ok := tv.Type.Underlying().(*types.Basic); ok && b.Info()&types.IsInteger != 0 {
				if at, ok := e.info.Types[v.Args[0]]; ok {
					if ab, ok := at.Type.Underlying().(*types.Basic); ok && ab.Info()&types.IsInteger != 0 && intWidth(ab) < intWidth(b) {
						if ab.Info()&types.IsUnsigned != 0 {
							return true
						}
					}
				}
				// an unsigned source of the same width wraps to a negative value (int(uint64(1<<63)) < 0)
				if at, ok := e.info.Types[v.Args[0]]; ok {
					if ab, ok := at.Type.Underlying().(*types.Basic); ok && ab.Info()&types.IsUnsigned != 0 && b.Info()&types.IsUnsigned == 0 {
						return false
					}
				}
				return e.isNonNegExpr(v.Args[0]) && sameOrWider(e.info, v.Args[0], b)
			}
		}
		// utf8.DecodeRuneInString size etc. are not modelled.
	}
	return false
}

func sameOrWider(info *types.Info, x ast.Expr, to *types.Basic) bool {
	if at, ok := info.Types[x]; ok {
		if ab, ok := at.Type.Underlying().(*types.Basic); ok && ab.Info()&types.IsInteger != 0 {
			return intWidth(ab) <= intWidth(to)
		}
	}
	return false
}

func intWidth(b *types.Basic) int {
	switch b.Kind() {
	case types.Int8, types.Uint8:
		return 8
	case types.Int16, types.Uint16:
		return 16
	case types.Int32, types.Uint32:
		return 32
	default:
		return 64
	}
}

// isNonNegVar: every assignment to v in the function assigns a non-negative
// value (or increments it); parameters only when unsigned.
func (e *env) isNonNegVar(o *types.Var) bool {
	switch e.nonNeg[o] {
	case 1, 2:
		return true // in progress: coinductive (v = v + 1)
	case 3:
		return false
	}
	if b, ok := o.Type().Underlying().(*types.Basic); ok && b.Info()&types.IsUnsigned != 0 {
		e.nonNeg[o] = 2
		return true
	}
	ds, ok := e.defs[o]
	if !ok || len(ds) == 0 || e.addrOf[o] {
		e.nonNeg[o] = 3
		return false
	}
	// must be declared inside this function body (not a parameter or captured)
	if e.body == nil || o.Pos() < e.body.Pos() || o.Pos() > e.body.End() {
		e.nonNeg[o] = 3
		return false
	}
	e.nonNeg[o] = 1
	for _, d := range ds {
		if !e.isNonNegExpr(d) {
			e.nonNeg[o] = 3
			return false
		}
	}
	e.nonNeg[o] = 2
	return true
}

// pathKey renders a stable path expression (ident / selector chain) and its
// root object; ok=false for anything else.
func (e *env) pathKey(x ast.Expr) (key string, root types.Object, sel bool, ok bool) {
	switch v := x.(type) {
	case *ast.ParenExpr:
		return e.pathKey(v.X)
	case *ast.Ident:
		o := e.obj(v)
		if o == nil {
			return "", nil, false, false
		}
		if _, isVar := o.(*types.Var); !isVar {
			return "", nil, false, false
		}
		return fmt.Sprintf("%s@%d", v.Name, o.Pos()), o, false, true
	case *ast.SelectorExpr:
		k, r, _, ok := e.pathKey(v.X)
		if !ok {
			return "", nil, false, false
		}
		if s := e.info.Selections[v]; s == nil || s.Kind() != types.FieldVal {
			return "", nil, false, false
		}
		return k + "." + v.Sel.Name, r, true, true
	case *ast.StarExpr:
		k, r, _, ok := e.pathKey(v.X)
		if !ok {
			return "", nil, false, false
		}
		return "*" + k, r, true, true
	}
	return "", nil, false, false
}

func (e *env) atom(key string, root types.Object, sel bool) lin {
	ai := e.atoms[key]
	if ai.deps == nil {
		ai.deps = map[types.Object]bool{}
	}
	if root != nil {
		ai.deps[root] = true
	}
	ai.sel = ai.sel || sel
	e.atoms[key] = ai
	return lin{map[string]int64{key: 1}, 0}
}

// toLin converts an integer expression to linear form.
func (e *env) toLin(x ast.Expr) (lin, bool) {
	if tv, ok := e.info.Types[x]; ok && tv.Value != nil {
		if tv.Value.Kind() == constant.Int {
			if i, ok := constant.Int64Val(tv.Value); ok {
				return konst(i), true
			}
		}
		return lin{}, false
	}
	switch v := x.(type) {
	case *ast.ParenExpr:
		return e.toLin(v.X)
	case *ast.BasicLit:
		return lin{}, false
	case *ast.Ident, *ast.SelectorExpr, *ast.StarExpr:
		k, r, sel, ok := e.pathKey(x)
		if !ok {
			return lin{}, false
		}
		if !isIntType(e.info.TypeOf(x)) {
			return lin{}, false
		}
		return e.atom(k, r, sel), true
	case *ast.BinaryExpr:
		switch v.Op {
		case token.ADD, token.SUB:
			a, ok1 := e.toLin(v.X)
			b, ok2 := e.toLin(v.Y)
			if !ok1 || !ok2 {
				return lin{}, false
			}
			s := int64(1)
			if v.Op == token.SUB {
				s = -1
			}
			return a.add(b, s), true
		case token.MUL:
			a, ok1 := e.toLin(v.X)
			b, ok2 := e.toLin(v.Y)
			if ok1 && ok2 {
				if a.isConst() {
					return konst(0).add(b, a.k), true
				}
				if b.isConst() {
					return konst(0).add(a, b.k), true
				}
			}
		}
	case *ast.CallExpr:
		if id, ok := v.Fun.(*ast.Ident); ok && len(v.Args) == 1 {
			if _, isB := e.obj(id).(*types.Builtin); isB && id.Name == "len" {
				return e.lenOf(v.Args[0])
			}
		}
		// integer conversion int(x) of an int-typed expression of the same or
		// narrower width: value preserving
		if tv, ok := e.info.Types[v.Fun]; ok && tv.IsType() && len(v.Args) == 1 {
			if b, ok := tv.Type.Underlying().(*types.Basic); ok && b.Info()&types.IsInteger != 0 && b.Info()&types.IsUnsigned == 0 {
				if at, ok := e.info.Types[v.Args[0]]; ok {
					if ab, ok := at.Type.Underlying().(*types.Basic); ok && ab.Info()&types.IsInteger != 0 &&
						(intWidth(ab) < intWidth(b) || (intWidth(ab) == intWidth(b) && ab.Info()&types.IsUnsigned == 0)) {
						return e.toLin(v.Args[0])
					}
				}
			}
		}
	}
	return lin{}, false
}

func isIntType(t types.Type) bool {
	if t == nil {
		return false
	}
	b, ok := t.Underlying().(*types.Basic)
	return ok && b.Info()&types.IsInteger != 0
}

// lenOf gives the linear form of len(x): a constant for arrays and constant
// strings, an atom for stable paths.
func (e *env) lenOf(x ast.Expr) (lin, bool) {
	t := e.info.TypeOf(x)
	if t != nil {
		u := t.Underlying()
		if p, ok := u.(*types.Pointer); ok {
			u = p.Elem().Underlying()
		}
		if a, ok := u.(*types.Array); ok {
			return konst(a.Len()), true
		}
	}
	if tv, ok := e.info.Types[x]; ok && tv.Value != nil && tv.Value.Kind() == constant.String {
		return konst(int64(len(constant.StringVal(tv.Value)))), true
	}
	k, r, sel, ok := e.pathKey(x)
	if !ok {
		return lin{}, false
	}
	return e.atom("len("+k+")", r, sel), true
}

// condFacts turns a boolean condition (assumed to have truth value val) into
// facts.
func (e *env) condFacts(cond ast.Expr, val bool, at token.Pos, out *[]fact) {
	switch v := cond.(type) {
	case *ast.ParenExpr:
		e.condFacts(v.X, val, at, out)
		return
	case *ast.UnaryExpr:
		if v.Op == token.NOT {
			e.condFacts(v.X, !val, at, out)
		}
		return
	case *ast.BinaryExpr:
		switch v.Op {
		case token.LAND:
			if val {
				e.condFacts(v.X, true, at, out)
				e.condFacts(v.Y, true, at, out)
			}
			return
		case token.LOR:
			if !val {
				e.condFacts(v.X, false, at, out)
				e.condFacts(v.Y, false, at, out)
			}
			return
		case token.LSS, token.LEQ, token.GTR, token.GEQ, token.EQL, token.NEQ:
			a, ok1 := e.toLin(v.X)
			b, ok2 := e.toLin(v.Y)
			if !ok1 || !ok2 {
				return
			}
			op := v.Op
			if !val {
				op = map[token.Token]token.Token{token.LSS: token.GEQ, token.LEQ: token.GTR, token.GTR: token.LEQ,
					token.GEQ: token.LSS, token.EQL: token.NEQ, token.NEQ: token.EQL}[op]
			}
			why := fmt.Sprintf("%s is %v", types.ExprString(cond), val)
			add := func(l lin) { *out = append(*out, e.mkFact(l, at, why)) }
			switch op {
			case token.LSS: // a < b  → b-a-1 ≥ 0
				add(b.add(a, -1).add(konst(1), -1))
			case token.LEQ:
				add(b.add(a, -1))
			case token.GTR:
				add(a.add(b, -1).add(konst(1), -1))
			case token.GEQ:
				add(a.add(b, -1))
			case token.EQL:
				add(a.add(b, -1))
				add(b.add(a, -1))
			case token.NEQ:
				// x != 0 with x ≥ 0 known ⇒ x ≥ 1: handled in prover via nonneg
				d := a.add(b, -1)
				*out = append(*out, e.mkNeqFact(d, at, why))
			}
		}
	}
}

func (e *env) mkFact(l lin, at token.Pos, why string) fact {
	f := fact{l: l, at: at, why: why, deps: map[types.Object]bool{}}
	for a := range l.coef {
		ai := e.atoms[a]
		for o := range ai.deps {
			f.deps[o] = true
		}
		f.sel = f.sel || ai.sel
	}
	return f
}

// mkNeqFact encodes d != 0 as a pseudo fact: why is prefixed "neq" and the
// prover strengthens d ≥ 0 to d ≥ 1 (and -d ≥ 0 to -d ≥ 1).
func (e *env) mkNeqFact(d lin, at token.Pos, why string) fact {
	f := e.mkFact(d, at, "neq:"+why)
	return f
}

// terminates reports whether a block always leaves the enclosing statement
// list (return, continue, break, goto, panic, os.Exit, log.Fatal…).
func terminates(b *ast.BlockStmt) bool {
	if b == nil || len(b.List) == 0 {
		return false
	}
	switch s := b.List[len(b.List)-1].(type) {
	case *ast.ReturnStmt:
		return true
	case *ast.BranchStmt:
		return s.Tok == token.BREAK || s.Tok == token.CONTINUE || s.Tok == token.GOTO
	case *ast.ExprStmt:
		if c, ok := s.X.(*ast.CallExpr); ok {
			if id, ok := c.Fun.(*ast.Ident); ok && id.Name == "panic" {
				return true
			}
		}
	case *ast.IfStmt:
		if s.Else != nil {
			if eb, ok := s.Else.(*ast.BlockStmt); ok {
				return terminates(s.Body) && terminates(eb)
			}
		}
	}
	return false
}

var indexFuncs = map[string]bool{
	"strings.IndexByte": true, "strings.IndexRune": true, "strings.IndexAny": true, "strings.LastIndexByte": true,
	"strings.LastIndexAny": true, "strings.IndexFunc": true, "strings.LastIndexFunc": true,
	"bytes.IndexByte": true, "bytes.IndexRune": true, "bytes.IndexAny": true, "bytes.LastIndexByte": true,
	"bytes.LastIndexAny": true, "bytes.IndexFunc": true, "bytes.LastIndexFunc": true,
}

// defFacts: facts from "v := e" / "v = e".
func (e *env) defFacts(lhs, rhs ast.Expr, at token.Pos, out *[]fact) {
	if _, ok := lhs.(*ast.Ident); !ok {
		return
	}
	l, ok := e.toLin(lhs)
	if !ok {
		return
	}
	// the rhs must not mention lhs itself (x = x + 1 is not an equation)
	if id := lhs.(*ast.Ident); mentions(e, rhs, e.obj(id)) {
		return
	}
	if call, ok := rhs.(*ast.CallExpr); ok {
		if sel, ok := call.Fun.(*ast.SelectorExpr); ok {
			if pid, ok := sel.X.(*ast.Ident); ok {
				if pn, ok := e.obj(pid).(*types.PkgName); ok {
					name := pn.Imported().Path() + "." + sel.Sel.Name
					if indexFuncs[name] && len(call.Args) >= 1 {
						if ln, ok := e.lenOf(call.Args[0]); ok {
							why := fmt.Sprintf("%s = %s", types.ExprString(lhs), types.ExprString(rhs))
							*out = append(*out, e.mkFact(l.add(konst(1), 1), at, why+" ⇒ ≥ -1"))
							*out = append(*out, e.mkFact(ln.add(l, -1).add(konst(1), -1), at, why+" ⇒ < len"))
						}
						return
					}
				}
			}
		}
	}
	r, ok := e.toLin(rhs)
	if !ok {
		return
	}
	why := fmt.Sprintf("%s = %s", types.ExprString(lhs), types.ExprString(rhs))
	*out = append(*out, e.mkFact(l.add(r, -1), at, why), e.mkFact(r.add(l, -1), at, why))
}

func mentions(e *env, x ast.Expr, o types.Object) bool {
	found := false
	ast.Inspect(x, func(n ast.Node) bool {
		if id, ok := n.(*ast.Ident); ok && e.obj(id) == o {
			found = true
		}
		return !found
	})
	return found
}

func (e *env) stmtDefFacts(s ast.Stmt, at token.Pos, out *[]fact) {
	switch s := s.(type) {
	case *ast.AssignStmt:
		if (s.Tok == token.DEFINE || s.Tok == token.ASSIGN) && len(s.Lhs) == len(s.Rhs) {
			for i := range s.Lhs {
				e.defFacts(s.Lhs[i], s.Rhs[i], at, out)
			}
		}
	case *ast.DeclStmt:
		if gd, ok := s.Decl.(*ast.GenDecl); ok {
			for _, sp := range gd.Specs {
				if vs, ok := sp.(*ast.ValueSpec); ok && len(vs.Names) == len(vs.Values) {
					for i := range vs.Names {
						e.defFacts(vs.Names[i], vs.Values[i], at, out)
					}
				}
			}
		}
	}
}

// factsAt collects the facts that hold at the site node.
func (e *env) factsAt(file *ast.File, site ast.Node) []fact {
	path, _ := astutil.PathEnclosingInterval(file, site.Pos(), site.End())
	// path[0] is the innermost node; walk outwards until the function.
	var facts []fact
	for i := 0; i+1 < len(path); i++ {
		child, parent := path[i], path[i+1]
		if parent == e.fn {
			// statement list of the function body handled when parent is the body BlockStmt
		}
		switch p := parent.(type) {
		case *ast.FuncLit, *ast.FuncDecl:
			if p == e.fn {
				i = len(path) // stop
			} else {
				return e.filter(facts, site) // site is inside a nested literal that is not our function: should not happen
			}
		case *ast.BinaryExpr:
			if child == p.Y {
				if p.Op == token.LOR {
					e.condFacts(p.X, false, p.X.End(), &facts)
				} else if p.Op == token.LAND {
					e.condFacts(p.X, true, p.X.End(), &facts)
				}
			}
		case *ast.IfStmt:
			if p.Init != nil && child != p.Init {
				e.stmtDefFacts(p.Init, p.Init.End(), &facts)
			}
			if child == ast.Node(p.Body) {
				e.condFacts(p.Cond, true, p.Body.Lbrace, &facts)
			} else if p.Else != nil && child == ast.Node(p.Else) {
				e.condFacts(p.Cond, false, p.Else.Pos(), &facts)
			}
		case *ast.ForStmt:
			if child == ast.Node(p.Body) && p.Cond != nil {
				e.condFacts(p.Cond, true, p.Body.Lbrace, &facts)
			}
			if p.Init != nil && child != p.Init {
				e.stmtDefFacts(p.Init, p.Init.End(), &facts)
			}
		case *ast.RangeStmt:
			if child == ast.Node(p.Body) && p.Key != nil {
				if id, ok := p.Key.(*ast.Ident); ok && id.Name != "_" {
					t := e.info.TypeOf(p.X)
					if t != nil {
						switch u := t.Underlying().(type) {
						case *types.Slice, *types.Array, *types.Basic, *types.Pointer:
							_ = u
							if k, ok := e.toLin(id); ok {
								if ln, ok := e.lenOf(p.X); ok {
									why := "range key of " + types.ExprString(p.X)
									facts = append(facts, e.mkFact(k, p.Body.Lbrace, why), e.mkFact(ln.add(k, -1).add(konst(1), -1), p.Body.Lbrace, why))
								}
							}
						}
					}
				}
			}
		case *ast.CaseClause:
			// find the switch
			if i+3 < len(path) {
				if sw, ok := path[i+3].(*ast.SwitchStmt); ok {
					e.caseFacts(sw, p, child, &facts)
				}
			}
			e.listFacts(p.Body, child, &facts)
		case *ast.CommClause:
			e.listFacts(p.Body, child, &facts)
		case *ast.BlockStmt:
			e.listFacts(p.List, child, &facts)
		}
	}
	return e.filter(facts, site)
}

func (e *env) caseFacts(sw *ast.SwitchStmt, cc *ast.CaseClause, child ast.Node, out *[]fact) {
	if sw.Init != nil {
		e.stmtDefFacts(sw.Init, sw.Init.End(), out)
	}
	inBody := false
	for _, s := range cc.Body {
		if ast.Node(s) == child {
			inBody = true
		}
	}
	// earlier clauses are false unless the previous clause falls through into us
	for idx, st := range sw.Body.List {
		c := st.(*ast.CaseClause)
		if c == cc {
			if idx > 0 {
				prev := sw.Body.List[idx-1].(*ast.CaseClause)
				if n := len(prev.Body); n > 0 {
					if b, ok := prev.Body[n-1].(*ast.BranchStmt); ok && b.Tok == token.FALLTHROUGH {
						return
					}
				}
			}
			break
		}
	}
	at := cc.Colon
	for _, st := range sw.Body.List {
		c := st.(*ast.CaseClause)
		if c == cc {
			break
		}
		for _, x := range c.List {
			if sw.Tag == nil {
				e.condFacts(x, false, at, out)
			}
		}
	}
	if inBody && len(cc.List) == 1 {
		if sw.Tag == nil {
			e.condFacts(cc.List[0], true, at, out)
		} else {
			e.condFacts(&ast.BinaryExpr{X: sw.Tag, Op: token.EQL, Y: cc.List[0]}, true, at, out)
		}
	}
	if !inBody && sw.Tag == nil {
		// site inside one of this clause's expressions: earlier expressions of the same list are false
		for _, x := range cc.List {
			if ast.Node(x) == child {
				break
			}
			e.condFacts(x, false, x.End(), out)
		}
	}
}

func (e *env) listFacts(list []ast.Stmt, child ast.Node, out *[]fact) {
	for _, s := range list {
		if ast.Node(s) == child {
			break
		}
		switch s := s.(type) {
		case *ast.IfStmt:
			if s.Else == nil && terminates(s.Body) {
				e.condFacts(s.Cond, false, s.End(), out)
			}
		case *ast.AssignStmt, *ast.DeclStmt:
			e.stmtDefFacts(s, s.End(), out)
		case *ast.LabeledStmt:
			if is, ok := s.Stmt.(*ast.IfStmt); ok && is.Else == nil && terminates(is.Body) {
				e.condFacts(is.Cond, false, s.End(), out)
			}
		}
	}
}

// filter drops facts that are killed between their guard and the site.
func (e *env) filter(facts []fact, site ast.Node) []fact {
	sitePos := site.Pos()
	// loops enclosing the site
	var loops []ast.Node
	ast.Inspect(e.body, func(n ast.Node) bool {
		if n == nil {
			return false
		}
		if n.Pos() > sitePos || n.End() < sitePos {
			return false
		}
		switch n.(type) {
		case *ast.ForStmt, *ast.RangeStmt:
			loops = append(loops, n)
		}
		return true
	})
	loopBodyStart := func(l ast.Node) token.Pos {
		switch l := l.(type) {
		case *ast.ForStmt:
			return l.Body.Lbrace
		case *ast.RangeStmt:
			return l.Body.Lbrace
		}
		return token.NoPos
	}
	inLit := func(p token.Pos) bool {
		for _, sp := range e.litSpans {
			if p >= sp[0] && p < sp[1] {
				// literal that does not contain the site
				if !(sitePos >= sp[0] && sitePos < sp[1]) {
					return true
				}
			}
		}
		return false
	}
	var out []fact
next:
	for _, f := range facts {
		if f.global {
			out = append(out, f)
			continue
		}
		for _, l := range e.gotoLbl {
			if f.at < l && l <= sitePos {
				continue next
			}
		}
		killedAt := func(p token.Pos) bool {
			if inLit(p) {
				return true
			}
			if p > f.at && p < sitePos {
				return true
			}
			for _, l := range loops {
				if f.at < loopBodyStart(l) && p >= l.Pos() && p < l.End() {
					return true
				}
			}
			return false
		}
		for o := range f.deps {
			for _, p := range e.assigns[o] {
				if killedAt(p) {
					continue next
				}
			}
			if f.sel || e.addrOf[o] {
				for _, ci := range e.calls {
					if ci.objs[o] && killedAt(ci.pos) {
						// the call that is (part of) the site expression itself does not count
						if ci.pos >= site.Pos() && ci.pos < site.End() {
							continue
						}
						continue next
					}
				}
			}
		}
		out = append(out, f)
	}
	return out
}

// prove tries to derive goal ≥ 0 from the facts: goal = Σ fact_i + c, c ≥ 0,
// using at most 3 facts, with intrinsic facts for len atoms and non-negative
// variables.
func (e *env) prove(goal lin, facts []fact) (bool, string) {
	var pool []fact
	pool = append(pool, facts...)
	// strengthen with neq: if d≥0 is derivable and d≠0 then d-1≥0.
	// intrinsic
	seenAtoms := map[string]bool{}
	addIntrinsic := func(l lin) {
		for a := range l.coef {
			if seenAtoms[a] {
				continue
			}
			seenAtoms[a] = true
			if strings.HasPrefix(a, "len(") {
				pool = append(pool, fact{l: lin{map[string]int64{a: 1}, 0}, why: a + " ≥ 0", global: true})
			}
		}
	}
	addIntrinsic(goal)
	for _, f := range facts {
		addIntrinsic(f.l)
	}
	for a, ai := range e.atoms {
		if strings.HasPrefix(a, "len(") || ai.sel {
			continue
		}
		for o := range ai.deps {
			if v, ok := o.(*types.Var); ok && e.isNonNegVar(v) && strings.HasPrefix(a, v.Name()+"@") {
				pool = append(pool, fact{l: lin{map[string]int64{a: 1}, 0}, why: v.Name() + " is only ever assigned non-negative values", global: true})
			}
		}
	}
	// neq strengthening
	var extra []fact
	for _, f := range pool {
		if !strings.HasPrefix(f.why, "neq:") {
			continue
		}
		var plain []fact
		for _, g := range pool {
			if !strings.HasPrefix(g.why, "neq:") {
				plain = append(plain, g)
			}
		}
		if ok, _ := search(f.l, plain, 2); ok {
			nf := f
			nf.l = f.l.add(konst(1), -1)
			nf.why = strings.TrimPrefix(f.why, "neq:") + " (and ≥ 0)"
			extra = append(extra, nf)
		}
		neg := konst(0).add(f.l, -1)
		if ok, _ := search(neg, plain, 2); ok {
			nf := f
			nf.l = neg.add(konst(1), -1)
			nf.why = strings.TrimPrefix(f.why, "neq:") + " (and ≤ 0)"
			extra = append(extra, nf)
		}
	}
	var plain []fact
	for _, g := range pool {
		if !strings.HasPrefix(g.why, "neq:") {
			plain = append(plain, g)
		}
	}
	plain = append(plain, extra...)
	return search(goal, plain, 3)
}

func search(goal lin, pool []fact, depth int) (bool, string) {
	if goal.isConst() {
		if goal.k >= 0 {
			return true, ""
		}
		return false, ""
	}
	if depth == 0 {
		return false, ""
	}
	for _, f := range pool {
		// only use facts that cancel something
		useful := false
		for a, c := range f.l.coef {
			if gc, ok := goal.coef[a]; ok && (gc > 0) == (c > 0) {
				useful = true
			}
		}
		if !useful {
			continue
		}
		if ok, why := search(goal.add(f.l, -1), pool, depth-1); ok {
			if why != "" {
				return true, f.why + "; " + why
			}
			return true, f.why
		}
	}
	return false, ""
}
