package panicob

import (
	"encoding/json"
	"fmt"
	"go/ast"
	"go/types"
	"os"
	"path/filepath"
	"regexp"
	"strings"

	"golang.org/x/tools/go/types/typeutil"

	"ogenverif/internal/core"
)

// Table is the reviewed justification table.
type Table struct {
	Entries  []TableEntry `json:"entries"`
	used     map[int]bool
	siteKeys map[string]bool
}

type TableEntry struct {
	// Key is a Site key, or "<pkg>.<func>:*" for one whole function.
	Key    string `json:"key"`
	Reason string `json:"reason"`
}

func LoadTable(verif, name string) (*Table, error) {
	b, err := os.ReadFile(filepath.Join(verif, "tables", name))
	if err != nil {
		return nil, err
	}
	t := &Table{used: map[int]bool{}}
	if err := json.Unmarshal(b, t); err != nil {
		return nil, fmt.Errorf("%s: %w", name, err)
	}
	for _, e := range t.Entries {
		if strings.TrimSpace(e.Reason) == "" {
			return nil, fmt.Errorf("%s: entry %q has no reason", name, e.Key)
		}
	}
	return t, nil
}

// Lookup returns the reason for a site, if justified.
func (t *Table) Lookup(s *Site) (string, bool) {
	if t == nil {
		return "", false
	}
	k := s.Key()
	fk := fmt.Sprintf("%s.%s:*", core.ShortPkg(s.Pkg.PkgPath), s.Func)
	for i, e := range t.Entries {
		if e.Key == k || e.Key == fk {
			t.used[i] = true
			return e.Reason, true
		}
	}
	// closure numbers ($3) are ordinals among the function literals of the enclosing function: adding or removing an
	// unrelated literal renumbers the rest. An entry whose own site no longer exists (its exact key matches no site of
	// this run) still justifies the one site that differs from it in closure numbers only.
	if t.siteKeys != nil && closureNum.MatchString(k) {
		nk := closureNum.ReplaceAllString(k, "$$")
		cand := -1
		for i, e := range t.Entries {
			if t.siteKeys[e.Key] || t.used[i] || closureNum.ReplaceAllString(e.Key, "$$") != nk {
				continue
			}
			if cand >= 0 {
				return "", false // ambiguous
			}
			cand = i
		}
		if cand >= 0 {
			t.used[cand] = true
			return t.Entries[cand].Reason + " (entry " + t.Entries[cand].Key + ", closure renumbered)", true
		}
	}
	return "", false
}

var closureNum = regexp.MustCompile(`\$\d+`)

// NoteSites tells the table which site keys exist in this run (for the renumbered-closure fallback of Lookup).
func (t *Table) NoteSites(sites []*Site) {
	if t == nil {
		return
	}
	if t.siteKeys == nil {
		t.siteKeys = map[string]bool{}
	}
	for _, s := range sites {
		t.siteKeys[s.Key()] = true
	}
}

type envCache map[ast.Node]*env

func (ec envCache) get(s *Site) *env {
	if s.FuncDecl == nil {
		return nil
	}
	if e, ok := ec[s.FuncDecl]; ok {
		return e
	}
	e := newEnv(s.Pkg.TypesInfo, s.Pkg.Fset, s.FuncDecl)
	ec[s.FuncDecl] = e
	return e
}

// TryGuards attempts to discharge a bounds site with the guard recogniser.
func TryGuards(ec envCache, s *Site) (bool, string) {
	e := ec.get(s)
	if e == nil || e.body == nil || s.Node == nil {
		return false, ""
	}
	var goals []lin
	var descr []string
	switch n := s.Node.(type) {
	case *ast.IndexExpr:
		t := e.info.TypeOf(n.X)
		if t == nil {
			return false, ""
		}
		if _, isMap := t.Underlying().(*types.Map); isMap {
			return true, "map index"
		}
		idx, ok := e.toLin(n.Index)
		if !ok {
			return false, ""
		}
		ln, ok := e.lenOf(n.X)
		if !ok {
			return false, ""
		}
		if !e.isNonNegExpr(n.Index) {
			goals = append(goals, idx)
			descr = append(descr, "index ≥ 0")
		}
		goals = append(goals, ln.add(idx, -1).add(konst(1), -1))
		descr = append(descr, "index < len")
	case *ast.SliceExpr:
		if n.Slice3 {
			return false, ""
		}
		ln, ok := e.lenOf(n.X)
		if !ok {
			return false, ""
		}
		if t := e.info.TypeOf(n.X); t != nil {
			if _, isSlice := t.Underlying().(*types.Slice); isSlice {
				// bound is cap(x) ≥ len(x): proving against len is sufficient
			}
		}
		var lo, hi lin
		haveLo, haveHi := false, false
		if n.Low != nil {
			l, ok := e.toLin(n.Low)
			if !ok {
				return false, ""
			}
			lo, haveLo = l, true
		}
		if n.High != nil {
			h, ok := e.toLin(n.High)
			if !ok {
				return false, ""
			}
			hi, haveHi = h, true
		}
		switch {
		case haveLo && haveHi:
			if !e.isNonNegExpr(n.Low) {
				goals = append(goals, lo)
				descr = append(descr, "low ≥ 0")
			}
			goals = append(goals, hi.add(lo, -1), ln.add(hi, -1))
			descr = append(descr, "low ≤ high", "high ≤ len")
		case haveLo:
			if !e.isNonNegExpr(n.Low) {
				goals = append(goals, lo)
				descr = append(descr, "low ≥ 0")
			}
			goals = append(goals, ln.add(lo, -1))
			descr = append(descr, "low ≤ len")
		case haveHi:
			if !e.isNonNegExpr(n.High) {
				goals = append(goals, hi)
				descr = append(descr, "high ≥ 0")
			}
			goals = append(goals, ln.add(hi, -1))
			descr = append(descr, "high ≤ len")
		default:
			return true, "full slice"
		}
	default:
		return false, ""
	}
	facts := e.factsAt(s.File, s.Node)
	var whys []string
	for i, g := range goals {
		ok, why := e.prove(g, facts)
		if !ok {
			return false, fmt.Sprintf("cannot derive %s", descr[i])
		}
		if why == "" {
			why = "trivially"
		}
		whys = append(whys, descr[i]+" ⇐ "+why)
	}
	return true, strings.Join(whys, " | ")
}

// Result of discharging a list of sites into a rule.
type Options struct {
	// Filter selects the sites in scope (nil = all).
	Filter func(s *Site) bool
	// KeyPrefix is prepended to finding keys.
	Table *Table
	// ScopePkgs lists further packages whose own obligations are enumerated
	// by the same property (for inlined copies).
	ScopePkgs []string
}

// Discharge runs guard recognition and table lookup over sites, recording
// into rule r. It returns the number of sites in scope.
func Discharge(c *core.Ctx, r *core.Rule, sites []*Site, opt Options) int {
	opt.Table.NoteSites(sites)
	ec := envCache{}
	n := 0
	scope := map[string]bool{}
	for _, s := range sites {
		scope[s.Pkg.PkgPath] = true
	}
	for _, p := range opt.ScopePkgs {
		scope[p] = true
	}
	for _, s := range sites {
		if opt.Filter != nil && !opt.Filter(s) {
			continue
		}
		n++
		pos := c.RelPos(s.Pos)
		if ce, isCall := s.Node.(*ast.CallExpr); isCall {
			// the compiler attributes bounds checks of an inlined callee to the call
			// site: the obligation is the callee's own (enumerated there when the
			// callee belongs to an analysed package)
			if id, ok := ce.Fun.(*ast.Ident); ok {
				if v, ok := s.Pkg.TypesInfo.Uses[id].(*types.Var); ok && !v.IsField() {
					if _, isSig := v.Type().Underlying().(*types.Signature); isSig {
						r.Pass(fmt.Sprintf("%s at %s — inlined copy of the local function literal %s, whose own obligations are enumerated at the literal", s.Key(), pos, id.Name))
						continue
					}
				}
			}
			if fn := typeutil.StaticCallee(s.Pkg.TypesInfo, ce); fn != nil && fn.Pkg() != nil {
				cp := fn.Pkg().Path()
				switch {
				case scope[cp]:
					r.Pass(fmt.Sprintf("%s at %s — inlined copy of %s.%s, whose own obligations are enumerated at its declaration", s.Key(), pos, core.ShortPkg(cp), fn.Name()))
					continue
				case !(cp == core.Module || strings.HasPrefix(cp, core.Module+"/")):
					r.Pass(fmt.Sprintf("%s at %s — inlined dependency code (%s.%s): outside the ogen module, trusted", s.Key(), pos, cp, fn.Name()))
					continue
				}
			}
		}
		if ok, why := TryGuards(ec, s); ok {
			r.Pass(fmt.Sprintf("%s at %s — guards: %s", s.Key(), pos, why))
			continue
		}
		if reason, ok := opt.Table.Lookup(s); ok {
			r.Justified++
			r.Pass(fmt.Sprintf("%s at %s — table: %s", s.Key(), pos, reason))
			continue
		}
		_, why := TryGuards(ec, s)
		if why == "" {
			why = "expression outside the recogniser's linear fragment"
		}
		r.Fail(s.Key(), pos, fmt.Sprintf("bounds check %s the compiler cannot prove is not dominated by a recognised guard (%s) and is not in the justification table: a panic may be reachable", s.Kind, why))
	}
	return n
}
