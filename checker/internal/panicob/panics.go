package panicob

import (
	"fmt"
	"go/ast"
	"go/constant"
	"go/token"
	"go/types"
	"sort"
	"strings"

	"golang.org/x/tools/go/packages"

	"ogenverif/internal/core"
)

// Panics enumerates the explicit panic(…) call sites of the packages.
func Panics(c *core.Ctx, pkgs []*packages.Package) []*Site {
	var sites []*Site
	for _, p := range pkgs {
		for _, f := range p.Syntax {
			if strings.HasSuffix(p.Fset.Position(f.Pos()).Filename, "_test.go") {
				continue
			}
			ast.Inspect(f, func(n ast.Node) bool {
				ce, ok := n.(*ast.CallExpr)
				if !ok {
					return true
				}
				id, ok := ce.Fun.(*ast.Ident)
				if !ok || id.Name != "panic" {
					return true
				}
				if _, isB := p.TypesInfo.Uses[id].(*types.Builtin); !isB {
					return true
				}
				s := &Site{Pkg: p, File: f, Kind: "panic", Node: ce, Pos: p.Fset.Position(ce.Pos())}
				s.Func, s.FuncDecl = EnclosingFunc(f, ce.Pos())
				s.Expr = panicMessage(p.TypesInfo, ce)
				sites = append(sites, s)
				return true
			})
		}
	}
	sort.SliceStable(sites, func(i, j int) bool {
		if sites[i].Pos.Filename != sites[j].Pos.Filename {
			return sites[i].Pos.Filename < sites[j].Pos.Filename
		}
		return sites[i].Pos.Offset < sites[j].Pos.Offset
	})
	assignOrdinals(sites)
	return sites
}

func panicMessage(info *types.Info, ce *ast.CallExpr) string {
	if len(ce.Args) != 1 {
		return "?"
	}
	var msg string
	ast.Inspect(ce.Args[0], func(n ast.Node) bool {
		if x, ok := n.(ast.Expr); ok && msg == "" {
			if v := info.Types[x].Value; v != nil && v.Kind() == constant.String {
				msg = constant.StringVal(v)
				return false
			}
		}
		return true
	})
	if msg == "" {
		msg = types.ExprString(ce.Args[0])
	}
	if len(msg) > 60 {
		msg = msg[:60]
	}
	return msg
}

// exhaustiveDefault reports whether the panic sits in the default clause of a
// switch whose tag has a named basic type all of whose declared constants
// have their own case.
func exhaustiveDefault(s *Site) (bool, string) {
	var result bool
	var why string
	info := s.Pkg.TypesInfo
	var stack []ast.Node
	ast.Inspect(s.File, func(n ast.Node) bool {
		if n == nil {
			stack = stack[:len(stack)-1]
			return true
		}
		stack = append(stack, n)
		if n != s.Node {
			return true
		}
		// walk up: ExprStmt → CaseClause(default) → BlockStmt → SwitchStmt
		for i := len(stack) - 1; i >= 2; i-- {
			cc, ok := stack[i].(*ast.CaseClause)
			if !ok {
				continue
			}
			if cc.List != nil {
				return false
			}
			sw, ok := stack[i-2].(*ast.SwitchStmt)
			if !ok || sw.Tag == nil {
				return false
			}
			// the panic must be a direct statement of the default clause
			direct := false
			for _, st := range cc.Body {
				if es, ok := st.(*ast.ExprStmt); ok && es.X == s.Node {
					direct = true
				}
			}
			if !direct {
				return false
			}
			t := info.TypeOf(sw.Tag)
			nt, ok := t.(*types.Named)
			if !ok || nt.Obj().Pkg() == nil {
				return false
			}
			if _, isBasic := nt.Underlying().(*types.Basic); !isBasic {
				return false
			}
			covered := map[string]bool{}
			for _, st := range sw.Body.List {
				for _, x := range st.(*ast.CaseClause).List {
					if v := info.Types[x].Value; v != nil {
						covered[v.ExactString()] = true
					}
				}
			}
			scope := nt.Obj().Pkg().Scope()
			n, missing := 0, []string{}
			for _, name := range scope.Names() {
				if k, ok := scope.Lookup(name).(*types.Const); ok && types.Identical(k.Type(), nt) {
					n++
					if !covered[k.Val().ExactString()] {
						missing = append(missing, name)
					}
				}
			}
			if n > 0 && len(missing) == 0 {
				result = true
				why = fmt.Sprintf("default of a switch covering all %d constants of %s", n, nt.Obj().Name())
			}
			return false
		}
		return false
	})
	return result, why
}

// DischargePanics classifies explicit panic sites: exhaustive-switch defaults
// are discharged automatically (values of the tag type are only ever its
// declared constants), everything else needs a table entry.
func DischargePanics(c *core.Ctx, r *core.Rule, sites []*Site, table *Table, auto ...func(*Site) (bool, string)) {
	table.NoteSites(sites)
	for _, s := range sites {
		pos := c.RelPos(s.Pos)
		done := false
		for _, a := range auto {
			if ok, why := a(s); ok {
				r.Pass(fmt.Sprintf("%s at %s — %s", s.Key(), pos, why))
				done = true
				break
			}
		}
		if done {
			continue
		}
		if ok, why := exhaustiveDefault(s); ok {
			r.Pass(fmt.Sprintf("%s at %s — %s", s.Key(), pos, why))
			continue
		}
		if reason, ok := table.Lookup(s); ok {
			r.Justified++
			r.Pass(fmt.Sprintf("%s at %s — table: %s", s.Key(), pos, reason))
			continue
		}
		r.Fail(s.Key(), pos, "explicit panic that is neither the default of an exhaustive switch nor in the justification table: triage whether an input can reach it")
	}
}

var _ = token.NoPos
