// Package panicob implements engine E7: panic obligations. The enumerator of
// bounds obligations is the real compiler (-d=ssa/check_bce), so a check the
// compiler can prove never shows up, and a check it cannot prove always does.
// Discharge is by (i) a lexical guard recogniser with a small linear prover,
// (ii) a reviewed justification table.
package panicob

import (
	"bytes"
	"fmt"
	"go/ast"
	"go/token"
	"go/types"
	"os/exec"
	"path/filepath"
	"regexp"
	"sort"
	"strconv"
	"strings"

	"golang.org/x/tools/go/packages"

	"ogenverif/internal/core"
)

// Site is one obligation.
type Site struct {
	Pkg      *packages.Package
	File     *ast.File
	Pos      token.Position
	Kind     string // IsInBounds | IsSliceInBounds | panic | typeassert | div
	Node     ast.Node
	Func     string // enclosing function, T.M for methods, with $n for literals
	FuncDecl ast.Node
	Expr     string     // normalised expression
	Ord      int        // ordinal among same (Func, Kind, Expr)
	Operand  types.Type // type of the indexed operand (bounds kinds)
}

// Key is the stable identity used by tables and known findings.
func (s *Site) Key() string {
	return fmt.Sprintf("%s.%s:%s:%s#%d", core.ShortPkg(s.Pkg.PkgPath), s.Func, s.Kind, s.Expr, s.Ord)
}

var bceLine = regexp.MustCompile(`^(.+\.go):(\d+):(\d+): Found (IsInBounds|IsSliceInBounds)$`)

type rawSite struct {
	file      string
	line, col int
	kind      string
}

// runBCE runs the compiler's bounds-check report for the given package
// patterns (relative to repo).
func runBCE(repo string, patterns []string) ([]rawSite, error) {
	args := append([]string{"build", "-gcflags=-d=ssa/check_bce/debug=1"}, patterns...)
	cmd := exec.Command("go", args...)
	cmd.Dir = repo
	cmd.Env = core.GoEnv()
	var out bytes.Buffer
	cmd.Stdout = &out
	cmd.Stderr = &out
	err := cmd.Run()
	var sites []rawSite
	sawHeader := false
	for _, ln := range strings.Split(out.String(), "\n") {
		ln = strings.TrimSpace(ln)
		if ln == "" {
			continue
		}
		if strings.HasPrefix(ln, "#") {
			sawHeader = true
			continue
		}
		m := bceLine.FindStringSubmatch(ln)
		if m == nil {
			if err != nil {
				return nil, fmt.Errorf("go build (check_bce) failed: %s", out.String())
			}
			continue
		}
		l, _ := strconv.Atoi(m[2])
		col, _ := strconv.Atoi(m[3])
		f := m[1]
		if !filepath.IsAbs(f) {
			f = filepath.Join(repo, f)
		}
		sites = append(sites, rawSite{filepath.Clean(f), l, col, m[4]})
	}
	if err != nil {
		return nil, fmt.Errorf("go build (check_bce) failed: %v: %s", err, out.String())
	}
	_ = sawHeader
	sort.Slice(sites, func(i, j int) bool {
		a, b := sites[i], sites[j]
		if a.file != b.file {
			return a.file < b.file
		}
		if a.line != b.line {
			return a.line < b.line
		}
		if a.col != b.col {
			return a.col < b.col
		}
		return a.kind < b.kind
	})
	return sites, nil
}

// Bounds enumerates the compiler's unproven bounds checks for the packages
// (import paths) and maps each to its AST node.
func Bounds(c *core.Ctx, pkgs []*packages.Package) ([]*Site, error) {
	var patterns []string
	byFile := map[string]*packages.Package{}
	fileAST := map[string]*ast.File{}
	for _, p := range pkgs {
		rel := strings.TrimPrefix(p.PkgPath, core.Module)
		patterns = append(patterns, "."+rel)
		for i, f := range p.CompiledGoFiles {
			byFile[filepath.Clean(f)] = p
			fileAST[filepath.Clean(f)] = p.Syntax[i]
		}
	}
	raw, err := runBCE(c.Repo, patterns)
	if err != nil {
		return nil, err
	}
	var sites []*Site
	for _, rs := range raw {
		p := byFile[rs.file]
		if p == nil {
			// bounds checks of generic library code instantiated in a scope package are reported at the
			// library's own file (e.g. slices/zsortanyfunc.go): dependency code, outside the obligations
			continue
		}
		f := fileAST[rs.file]
		s := &Site{Pkg: p, File: f, Kind: rs.kind, Pos: token.Position{Filename: rs.file, Line: rs.line, Column: rs.col}}
		s.Node = findNode(p.Fset, f, rs)
		fillFunc(p, f, s)
		switch n := s.Node.(type) {
		case *ast.IndexExpr:
			s.Expr = types.ExprString(n)
			s.Operand = p.TypesInfo.TypeOf(n.X)
		case *ast.SliceExpr:
			s.Expr = types.ExprString(n)
			s.Operand = p.TypesInfo.TypeOf(n.X)
		case *ast.CallExpr:
			s.Expr = "inlined(" + types.ExprString(n.Fun) + ")"
		case *ast.RangeStmt:
			s.Expr = "range " + types.ExprString(n.X)
		default:
			s.Expr = "unmatched"
		}
		sites = append(sites, s)
	}
	assignOrdinals(sites)
	return sites, nil
}

func assignOrdinals(sites []*Site) {
	count := map[string]int{}
	for _, s := range sites {
		k := s.Pkg.PkgPath + "|" + s.Func + "|" + s.Kind + "|" + s.Expr
		s.Ord = count[k]
		count[k]++
	}
}

// findNode locates the innermost Index/Slice expression whose '[' (or start)
// is at the reported column; failing that a call expression (inlined callee)
// at that position.
func findNode(fset *token.FileSet, f *ast.File, rs rawSite) ast.Node {
	var best ast.Node
	var call ast.Node
	var rng ast.Node
	ast.Inspect(f, func(n ast.Node) bool {
		if n == nil {
			return false
		}
		st, en := fset.Position(n.Pos()), fset.Position(n.End())
		if st.Line > rs.line || en.Line < rs.line {
			return false
		}
		at := func(p token.Pos) bool {
			pp := fset.Position(p)
			return pp.Line == rs.line && pp.Column == rs.col
		}
		switch n := n.(type) {
		case *ast.IndexExpr:
			if rs.kind == "IsInBounds" && (at(n.Lbrack) || at(n.Pos())) {
				best = n
			}
		case *ast.SliceExpr:
			if rs.kind == "IsSliceInBounds" && (at(n.Lbrack) || at(n.Pos())) {
				best = n
			}
		case *ast.CallExpr:
			if at(n.Lparen) || at(n.Pos()) || at(n.Fun.End()) {
				call = n
			}
			if sel, ok := n.Fun.(*ast.SelectorExpr); ok && at(sel.Sel.Pos()) {
				call = n
			}
		case *ast.RangeStmt:
			if at(n.Pos()) || at(n.X.Pos()) {
				rng = n
			}
		}
		return true
	})
	if best != nil {
		return best
	}
	if call != nil {
		return call
	}
	return rng
}

// fillFunc sets Func/FuncDecl to the enclosing function (declaration or
// literal) of s.Pos.
func fillFunc(p *packages.Package, f *ast.File, s *Site) {
	var pos token.Pos
	tf := p.Fset.File(f.Pos())
	if s.Node != nil {
		pos = s.Node.Pos()
	} else {
		pos = tf.LineStart(s.Pos.Line) + token.Pos(s.Pos.Column-1)
	}
	s.Func, s.FuncDecl = EnclosingFunc(f, pos)
}

// EnclosingFunc names the function enclosing pos: "Name", "T.Name", with
// "$lit" suffixes for function literals.
func EnclosingFunc(f *ast.File, pos token.Pos) (string, ast.Node) {
	var name string
	var decl ast.Node
	for _, d := range f.Decls {
		fd, ok := d.(*ast.FuncDecl)
		if !ok || pos < fd.Pos() || pos >= fd.End() {
			continue
		}
		name = fd.Name.Name
		if fd.Recv != nil && len(fd.Recv.List) == 1 {
			name = recvName(fd.Recv.List[0].Type) + "." + name
		}
		decl = fd
		// nested literals
		lit := 0
		ast.Inspect(fd, func(n ast.Node) bool {
			if fl, ok := n.(*ast.FuncLit); ok {
				lit++
				if pos >= fl.Pos() && pos < fl.End() {
					name = fmt.Sprintf("%s$%d", name, lit)
					decl = fl
				}
			}
			return true
		})
	}
	if name == "" {
		name = "<package>"
	}
	return name, decl
}

func recvName(e ast.Expr) string {
	switch e := e.(type) {
	case *ast.StarExpr:
		return recvName(e.X)
	case *ast.Ident:
		return e.Name
	case *ast.IndexExpr:
		return recvName(e.X)
	case *ast.IndexListExpr:
		return recvName(e.X)
	}
	return "?"
}
