// Package rules holds one file per property; each registers the static rules
// that decide (the structural part of) that property.
package rules

import (
	"sort"

	"ogenverif/internal/core"
)

// Property couples the evidence meta data with the function running the rules.
type Property struct {
	ID   string
	Meta core.Meta
	Run  func(c *core.Ctx) error
}

var registry = map[string]*Property{}

func register(p *Property) { registry[p.ID] = p }

// Get returns the property definition or nil.
func Get(id string) *Property { return registry[id] }

// IDs lists the implemented properties.
func IDs() []string {
	var out []string
	for id := range registry {
		out = append(out, id)
	}
	sort.Strings(out)
	return out
}

const (
	pkgRoot    = core.Module
	pkgGen     = core.Module + "/gen"
	pkgIR      = core.Module + "/gen/ir"
	pkgGenfs   = core.Module + "/gen/genfs"
	pkgCmd     = core.Module + "/cmd/ogen"
	pkgParser  = core.Module + "/openapi/parser"
	pkgOpenAPI = core.Module + "/openapi"
	pkgJS      = core.Module + "/jsonschema"
	pkgJP      = core.Module + "/jsonpointer"
	pkgURI     = core.Module + "/uri"
	pkgConv    = core.Module + "/conv"
	pkgJSON    = core.Module + "/json"
	pkgHTTP    = core.Module + "/http"
	pkgVal     = core.Module + "/validate"
	pkgErrs    = core.Module + "/ogenerrors"
	pkgMW      = core.Module + "/middleware"
	pkgRegex   = core.Module + "/ogenregex"
	pkgLoc     = core.Module + "/location"
	pkgBitset  = core.Module + "/internal/bitset"
)
