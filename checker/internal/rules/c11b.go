package rules

import (
	"fmt"
	"go/token"
	"go/types"
	"os"
	"sort"
	"strings"

	"golang.org/x/tools/go/ssa"

	"ogenverif/internal/core"
	"ogenverif/internal/panicob"
)

// checkNilBeliefsAcrossCalls (R11.6) extends the contradiction rule R11.5 across
// one call edge. Two sources of the belief "this pointer can be nil":
//
//	(i)  the value is handed to a module function whose parameter is tested for
//	     nil there (the callee was written for a nil argument);
//	(ii) the value is the first result of a module function that has a
//	     `return nil, nil` path (absent, yet no error).
//
// In the function holding the belief, every dereference of that value (same SSA
// value, or a pointer read from the same place) must sit under the non-nil
// edge of a nil test, or after a nil test whose nil side leaves the function.
// The function's own parameters are not belief carriers (its callers decide).
func checkNilBeliefsAcrossCalls(c *core.Ctx, prog *core.Prog, table *panicob.Table) {
	r := c.NewRule("R11.6", "S1", "a pointer the callee tests for nil, or that a callee may return as (nil, nil), is not dereferenced unguarded by the caller", 15)
	scope := map[string]bool{pkgGen: true, pkgIR: true, core.Module + "/openapi/parser": true, pkgJS: true, pkgOpenAPI: true}
	var fns []*ssa.Function
	for _, sp := range prog.SSAPkgs {
		if sp == nil || !scope[sp.Pkg.Path()] {
			continue
		}
		for _, f := range core.PkgFuncs(prog.SSA, sp) {
			fns = append(fns, core.AllFuncs(f)...)
		}
	}
	seenFn := map[*ssa.Function]bool{}
	var all []*ssa.Function
	for _, f := range fns {
		if f.Blocks != nil && !seenFn[f] {
			seenFn[f] = true
			all = append(all, f)
		}
	}
	sort.Slice(all, func(i, j int) bool { return all[i].String() < all[j].String() })

	isPtr := func(t types.Type) bool { _, ok := t.Underlying().(*types.Pointer); return ok }
	leaves := func(b *ssa.BasicBlock) bool { // the block (or a short chain) ends the function
		for d := 0; d < 3 && b != nil; d++ {
			switch b.Instrs[len(b.Instrs)-1].(type) {
			case *ssa.Return, *ssa.Panic:
				return true
			}
			if len(b.Succs) != 1 {
				return false
			}
			b = b.Succs[0]
		}
		return false
	}
	endsInPanic := func(b *ssa.BasicBlock) bool {
		_, ok := b.Instrs[len(b.Instrs)-1].(*ssa.Panic)
		return ok
	}

	// (i) parameters the callee tests for nil
	tolerates := map[*ssa.Function]map[int]token.Pos{}
	// errOnNil[f][i]: every nil side of the tests on parameter i returns a non-nil error right away — for the
	// caller the call then works as a nil test whose nil side is the error branch
	errOnNil := map[*ssa.Function]map[int]bool{}
	returnsErr := func(b *ssa.BasicBlock) bool {
		ret, ok := b.Instrs[len(b.Instrs)-1].(*ssa.Return)
		if !ok || len(ret.Results) == 0 {
			return false
		}
		last := ret.Results[len(ret.Results)-1]
		return core.IsErrorType(last.Type()) && !core.IsNilConst(last)
	}
	for _, f := range all {
		for i, p := range f.Params {
			if !isPtr(p.Type()) {
				continue
			}
			for _, ref := range *p.Referrers() {
				bo, ok := ref.(*ssa.BinOp)
				if !ok || (bo.Op != token.EQL && bo.Op != token.NEQ) || !(core.IsNilConst(bo.X) || core.IsNilConst(bo.Y)) {
					continue
				}
				for _, use := range *bo.Referrers() {
					iff, ok := use.(*ssa.If)
					if !ok {
						continue
					}
					nilSide := iff.Block().Succs[0]
					if bo.Op == token.NEQ {
						nilSide = iff.Block().Succs[1]
					}
					if endsInPanic(nilSide) {
						continue // an assertion, not tolerance
					}
					if tolerates[f] == nil {
						tolerates[f] = map[int]token.Pos{}
						errOnNil[f] = map[int]bool{}
					}
					if _, seen := tolerates[f][i]; !seen {
						errOnNil[f][i] = true
					}
					if !returnsErr(nilSide) {
						errOnNil[f][i] = false
					}
					tolerates[f][i] = bo.Pos()
				}
			}
		}
	}
	// (ii) functions with a (nil, nil) return
	mayNil1 := map[*ssa.Function]bool{}   // single pointer result that can be nil
	mayNilNil := map[*ssa.Function]bool{} // (ptr, error) with a nil, nil path
	var canBeNil func(v ssa.Value, depth int, seen map[ssa.Value]bool) bool
	canBeNil = func(v ssa.Value, depth int, seen map[ssa.Value]bool) bool {
		if depth > 6 || seen[v] {
			return false
		}
		seen[v] = true
		switch x := v.(type) {
		case *ssa.Const:
			return x.IsNil()
		case *ssa.Phi:
			for _, e := range x.Edges {
				if canBeNil(e, depth+1, seen) {
					return true
				}
			}
		case *ssa.Call:
			if g := x.Common().StaticCallee(); g != nil && mayNil1[g] {
				return true
			}
		case *ssa.Extract:
			if call, ok := x.Tuple.(*ssa.Call); ok && x.Index == 0 {
				if g := call.Common().StaticCallee(); g != nil && mayNilNil[g] {
					return true
				}
			}
		case *ssa.UnOp:
			// a variable cell (captured by a closure): whatever was stored into it
			if al, ok := x.X.(*ssa.Alloc); ok && x.Op == token.MUL {
				for _, ref := range *al.Referrers() {
					if st, ok := ref.(*ssa.Store); ok && st.Addr == ssa.Value(al) && canBeNil(st.Val, depth+1, seen) {
						return true
					}
				}
			}
		}
		return false
	}
	for iter := 0; iter < 8; iter++ {
		for _, f := range all {
			res := f.Signature.Results()
			if res.Len() == 0 || !isPtr(res.At(0).Type()) {
				continue
			}
			// functions with a defer spill their results: `*r0 = v0; *r1 = v1; rundefers; return *r0, *r1` —
			// look at the stores instead
			type rv struct{ results []ssa.Value }
			var rets []rv
			for _, b := range f.Blocks {
				ret, ok := b.Instrs[len(b.Instrs)-1].(*ssa.Return)
				if !ok || len(ret.Results) != res.Len() {
					continue
				}
				vals := make([]ssa.Value, len(ret.Results))
				spilled := false
				for i, rr := range ret.Results {
					vals[i] = rr
					if ld, ok := rr.(*ssa.UnOp); ok && ld.Op == token.MUL {
						if al, ok := ld.X.(*ssa.Alloc); ok {
							for _, in := range b.Instrs {
								if st, ok := in.(*ssa.Store); ok && st.Addr == ssa.Value(al) {
									vals[i] = st.Val
									spilled = true
								}
							}
						}
					}
				}
				_ = spilled
				rets = append(rets, rv{vals})
			}
			for _, ret := range rets {
				if !canBeNil(ret.results[0], 0, map[ssa.Value]bool{}) {
					continue
				}
				switch {
				case res.Len() == 1:
					mayNil1[f] = true
				case res.Len() == 2 && core.IsErrorType(res.At(1).Type()) && core.IsNilConst(ret.results[1]):
					mayNilNil[f] = true
				case res.Len() == 2 && core.IsErrorType(res.At(1).Type()):
					// `return g(…)`: both results of one call to a function with a (nil, nil) path
					e0, ok0 := ret.results[0].(*ssa.Extract)
					e1, ok1 := ret.results[1].(*ssa.Extract)
					if ok0 && ok1 && e0.Tuple == e1.Tuple {
						if call, ok := e0.Tuple.(*ssa.Call); ok {
							if g := call.Common().StaticCallee(); g != nil && mayNilNil[g] {
								mayNilNil[f] = true
							}
						}
					}
				}
			}
		}
	}
	if os.Getenv("OGENVERIF_NILDEBUG") != "" {
		for f := range mayNilNil {
			fmt.Fprintln(os.Stderr, "MAYNILNIL", core.FuncName(f))
		}
	}
	r.Note("functions testing a pointer parameter for nil: %d; functions with a (nil, nil) return: %d; single-result functions that can return nil: %d", len(tolerates), len(mayNilNil), len(mayNil1))

	samePlace := func(a, b ssa.Value) bool {
		if a == b {
			return true
		}
		pa := accessPath(a, 0)
		return pa != "" && strings.Contains(pa, ".") && pa == accessPath(b, 0)
	}
	for _, fn := range all {
		type belief struct {
			v   ssa.Value
			why string
			pos token.Pos
			// okBlock: the successor taken when the call returned a nil error, if the callee answers a nil
			// argument with an error and the caller tests that error
			okBlock *ssa.BasicBlock
		}
		// the block reached when the error result of call is nil and the other side leaves
		okSucc := func(call ssa.CallInstruction) *ssa.BasicBlock {
			cv, ok := call.(*ssa.Call)
			if !ok {
				return nil
			}
			var errs []ssa.Value
			if core.IsErrorType(cv.Type()) {
				errs = append(errs, cv)
			}
			for _, ref := range *cv.Referrers() {
				if ex, ok := ref.(*ssa.Extract); ok && core.IsErrorType(ex.Type()) {
					errs = append(errs, ex)
				}
			}
			for _, e := range errs {
				for _, ref := range *e.Referrers() {
					bo, ok := ref.(*ssa.BinOp)
					if !ok || (bo.Op != token.EQL && bo.Op != token.NEQ) || !(core.IsNilConst(bo.X) || core.IsNilConst(bo.Y)) {
						continue
					}
					for _, use := range *bo.Referrers() {
						iff, ok := use.(*ssa.If)
						if !ok {
							continue
						}
						errSide, okSide := iff.Block().Succs[0], iff.Block().Succs[1]
						if bo.Op == token.EQL {
							errSide, okSide = okSide, errSide
						}
						if leaves(errSide) {
							return okSide
						}
					}
				}
			}
			return nil
		}
		var beliefs []belief
		for _, call := range core.Calls(fn) {
			g := call.Common().StaticCallee()
			args := call.Common().Args
			if g == nil {
				if mc, ok := call.Common().Value.(*ssa.MakeClosure); ok {
					g, _ = mc.Fn.(*ssa.Function)
				} else if ld, ok := call.Common().Value.(*ssa.UnOp); ok && ld.Op == token.MUL {
					// f := func…; f(x): the single closure stored into the variable
					if al, ok := ld.X.(*ssa.Alloc); ok {
						var only *ssa.Function
						n := 0
						for _, ref := range *al.Referrers() {
							if st, ok := ref.(*ssa.Store); ok && st.Addr == ssa.Value(al) {
								n++
								if mc, ok := st.Val.(*ssa.MakeClosure); ok {
									only, _ = mc.Fn.(*ssa.Function)
								}
							}
						}
						if n == 1 {
							g = only
						}
					}
				}
			}
			if g == nil {
				continue
			}
			for i, pos := range tolerates[g] {
				if i >= len(args) {
					continue
				}
				a := args[i]
				if _, own := a.(*ssa.Parameter); own {
					continue
				}
				if core.IsNilConst(a) {
					continue
				}
				bl := belief{v: a, why: fmt.Sprintf("%s tests its parameter %s for nil (%s)", core.FuncName(g), g.Params[i].Name(), c.Pos(pos)), pos: call.Pos()}
				if errOnNil[g][i] {
					bl.okBlock = okSucc(call)
				}
				beliefs = append(beliefs, bl)
			}
			if mayNilNil[g] {
				if cv, ok := call.(*ssa.Call); ok {
					for _, ref := range *cv.Referrers() {
						if ex, ok := ref.(*ssa.Extract); ok && ex.Index == 0 {
							beliefs = append(beliefs, belief{v: ex, why: fmt.Sprintf("%s has a `return nil, nil` path", core.FuncName(g)), pos: call.Pos()})
						}
					}
				}
			}
		}
		if len(beliefs) == 0 {
			continue
		}
		// nil tests in fn
		type test struct {
			v       ssa.Value
			blk     *ssa.BasicBlock
			nonNil  *ssa.BasicBlock
			nilSide *ssa.BasicBlock
		}
		var tests []test
		for _, b := range fn.Blocks {
			iff, ok := b.Instrs[len(b.Instrs)-1].(*ssa.If)
			if !ok {
				continue
			}
			var collect func(cond ssa.Value, succT, succF *ssa.BasicBlock)
			collect = func(cond ssa.Value, succT, succF *ssa.BasicBlock) {
				bo, ok := cond.(*ssa.BinOp)
				if !ok || (bo.Op != token.EQL && bo.Op != token.NEQ) {
					return
				}
				var v ssa.Value
				switch {
				case core.IsNilConst(bo.Y):
					v = bo.X
				case core.IsNilConst(bo.X):
					v = bo.Y
				default:
					return
				}
				t := test{v: v, blk: b}
				if bo.Op == token.EQL {
					t.nilSide, t.nonNil = succT, succF
				} else {
					t.nonNil, t.nilSide = succT, succF
				}
				tests = append(tests, t)
			}
			collect(iff.Cond, b.Succs[0], b.Succs[1])
		}
		reported := map[string]bool{}
		for _, bl := range beliefs {
			for _, b := range fn.Blocks {
				for _, in := range b.Instrs {
					var ptr ssa.Value
					switch x := in.(type) {
					case *ssa.Call:
						// handing the value to a module function that dereferences that parameter and never tests it
						// for nil is a dereference
						if g := x.Common().StaticCallee(); g != nil && g.Blocks != nil && core.InModule(g) {
							for i, a := range x.Common().Args {
								if i >= len(g.Params) || !isPtr(a.Type()) || !samePlace(a, bl.v) {
									continue
								}
								if _, tested := tolerates[g][i]; tested {
									continue
								}
								if derefsParamSomewhere(g, i) {
									ptr = a
								}
							}
						}
					case *ssa.FieldAddr:
						ptr = x.X
					case *ssa.UnOp:
						if x.Op == token.MUL && isPtr(x.X.Type()) {
							switch x.X.(type) {
							case *ssa.FieldAddr, *ssa.Alloc, *ssa.IndexAddr, *ssa.Global, *ssa.FreeVar:
							default:
								ptr = x.X
							}
						}
					}
					if ptr == nil || !isPtr(ptr.Type()) || !samePlace(ptr, bl.v) {
						continue
					}
					guarded := false
					if bl.okBlock != nil && (bl.okBlock == b || bl.okBlock.Dominates(b)) && len(bl.okBlock.Preds) == 1 {
						guarded = true // the callee rejected nil with an error and the caller left on that error
					}
					for _, t := range tests {
						if !samePlace(t.v, bl.v) {
							continue
						}
						if len(t.nonNil.Preds) == 1 && (t.nonNil == b || t.nonNil.Dominates(b)) {
							guarded = true
						}
						if leaves(t.nilSide) && t.blk.Dominates(b) && t.blk != b {
							guarded = true
						}
					}
					what := accessPath(bl.v, 0)
					if what == "" {
						what = bl.v.Name()
						if phi, ok := bl.v.(*ssa.Phi); ok && phi.Comment != "" {
							what = phi.Comment
						}
						if ex, ok := bl.v.(*ssa.Extract); ok {
							if call, ok := ex.Tuple.(*ssa.Call); ok {
								what = "result of " + core.CalleeName(call.Common())
							}
						}
						if ld, ok := bl.v.(*ssa.UnOp); ok {
							if ia, ok := ld.X.(*ssa.IndexAddr); ok {
								what = "element of " + strings.TrimPrefix(accessPath(ia.X, 0), "$")
								if what == "element of " {
									what = "element of " + ia.X.Name()
								}
							}
						}
					}
					key := fmt.Sprintf("nil-belief:%s:%s", fnKeyFull(fn), strings.TrimPrefix(what, "$"))
					if guarded {
						r.Ob(true, "")
						continue
					}
					if reported[key] {
						continue
					}
					reported[key] = true
					if e := tableReason(table, key); e != "" {
						r.Justified++
						r.Pass(fmt.Sprintf("%s at %s: reviewed: %s", key, c.Pos(in.Pos()), e))
						continue
					}
					r.Fail(key, c.Pos(in.Pos()), fmt.Sprintf("%s dereferences %s here without a nil test, although it can be nil: %s (call at %s); a document that puts null there crashes the generator", fn.Name(), strings.TrimPrefix(what, "$"), bl.why, c.Pos(bl.pos)))
				}
			}
		}
	}
}

// nilableFields: struct fields that the generator itself leaves nil for some
// members (confirmed by reading: ir.Field literals without Spec are built for
// additional / pattern property maps, sum members, tuple elements, security
// types). Every dereference of such a field must sit under a nil test of the
// same access path.
var nilableFields = map[string]string{
	"Field.Spec": "synthetic struct members (AdditionalProps, Pattern<N>Props, OneOf/AnyOf sum members, tuple V<N>, security fields) have no property spec",
}

// checkNilableFieldDerefs (R11.10).
func checkNilableFieldDerefs(c *core.Ctx, prog *core.Prog, table *panicob.Table) {
	r := c.NewRule("R11.10", "S1", "fields the generator leaves nil for synthetic members (ir.Field.Spec) are dereferenced only under a nil test", 5)
	var fns []*ssa.Function
	for _, pp := range []string{pkgGen, pkgIR} {
		if sp := prog.ByPath[pp]; sp != nil {
			for _, top := range core.PkgFuncs(prog.SSA, sp) {
				fns = append(fns, core.AllFuncs(top)...)
			}
		}
	}
	seen := map[*ssa.Function]bool{}
	for _, fn := range fns {
		if seen[fn] || fn.Blocks == nil {
			continue
		}
		seen[fn] = true
		// loads of a nilable field
		type load struct {
			v    *ssa.UnOp
			path string
		}
		var loads []load
		for _, b := range fn.Blocks {
			for _, in := range b.Instrs {
				ld, ok := in.(*ssa.UnOp)
				if !ok || ld.Op != token.MUL {
					continue
				}
				fa, ok := ld.X.(*ssa.FieldAddr)
				if !ok {
					continue
				}
				_, tn := core.NamedOf(fa.X.Type())
				if _, nilable := nilableFields[tn+"."+fieldName(fa.X.Type(), fa.Field)]; !nilable {
					continue
				}
				loads = append(loads, load{ld, accessPath(ld, 0)})
			}
		}
		if len(loads) == 0 {
			continue
		}
		// nil tests per access path (or per value)
		type test struct {
			v       ssa.Value
			blk     *ssa.BasicBlock
			nonNil  *ssa.BasicBlock
			nilSide *ssa.BasicBlock
		}
		var tests []test
		for _, b := range fn.Blocks {
			iff, ok := b.Instrs[len(b.Instrs)-1].(*ssa.If)
			if !ok {
				continue
			}
			bo, ok := iff.Cond.(*ssa.BinOp)
			if !ok || (bo.Op != token.EQL && bo.Op != token.NEQ) {
				continue
			}
			var v ssa.Value
			switch {
			case core.IsNilConst(bo.Y):
				v = bo.X
			case core.IsNilConst(bo.X):
				v = bo.Y
			default:
				continue
			}
			t := test{v: v, blk: b}
			if bo.Op == token.EQL {
				t.nilSide, t.nonNil = b.Succs[0], b.Succs[1]
			} else {
				t.nonNil, t.nilSide = b.Succs[0], b.Succs[1]
			}
			tests = append(tests, t)
		}
		leaves := func(b *ssa.BasicBlock) bool {
			for d := 0; d < 3 && b != nil; d++ {
				switch b.Instrs[len(b.Instrs)-1].(type) {
				case *ssa.Return, *ssa.Panic:
					return true
				}
				if len(b.Succs) != 1 {
					return false
				}
				b = b.Succs[0]
			}
			return false
		}
		// `continue` on nil in a loop: the nil side jumps back to the loop header without reaching the deref
		reported := map[string]bool{}
		for _, l := range loads {
			// dereferences of the loaded pointer
			for _, ref := range *l.v.Referrers() {
				var at ssa.Instruction
				switch x := ref.(type) {
				case *ssa.FieldAddr:
					if x.X == ssa.Value(l.v) {
						at = x
					}
				case *ssa.UnOp:
					if x.Op == token.MUL && x.X == ssa.Value(l.v) {
						at = x
					}
				}
				if at == nil {
					continue
				}
				guarded := false
				for _, t := range tests {
					same := t.v == ssa.Value(l.v) || sameFieldLoad(t.v, l.v)
					if !same && l.path != "" {
						same = accessPath(t.v, 0) == l.path
					}
					if !same {
						continue
					}
					if len(t.nonNil.Preds) == 1 && (t.nonNil == at.Block() || t.nonNil.Dominates(at.Block())) {
						guarded = true
					}
					if t.blk.Dominates(at.Block()) && t.blk != at.Block() && (leaves(t.nilSide) || !blockReachesAvoiding(t.nilSide, at.Block(), t.blk)) {
						guarded = true
					}
				}
				key := fmt.Sprintf("nilable-field:%s:%s", fnKeyFull(fn), strings.TrimPrefix(l.path, "$"))
				if l.path == "" {
					key = fmt.Sprintf("nilable-field:%s:Spec", fnKeyFull(fn))
				}
				if guarded {
					r.Ob(true, "")
					continue
				}
				if reported[key] {
					continue
				}
				reported[key] = true
				if e := tableReason(table, key); e != "" {
					r.Justified++
					r.Pass(fmt.Sprintf("%s at %s: reviewed: %s", key, c.Pos(at.Pos()), e))
					continue
				}
				r.Fail(key, c.Pos(at.Pos()), fmt.Sprintf("%s dereferences a member's Spec without a nil test: members the generator makes up (additional / pattern property maps, inline oneOf/anyOf members, tuple elements) have none, and a document that produces one here crashes the generator", fn.Name()))
			}
		}
	}
}

// blockReachesAvoiding: is `to` reachable from `from` without passing through `avoid`?
func blockReachesAvoiding(from, to, avoid *ssa.BasicBlock) bool {
	seen := map[*ssa.BasicBlock]bool{}
	stack := []*ssa.BasicBlock{from}
	for len(stack) > 0 {
		b := stack[len(stack)-1]
		stack = stack[:len(stack)-1]
		if seen[b] || b == avoid {
			continue
		}
		seen[b] = true
		if b == to {
			return true
		}
		stack = append(stack, b.Succs...)
	}
	return false
}

// sameFieldLoad: two loads of the same field of the same (SSA, hence immutable) base pointer.
func sameFieldLoad(a, b ssa.Value) bool {
	la, ok1 := a.(*ssa.UnOp)
	lb, ok2 := b.(*ssa.UnOp)
	if !ok1 || !ok2 || la.Op != token.MUL || lb.Op != token.MUL {
		return false
	}
	fa, ok1 := la.X.(*ssa.FieldAddr)
	fb, ok2 := lb.X.(*ssa.FieldAddr)
	return ok1 && ok2 && fa.X == fb.X && fa.Field == fb.Field
}

// derefsParamSomewhere: the function loads or stores through its i-th parameter.
func derefsParamSomewhere(g *ssa.Function, i int) bool {
	p := g.Params[i]
	if p.Referrers() == nil {
		return false
	}
	for _, ref := range *p.Referrers() {
		switch x := ref.(type) {
		case *ssa.FieldAddr:
			if x.X == ssa.Value(p) && x.Referrers() != nil {
				for _, u := range *x.Referrers() {
					switch u.(type) {
					case *ssa.UnOp, *ssa.Store:
						return true
					}
				}
			}
		case *ssa.UnOp:
			if x.Op == token.MUL && x.X == ssa.Value(p) {
				return true
			}
		}
	}
	return false
}

// checkTypeGraphWalksLinear (R11.11, S1). A recursive walk over the type graph that guards against cycles with a set
// scoped to the current path (`path.add(t); defer path.delete(t)`) and keeps no memory of finished nodes visits a type
// once per path that leads to it: on a chain of n schemas whose two members both refer to the next one that is 2^n
// visits (22 levels took 18 s before f2b30958; 40 never finish), i.e. generation is not bounded in any practical sense
// for a document of a few kilobytes. The structural condition decided here, for every function that calls
// (*walkpath).add: it either never removes what it added (the set is a visited set: every node at most once), or it also
// records exhausted nodes with (*walkpath).markDone. Both forms are linear in the size of the graph.
func checkTypeGraphWalksLinear(c *core.Ctx, prog *core.Prog) {
	r := c.NewRule("R11.11", "S1", "walks over the type graph visit a shared subtree once (visited set, or path set plus a memo of finished nodes)", 2)
	sp := prog.ByPath[pkgIR]
	if sp == nil {
		r.Undecided("load:gen/ir", "-", "package not loaded")
		return
	}
	n := 0
	for _, p := range prog.SSA.AllPackages() {
		if p.Pkg == nil || !core.InModulePath(p.Pkg.Path()) {
			continue
		}
		for _, top := range core.PkgFuncs(prog.SSA, p) {
			calls := map[string]token.Pos{}
			for _, fn := range core.AllFuncs(top) {
				for _, call := range core.Calls(fn) {
					name := core.CalleeName(call.Common())
					for _, m := range []string{"add", "delete", "markDone"} {
						if strings.HasSuffix(name, "/gen/ir.walkpath)."+m) {
							if _, ok := calls[m]; !ok {
								calls[m] = call.Pos()
							}
						}
					}
				}
			}
			addPos, adds := calls["add"]
			if !adds || strings.HasSuffix(core.FuncName(top), "walkpath).add") {
				continue
			}
			n++
			_, deletes := calls["delete"]
			_, memo := calls["markDone"]
			key := "type-walk-linear:" + fnKeyFull(top)
			switch {
			case !deletes:
				r.Pass(fmt.Sprintf("%s: what it adds stays in the set (visited set)", fnKeyFull(top)))
			case memo:
				r.Pass(fmt.Sprintf("%s: path set plus markDone for finished nodes", fnKeyFull(top)))
			default:
				r.Fail(key, c.Pos(addPos), fmt.Sprintf("%s walks the type graph with a path-scoped set (add + delete) and no memo of finished nodes: a type reachable over k paths is walked k times, 2^n for a chain of n schemas with two references each — generation of a small document does not finish", fnKeyFull(top)))
			}
		}
	}
	if n == 0 {
		r.Undecided("anchor:walkpath.add", "-", "no caller of (*walkpath).add found")
	}
}
