package rules

import (
	"fmt"
	"go/ast"
	"go/constant"
	"go/token"
	"go/types"
	"sort"
	"strings"

	"golang.org/x/tools/go/ssa"

	"ogenverif/internal/core"
	"ogenverif/internal/peval"
	"ogenverif/internal/tmpl"
)

func init() {
	register(&Property{
		ID: "C09",
		Meta: core.Meta{
			Level:       "other",
			Explanation: "Per expansion (S2, every generated handler and client method that evaluates security): (R09.1) every call of the user handler is dominated by the success edge of every security call and by the true edge of the requirement test, and the failure edges build *ogenerrors.SecurityError (→ 401 by the Code() constant); (R09.2) bit discipline: the k-th security block sets exactly bit (k/8, k%8) of `satisfied`, distinct blocks set distinct bits, every requirement mask is a subset of the settable bits, the array is long enough, and the requirement closure has the shape OR-over-alternatives of AND-over-bytes (the only comparison is `satisfied[i] & mask != mask` on the same mask, its true edge continues the outer loop, `true` is returned after the inner loop and `false` after the outer) — for the server and the client copy; (R09.4) the credential carrier agrees: the place the generated client writes each scheme's credential (header name, query key, cookie name, Basic, Bearer prefix) is the place the generated server reads it from. S1: (R09.3) the index arithmetic in the templates (div/mod by 8) equals bitset.Set's, and scheme indexes are assigned once per scheme name; (R09.5) operation-level security replaces the global one (φ selected by `!= nil`, never a concatenation). NOT decided: requirement structures outside the fixture corpus for S2 rules; what the user's SecurityHandler does.",
			Assumptions: []string{"S2 quantifies over the fixture corpus"},
			TrustedBase: []string{"cmd/ogen as macro-expander (build step)"},
		},
		Run: runC09,
	})
}

func runC09(c *core.Ctx) error {
	ex, err := c.Expand(fixtureNames(c))
	if err != nil {
		return err
	}
	r1 := c.NewRule("R09.1", "S2", "handler dominated by every security call's success and the requirement test; failures build SecurityError", 20)
	r2 := c.NewRule("R09.2", "S2", "bit discipline and requirement-loop shape (server and client)", 24)
	r3 := c.NewRule("R09.3", "S1", "template index arithmetic equals bitset.Set; one index per scheme name", 3)
	r4 := c.NewRule("R09.4", "S2", "client writes each credential where the server reads it", 6)
	r5 := c.NewRule("R09.5", "S1", "operation-level security replaces global security", 1)
	r1.Note("fixtures: %v", ex.FixtureNames())

	nSec := 0
	for _, fx := range ex.Fixtures {
		for _, h := range handlersOf(ex, fx) {
			if len(h.security) == 0 {
				continue
			}
			nSec++
			checkSecurityGates(c, r1, h)
			checkBits(c, r2, h.key+"/server", h.fn, h.security)
		}
		// client copies
		pkg := ex.Prog.ByPath[fx.PkgPath]
		for _, fn := range core.PkgFuncs(ex.Prog.SSA, pkg) {
			if fn.Parent() != nil || !strings.HasPrefix(fn.Name(), "send") || fn.Signature.Recv() == nil {
				continue
			}
			var sec []*ssa.Call
			for _, call := range core.Calls(fn) {
				if cl, ok := call.(*ssa.Call); ok {
					if cal := cl.Common().StaticCallee(); cal != nil && strings.HasPrefix(cal.Name(), "security") && cal.Signature.Recv() != nil {
						sec = append(sec, cl)
					}
				}
			}
			if len(sec) == 0 {
				continue
			}
			sort.Slice(sec, func(i, j int) bool { return sec[i].Pos() < sec[j].Pos() })
			checkBits(c, r2, fx.Name+"/"+strings.TrimPrefix(fn.Name(), "send")+"/client", fn, sec)
		}
		checkCarriers(c, r4, ex, fx)
		checkCredentialVerbatim(c, r4, ex, fx)
	}
	r1.Note("operations with security: %d", nSec)

	checkSecurityTemplates(c, r3)
	checkSecurityOverride(c, r5)
	return checkSecurityGeneratorState(c)
}

// checkCredentialVerbatim (R09.4): the credential travels unchanged: on the client the value written to the carrier
// is the token's field itself, on the server the token's field is assigned the carrier's value itself. Any call in
// between (escaping, trimming, case folding) on one side only makes the two sides disagree.
func checkCredentialVerbatim(c *core.Ctx, r *core.Rule, ex *core.Expansion, fx *core.Fixture) {
	p := ex.Prog.PkgBy[fx.PkgPath]
	if p == nil {
		return
	}
	isTokenField := func(e ast.Expr) bool {
		sel, ok := e.(*ast.SelectorExpr)
		if !ok {
			return false
		}
		id, ok := sel.X.(*ast.Ident)
		return ok && id.Name == "t" && (sel.Sel.Name == "APIKey" || sel.Sel.Name == "Token" || sel.Sel.Name == "Username" || sel.Sel.Name == "Password")
	}
	hasCall := func(e ast.Expr) string {
		found := ""
		ast.Inspect(e, func(n ast.Node) bool {
			if ce, ok := n.(*ast.CallExpr); ok && found == "" {
				found = types.ExprString(ce.Fun)
			}
			return true
		})
		return found
	}
	for _, f := range p.Syntax {
		for _, d := range f.Decls {
			fd, ok := d.(*ast.FuncDecl)
			if !ok || fd.Body == nil || fd.Recv == nil || !strings.HasPrefix(fd.Name.Name, "security") {
				continue
			}
			side := astRecvName(fd.Recv.List[0].Type)
			key := fmt.Sprintf("%s/%s.%s", fx.Name, side, fd.Name.Name)
			ast.Inspect(fd.Body, func(n ast.Node) bool {
				switch x := n.(type) {
				case *ast.AssignStmt:
					// server: t.APIKey = <carrier value>
					if len(x.Lhs) == 1 && len(x.Rhs) == 1 && isTokenField(x.Lhs[0]) {
						if fn := hasCall(x.Rhs[0]); fn != "" && !strings.HasSuffix(fn, ".Get") && !strings.HasSuffix(fn, ".Value") {
							r.Fail("credential-transformed:"+key, c.Pos(x.Pos()), fmt.Sprintf("%s assigns the credential through %s(…) instead of taking the carrier's value as it is: the security handler sees another key than the client sent", fd.Name.Name, fn))
						} else {
							r.Pass(key + ": token field takes the carrier value verbatim")
						}
					}
				case *ast.CallExpr:
					// client: X.Set(name, <expr with t.Field>) / AddCookie(&http.Cookie{Value: <expr>}) / SetBasicAuth(t.U, t.P)
					for _, a := range x.Args {
						usesTok := false
						ast.Inspect(a, func(m ast.Node) bool {
							if e, ok := m.(ast.Expr); ok && isTokenField(e) {
								usesTok = true
							}
							return true
						})
						if !usesTok {
							continue
						}
						// the argument may concatenate a constant prefix ("Bearer " + t.Token); calls around the field are not allowed
						bad := ""
						ast.Inspect(a, func(m ast.Node) bool {
							if ce, ok := m.(*ast.CallExpr); ok {
								inner := false
								for _, ia := range ce.Args {
									ast.Inspect(ia, func(k ast.Node) bool {
										if e, ok := k.(ast.Expr); ok && isTokenField(e) {
											inner = true
										}
										return true
									})
								}
								if inner {
									bad = types.ExprString(ce.Fun)
								}
							}
							return true
						})
						if bad != "" {
							r.Fail("credential-transformed:"+key, c.Pos(a.Pos()), fmt.Sprintf("%s sends the credential through %s(…) instead of as it is: the server hands the transformed text to the security handler", fd.Name.Name, bad))
						} else {
							r.Pass(key + ": token field is written to the carrier verbatim")
						}
					}
				}
				return true
			})
		}
	}
}

// checkSecurityGeneratorState (R09.6, S1):
//
//	(a) the bit a scheme gets in a requirement mask is its position in the operation's Securities list: the index handed
//	    to bitset.Set in generateSecurities comes from the name→position map or from len(Securities)-1, never from a
//	    loop index over alternatives or schemes;
//	(b) the OpenAPI parser keeps no per-operation state: outside Parse / the constructor its fields are only touched by
//	    keyed map inserts (reference caches, the operationId set), so nothing parsed for one operation can leak into the next.
func checkSecurityGeneratorState(c *core.Ctx) error {
	r := c.NewRule("R09.6", "S1", "requirement bits are scheme positions; the parser carries no per-operation state", 2)
	prog, err := c.Program("./gen", "./openapi/parser")
	if err != nil {
		return err
	}
	// (f) a long-lived table that lets parsing / generation of a requirement skip work answers for every input the work reads
	checkSkipMemoKeyCoversInputs(c, r, prog, skipMemoReviewed, pkgParser, pkgGen)
	// (a)
	gs := prog.Func(pkgGen, "Generator.generateSecurities")
	if gs == nil {
		r.Undecided("anchor:generateSecurities", "-", "gen.(*Generator).generateSecurities not found")
	} else {
		// (c) nothing of a requirement is recorded before the decision to skip it has been taken: the stores to
		// Securities / Requirements sit in generateSecurities itself (not in the closure whose error is handed to
		// trySkip) and are dominated by the no-error edge of the test that leads to trySkip.
		var okEdge *ssa.BasicBlock
		for _, call := range core.Calls(gs) {
			if !strings.HasSuffix(core.CalleeName(call.Common()), "Generator).trySkip") {
				continue
			}
			// walk up to the `err != nil` test that dominates the trySkip call
			for b := call.Block(); b != nil; b = b.Idom() {
				if iff, ok := b.Instrs[len(b.Instrs)-1].(*ssa.If); ok {
					if bo, ok := iff.Cond.(*ssa.BinOp); ok && bo.Op == token.NEQ && core.IsNilConst(bo.Y) && core.IsErrorType(bo.X.Type()) && (b.Succs[0] == call.Block() || b.Succs[0].Dominates(call.Block())) {
						okEdge = b.Succs[1]
						break
					}
				}
			}
		}
		if okEdge == nil {
			r.Undecided("security-skip:shape", c.Pos(gs.Pos()), "no `if err != nil { … trySkip … }` found in generateSecurities")
		} else {
			nRec := 0
			for _, fn := range core.AllFuncs(gs) {
				for _, b := range fn.Blocks {
					for _, in := range b.Instrs {
						st, ok := in.(*ssa.Store)
						if !ok {
							continue
						}
						fa, ok := st.Addr.(*ssa.FieldAddr)
						if !ok {
							continue
						}
						f := fieldName(fa.X.Type(), fa.Field)
						if f != "Securities" && f != "Requirements" {
							continue
						}
						nRec++
						if fn == gs && (okEdge == b || okEdge.Dominates(b)) {
							r.Pass(fmt.Sprintf("generateSecurities records %s only after the requirement was resolved completely", f))
						} else {
							r.Fail("security-recorded-before-skip:"+f, c.Pos(st.Pos()), fmt.Sprintf("generateSecurities appends to %s before it is known whether the requirement is skipped: a requirement skipped under ignore_not_implemented leaves its earlier schemes behind (a scheme no alternative uses is still evaluated; with no alternative left the bitset has length 0 and the package does not compile)", f))
						}
					}
				}
			}
			if nRec == 0 {
				r.Undecided("security-record:none", c.Pos(gs.Pos()), "no store to Securities / Requirements found")
			}
		}
		// (d) fail closed: some test on len(r.Requirements) leads to a non-nil error return (all alternatives skipped
		// must not yield an operation without any security check)
		closed := false
		for _, b := range gs.Blocks {
			iff, ok := b.Instrs[len(b.Instrs)-1].(*ssa.If)
			if !ok || !mentionsLenOfField(iff.Cond, "Requirements", 0) {
				continue
			}
			for _, s := range b.Succs {
				if ret, ok := s.Instrs[len(s.Instrs)-1].(*ssa.Return); ok && len(ret.Results) == 2 && !core.IsNilConst(ret.Results[1]) {
					closed = true
				}
			}
		}
		if closed {
			r.Pass("generateSecurities reports an error when no requirement survived skipping")
		} else {
			r.Fail("security-fail-open", c.Pos(gs.Pos()), "generateSecurities never turns \"no requirement survived skipping\" into an error: when every alternative is skipped the operation is generated with no security check at all")
		}
		n := 0
		for _, fn := range core.AllFuncs(gs) {
			for _, call := range core.Calls(fn) {
				callee := call.Common().StaticCallee()
				if callee == nil || callee.Name() != "Set" || !strings.HasSuffix(core.FuncPkgPath(callee), "/internal/bitset") {
					continue
				}
				n++
				idx := call.Common().Args[1]
				var bad token.Pos
				seen := map[ssa.Value]bool{}
				var walk func(v ssa.Value, d int)
				walk = func(v ssa.Value, d int) {
					if seen[v] || d > 8 {
						return
					}
					seen[v] = true
					switch x := v.(type) {
					case *ssa.Phi:
						// a loop counter (range over a slice): one edge is the phi itself plus a constant
						for _, e := range x.Edges {
							if bo, ok := e.(*ssa.BinOp); ok && bo.Op == token.ADD && bo.X == ssa.Value(x) {
								bad = call.Pos()
								return
							}
						}
						for _, e := range x.Edges {
							walk(e, d+1)
						}
					case *ssa.Extract:
						if _, isNext := x.Tuple.(*ssa.Next); isNext {
							bad = x.Pos()
							if bad == token.NoPos {
								bad = call.Pos()
							}
							return
						}
						walk(x.Tuple, d+1)
					case *ssa.UnOp:
						// load of a local: follow the stores
						if al, ok := x.X.(*ssa.Alloc); ok {
							for _, ref := range *al.Referrers() {
								if st, ok := ref.(*ssa.Store); ok && st.Addr == ssa.Value(al) {
									walk(st.Val, d+1)
								}
							}
						}
						if fv, ok := x.X.(*ssa.FreeVar); ok {
							// captured loop variable of the enclosing function
							_ = fv
							bad = call.Pos()
						}
					case *ssa.Convert:
						walk(x.X, d+1)
					case *ssa.BinOp:
						// the running index of a range over a slice is phi+1 with the phi fed by this very value
						if phi, ok := x.X.(*ssa.Phi); ok && x.Op == token.ADD {
							for _, e := range phi.Edges {
								if e == ssa.Value(x) {
									bad = call.Pos()
									return
								}
							}
						}
						// otherwise len(..)-1
					case *ssa.Lookup, *ssa.Const:
						// indexes[name]
					}
				}
				walk(idx, 0)
				if bad != token.NoPos {
					r.Fail("security-bit-from-loop-index", c.Pos(call.Pos()), "generateSecurities sets a requirement bit whose index comes from a loop index (alternative or scheme number) instead of the scheme's position in Securities: a conjunction {A, B} collapses to one bit and one credential satisfies it")
				} else {
					r.Pass("generateSecurities: requirement bit index = position of the scheme in Securities")
				}
			}
		}
		if n == 0 {
			r.Undecided("anchor:bitset.Set", c.Pos(gs.Pos()), "no bitset.Set call found in generateSecurities")
		}
	}
	checkResetBufferNotRetained(c, r, prog, core.Module+"/openapi/parser", pkgGen)
	// (e) the generator-wide scheme cache holds finished schemes only: whatever is stored into Generator.securities is
	// the first result of a call whose error result was tested, on the no-error edge. A scheme registered while it is
	// still being built stays in the cache when building fails with an error the configuration ignores, and the next
	// operation that names it gets the half-built scheme (no type, no parameter name) without any error.
	{
		nIns := 0
		sp := prog.ByPath[pkgGen]
		if sp != nil {
			for _, top := range core.PkgFuncs(prog.SSA, sp) {
				for _, fn := range core.AllFuncs(top) {
					for _, b := range fn.Blocks {
						for _, in := range b.Instrs {
							mu, ok := in.(*ssa.MapUpdate)
							if !ok {
								continue
							}
							ld, ok := mu.Map.(*ssa.UnOp)
							if !ok {
								continue
							}
							fa, ok := ld.X.(*ssa.FieldAddr)
							if !ok || fieldName(fa.X.Type(), fa.Field) != "securities" || recvName(fa.X.Type()) != "Generator" {
								continue
							}
							nIns++
							key := "security-cache-insert:" + fnKeyFull(fn)
							ex, ok := mu.Value.(*ssa.Extract)
							var call *ssa.Call
							if ok && ex.Index == 0 {
								call, _ = ex.Tuple.(*ssa.Call)
							}
							if call == nil {
								r.Fail(key, c.Pos(mu.Pos()), "a value that is not the result of a finished call is stored into Generator.securities: a scheme registered before it is complete stays in the cache when building it fails with an ignored error, and later operations use the half-built scheme")
								continue
							}
							checked := false
							for _, ref := range *call.Referrers() {
								ee, ok := ref.(*ssa.Extract)
								if !ok || !core.IsErrorType(ee.Type()) {
									continue
								}
								for _, u := range *ee.Referrers() {
									bo, ok := u.(*ssa.BinOp)
									if !ok || bo.Op != token.NEQ || !core.IsNilConst(bo.Y) {
										continue
									}
									for _, bu := range *bo.Referrers() {
										if iff, ok := bu.(*ssa.If); ok {
											okb := iff.Block().Succs[1]
											if okb == b || okb.Dominates(b) {
												checked = true
											}
										}
									}
								}
							}
							if checked {
								r.Pass(fmt.Sprintf("%s stores the checked result of %s into Generator.securities", fnKeyFull(fn), core.CalleeName(call.Common())))
							} else {
								r.Fail(key, c.Pos(mu.Pos()), "the result of "+core.CalleeName(call.Common())+" is stored into Generator.securities without its error having been tested first")
							}
						}
					}
				}
			}
		}
		if nIns == 0 {
			r.Undecided("security-cache-insert:none", "-", "no insert into Generator.securities found")
		}
	}
	// (b)
	pp := prog.ByPath[core.Module+"/openapi/parser"]
	if pp == nil {
		r.Undecided("load:openapi/parser", "-", "package not loaded")
		return nil
	}
	writes := 0
	// per-operation scope: everything reachable from parseOp through static calls and closures
	entry := prog.Func(core.Module+"/openapi/parser", "parser.parseOp")
	if entry == nil {
		r.Undecided("anchor:parser.parseOp", "-", "openapi/parser.(*parser).parseOp not found")
		return nil
	}
	scope := map[*ssa.Function]bool{}
	var reach func(f *ssa.Function)
	reach = func(f *ssa.Function) {
		if f == nil || scope[f] || f.Blocks == nil || core.FuncPkgPath(f) != core.Module+"/openapi/parser" {
			return
		}
		scope[f] = true
		for _, af := range f.AnonFuncs {
			reach(af)
		}
		for _, call := range core.Calls(f) {
			reach(call.Common().StaticCallee())
		}
	}
	reach(entry)
	r.Note("functions reachable from parser.parseOp inside openapi/parser: %d", len(scope))
	for _, fn := range core.PkgFuncs(prog.SSA, pp) {
		if !scope[fn] {
			continue
		}
		for _, b := range fn.Blocks {
			for _, in := range b.Instrs {
				st, ok := in.(*ssa.Store)
				if !ok {
					continue
				}
				fa, ok := st.Addr.(*ssa.FieldAddr)
				if !ok {
					continue
				}
				owner := fa.X.Type().Underlying().(*types.Pointer).Elem()
				n, ok := types.Unalias(owner).(*types.Named)
				if !ok || n.Obj().Name() != "parser" {
					continue
				}
				writes++
				fname := owner.Underlying().(*types.Struct).Field(fa.Field).Name()
				r.Fail("parser-state:"+fnKey(fn)+":"+fname, c.Pos(st.Pos()), fmt.Sprintf("%s assigns parser.%s while operations are being parsed: what one operation computed (e.g. its own security override) is visible to the operations parsed after it", fn.Name(), fname))
			}
		}
	}
	if writes == 0 {
		r.Pass(fmt.Sprintf("openapi/parser: none of the %d functions reachable from parseOp assigns a field of parser (only keyed map inserts)", len(scope)))
	}
	return nil
}

func checkSecurityGates(c *core.Ctx, r *core.Rule, h *handlerInfo) {
	for _, hc := range h.handler {
		b := blockOfInParent(h.fn, hc)
		if b == nil {
			r.Undecided(h.key+":handler-position", c.Pos(hc.Pos()), "cannot position the handler call")
			continue
		}
		for _, sc := range h.security {
			name := sc.Common().StaticCallee().Name()
			if core.DominatedBySuccess(sc, b) {
				r.Pass(fmt.Sprintf("%s: handler dominated by success of %s", h.key, name))
			} else {
				r.Fail(h.key+":handler-before:"+name, c.Pos(hc.Pos()), "the user handler is reachable on the error edge of "+name)
			}
		}
		if h.requirement == nil {
			r.Fail(h.key+":no-requirement-test", c.Pos(h.fn.Pos()), "no requirement test guards the handler")
			continue
		}
		ok := false
		for _, eb := range core.EdgeBlocks(h.requirement, true) {
			if eb.Dominates(b) {
				ok = true
			}
		}
		if ok {
			r.Pass(h.key + ": handler dominated by the satisfied requirement test")
		} else {
			r.Fail(h.key+":handler-before-requirement", c.Pos(hc.Pos()), "the user handler is reachable although no security requirement alternative is satisfied")
		}
	}
	// the failure edge of the requirement test builds SecurityError and returns
	if h.requirement != nil {
		found := false
		for _, eb := range core.EdgeBlocks(h.requirement, false) {
			for _, b := range h.fn.Blocks {
				if !eb.Dominates(b) {
					continue
				}
				for _, in := range b.Instrs {
					if al, ok := in.(*ssa.Alloc); ok {
						if _, n := core.NamedOf(al.Type().(*types.Pointer).Elem()); n == "SecurityError" {
							found = true
						}
					}
				}
			}
		}
		if found {
			r.Pass(h.key + ": unsatisfied requirements build ogenerrors.SecurityError (401)")
		} else {
			r.Fail(h.key+":requirement-error", c.Pos(h.requirement.Pos()), "the unsatisfied-requirement edge does not build ogenerrors.SecurityError")
		}
	}
}

// checkBits implements R09.2 for one function (server handler or client send).
func checkBits(c *core.Ctx, r *core.Rule, key string, fn *ssa.Function, sec []*ssa.Call) {
	// satisfied: local array [N]uint8
	var satisfied *ssa.Alloc
	type setBit struct {
		idx, mask int64
		block     *ssa.BasicBlock
		pos       token.Pos
	}
	var sets []setBit
	for _, b := range fn.Blocks {
		for _, in := range b.Instrs {
			st, ok := in.(*ssa.Store)
			if !ok {
				continue
			}
			ia, ok := st.Addr.(*ssa.IndexAddr)
			if !ok {
				continue
			}
			al, ok := ia.X.(*ssa.Alloc)
			if !ok {
				continue
			}
			arr, ok := al.Type().(*types.Pointer).Elem().Underlying().(*types.Array)
			if !ok {
				continue
			}
			if bt, ok := arr.Elem().Underlying().(*types.Basic); !ok || bt.Kind() != types.Uint8 {
				continue
			}
			bo, ok := st.Val.(*ssa.BinOp)
			if !ok || bo.Op != token.OR {
				continue
			}
			idx, ok1 := core.ConstInt(ia.Index)
			mask, ok2 := core.ConstInt(bo.Y)
			if !ok1 || !ok2 {
				r.Undecided(key+":bit-store", c.Pos(st.Pos()), "non-constant bit index or mask")
				continue
			}
			satisfied = al
			sets = append(sets, setBit{idx, mask, b, st.Pos()})
		}
	}
	if satisfied == nil {
		r.Fail(key+":no-bitset", c.Pos(fn.Pos()), "security schemes are evaluated but no `satisfied` bit is ever set")
		return
	}
	n := satisfied.Type().(*types.Pointer).Elem().Underlying().(*types.Array).Len()
	sort.Slice(sets, func(i, j int) bool { return sets[i].pos < sets[j].pos })
	if len(sets) != len(sec) {
		r.Fail(key+":bit-count", c.Pos(fn.Pos()), fmt.Sprintf("%d security calls but %d bit assignments", len(sec), len(sets)))
		return
	}
	settable := make([]int64, n)
	seen := map[[2]int64]bool{}
	okBits := true
	for k, s := range sets {
		wantIdx, wantMask := int64(k/8), int64(1)<<(uint(k)%8)
		if s.idx != wantIdx || s.mask != wantMask {
			okBits = false
			r.Fail(fmt.Sprintf("%s:bit[%d]", key, k), c.Pos(s.pos), fmt.Sprintf("security block %d sets satisfied[%d] |= %#x, want satisfied[%d] |= %#x", k, s.idx, s.mask, wantIdx, wantMask))
		}
		if seen[[2]int64{s.idx, s.mask}] {
			okBits = false
			r.Fail(fmt.Sprintf("%s:bit[%d]:dup", key, k), c.Pos(s.pos), "two security schemes share one bit")
		}
		seen[[2]int64{s.idx, s.mask}] = true
		if s.idx < n {
			settable[s.idx] |= s.mask
		}
		// the bit is set only on the accepted edge of the k-th call (server: ok true; client: err == nil)
		call := sec[k]
		dom := false
		if tup, isTup := call.Type().(*types.Tuple); isTup && tup.Len() == 3 {
			for _, eb := range core.EdgeBlocks(extractOf(call, 1), true) {
				if eb.Dominates(s.block) || eb == s.block {
					dom = true
				}
			}
		}
		if !dom && core.DominatedBySuccess(call, s.block) {
			dom = true
		}
		if !dom {
			okBits = false
			r.Fail(fmt.Sprintf("%s:bit[%d]:edge", key, k), c.Pos(s.pos), fmt.Sprintf("bit %d is set outside the accepted edge of %s", k, call.Common().StaticCallee().Name()))
		}
	}
	if okBits {
		r.Pass(fmt.Sprintf("%s: %d schemes set bits 0..%d of [%d]uint8 on their accepted edges", key, len(sets), len(sets)-1, n))
	}
	if int64(len(sets)) > n*8 {
		r.Fail(key+":array-len", c.Pos(fn.Pos()), fmt.Sprintf("[%d]uint8 cannot hold %d scheme bits", n, len(sets)))
	}
	// requirement closure
	var clo *ssa.Function
	for _, a := range fn.AnonFuncs {
		if a.Signature.Params().Len() == 0 && a.Signature.Results().Len() == 1 && isBoolT(a.Signature.Results().At(0).Type()) {
			for _, fv := range a.FreeVars {
				if p, ok := fv.Type().(*types.Pointer); ok && types.Identical(p.Elem(), satisfied.Type().(*types.Pointer).Elem()) {
					clo = a
				}
			}
		}
	}
	if clo == nil {
		r.Fail(key+":no-requirement-closure", c.Pos(fn.Pos()), "no requirement closure over `satisfied` found")
		return
	}
	// masks: constant stores into the requirement slice literal
	reqMasks := map[int64]map[int64]int64{} // alt → byte → mask
	byteStores := func(al ssa.Value) map[int64]int64 {
		out := map[int64]int64{}
		for _, ref := range *al.Referrers() {
			ia, ok := ref.(*ssa.IndexAddr)
			if !ok {
				continue
			}
			bi, ok := core.ConstInt(ia.Index)
			if !ok {
				continue
			}
			for _, r2 := range *ia.Referrers() {
				if st, ok := r2.(*ssa.Store); ok && st.Addr == ssa.Value(ia) {
					if m, ok := core.ConstInt(st.Val); ok {
						out[bi] = m
					}
				}
			}
		}
		return out
	}
	for _, b := range clo.Blocks {
		for _, in := range b.Instrs {
			st, ok := in.(*ssa.Store)
			if !ok {
				continue
			}
			outer, ok := st.Addr.(*ssa.IndexAddr)
			if !ok {
				continue
			}
			alt, ok := core.ConstInt(outer.Index)
			if !ok {
				continue
			}
			if arr, ok := outer.X.Type().(*types.Pointer); !ok {
				continue
			} else if at, ok := arr.Elem().Underlying().(*types.Array); !ok {
				continue
			} else if inner, ok := at.Elem().Underlying().(*types.Array); !ok || inner.Len() != n {
				continue
			}
			// value: load of a local composite literal
			if ld, ok := st.Val.(*ssa.UnOp); ok && ld.Op == token.MUL {
				reqMasks[alt] = byteStores(ld.X)
			} else if _, isC := st.Val.(*ssa.Const); isC {
				reqMasks[alt] = map[int64]int64{} // zero value: the anonymous requirement
			}
		}
	}
	// number of alternatives: length of the literal's backing array
	nAlt := int64(-1)
	for _, b := range clo.Blocks {
		for _, in := range b.Instrs {
			if al, ok := in.(*ssa.Alloc); ok {
				if arr, ok := al.Type().(*types.Pointer).Elem().Underlying().(*types.Array); ok {
					if inner, ok := arr.Elem().Underlying().(*types.Array); ok && inner.Len() == n {
						nAlt = arr.Len()
					}
				}
			}
		}
	}
	if nAlt < 0 {
		r.Undecided(key+":requirements", c.Pos(clo.Pos()), "requirement literal not found")
		return
	}
	if nAlt == 0 {
		r.Fail(key+":no-alternatives", c.Pos(clo.Pos()), "the requirement list is empty: the operation can never be authorised")
	}
	okMasks := true
	for alt, bytes := range reqMasks {
		for bi, m := range bytes {
			if bi >= n || m&^settable[bi] != 0 {
				okMasks = false
				r.Fail(fmt.Sprintf("%s:mask[%d][%d]", key, alt, bi), c.Pos(clo.Pos()), fmt.Sprintf("requirement %d needs bits %#x of byte %d, but only %#x can ever be set: this alternative is unsatisfiable", alt, m, bi, settable[min64(bi, n-1)]))
			}
		}
	}
	if okMasks {
		r.Pass(fmt.Sprintf("%s: %d requirement alternatives, every mask ⊆ settable bits", key, nAlt))
	}
	// a scheme whose handler returned an error must not decide the request while an alternative that
	// does not contain the scheme is still open (server side: the error edge returns immediately)
	if strings.HasSuffix(key, "/server") {
		for k, call := range sec {
			returnsOnError := false
			for _, ev := range core.ErrValueOf(call) {
				for _, fb := range failureBlocks(ev) {
					for _, b := range fn.Blocks {
						if fb.Dominates(b) {
							if _, isRet := b.Instrs[len(b.Instrs)-1].(*ssa.Return); isRet {
								returnsOnError = true
							}
						}
					}
				}
			}
			if !returnsOnError {
				continue
			}
			idx, bit := int64(k/8), int64(1)<<(uint(k)%8)
			for alt := int64(0); alt < nAlt; alt++ {
				if reqMasks[alt][idx]&bit == 0 {
					r.Fail("scheme-error-short-circuits-alternatives", c.Pos(call.Pos()), fmt.Sprintf("%s: an error from %s answers 401 at once although requirement alternative %d does not contain that scheme: a request that fully satisfies alternative %d is refused when it also carries a rejected credential for another alternative", key, call.Common().StaticCallee().Name(), alt, alt))
					break
				}
			}
		}
	}
	// loop shape
	var cmp *ssa.BinOp
	nCmp := 0
	for _, b := range clo.Blocks {
		for _, in := range b.Instrs {
			bo, ok := in.(*ssa.BinOp)
			if !ok || (bo.Op != token.NEQ && bo.Op != token.EQL) {
				continue
			}
			if _, isIf := firstIf(bo); !isIf {
				continue
			}
			if and, ok := bo.X.(*ssa.BinOp); ok && and.Op == token.AND {
				nCmp++
				cmp = bo
			}
		}
	}
	shapeOK := false
	why := "the comparison `satisfied[i] & mask != mask` was not found"
	if cmp != nil && nCmp == 1 {
		and := cmp.X.(*ssa.BinOp)
		why = ""
		switch {
		case cmp.Op != token.NEQ:
			why = "the byte test is not `!=`"
		case cmp.Y != and.Y && cmp.Y != and.X:
			why = "the masked value is not compared with the same mask (all bits of the alternative must be set)"
		default:
			iff, _ := firstIf(cmp)
			t, f := iff.Block().Succs[0], iff.Block().Succs[1]
			// true edge: continue with the next alternative = a back edge to the outer loop header, which
			// encloses the inner loop header reached on the false edge
			switch {
			case !t.Dominates(iff.Block()):
				why = "a failing byte does not continue with the next alternative (its edge does not return to the loop over alternatives)"
			case !f.Dominates(iff.Block()) || !t.Dominates(f) || t == f:
				why = "a passing byte does not continue with the next byte of the same alternative"
			default:
				haveTrue, haveFalse := false, false
				for _, b := range clo.Blocks {
					ret, ok := b.Instrs[len(b.Instrs)-1].(*ssa.Return)
					if !ok {
						continue
					}
					isSucc := func(of *ssa.BasicBlock) bool {
						for _, s := range of.Succs {
							if s == b {
								return true
							}
						}
						return false
					}
					switch {
					case isConstBool(ret.Results[0], true):
						haveTrue = true
						if !isSucc(f) {
							why = "`return true` is not the exit of the loop over the bytes of one alternative"
						}
					case isConstBool(ret.Results[0], false):
						haveFalse = true
						if !isSucc(t) {
							why = "`return false` is not the exit of the loop over alternatives"
						}
					default:
						why = "the closure returns a non-constant verdict"
					}
				}
				if why == "" && (!haveTrue || !haveFalse) {
					why = "the closure does not return both true (an alternative is satisfied) and false (none is)"
				}
			}
		}
		shapeOK = why == ""
	}
	if shapeOK {
		r.Pass(key + ": requirement closure is OR over alternatives of AND over bytes")
	} else {
		pos := clo.Pos()
		if cmp != nil {
			pos = cmp.Pos()
		}
		r.Fail(key+":loop-shape", c.Pos(pos), "requirement evaluation does not have the shape OR-over-alternatives of AND-over-bits: "+why)
	}
}

func min64(a, b int64) int64 {
	if a < b {
		return a
	}
	if b < 0 {
		return 0
	}
	return b
}

func firstIf(v ssa.Value) (*ssa.If, bool) {
	for _, ref := range *v.Referrers() {
		if iff, ok := ref.(*ssa.If); ok {
			return iff, true
		}
	}
	return nil, false
}

func reaches(from, to *ssa.BasicBlock) bool {
	seen := map[*ssa.BasicBlock]bool{}
	stack := []*ssa.BasicBlock{from}
	for len(stack) > 0 {
		b := stack[len(stack)-1]
		stack = stack[:len(stack)-1]
		if b == to {
			return true
		}
		if seen[b] {
			continue
		}
		seen[b] = true
		stack = append(stack, b.Succs...)
	}
	return false
}

// carrierOf summarises where a security<X> function reads/writes the
// credential: a sorted list of "kind:name" facts from constant arguments.
func carrierOf(fn *ssa.Function) []string {
	set := map[string]bool{}
	for _, f := range core.AllFuncs(fn) {
		for _, call := range core.Calls(f) {
			cc := call.Common()
			name := core.CalleeName(cc)
			constArg := func(i int) string {
				if i < len(cc.Args) {
					if s, ok := core.ConstString(cc.Args[i]); ok {
						return s
					}
				}
				return ""
			}
			switch {
			case name == "(net/http.Header).Get" || name == "(net/http.Header).Set" || name == "(net/http.Header).Add":
				if k := constArg(1); k != "" {
					set["header:"+strings.ToLower(k)] = true
				}
			case strings.HasSuffix(name, ".findAuthorization"):
				set["header:authorization"] = true
				if k := constArg(1); k != "" {
					set["scheme:"+strings.ToLower(k)] = true
				}
			case name == "(*net/http.Request).BasicAuth" || name == "(*net/http.Request).SetBasicAuth":
				set["header:authorization"] = true
				set["scheme:basic"] = true
			case name == "(*net/http.Request).Cookie":
				if k := constArg(1); k != "" {
					set["cookie:"+k] = true
				}
			case name == "(net/url.Values).Get" || name == "(net/url.Values).Set" || name == "(net/url.Values).Has":
				if k := constArg(1); k != "" {
					set["query:"+k] = true
				}
			}
		}
		// string concatenations "Bearer " + token, cookie literals Name: "api_key"
		for _, b := range f.Blocks {
			for _, in := range b.Instrs {
				switch x := in.(type) {
				case *ssa.BinOp:
					if x.Op == token.ADD {
						if s, ok := core.ConstString(x.X); ok && strings.HasSuffix(s, " ") {
							set["scheme:"+strings.ToLower(strings.TrimSpace(s))] = true
						}
					}
				case *ssa.Store:
					if fa, ok := x.Addr.(*ssa.FieldAddr); ok && fieldName(fa.X.Type(), fa.Field) == "Name" {
						if _, n := core.NamedOf(fa.X.Type()); n == "Cookie" {
							if s, ok := core.ConstString(x.Val); ok {
								set["cookie:"+s] = true
							}
						}
					}
				}
			}
		}
	}
	var out []string
	for k := range set {
		out = append(out, k)
	}
	sort.Strings(out)
	return out
}

func checkCarriers(c *core.Ctx, r *core.Rule, ex *core.Expansion, fx *core.Fixture) {
	pkg := ex.Prog.ByPath[fx.PkgPath]
	srv := map[string]*ssa.Function{}
	cli := map[string]*ssa.Function{}
	for _, fn := range core.PkgFuncs(ex.Prog.SSA, pkg) {
		if fn.Parent() != nil || fn.Signature.Recv() == nil || !strings.HasPrefix(fn.Name(), "security") {
			continue
		}
		switch recvName(fn.Signature.Recv().Type()) {
		case "Server", "WebhookHandler":
			srv[fn.Name()] = fn
		case "Client", "WebhookClient":
			cli[fn.Name()] = fn
		}
	}
	var names []string
	for n := range srv {
		if cli[n] != nil {
			names = append(names, n)
		}
	}
	sort.Strings(names)
	for _, n := range names {
		s, cl := carrierOf(srv[n]), carrierOf(cli[n])
		key := fx.Name + "/" + n
		if len(s) == 0 && len(cl) == 0 {
			r.Pass(key + ": custom scheme (the raw request is handed to the user on both sides)")
			continue
		}
		// the query carrier is read through url.Values on the server and written through q.Set on the client;
		// compare as sets
		if strings.Join(s, ",") == strings.Join(cl, ",") {
			r.Pass(fmt.Sprintf("%s: client and server agree on the carrier %v", key, s))
		} else {
			r.Fail(key+":carrier", c.Pos(cli[n].Pos()), fmt.Sprintf("the generated client writes the credential to %v but the generated server reads it from %v", cl, s))
		}
	}
}

// checkSecurityTemplates implements R09.3.
func checkSecurityTemplates(c *core.Ctx, r *core.Rule) {
	// bitset.Set: i/8 and i%8 with uint8
	prog, err := c.Program("./internal/bitset", "./gen")
	if err != nil {
		r.Undecided("load:bitset", "-", err.Error())
		return
	}
	setFn := prog.Func(pkgBitset, "Bitset.Set")
	if setFn == nil {
		r.Undecided("anchor:bitset.Set", "-", "internal/bitset.(*Bitset).Set not found")
		return
	}
	// Set and the helpers of package bitset it calls (index arithmetic and growth may be factored out)
	setFns := []*ssa.Function{setFn}
	{
		seenF := map[*ssa.Function]bool{setFn: true}
		for i := 0; i < len(setFns) && len(setFns) < 8; i++ {
			for _, call := range core.Calls(setFns[i]) {
				if cal := call.Common().StaticCallee(); cal != nil && !seenF[cal] && core.FuncPkgPath(cal) == pkgBitset && len(cal.Blocks) > 0 {
					seenF[cal] = true
					setFns = append(setFns, cal)
				}
			}
		}
	}
	var quo, rem int64 = -1, -1
	for _, f := range setFns {
		for _, b := range f.Blocks {
			for _, in := range b.Instrs {
				if bo, ok := in.(*ssa.BinOp); ok {
					if k, isK := core.ConstInt(bo.Y); isK {
						if bo.Op == token.QUO {
							quo = k
						}
						if bo.Op == token.REM {
							rem = k
						}
					}
				}
			}
		}
	}
	// growth of the bitset preserves the bits already set: every store to *r is append(*r, …)
	growOK, nStores := true, 0
	for _, f := range setFns {
		if len(f.Params) == 0 {
			continue
		}
		recv := f.Params[0]
		if _, isPtr := recv.Type().Underlying().(*types.Pointer); !isPtr {
			continue
		}
		for _, b := range f.Blocks {
			for _, in := range b.Instrs {
				st, ok := in.(*ssa.Store)
				if !ok || st.Addr != ssa.Value(recv) {
					continue
				}
				nStores++
				if !isAppendTo(st.Val, recv) {
					growOK = false
					r.Fail("bitset.Set:grow", c.Pos(st.Pos()), "Bitset.Set replaces the slice instead of appending to it: bits set earlier are lost when a scheme index crosses a byte boundary (9 or more schemes in one operation)")
				}
			}
		}
	}
	if growOK {
		r.Pass(fmt.Sprintf("bitset.Set grows the slice only by append (%d store sites): earlier bits are preserved", nStores))
	}
	checkRequirementSkip(c, r, prog)
	ts, err := tmpl.Load(c.Repo)
	if err != nil {
		r.Undecided("load:templates", "-", err.Error())
		return
	}
	for _, file := range []string{"handlers.tmpl", "client.tmpl"} {
		divs, mods := ts.FuncConstArgs(file, "div"), ts.FuncConstArgs(file, "mod")
		if len(divs) == 0 || len(mods) == 0 {
			r.Undecided("template:"+file, "-", "no div/mod action found in "+file)
			continue
		}
		ok := true
		for _, d := range divs {
			if d != quo {
				ok = false
			}
		}
		for _, m := range mods {
			if m != rem {
				ok = false
			}
		}
		if ok && quo == 8 && rem == 8 {
			r.Pass(fmt.Sprintf("%s: bit position uses div %d / mod %d like bitset.Set", file, quo, rem))
		} else {
			r.Fail("template:"+file+":divmod", "gen/_template/"+file, fmt.Sprintf("%s computes the bit position with div %v / mod %v, bitset.Set with /%d and %%%d: server/client masks and generator masks disagree", file, divs, mods, quo, rem))
		}
	}
	// one index per scheme name: in generateSecurities the append to Securities is guarded by the
	// comma-ok lookup of `indexes`
	pkg := prog.PkgBy[pkgGen]
	fd := methodDecl(pkg, "Generator", "generateSecurities")
	if fd == nil {
		r.Undecided("anchor:generateSecurities", "-", "gen.(*Generator).generateSecurities not found")
		return
	}
	okIdx := false
	ast.Inspect(fd.Body, func(n ast.Node) bool {
		is, ok := n.(*ast.IfStmt)
		if !ok || types.ExprString(is.Cond) != "!ok" {
			return true
		}
		// body: append + indexes[...] = idx
		hasAppend, hasStore := false, false
		ast.Inspect(is.Body, func(m ast.Node) bool {
			if ce, ok := m.(*ast.CallExpr); ok {
				if id, ok := ce.Fun.(*ast.Ident); ok && id.Name == "append" && strings.Contains(types.ExprString(ce.Args[0]), "Securities") {
					hasAppend = true
				}
			}
			if as, ok := m.(*ast.AssignStmt); ok && len(as.Lhs) == 1 {
				if ix, ok := as.Lhs[0].(*ast.IndexExpr); ok && types.ExprString(ix.X) == "indexes" {
					hasStore = true
				}
			}
			return true
		})
		if hasAppend && hasStore {
			okIdx = true
		}
		return true
	})
	if okIdx {
		r.Pass("generateSecurities appends a scheme and records its index only when the name is not yet indexed")
	} else {
		r.Fail("generateSecurities:index", c.Pos(fd.Pos()), "scheme indexes are not assigned once per scheme name (append not guarded by the `indexes` lookup)")
	}
	_ = constant.MakeBool
}

// checkSecurityOverride implements R09.5 with E4: parseOp passes
// operation-level security when present, the global one otherwise.
func checkSecurityOverride(c *core.Ctx, r *core.Rule) {
	prog, err := c.Program("./openapi/parser")
	if err != nil {
		r.Undecided("load:parser", "-", err.Error())
		return
	}
	_ = peval.Unknown
	var fn *ssa.Function
	for _, f := range core.PkgFuncs(prog.SSA, prog.ByPath[pkgParser]) {
		for _, call := range core.Calls(f) {
			if cal := call.Common().StaticCallee(); cal != nil && cal.Name() == "parseSecurityRequirements" && strings.Contains(f.Name(), "parseOp") {
				fn = f
			}
		}
	}
	if fn == nil {
		r.Undecided("anchor:parseOp", "-", "no parseOp function calling parseSecurityRequirements found")
		return
	}
	for _, call := range core.Calls(fn) {
		cal := call.Common().StaticCallee()
		if cal == nil || cal.Name() != "parseSecurityRequirements" {
			continue
		}
		// the requirements argument
		var arg ssa.Value
		for _, a := range call.Common().Args {
			if _, n := core.NamedOf(a.Type()); n == "SecurityRequirements" {
				arg = a
			}
		}
		if arg == nil {
			r.Undecided("parseOp:arg", c.Pos(call.Pos()), "requirements argument not found")
			continue
		}
		// the call may sit in a local closure (parseSecurity := func(spec, locator)) — hop to its call site
		if prm, isP := arg.(*ssa.Parameter); isP && fn.Parent() != nil {
			idx := paramIndex(fn, prm)
			for _, pc := range core.Calls(fn.Parent()) {
				if mc, ok := pc.Common().Value.(*ssa.MakeClosure); ok && mc.Fn == fn && idx < len(pc.Common().Args) {
					arg = pc.Common().Args[idx]
				}
			}
			fn = fn.Parent()
		}
		phi, ok := arg.(*ssa.Phi)
		if !ok || len(phi.Edges) != 2 {
			r.Fail("parseOp:override", c.Pos(call.Pos()), "the security passed on is not a choice between operation-level and global requirements")
			continue
		}
		// one edge is the spec's own Security field, selected on its != nil edge; no append involved
		selected := false
		for i, e := range phi.Edges {
			if isFieldLoad(e, "Security") {
				pred := phi.Block().Preds[i]
				for _, b := range fn.Blocks {
					if iff, ok := b.Instrs[len(b.Instrs)-1].(*ssa.If); ok {
						if bo, ok := iff.Cond.(*ssa.BinOp); ok && bo.Op == token.NEQ && core.IsNilConst(bo.Y) && isFieldLoad(bo.X, "Security") {
							if t := b.Succs[0]; t == pred || t.Dominates(pred) {
								selected = true
							}
						}
					}
				}
			}
		}
		for _, cl := range core.Calls(fn) {
			if b, ok := cl.Common().Value.(*ssa.Builtin); ok && b.Name() == "append" {
				for _, a := range cl.Common().Args {
					if _, n := core.NamedOf(a.Type()); n == "SecurityRequirements" {
						selected = false
					}
				}
			}
		}
		if selected {
			r.Pass("parseOp: operation-level security, when present (!= nil), replaces the global requirements")
		} else {
			r.Fail("parseOp:override", c.Pos(call.Pos()), "operation-level security does not replace the global requirements on its != nil edge")
		}
	}
}

// checkRequirementSkip: in generateSecurities a scheme that cannot be
// generated skips its whole requirement — the append of the requirement's
// mask is not reachable from the failure edge of generateSecurity within the
// same iteration over requirements.
func checkRequirementSkip(c *core.Ctx, r *core.Rule, prog *core.Prog) {
	gs := prog.Func(pkgGen, "Generator.generateSecurities")
	if gs == nil {
		r.Undecided("anchor:generateSecurities", "-", "gen.(*Generator).generateSecurities not found")
		return
	}
	// the store that appends to r.Requirements (in gs itself)
	var appendStore *ssa.Store
	for _, b := range gs.Blocks {
		for _, in := range b.Instrs {
			if st, ok := in.(*ssa.Store); ok {
				if fa, ok := st.Addr.(*ssa.FieldAddr); ok && fieldName(fa.X.Type(), fa.Field) == "Requirements" {
					appendStore = st
				}
			}
		}
	}
	if appendStore == nil {
		r.Undecided("generateSecurities:append", c.Pos(gs.Pos()), "no append to Requirements found")
		return
	}
	// the generateSecurity call: in gs or in one of its closures
	for _, f := range core.AllFuncs(gs) {
		for _, call := range core.Calls(f) {
			cl, ok := call.(*ssa.Call)
			if !ok || cl.Common().StaticCallee() == nil || cl.Common().StaticCallee().Name() != "generateSecurity" {
				continue
			}
			if f != gs {
				// closure form: the closure's error decides; the append must be dominated by the success edge
				// of the closure call in gs
				ok := false
				for _, pc := range core.Calls(gs) {
					pcl, isCall := pc.(*ssa.Call)
					if !isCall {
						continue
					}
					if mc, isMC := pcl.Common().Value.(*ssa.MakeClosure); isMC && mc.Fn == f {
						if core.DominatedBySuccess(pcl, appendStore.Block()) {
							ok = true
						}
					}
				}
				// and inside the closure a failed scheme returns a non-nil error
				// — on every path: from the failure edge no path returns nil or goes round the scheme loop again
				retErr := false
				for _, ev := range core.ErrValueOf(cl) {
					for _, fb := range failureBlocks(ev) {
						allErr, any := true, false
						seen := map[*ssa.BasicBlock]bool{}
						stack := []*ssa.BasicBlock{fb}
						for len(stack) > 0 {
							b := stack[len(stack)-1]
							stack = stack[:len(stack)-1]
							if seen[b] {
								continue
							}
							seen[b] = true
							if b == cl.Block() || (b.Dominates(cl.Block()) && b != fb) {
								allErr = false // back into the loop over schemes: the failed scheme was dropped, the rest kept
								continue
							}
							if ret, isRet := b.Instrs[len(b.Instrs)-1].(*ssa.Return); isRet {
								any = true
								if core.IsNilConst(ret.Results[len(ret.Results)-1]) {
									allErr = false
								}
								continue
							}
							stack = append(stack, b.Succs...)
						}
						if allErr && any {
							retErr = true
						}
					}
				}
				if ok && retErr {
					r.Pass("generateSecurities: a scheme that cannot be generated fails its requirement's closure, and the mask is appended only on that closure's success edge")
				} else {
					r.Fail("generateSecurities:skip", c.Pos(cl.Pos()), "a scheme that cannot be generated does not skip its whole requirement: the requirement is weakened to the remaining schemes (or to the anonymous requirement)")
				}
				continue
			}
			// flattened form: from the failure edge the append must not be reachable without passing the
			// header of the loop over requirements
			var header *ssa.BasicBlock
			for _, b := range gs.Blocks {
				// the outermost loop header enclosing both: the loop over requirements
				if header == nil && b.Dominates(cl.Block()) && b.Dominates(appendStore.Block()) && reaches(appendStore.Block(), b) && b != gs.Blocks[0] && len(b.Preds) >= 2 {
					header = b
				}
			}
			bad := false
			for _, ev := range core.ErrValueOf(cl) {
				for _, fb := range failureBlocks(ev) {
					seen := map[*ssa.BasicBlock]bool{}
					stack := []*ssa.BasicBlock{fb}
					for len(stack) > 0 {
						b := stack[len(stack)-1]
						stack = stack[:len(stack)-1]
						if seen[b] || b == header {
							continue
						}
						seen[b] = true
						if b == appendStore.Block() {
							bad = true
						}
						stack = append(stack, b.Succs...)
					}
				}
			}
			if bad || header == nil {
				r.Fail("generateSecurities:skip", c.Pos(cl.Pos()), "after a scheme failed to generate, the requirement's mask is still appended in the same iteration: the requirement is weakened to the remaining schemes (or to the anonymous requirement)")
			} else {
				r.Pass("generateSecurities: the failure edge of generateSecurity cannot reach the append of the requirement's mask within the same requirement")
			}
		}
	}
}

// mentionsLenOfField: the condition contains len(x.<field>).
func mentionsLenOfField(v ssa.Value, field string, depth int) bool {
	if depth > 6 {
		return false
	}
	switch x := v.(type) {
	case *ssa.BinOp:
		return mentionsLenOfField(x.X, field, depth+1) || mentionsLenOfField(x.Y, field, depth+1)
	case *ssa.UnOp:
		if fa, ok := x.X.(*ssa.FieldAddr); ok && x.Op == token.MUL {
			return fieldName(fa.X.Type(), fa.Field) == field
		}
		return mentionsLenOfField(x.X, field, depth+1)
	case *ssa.Call:
		if b, ok := x.Common().Value.(*ssa.Builtin); ok && b.Name() == "len" {
			return mentionsLenOfField(x.Common().Args[0], field, depth+1)
		}
	case *ssa.Phi:
		for _, e := range x.Edges {
			if mentionsLenOfField(e, field, depth+1) {
				return true
			}
		}
	}
	return false
}
