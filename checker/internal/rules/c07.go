package rules

import (
	"fmt"
	"go/token"
	"go/types"
	"sort"
	"strings"

	"golang.org/x/tools/go/ssa"

	"ogenverif/internal/core"
)

func init() {
	register(&Property{
		ID: "C07",
		Meta: core.Meta{
			Level: "other",
			Explanation: "The resolver's acquire/release discipline, its termination measure and the cache-key rule — structural necessary conditions of '$ref is transparent and reference cycles terminate': " +
				"(R07.1) in every function that calls ResolveCtx.AddKey, the matching Delete of the same key is deferred on the success edge before any return, and Delete is called nowhere else; AddKey refuses when the depth budget is exhausted or the key is in progress and decrements the budget, Delete increments it and removes the key; " +
				"(R07.2) every function that dereferences a reference (jsonpointer.Resolve / ReferenceResolver.ResolveReference) and then parses the target calls the parser only under a successful AddKey — so every reference-following cycle consumes the measure and in-progress keys are unique; " +
				"(R07.3) results cached by reference key depend only on the key: every parse callback handed to resolveComponent is a bound method of the parser or a closure whose only free variable is the parser — a referrer-specific free variable would be served from the cache to every later referrer (two known findings: resolveHeader captures headerName, resolvePathItem captures itemPath); " +
				"(R07.4) recursive schema types are broken: checkStructRecursions runs for every struct type after all operations were generated and refuses a required recursive field with an error; " +
				"(R07.5) the schema-depth panic is paired with its recover: every entry into schemaGen.generate from outside schemaGen defers handleSchemaDepth, which re-panics anything that is not a *schemaDepthError. " +
				"NOT decided: structural equality of a spec and its inlined form, Expand round trip, multi-file base-URL resolution values.",
			Assumptions: []string{"the parser is single-threaded per parse"},
		},
		Run: runC07,
	})
}

func runC07(c *core.Ctx) error {
	prog, err := c.Program("./openapi/parser", "./jsonschema", "./jsonpointer", "./gen")
	if err != nil {
		return err
	}
	r1 := c.NewRule("R07.1", "S1", "AddKey/Delete pairing and the depth measure", 10)
	r2 := c.NewRule("R07.2", "S1", "parsing of a dereferenced target only under a successful AddKey", 2)
	r3 := c.NewRule("R07.3", "S1", "cached results depend only on the reference key", 7)
	r4 := c.NewRule("R07.4", "S1", "recursive struct types are checked after all operations; required recursion is an error", 3)
	r5 := c.NewRule("R07.5", "S1", "schema-depth panic paired with its recover", 3)

	addKey := prog.Func(pkgJP, "ResolveCtx.AddKey")
	del := prog.Func(pkgJP, "ResolveCtx.Delete")
	if addKey == nil || del == nil {
		r1.Undecided("anchor:ResolveCtx", "-", "jsonpointer.(*ResolveCtx).AddKey/Delete not found")
		return nil
	}

	// ---- R07.1 pairing
	var allFns []*ssa.Function
	for _, p := range []string{pkgParser, pkgJS, pkgJP, pkgGen} {
		allFns = append(allFns, core.PkgFuncs(prog.SSA, prog.ByPath[p])...)
	}
	// instantiations of generic functions (resolveComponent[...])
	seenFn := map[*ssa.Function]bool{}
	for _, f := range allFns {
		seenFn[f] = true
	}
	for f := range ssaAllFunctions(prog) {
		if seenFn[f] || f.Blocks == nil {
			continue
		}
		if o := f.Origin(); o != nil && core.InModule(o) {
			allFns = append(allFns, core.AllFuncs(f)...)
		}
	}
	nAdd := 0
	deleteSitesOK := map[ssa.Instruction]bool{}
	for _, fn := range allFns {
		for _, call := range core.Calls(fn) {
			cl, ok := call.(*ssa.Call)
			if !ok || cl.Common().StaticCallee() != addKey {
				continue
			}
			nAdd++
			key := "AddKey-in:" + core.FuncName(fn)
			keyArg := cl.Common().Args[1]
			var keyAlloc ssa.Value
			if ld, ok := keyArg.(*ssa.UnOp); ok && ld.Op == token.MUL {
				keyAlloc = ld.X
			}
			// deferred closure calling Delete(key)
			var deferIn *ssa.Defer
			for _, b := range fn.Blocks {
				for _, in := range b.Instrs {
					d, ok := in.(*ssa.Defer)
					if !ok {
						continue
					}
					var lit *ssa.Function
					var bindings []ssa.Value
					if mc, ok := d.Call.Value.(*ssa.MakeClosure); ok {
						lit, _ = mc.Fn.(*ssa.Function)
						bindings = mc.Bindings
					}
					if d.Call.StaticCallee() == del {
						// defer ctx.Delete(key) — argument evaluated at defer time
						if core.SameValue(d.Call.Args[1], keyArg) || d.Call.Args[1] == keyArg || sameCellUnchanged(keyArg, d.Call.Args[1], cl, d) {
							deferIn = d
							deleteSitesOK[d] = true
						}
						continue
					}
					if lit == nil {
						continue
					}
					for _, dc := range core.Calls(lit) {
						if dc.Common().StaticCallee() != del {
							continue
						}
						// the key inside the closure: load of a free variable bound to keyAlloc
						arg := dc.Common().Args[1]
						if ld, ok := arg.(*ssa.UnOp); ok {
							if fv, ok := ld.X.(*ssa.FreeVar); ok {
								for i, f := range lit.FreeVars {
									if f == fv && i < len(bindings) && bindings[i] == keyAlloc {
										deferIn = d
										deleteSitesOK[dc] = true
									}
								}
							}
						}
					}
				}
			}
			if deferIn == nil {
				r1.Fail(key+":no-deferred-delete", c.Pos(cl.Pos()), "AddKey is not followed by a deferred Delete of the same key: the next referrer of the same target fails with a false \"infinite recursion\"")
				continue
			}
			// on the success edge, before any return
			okPos := core.DominatedBySuccess(cl, deferIn.Block())
			for _, ev := range core.ErrValueOf(cl) {
				for _, sb := range core.SuccessBlocks(ev) {
					for _, b := range fn.Blocks {
						if _, isRet := b.Instrs[len(b.Instrs)-1].(*ssa.Return); isRet && sb.Dominates(b) && !deferIn.Block().Dominates(b) {
							okPos = false
						}
					}
				}
			}
			if okPos {
				r1.Pass(fmt.Sprintf("%s: Delete(key) deferred on the success edge of AddKey before any return", core.FuncName(fn)))
			} else {
				r1.Fail(key+":defer-position", c.Pos(deferIn.Pos()), "the deferred Delete is not established on the success edge of AddKey before every return")
			}
		}
	}
	if nAdd == 0 {
		r1.Undecided("AddKey:callers", "-", "no caller of AddKey found")
	}
	// Delete nowhere else
	for _, fn := range allFns {
		for _, call := range core.Calls(fn) {
			if call.Common().StaticCallee() == del && !deleteSitesOK[call] {
				r1.Fail("Delete-outside-pairing:"+core.FuncName(fn), c.Pos(call.Pos()), "ResolveCtx.Delete is called outside a deferred release paired with AddKey")
			}
		}
	}
	checkMeasure(c, r1, addKey, del)

	// ---- R07.2
	derefNames := map[string]bool{
		core.ShortPkg(pkgJP) + ".Resolve": true,
	}
	for _, fn := range allFns {
		var deref []*ssa.Call
		var addCalls []*ssa.Call
		for _, call := range core.Calls(fn) {
			cl, ok := call.(*ssa.Call)
			if !ok {
				continue
			}
			cc := cl.Common()
			n := core.CalleeName(cc)
			if derefNames[n] || strings.HasSuffix(n, ".resolvePointer") || (cc.IsInvoke() && cc.Method.Name() == "ResolveReference") {
				deref = append(deref, cl)
			}
			if cc.StaticCallee() == addKey {
				addCalls = append(addCalls, cl)
			}
		}
		if len(deref) == 0 && fn.Name() != "resolvePointer" {
			// the dereference may sit in a helper of the same package that hands the raw target back
			// (lookupComponent, rawComponent): one level of non-parse static callees
			for _, call := range core.Calls(fn) {
				cl, ok := call.(*ssa.Call)
				cal := call.Common().StaticCallee()
				if !ok || cal == nil || cal == fn || !core.InModule(cal) || core.FuncPkgPath(cal) != core.FuncPkgPath(fn) ||
					strings.HasPrefix(cal.Name(), "parse") || cal.Name() == "resolvePointer" || strings.HasPrefix(cal.Name(), "resolve") {
					continue
				}
				for _, c2 := range core.Calls(cal) {
					n2 := core.CalleeName(c2.Common())
					if derefNames[n2] || strings.HasSuffix(n2, ".resolvePointer") || (c2.Common().IsInvoke() && c2.Common().Method.Name() == "ResolveReference") {
						deref = append(deref, cl)
						break
					}
				}
			}
		}
		if len(deref) == 0 || fn.Name() == "resolvePointer" {
			continue
		}
		// parse calls: dynamic calls through a field named parse, or static callees named parse*
		for _, call := range core.Calls(fn) {
			cc := call.Common()
			isParse := false
			if cal := cc.StaticCallee(); cal != nil && strings.HasPrefix(cal.Name(), "parse") && core.InModule(cal) {
				isParse = true
			}
			if cc.StaticCallee() == nil && !cc.IsInvoke() && isFieldLoad(cc.Value, "parse") {
				isParse = true
			}
			if !isParse {
				continue
			}
			key := "deref-then-parse:" + core.FuncName(fn)
			ok := false
			for _, a := range addCalls {
				if core.DominatedBySuccess(a, call.Block()) {
					ok = true
				}
			}
			if ok {
				r2.Pass(fmt.Sprintf("%s: the dereferenced target is parsed under a successful AddKey", core.FuncName(fn)))
			} else {
				r2.Fail(key, c.Pos(call.Pos()), "a dereferenced target is parsed without a successful AddKey on the path: a reference cycle through this function does not consume the depth measure and recurses without bound")
			}
		}
	}

	// ---- R07.3
	checkCacheKeys(c, r3, prog, allFns)

	checkRootLookupGuard(c, r3, allFns)

	// ---- R07.4
	checkRecursionBreak(c, r4, prog)
	checkIROrder(c, r4, prog)

	// ---- R07.5
	checkDepthPairing(c, r5, prog)
	r7 := c.NewRule("R07.7", "S1", "nodes of the root document are parsed in a root resolve context", 1)
	checkRootComponentsInRootCtx(c, r7, prog)
	r6 := c.NewRule("R07.6", "S1", "reference transparency of comparators, reference identity, per-iteration marks, recursion walk", 4)
	irProg, err := c.Program("./gen/ir", "./gen", "./openapi/parser", "./jsonschema")
	if err != nil {
		return err
	}
	checkRefNeverDecidesInequality(c, r6, irProg)
	checkRefIdentityWhole(c, r6, irProg, pkgParser, pkgJS, pkgGen)
	checkDeferredReleaseInLoop(c, r6, irProg, pkgGen, pkgParser, pkgJS)
	checkRecursionWalkComplete(c, r6, irProg)
	checkMemoKeyIsArgument(c, r6, irProg, pkgParser, pkgJS, pkgGen)
	checkSkipMemoKeyCoversInputs(c, r6, irProg, skipMemoReviewed, pkgParser, pkgJS, pkgGen, pkgIR)
	checkInsertLookupKeyAgreement(c, r6, irProg, pkgParser, pkgJS, pkgGen, pkgIR)
	checkResetBufferNotRetained(c, r6, irProg, pkgParser, pkgJS, pkgGen, pkgIR)
	return nil
}

func ssaAllFunctions(prog *core.Prog) map[*ssa.Function]bool {
	out := map[*ssa.Function]bool{}
	for _, p := range prog.SSA.AllPackages() {
		for _, m := range p.Members {
			if f, ok := m.(*ssa.Function); ok {
				out[f] = true
			}
		}
	}
	// instantiations are reachable as callees
	var stack []*ssa.Function
	for f := range out {
		stack = append(stack, f)
	}
	for len(stack) > 0 {
		f := stack[len(stack)-1]
		stack = stack[:len(stack)-1]
		for _, a := range f.AnonFuncs {
			if !out[a] {
				out[a] = true
				stack = append(stack, a)
			}
		}
		for _, b := range f.Blocks {
			for _, in := range b.Instrs {
				if call, ok := in.(ssa.CallInstruction); ok {
					if cal := call.Common().StaticCallee(); cal != nil && !out[cal] && core.InModule(cal) {
						out[cal] = true
						stack = append(stack, cal)
					}
				}
			}
		}
	}
	// methods
	for _, p := range prog.SSA.AllPackages() {
		if !strings.HasPrefix(p.Pkg.Path(), core.Module) {
			continue
		}
		for _, f := range core.PkgFuncs(prog.SSA, p) {
			if !out[f] {
				out[f] = true
				for _, b := range f.Blocks {
					for _, in := range b.Instrs {
						if call, ok := in.(ssa.CallInstruction); ok {
							if cal := call.Common().StaticCallee(); cal != nil && !out[cal] && core.InModule(cal) {
								out[cal] = true
							}
						}
					}
				}
			}
		}
	}
	return out
}

// checkMeasure: AddKey refuses on depthLimit <= 0 and on a key in progress,
// decrements; Delete increments and deletes.
func checkMeasure(c *core.Ctx, r *core.Rule, addKey, del *ssa.Function) {
	dec, inc, guard, member, insert, remove := false, false, false, false, false, false
	for _, b := range addKey.Blocks {
		for _, in := range b.Instrs {
			switch x := in.(type) {
			case *ssa.Store:
				if fa, ok := x.Addr.(*ssa.FieldAddr); ok && fieldName(fa.X.Type(), fa.Field) == "depthLimit" {
					if bo, ok := x.Val.(*ssa.BinOp); ok && bo.Op == token.SUB {
						if k, ok := core.ConstInt(bo.Y); ok && k == 1 {
							dec = true
						}
					}
				}
			case *ssa.BinOp:
				if x.Op == token.LEQ && isFieldLoad(x.X, "depthLimit") {
					if k, ok := core.ConstInt(x.Y); ok && k == 0 {
						for _, eb := range core.EdgeBlocks(x, true) {
							if ret, ok := eb.Instrs[len(eb.Instrs)-1].(*ssa.Return); ok && !core.IsNilConst(ret.Results[0]) {
								guard = true
							}
						}
					}
				}
			case *ssa.Lookup:
				if x.CommaOk && isFieldLoad(x.X, "refs") {
					member = true
				}
			case *ssa.MapUpdate:
				if isFieldLoad(x.Map, "refs") {
					insert = true
				}
			}
		}
	}
	for _, b := range del.Blocks {
		for _, in := range b.Instrs {
			switch x := in.(type) {
			case *ssa.Store:
				if fa, ok := x.Addr.(*ssa.FieldAddr); ok && fieldName(fa.X.Type(), fa.Field) == "depthLimit" {
					if bo, ok := x.Val.(*ssa.BinOp); ok && bo.Op == token.ADD {
						if k, ok := core.ConstInt(bo.Y); ok && k == 1 {
							inc = true
						}
					}
				}
			case *ssa.Call:
				if bi, ok := x.Common().Value.(*ssa.Builtin); ok && bi.Name() == "delete" && isFieldLoad(x.Common().Args[0], "refs") {
					remove = true
				}
			}
		}
	}
	// every successful AddKey pushes the location and records the key; every Delete pops: the stores are
	// not conditional on the key (a key-dependent skip makes relative references resolve against the wrong
	// base document)
	pushAll, popAll := true, true
	var pushStore, refsUpdate ssa.Instruction
	for _, b := range addKey.Blocks {
		for _, in := range b.Instrs {
			switch x := in.(type) {
			case *ssa.Store:
				if fa, ok := x.Addr.(*ssa.FieldAddr); ok && fieldName(fa.X.Type(), fa.Field) == "locstack" {
					pushStore = x
				}
			case *ssa.MapUpdate:
				if isFieldLoad(x.Map, "refs") {
					refsUpdate = x
				}
			case *ssa.Call:
				// a helper method of the same type that pushes on every path (ctx.push(loc))
				if cal := x.Common().StaticCallee(); cal != nil && pushStore == nil && core.FuncPkgPath(cal) == core.FuncPkgPath(addKey) && storesFieldOnEveryPath(cal, "locstack") {
					pushStore = x
				}
			}
		}
	}
	for _, b := range addKey.Blocks {
		if ret, ok := b.Instrs[len(b.Instrs)-1].(*ssa.Return); ok && core.IsNilConst(ret.Results[0]) {
			if pushStore == nil || refsUpdate == nil || !pushStore.Block().Dominates(b) || !refsUpdate.Block().Dominates(b) {
				pushAll = false
			}
		}
	}
	for _, b := range del.Blocks {
		if _, ok := b.Instrs[len(b.Instrs)-1].(*ssa.Return); !ok {
			continue
		}
		// the refs removal and the depth increment dominate every return
		var rm, incSt ssa.Instruction
		for _, bb := range del.Blocks {
			for _, in := range bb.Instrs {
				switch x := in.(type) {
				case *ssa.Call:
					if bi, ok := x.Common().Value.(*ssa.Builtin); ok && bi.Name() == "delete" {
						rm = x
					}
				case *ssa.Store:
					if fa, ok := x.Addr.(*ssa.FieldAddr); ok && fieldName(fa.X.Type(), fa.Field) == "depthLimit" {
						incSt = x
					}
				}
			}
		}
		if rm == nil || incSt == nil || !rm.Block().Dominates(b) || !incSt.Block().Dominates(b) {
			popAll = false
		}
		// the pop of locstack may only be skipped when the stack is empty (len test), not by a key test
		for _, bb := range del.Blocks {
			for _, in := range bb.Instrs {
				if call, ok := in.(*ssa.Call); ok && call.Common().StaticCallee() != nil && call.Common().StaticCallee().Name() == "IsRoot" {
					popAll = false
				}
			}
		}
	}
	for _, b := range addKey.Blocks {
		for _, in := range b.Instrs {
			if call, ok := in.(*ssa.Call); ok && call.Common().StaticCallee() != nil && call.Common().StaticCallee().Name() == "IsRoot" {
				pushAll = false
			}
		}
	}
	for _, it := range []struct {
		ok   bool
		key  string
		what string
	}{
		{pushAll, "AddKey:unconditional-push", "every successful AddKey records the key and pushes its location, independent of the key"},
		{popAll, "Delete:unconditional-pop", "every Delete removes the key and restores the depth budget, independent of the key"},
		{guard, "AddKey:depth-guard", "AddKey returns an error when depthLimit <= 0"},
		{dec, "AddKey:decrement", "AddKey decrements depthLimit"},
		{member, "AddKey:in-progress-test", "AddKey tests membership of the key in refs"},
		{insert, "AddKey:insert", "AddKey records the key in refs"},
		{inc, "Delete:increment", "Delete increments depthLimit"},
		{remove, "Delete:remove", "Delete removes the key from refs"},
	} {
		if it.ok {
			r.Pass(it.what)
		} else {
			fn := addKey
			if strings.HasPrefix(it.key, "Delete") {
				fn = del
			}
			r.Fail(it.key, c.Pos(fn.Pos()), "not established: "+it.what+" — nesting depth is no longer bounded / cycles are no longer detected / keys leak")
		}
	}
}

// checkCacheKeys implements R07.3.
func checkCacheKeys(c *core.Ctx, r *core.Rule, prog *core.Prog, fns []*ssa.Function) {
	n := 0
	for _, fn := range fns {
		for _, call := range core.Calls(fn) {
			cal := call.Common().StaticCallee()
			if cal == nil || cal.Origin() == nil && cal.Name() != "resolveComponent" {
				continue
			}
			name := cal.Name()
			if o := cal.Origin(); o != nil {
				name = o.Name()
			}
			if name != "resolveComponent" {
				continue
			}
			n++
			// second argument: componentResolve struct value (load of a local alloc)
			var parseVal ssa.Value
			if len(call.Common().Args) >= 2 {
				if ld, ok := call.Common().Args[1].(*ssa.UnOp); ok {
					if al, ok := ld.X.(*ssa.Alloc); ok {
						for _, ref := range *al.Referrers() {
							if fa, ok := ref.(*ssa.FieldAddr); ok && fieldName(fa.X.Type(), fa.Field) == "parse" {
								for _, r2 := range *fa.Referrers() {
									if st, ok := r2.(*ssa.Store); ok {
										parseVal = st.Val
									}
								}
							}
						}
					}
				}
			}
			key := "resolveComponent-in:" + fn.Name()
			if parseVal == nil {
				r.Undecided(key, c.Pos(call.Pos()), "cannot find the parse callback of this resolveComponent call")
				continue
			}
			mc, ok := parseVal.(*ssa.MakeClosure)
			if !ok {
				if _, isFn := parseVal.(*ssa.Function); isFn {
					r.Pass(fn.Name() + ": parse callback is a plain function")
					continue
				}
				r.Undecided(key, c.Pos(call.Pos()), "parse callback is neither a closure nor a function")
				continue
			}
			lit := mc.Fn.(*ssa.Function)
			var extra []string
			for i, fv := range lit.FreeVars {
				// allowed: the parser receiver
				b := mc.Bindings[i]
				if p, ok := b.(*ssa.Parameter); ok && p == fn.Params[0] && fn.Signature.Recv() != nil {
					continue
				}
				// a captured parameter is spilled: new T (p); *t = p
				if al, ok := b.(*ssa.Alloc); ok && fn.Signature.Recv() != nil {
					isRecv := false
					for _, ref := range *al.Referrers() {
						if st, ok := ref.(*ssa.Store); ok && st.Addr == ssa.Value(al) && st.Val == ssa.Value(fn.Params[0]) {
							isRecv = true
						}
					}
					if isRecv {
						continue
					}
				}
				if strings.HasSuffix(lit.Name(), "$bound") {
					continue
				}
				extra = append(extra, fv.Name())
			}
			sort.Strings(extra)
			if len(extra) == 0 {
				r.Pass(fmt.Sprintf("%s: parse callback depends only on the parser", fn.Name()))
			} else {
				r.Fail("cache-key:"+fn.Name()+":captures:"+strings.Join(extra, ","), c.Pos(call.Pos()), fmt.Sprintf("%s caches the parsed component under its reference key, but the parse callback captures the referrer-specific %s: every later referrer of the same $ref is served the result computed for the first one (referencing differs from inlining)", fn.Name(), strings.Join(extra, ", ")))
			}
		}
	}
	if n == 0 {
		r.Undecided("resolveComponent:callers", "-", "no call of resolveComponent found")
	}
}

func checkRecursionBreak(c *core.Ctx, r *core.Rule, prog *core.Prog) {
	mk := prog.Func(pkgGen, "Generator.makeOps")
	chk := prog.Func(pkgGen, "checkStructRecursions")
	if mk == nil || chk == nil {
		r.Undecided("anchor:makeOps", "-", "gen.(*Generator).makeOps / checkStructRecursions not found")
		return
	}
	var chkCall *ssa.Call
	var genCalls []ssa.CallInstruction
	for _, call := range core.Calls(mk) {
		if call.Common().StaticCallee() == chk {
			chkCall, _ = call.(*ssa.Call)
		}
		if cal := call.Common().StaticCallee(); cal != nil && cal.Name() == "generateOperation" {
			genCalls = append(genCalls, call)
		}
	}
	if chkCall == nil {
		r.Fail("makeOps:no-check", c.Pos(mk.Pos()), "makeOps does not call checkStructRecursions: recursive struct types are emitted as infinitely sized Go types")
		return
	}
	// after the operations loop: the check is not reachable back to generateOperation
	after := true
	for _, g := range genCalls {
		if reaches(chkCall.Block(), g.Block()) {
			after = false
		}
	}
	if after && len(genCalls) > 0 {
		r.Pass("checkStructRecursions runs after every operation was generated")
	} else {
		r.Fail("makeOps:check-order", c.Pos(chkCall.Pos()), "checkStructRecursions does not run after all operations were generated: types added later are not checked")
	}
	// its error propagates
	propagates := false
	for _, ev := range core.ErrValueOf(chkCall) {
		for _, fb := range failureBlocks(ev) {
			for _, b := range mk.Blocks {
				if ret, ok := b.Instrs[len(b.Instrs)-1].(*ssa.Return); ok && fb.Dominates(b) && !core.IsNilConst(ret.Results[0]) {
					propagates = true
				}
			}
		}
	}
	if propagates {
		r.Pass("an error of checkStructRecursions fails generation")
	} else {
		r.Fail("makeOps:check-error", c.Pos(chkCall.Pos()), "the error of checkStructRecursions is dropped")
	}
	// the argument ranges over all types: t comes from g.Types()
	// required recursion → error: some closure/return builds errors.Errorf on the default arm
	hasErr := false
	for _, f := range core.AllFuncs(chk) {
		for _, call := range core.Calls(f) {
			if core.IsCallTo(call.Common(), "github.com/go-faster/errors", "Errorf") {
				if s, ok := core.ConstString(call.Common().Args[0]); ok && strings.Contains(s, "infinite recursion") {
					hasErr = true
				}
			}
		}
	}
	if hasErr {
		r.Pass("a required recursive field is refused with an error")
	} else {
		r.Fail("checkStructRecursions:required", c.Pos(chk.Pos()), "a required recursive field is not refused")
	}
	// members without a property spec are not skipped blindly: the arm taken for `field.Spec == nil` asks
	// RecursiveTo before it moves on (a tuple element is always present; a tuple that contains itself is an
	// infinitely sized Go type)
	armChecks, armFound := false, false
	for _, b := range chk.Blocks {
		iff, ok := b.Instrs[len(b.Instrs)-1].(*ssa.If)
		if !ok {
			continue
		}
		bo, ok := iff.Cond.(*ssa.BinOp)
		if !ok || bo.Op != token.EQL || !core.IsNilConst(bo.Y) {
			continue
		}
		ld, ok := bo.X.(*ssa.UnOp)
		if !ok {
			continue
		}
		fa, ok := ld.X.(*ssa.FieldAddr)
		if !ok || fieldName(fa.X.Type(), fa.Field) != "Spec" {
			continue
		}
		armFound = true
		// blocks reachable from the nil arm before the loop continues
		seen := map[*ssa.BasicBlock]bool{}
		stack := []*ssa.BasicBlock{b.Succs[0]}
		for len(stack) > 0 {
			x := stack[len(stack)-1]
			stack = stack[:len(stack)-1]
			if seen[x] || x.Dominates(b) {
				continue
			}
			seen[x] = true
			for _, in := range x.Instrs {
				if call, ok := in.(ssa.CallInstruction); ok && strings.HasSuffix(core.CalleeName(call.Common()), "ir.Type).RecursiveTo") {
					armChecks = true
				}
			}
			stack = append(stack, x.Succs...)
		}
	}
	switch {
	case !armFound:
		r.Pass("checkStructRecursions has no skip for members without a property spec")
	case armChecks:
		r.Pass("members without a property spec are checked for recursion before they are skipped")
	default:
		r.Fail("checkStructRecursions:spec-less-skipped", c.Pos(chk.Pos()), "members without a property spec (tuple elements) are skipped without a recursion check: `items: [string, $ref Self]` is emitted as a struct that contains itself by value and does not compile")
	}
}

func checkDepthPairing(c *core.Ctx, r *core.Rule, prog *core.Prog) {
	gen := prog.Func(pkgGen, "schemaGen.generate")
	handle := prog.Func(pkgGen, "handleSchemaDepth")
	if gen == nil || handle == nil {
		r.Undecided("anchor:schemaGen.generate", "-", "gen.(*schemaGen).generate / handleSchemaDepth not found")
		return
	}
	n := 0
	for _, fn := range core.PkgFuncs(prog.SSA, prog.ByPath[pkgGen]) {
		root := fn
		for root.Parent() != nil {
			root = root.Parent()
		}
		if root.Signature.Recv() != nil && recvName(root.Signature.Recv().Type()) == "schemaGen" {
			continue
		}
		for _, call := range core.Calls(fn) {
			if call.Common().StaticCallee() != gen {
				continue
			}
			n++
			hasDefer := false
			for _, f := range []*ssa.Function{fn, root} {
				for _, b := range f.Blocks {
					for _, in := range b.Instrs {
						if d, ok := in.(*ssa.Defer); ok && d.Call.StaticCallee() == handle {
							hasDefer = true
						}
					}
				}
			}
			if hasDefer {
				r.Pass(fmt.Sprintf("%s enters schemaGen.generate under defer handleSchemaDepth", core.FuncName(root)))
			} else {
				r.Fail("depth-entry:"+core.FuncName(root), c.Pos(call.Pos()), "schemaGen.generate is entered without a deferred handleSchemaDepth: exceeding the schema depth limit crashes the generator instead of returning an error")
			}
		}
	}
	if n == 0 {
		r.Undecided("depth-entry", "-", "no entry into schemaGen.generate from outside schemaGen found")
	}
	// the panic site exists in generate and handle re-panics foreign values
	panics := false
	for _, b := range gen.Blocks {
		for _, in := range b.Instrs {
			if p, ok := in.(*ssa.Panic); ok {
				if mi, ok := p.X.(*ssa.MakeInterface); ok {
					if _, nme := core.NamedOf(mi.X.Type()); nme == "schemaDepthError" {
						panics = true
					}
				}
			}
		}
	}
	repanic := false
	for _, b := range handle.Blocks {
		for _, in := range b.Instrs {
			if ta, ok := in.(*ssa.TypeAssert); ok && ta.CommaOk {
				if p, ok := ta.AssertedType.(*types.Pointer); ok {
					if _, nme := core.NamedOf(p.Elem()); nme == "schemaDepthError" {
						// the !ok edge panics
						for _, ref := range *ta.Referrers() {
							if ex, ok := ref.(*ssa.Extract); ok && ex.Index == 1 {
								for _, eb := range core.EdgeBlocks(ex, false) {
									if _, isP := eb.Instrs[len(eb.Instrs)-1].(*ssa.Panic); isP {
										repanic = true
									}
								}
							}
						}
					}
				}
			}
		}
	}
	if panics && repanic {
		r.Pass("generate panics with *schemaDepthError beyond the limit; handleSchemaDepth re-panics anything else")
	} else {
		r.Fail("depth-handler", c.Pos(handle.Pos()), fmt.Sprintf("depth limit panic (%v) / re-panic of foreign values (%v) not established", panics, repanic))
	}
}

// checkRootLookupGuard: in resolveComponent the by-name lookup in the ROOT
// document's decoded components is done only for keys of the root document.
func checkRootLookupGuard(c *core.Ctx, r *core.Rule, fns []*ssa.Function) {
	for _, fn := range fns {
		name := fn.Name()
		if o := fn.Origin(); o != nil {
			name = o.Name()
		}
		if name != "resolveComponent" || fn.Blocks == nil {
			continue
		}
		var isRoot *ssa.Call
		for _, call := range core.Calls(fn) {
			if cl, ok := call.(*ssa.Call); ok && cl.Common().StaticCallee() != nil && cl.Common().StaticCallee().Name() == "IsRoot" {
				isRoot = cl
			}
		}
		for _, b := range fn.Blocks {
			for _, in := range b.Instrs {
				lk, ok := in.(*ssa.Lookup)
				if !ok || !lk.CommaOk || !isFieldLoad(lk.X, "components") && !isFieldOfValue(lk.X, "components") {
					continue
				}
				guarded := false
				if isRoot != nil {
					for _, eb := range core.EdgeBlocks(isRoot, true) {
						if eb.Dominates(b) || eb == b {
							guarded = true
						}
					}
				}
				if guarded {
					r.Pass("resolveComponent: the lookup in the root document's components is guarded by ctx.IsRoot(key)")
				} else {
					r.Fail("resolveComponent:root-lookup-unguarded", c.Pos(lk.Pos()), "the by-name lookup in the root document's components is not restricted to references into the root document: a same-named component of an external file is shadowed by the root's")
				}
				return // one instantiation suffices (all share the source)
			}
		}
	}
}

func isFieldOfValue(v ssa.Value, field string) bool {
	if f, ok := v.(*ssa.Field); ok {
		return fieldName(f.X.Type(), f.Field) == field
	}
	return false
}

// checkIROrder: in makeIR no call that (transitively) generates operations
// runs after the call that runs checkStructRecursions.
func checkIROrder(c *core.Ctx, r *core.Rule, prog *core.Prog) {
	mk := prog.Func(pkgGen, "Generator.makeIR")
	chk := prog.Func(pkgGen, "checkStructRecursions")
	if mk == nil || chk == nil {
		r.Undecided("anchor:makeIR", "-", "gen.(*Generator).makeIR not found")
		return
	}
	reachesFn := func(from *ssa.Function, pred func(*ssa.Function) bool) bool {
		seen := map[*ssa.Function]bool{}
		stack := []*ssa.Function{from}
		for len(stack) > 0 {
			f := stack[len(stack)-1]
			stack = stack[:len(stack)-1]
			if f == nil || seen[f] || !core.InModule(f) {
				continue
			}
			seen[f] = true
			if pred(f) {
				return true
			}
			for _, g := range core.AllFuncs(f) {
				for _, call := range core.Calls(g) {
					if cal := call.Common().StaticCallee(); cal != nil {
						stack = append(stack, cal)
					}
				}
			}
		}
		return false
	}
	var checkCall ssa.CallInstruction
	var genCalls []ssa.CallInstruction
	for _, call := range core.Calls(mk) {
		cal := call.Common().StaticCallee()
		if cal == nil {
			continue
		}
		if reachesFn(cal, func(f *ssa.Function) bool { return f == chk }) {
			checkCall = call
		}
		if reachesFn(cal, func(f *ssa.Function) bool { return f.Name() == "generateOperation" }) {
			genCalls = append(genCalls, call)
		}
	}
	if checkCall == nil {
		r.Fail("makeIR:no-check", c.Pos(mk.Pos()), "makeIR never reaches checkStructRecursions")
		return
	}
	bad := false
	for _, g := range genCalls {
		if g == checkCall {
			continue
		}
		after := reaches(checkCall.Block(), g.Block()) && (checkCall.Block() != g.Block() || instrIndex(checkCall) < instrIndex(g))
		if checkCall.Block() == g.Block() && instrIndex(checkCall) < instrIndex(g) {
			after = true
		}
		if after {
			bad = true
			r.Fail("makeIR:generate-after-check", c.Pos(g.Pos()), fmt.Sprintf("%s generates operations (and their types) after checkStructRecursions has run: recursive types introduced there are emitted unbroken and do not compile", g.Common().StaticCallee().Name()))
		}
	}
	if !bad {
		r.Pass(fmt.Sprintf("makeIR: no operation generation (%d sites) runs after the recursion check", len(genCalls)))
	}
}

// sameCellUnchanged: a and b are loads of the same local cell and no store to that cell lies on a path from instruction
// ia (where a is used) to instruction ib (where b is used) — `key` held in a cell because it is a named result.
func sameCellUnchanged(a, b ssa.Value, ia, ib ssa.Instruction) bool {
	la, ok1 := a.(*ssa.UnOp)
	lb, ok2 := b.(*ssa.UnOp)
	if !ok1 || !ok2 || la.Op != token.MUL || lb.Op != token.MUL || la.X != lb.X {
		return false
	}
	al, ok := la.X.(*ssa.Alloc)
	if !ok {
		return false
	}
	idx := func(in ssa.Instruction) int {
		for i, x := range in.Block().Instrs {
			if x == in {
				return i
			}
		}
		return -1
	}
	for _, ref := range *al.Referrers() {
		st, ok := ref.(*ssa.Store)
		if !ok || st.Addr != ssa.Value(al) {
			continue
		}
		sb := st.Block()
		switch {
		case sb == ia.Block() && sb == ib.Block():
			if idx(st) > idx(ia) && idx(st) < idx(ib) {
				return false
			}
		case sb == ia.Block():
			if idx(st) > idx(ia) {
				return false
			}
		case sb == ib.Block():
			if idx(st) < idx(ib) {
				return false
			}
		default:
			if blockReaches(ia.Block(), sb) && blockReaches(sb, ib.Block()) {
				return false
			}
		}
	}
	return true
}

// storesFieldOnEveryPath: fn stores to the named field in a block that dominates every return.
func storesFieldOnEveryPath(fn *ssa.Function, field string) bool {
	if len(fn.Blocks) == 0 {
		return false
	}
	var stores []*ssa.BasicBlock
	for _, b := range fn.Blocks {
		for _, in := range b.Instrs {
			if st, ok := in.(*ssa.Store); ok {
				if fa, ok := st.Addr.(*ssa.FieldAddr); ok && fieldName(fa.X.Type(), fa.Field) == field {
					stores = append(stores, b)
				}
			}
		}
	}
	if len(stores) == 0 {
		return false
	}
	for _, b := range fn.Blocks {
		if _, ok := b.Instrs[len(b.Instrs)-1].(*ssa.Return); !ok {
			continue
		}
		dom := false
		for _, sb := range stores {
			if sb == b || sb.Dominates(b) {
				dom = true
			}
		}
		if !dom {
			return false
		}
	}
	return true
}
