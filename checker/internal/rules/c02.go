package rules

import (
	"bytes"
	"encoding/json"
	"fmt"
	"go/ast"
	"go/token"
	"go/types"
	"os"
	"path/filepath"
	"regexp"
	"sort"
	"strconv"
	"strings"
	"text/template/parse"

	"golang.org/x/tools/go/ssa"

	"ogenverif/internal/core"
	"ogenverif/internal/taint"
	"ogenverif/internal/tmpl"
)

func init() {
	register(&Property{
		ID: "C02",
		Meta: core.Meta{
			Level: "other",
			Explanation: "Necessary conditions of 'whatever is generated compiles', stated on the generator's own source so that they hold for every document: " +
				"(R02.1) every template is well-typed against the Go types of the IR (engine E2: dot = gen.TemplateConfig at each root named in WriteSource, flowing through range/with/template, variables, the FuncMap and the builtins; selectors resolved with go/types under text/template's rules; arity, result shape and argument assignability checked) — including the branches no fixture executes; " +
				"(R02.2) no text of the input document reaches the output unquoted: a field-based taint propagation over go/ssa (sources: string-carrying fields of the spec-model structs in ogen, openapi, jsonschema; sanitisers: strconv.Quote, %q, values certified by token.IsIdentifier / strconv.CanBackquote on the dominating edge; sinks: IR fields and results of IR methods / FuncMap functions) is joined with the provenance of every printing template action, judged by the lexical context of the surrounding Go source (code, string literal, comment); " +
				"(R02.3) type storage inserts are check-then-insert: every write into a tstorage map is dominated by a lookup of that map whose hit leads to an error return or a merge; " +
				"(R02.4, S2) every expansion of the go:generate fixtures produced by the generator built from the current tree type-checks with zero go/types errors. " +
				"NOT decided: name collisions after normalisation for arbitrary documents, feature-set × document combinations outside the fixtures, and anything goimports does.",
			Assumptions: []string{"text/template semantics as documented (method-before-field lookup, one level of pointer indirection for arguments)", "the spec-model packages are the only carriers of document text into package gen"},
			TrustedBase: []string{"tables/taint_clean_sources.json (document fields validated at parse time, with reasons)", "go/types for the expansions"},
		},
		Run: runC02,
	})
}

type cleanSourceTable struct {
	Entries []struct {
		Field  string `json:"field"`
		Reason string `json:"reason"`
	} `json:"entries"`
}

func runC02(c *core.Ctx) error {
	prog, err := c.Program(".", "./gen", "./gen/ir", "./gen/genfs", "./openapi", "./openapi/parser", "./jsonschema", "./internal/naming", "./internal/xmaps", "./internal/xslices")
	if err != nil {
		return err
	}
	genPkg := prog.PkgBy[pkgGen]
	if genPkg == nil {
		return fmt.Errorf("package gen not loaded")
	}
	ts, err := tmpl.Load(c.Repo)
	if err != nil {
		return err
	}
	ck, err := tmpl.NewChecker(ts, genPkg)
	if err != nil {
		return err
	}
	ck.Run()

	// ---- R02.1
	r1 := c.NewRule("R02.1", "S1", "templates are well-typed against the IR (selectors, arity, assignability, defined templates)", 1500)
	r1.Note("roots=%d FuncMap=%d (define,dot-type) pairs=%d selectors resolved=%d on-interface(⊤)=%d printing actions=%d Go functions callable=%d", len(ck.Roots), len(ck.Funcs), ck.Pairs, ck.Resolved, ck.Unknown, len(ck.Emissions), len(ck.Called))
	for i := 0; i < ck.Resolved; i++ {
		r1.Ob(true, "")
	}
	for _, r := range ck.Roots {
		r1.Pass(fmt.Sprintf("root template %q typed with dot = gen.TemplateConfig", r))
	}
	for _, p := range ck.Problems {
		r1.Fail(p.Key, fmt.Sprintf("gen/_template/%s:%d", p.File, p.Line), p.Msg)
	}
	// every define is reached from a root (an unreachable define is never typed)
	reached := map[string]bool{}
	for _, e := range ck.ReachedDefines() {
		reached[e] = true
	}
	var names []string
	for n := range ts.Trees {
		names = append(names, n)
	}
	sort.Strings(names)
	unreached := 0
	for _, n := range names {
		if !reached[n] {
			unreached++
			r1.Note("define %q (%s) is not reachable from any root: not typed", n, ts.FileOf[n])
		}
	}

	// ---- R02.2
	if err := checkQuoting(c, prog, ck); err != nil {
		return err
	}

	// ---- R02.3
	checkTypeStorage(c, prog)

	// ---- R02.6
	checkPackageScopeNames(c, ts, ck)

	// ---- R02.7
	checkIdentifierSafety(c, prog)
	r9 := c.NewRule("R02.9", "S1", "the scheme cache and the per-operation type storage stay in step: generateSecurities is the last step of generateOperation that can fail", 1)
	checkLastFallibleStep(c, r9, prog, pkgGen, "Generator.generateOperation", "Generator).generateSecurities")
	r8 := c.NewRule("R02.8", "S1", "reserved names seeded into uniqueness sets stay visible to the lookups they are meant for", 1)
	checkUniquenessSetsKeepSeeds(c, r8, prog, pkgGen, pkgIR)

	// ---- R02.4
	return checkExpansionsTypeCheck(c)
}

// ---------------------------------------------------------------- R02.2

func checkQuoting(c *core.Ctx, prog *core.Prog, ck *tmpl.Checker) error {
	r := c.NewRule("R02.2", "S1", "document text never reaches generated source unquoted (taint over SSA × template provenance × lexical context)", 600)
	var tab cleanSourceTable
	b, err := os.ReadFile(filepath.Join(c.VerifDir, "tables", "taint_clean_sources.json"))
	if err != nil {
		return err
	}
	if err := json.Unmarshal(b, &tab); err != nil {
		return err
	}
	clean := map[string]string{}
	for _, e := range tab.Entries {
		if strings.TrimSpace(e.Reason) == "" {
			return fmt.Errorf("taint_clean_sources.json: %s has no reason", e.Field)
		}
		clean[e.Field] = e.Reason
	}
	cfg := taint.Config{
		SourcePkgs:    map[string]bool{core.Module: true},
		SourceTagPkgs: map[string]bool{pkgJS: true},
		CleanSources:  clean,
		Guards:        map[string]bool{"go/token.IsIdentifier": true, "strconv.CanBackquote": true},
		Sanitisers: map[string]bool{"strconv.Quote": true, "strconv.QuoteToASCII": true, "strconv.Itoa": true, "strconv.FormatInt": true, "strconv.FormatUint": true,
			"strconv.FormatFloat": true, "strconv.FormatBool": true, "(*math/big.Rat).RatString": true, "(*math/big.Rat).String": true},
		// tiny generic helpers are treated like library functions (result tainted iff an argument is): per call site
		InScope: func(f *ssa.Function) bool {
			if !core.InModule(f) {
				return false
			}
			p := core.FuncPkgPath(f)
			return p != core.Module+"/internal/xmaps" && p != core.Module+"/internal/xslices"
		},
	}
	// functions templates can call: their text parameters get an assumed-tainted synthetic fact, so that the run
	// discovers which parameters reach the result (no Go call site exists for a FuncMap literal)
	callable := map[*ssa.Function]bool{}
	for fo := range ck.Called {
		if fn := prog.SSA.FuncValue(fo); fn != nil {
			callable[fn] = true
		}
	}
	if tf := prog.Func(pkgGen, "templateFunctions"); tf != nil {
		for _, af := range tf.AnonFuncs {
			callable[af] = true
		}
	}
	cfg.SyntheticParams = callable
	an := taint.Run(prog, cfg)
	r.Note("taint fixpoint: %d functions, %d iterations, %d tainted values, %d tainted fields, %d functions with an intrinsically tainted result, %d with a parameter→result flow; source reads=%d", an.Funcs, an.Iter+1, len(an.Val), len(an.Field), len(an.Ret), len(an.RetFromParam), an.Sources)
	for f := range clean {
		if !an.UsedCleanSources[f] {
			r.Note("clean-source entry %s was not read by any analysed function", f)
		}
	}
	j := &judge{c: c, prog: prog, an: an, ck: ck, cfg: cfg}
	// the question for `//` comment context is narrower: can the text contain a line break? Splitting on "\n"
	// (prettyDoc) answers it; quoting is not required there.
	cfgN := cfg
	cfgN.SanitiserCall = func(cc *ssa.CallCommon) bool {
		switch core.CalleeName(cc) {
		case "strings.Split", "strings.SplitN":
			if len(cc.Args) >= 2 {
				if sep, ok := core.ConstString(cc.Args[1]); ok && sep == "\n" {
					return true
				}
			}
		case "strings.Fields":
			return true
		}
		return false
	}
	cfgN.NegGuardCall = func(cc *ssa.CallCommon) bool {
		if core.CalleeName(cc) != "strings.ContainsAny" || len(cc.Args) != 2 {
			return false
		}
		chars, ok := core.ConstString(cc.Args[1])
		return ok && strings.Contains(chars, "\n")
	}
	anN := taint.Run(prog, cfgN)
	jN := &judge{c: c, prog: prog, an: anN, ck: ck, cfg: cfgN}
	// FuncMap literals → SSA functions
	if tf := prog.Func(pkgGen, "templateFunctions"); tf != nil {
		j.lits = map[token.Pos]*ssa.Function{}
		for _, af := range tf.AnonFuncs {
			j.lits[af.Pos()] = af
		}
		jN.lits = j.lits
	}
	var exTab struct {
		Entries []struct {
			Key    string `json:"key"`
			Reason string `json:"reason"`
		} `json:"entries"`
	}
	if b, err := os.ReadFile(filepath.Join(c.VerifDir, "tables", "quoting_exceptions.json")); err != nil {
		return err
	} else if err := json.Unmarshal(b, &exTab); err != nil {
		return err
	}
	exc := map[string]string{}
	for _, e := range exTab.Entries {
		if strings.TrimSpace(e.Reason) == "" {
			return fmt.Errorf("quoting_exceptions.json: %s has no reason", e.Key)
		}
		exc[e.Key] = e.Reason
	}
	usedExc := map[string]bool{}
	seen := map[string]bool{}
	for _, e := range ck.Emissions {
		pos := fmt.Sprintf("gen/_template/%s:%d", e.File, e.Line)
		var f *taint.Fact
		if e.Context == "comment" {
			f = jN.emissionFact(e)
		} else {
			f = j.emissionFact(e)
		}
		if f == nil {
			r.Pass(fmt.Sprintf("%s %s [%s] %s: clean", pos, e.Node, e.Context, e.Val.Prov.String()))
			continue
		}
		key := fmt.Sprintf("unquoted:%s:%s:%s", e.Define, e.Context, e.Val.Prov.String())
		if why, ok := exc[key]; ok {
			usedExc[key] = true
			r.Justified++
			r.Pass(fmt.Sprintf("%s %s [%s]: reviewed: %s", pos, e.Node, e.Context, why))
			continue
		}
		if seen[key] {
			r.Ob(false, "")
			continue
		}
		seen[key] = true
		what := "Go code"
		switch e.Context {
		case "string":
			what = "a string literal"
		case "rawstring":
			what = "a raw string literal"
		case "comment":
			what = "a // comment (a line break in the text ends the comment)"
		}
		r.Fail(key, pos, fmt.Sprintf("%s prints %s into %s and the value can carry document text verbatim: %s", e.Node, e.Val.Prov.String(), what, f.Chain(c)))
	}
	for k := range exc {
		if !usedExc[k] {
			r.Note("unused exception entry: %s", k)
		}
	}
	j.unknown += jN.unknown
	r.Note("provenance unknown (variables reassigned with different types, interface-typed values): %d", j.unknown)
	return nil
}

type judge struct {
	c       *core.Ctx
	prog    *core.Prog
	an      *taint.Analysis
	ck      *tmpl.Checker
	cfg     taint.Config
	lits    map[token.Pos]*ssa.Function
	unknown int
}

func numericOrBool(t types.Type) bool {
	if t == nil {
		return false
	}
	b, ok := t.Underlying().(*types.Basic)
	return ok && b.Info()&(types.IsNumeric|types.IsBoolean) != 0
}

func (j *judge) emissionFact(e tmpl.Emission) *taint.Fact {
	t := e.Val.T
	if numericOrBool(t) {
		return nil
	}
	p := e.Val.Prov
	// a value of a named type with a String method prints through it
	if t != nil {
		if _, isBasic := t.(*types.Basic); !isBasic {
			if obj, _, _ := types.LookupFieldOrMethod(t, true, nil, "String"); obj != nil {
				if fn, ok := obj.(*types.Func); ok {
					p = &tmpl.Prov{Kind: "method", Name: "String", Obj: fn, Recv: p, RecvT: t, T: types.Typ[types.String]}
				}
			}
		}
	}
	return j.provFact(p, 0, false)
}

// provFact: can the value described by p carry unsanitised document text?
func (j *judge) provFact(p *tmpl.Prov, depth int, keys bool) *taint.Fact {
	if p == nil || depth > 12 {
		j.unknown++
		return nil
	}
	switch p.Kind {
	case "lit":
		return nil
	case "dot", "var", "unknown":
		if !numericOrBool(p.T) {
			j.unknown++
		}
		return nil
	case "index":
		return j.provFact(p.Recv, depth+1, p.Name == "key")
	case "field":
		if numericOrBool(p.T) {
			return nil
		}
		fv := p.Obj.(*types.Var)
		st := p.RecvT
		if st != nil {
			if ptr, ok := st.Underlying().(*types.Pointer); ok {
				st = ptr.Elem()
			}
		}
		if src, name := j.an.SourceField(st, fv); src {
			return &taint.Fact{What: "document text: " + name}
		}
		if keys {
			if f := j.an.FieldKey[fv]; f != nil {
				return &taint.Fact{What: "keys of field " + taint.FieldName(st, fv), Parent: f}
			}
			return nil
		}
		if f := j.an.Field[fv]; f != nil {
			return &taint.Fact{What: "field " + taint.FieldName(st, fv), Parent: f}
		}
		// a struct-typed field: its own fields are judged when selected
		return nil
	case "method", "func":
		if numericOrBool(p.T) {
			return nil
		}
		if p.Kind == "func" {
			switch p.Name {
			case "printf":
				return j.printfFact(p, depth)
			case "print", "println", "html", "js", "urlquery", "and", "or", "index", "slice":
				for _, a := range p.Args {
					if f := j.provFact(a, depth+1, false); f != nil {
						return f
					}
				}
				return nil
			case "len", "not", "eq", "ne", "lt", "le", "gt", "ge", "call":
				return nil
			}
		}
		fn := j.ssaFunc(p)
		if fn == nil {
			// interface method or unresolved: judge by arguments / receiver
			j.unknown++
			return nil
		}
		if keys {
			if f := j.an.RetKey[fn][0]; f != nil {
				return &taint.Fact{What: "keys of the result of " + core.FuncName(fn), Parent: f}
			}
			return nil
		}
		if f := j.an.RetFact(fn, 0); f != nil {
			return &taint.Fact{What: "result of " + core.FuncName(fn), Parent: f}
		}
		// template-supplied arguments (and the receiver of a method on a string-like type) that flow to the result
		flows := j.an.RetFromParam[fn][0]
		off := 0
		if p.Kind == "method" {
			off = 1
			if flows[0] {
				if f := j.provFact(p.Recv, depth+1, false); f != nil && p.RecvT != nil {
					if _, isBasic := p.RecvT.Underlying().(*types.Basic); isBasic {
						return &taint.Fact{What: "receiver flows to the result of " + core.FuncName(fn), Parent: f}
					}
				}
			}
		}
		for i, a := range p.Args {
			idx := i + off
			if fn.Signature.Variadic() && idx >= len(fn.Params)-1 {
				idx = len(fn.Params) - 1
			}
			if !flows[idx] {
				continue
			}
			if f := j.provFact(a, depth+1, false); f != nil {
				return &taint.Fact{What: fmt.Sprintf("argument %d flows to the result of %s", i, core.FuncName(fn)), Parent: f}
			}
		}
		return nil
	}
	j.unknown++
	return nil
}

func (j *judge) ssaFunc(p *tmpl.Prov) *ssa.Function {
	if fo, ok := p.Obj.(*types.Func); ok && fo != nil {
		if fn := j.prog.SSA.FuncValue(fo); fn != nil && fn.Blocks != nil {
			return fn
		}
		return nil
	}
	if p.Kind == "func" {
		if lit := j.ck.FuncLits[p.Name]; lit != nil {
			return j.lits[lit.Type.Func]
		}
	}
	return nil
}

// printfFact: printf "format" args… — an operand consumed by %q (or a numeric verb) is sanitised.
func (j *judge) printfFact(p *tmpl.Prov, depth int) *taint.Fact {
	if len(p.Args) == 0 {
		return nil
	}
	format := ""
	known := false
	if p.Args[0] != nil && p.Args[0].Kind == "lit" {
		if s, err := strconv.Unquote(p.Args[0].Name); err == nil {
			format, known = s, true
		}
	}
	var verbs []byte
	if known {
		verbs = taint.ParseVerbs(format)
	} else if f := j.provFact(p.Args[0], depth+1, false); f != nil {
		return f
	}
	for i, a := range p.Args[1:] {
		if known && i < len(verbs) && (verbs[i] == 'q' || verbs[i] == 'V' || verbs[i] == 'd' || verbs[i] == 't') {
			continue
		}
		if f := j.provFact(a, depth+1, false); f != nil {
			return &taint.Fact{What: "formatted by printf " + strconv.Quote(format), Parent: f}
		}
	}
	return nil
}

// ---------------------------------------------------------------- R02.3

// checkTypeStorage: every MapUpdate on a field of gen.tstorage is preceded, in
// the same function, by a lookup of the same field that dominates it.
func checkTypeStorage(c *core.Ctx, prog *core.Prog) {
	r := c.NewRule("R02.3", "S1", "type storage: every insert into a tstorage map is dominated by a lookup of the same map (conflicts are detected, never overwritten)", 5)
	gen := prog.ByPath[pkgGen]
	if gen == nil {
		r.Undecided("anchor:gen", "-", "package gen not loaded")
		return
	}
	fieldOf := func(v ssa.Value) string {
		ld, ok := v.(*ssa.UnOp)
		if !ok || ld.Op != token.MUL {
			return ""
		}
		fa, ok := ld.X.(*ssa.FieldAddr)
		if !ok {
			return ""
		}
		st := fa.X.Type().Underlying().(*types.Pointer).Elem()
		n, ok := st.(*types.Named)
		if !ok || n.Obj().Name() != "tstorage" {
			return ""
		}
		return st.Underlying().(*types.Struct).Field(fa.Field).Name()
	}
	for _, fn := range core.PkgFuncs(prog.SSA, gen) {
		for _, b := range fn.Blocks {
			for _, in := range b.Instrs {
				mu, ok := in.(*ssa.MapUpdate)
				if !ok {
					continue
				}
				f := fieldOf(mu.Map)
				if f == "" {
					continue
				}
				key := fmt.Sprintf("tstorage-insert:%s:%s", fnKey(fn), f)
				// a dominating comma-ok (or plain) lookup of the same field in this function
				found := false
				for _, b2 := range fn.Blocks {
					for _, in2 := range b2.Instrs {
						lk, ok := in2.(*ssa.Lookup)
						if !ok || fieldOf(lk.X) != f {
							continue
						}
						if b2 == b || b2.Dominates(b) {
							found = true
						}
					}
				}
				if found {
					r.Pass(fmt.Sprintf("%s at %s: lookup of s.%s dominates the insert", key, c.Pos(mu.Pos()), f))
					continue
				}
				// merge: inserts after a pre-check loop over the other storage — the loop's lookup is in a block that
				// does not dominate the insert loop body, but every path to the insert passes the loop header: accept
				// when some lookup of the field exists in the function and the function returns an error on a hit
				hasLookup := false
				for _, b2 := range fn.Blocks {
					for _, in2 := range b2.Instrs {
						if lk, ok := in2.(*ssa.Lookup); ok && fieldOf(lk.X) == f {
							hasLookup = true
						}
					}
				}
				if hasLookup && core.ReturnsError(fn) {
					r.Pass(fmt.Sprintf("%s at %s: pre-check loop looks s.%s up before the insert loop", key, c.Pos(mu.Pos()), f))
					continue
				}
				r.Fail(key, c.Pos(mu.Pos()), fmt.Sprintf("insert into tstorage.%s without a preceding lookup of that map in %s: an existing entry would be overwritten silently (duplicate or missing declarations in the output)", f, fnKey(fn)))
			}
		}
	}
	checkHitGuards(c, r, prog, fieldOf)
}

// checkHitGuards: in every function that inserts into a tstorage map, what lets it carry on after finding an
// existing entry is enumerated and must equal the reviewed list (tables/tstorage_guards.json).
func checkHitGuards(c *core.Ctx, r *core.Rule, prog *core.Prog, fieldOf func(ssa.Value) string) {
	var tab struct {
		Entries []struct {
			Key    string   `json:"key"`
			Guards []string `json:"guards"`
			Reason string   `json:"reason"`
		} `json:"entries"`
	}
	b, err := os.ReadFile(filepath.Join(c.VerifDir, "tables", "tstorage_guards.json"))
	if err != nil {
		r.Undecided("table:tstorage_guards", "-", err.Error())
		return
	}
	if err := json.Unmarshal(b, &tab); err != nil {
		r.Undecided("table:tstorage_guards", "-", err.Error())
		return
	}
	reviewed := map[string]map[string]bool{}
	for _, e := range tab.Entries {
		m := map[string]bool{}
		for _, g := range e.Guards {
			m[g] = true
		}
		reviewed[e.Key] = m
	}
	gen := prog.ByPath[pkgGen]
	// the predicates named in reviewed guards were reviewed for what they look at: the set of struct fields a
	// predicate reads is part of the review (entry "predicate-reads:<name>"); a predicate that starts looking at a
	// new field (or through a new indirection such as AliasTo) accepts something else than what was reviewed
	for key, want := range reviewed {
		if !strings.HasPrefix(key, "predicate-reads:") {
			continue
		}
		name := strings.TrimPrefix(key, "predicate-reads:")
		fn := prog.Func(pkgGen, name)
		if fn == nil {
			r.Undecided(key, "-", "gen."+name+" not found")
			continue
		}
		got := map[string]token.Pos{}
		for _, g := range core.AllFuncs(fn) {
			for _, bl := range g.Blocks {
				for _, in := range bl.Instrs {
					switch x := in.(type) {
					case *ssa.FieldAddr:
						got[fieldName(x.X.Type(), x.Field)] = x.Pos()
					case *ssa.Field:
						got[fieldName(x.X.Type(), x.Field)] = x.Pos()
					}
				}
			}
		}
		var extra []string
		pos := fn.Pos()
		for f, p := range got {
			if !want[f] {
				extra = append(extra, f)
				pos = p
			}
		}
		sort.Strings(extra)
		if os.Getenv("OGENVERIF_TRACE") != "" {
			var all []string
			for f := range got {
				all = append(all, f)
			}
			sort.Strings(all)
			fmt.Fprintf(os.Stderr, "PREDREADS\t%s\t%s\n", name, strings.Join(all, ","))
		}
		if len(extra) == 0 {
			r.Pass(fmt.Sprintf("%s reads only the reviewed fields (%d)", name, len(got)))
		} else {
			r.Fail(key, c.Pos(pos), fmt.Sprintf("%s, the predicate a reviewed tstorage exception relies on, now also reads %v: what it accepts as \"the same type\" is no longer what was reviewed (two differently shaped types may be merged under one name)", name, extra))
		}
	}
	for _, fn := range core.PkgFuncs(prog.SSA, gen) {
		inserts := map[string]bool{}
		for _, bl := range fn.Blocks {
			for _, in := range bl.Instrs {
				if mu, ok := in.(*ssa.MapUpdate); ok {
					if f := fieldOf(mu.Map); f != "" {
						inserts[f] = true
					}
				}
			}
		}
		if len(inserts) == 0 {
			continue
		}
		ord := map[string]int{}
		for _, bl := range fn.Blocks {
			for _, in := range bl.Instrs {
				lk, ok := in.(*ssa.Lookup)
				if !ok || !lk.CommaOk {
					continue
				}
				f := fieldOf(lk.X)
				if f == "" || !inserts[f] {
					continue
				}
				base := fmt.Sprintf("tstorage-hit:%s:%s", fnKey(fn), f)
				key := fmt.Sprintf("%s#%d", base, ord[base])
				ord[base]++
				guards := hitGuards(fn, lk)
				if os.Getenv("OGENVERIF_TRACE") != "" {
					fmt.Fprintf(os.Stderr, "HITGUARD\t%s\t%s\n", key, strings.Join(guards, " | "))
				}
				if len(guards) == 0 {
					r.Pass(fmt.Sprintf("%s at %s: a hit always ends in an error return", key, c.Pos(lk.Pos())))
					continue
				}
				var fresh []string
				for _, g := range guards {
					if !reviewed[key][g] {
						fresh = append(fresh, g)
					}
				}
				if len(fresh) == 0 {
					r.Justified++
					r.Pass(fmt.Sprintf("%s at %s: carries on after a hit only under the reviewed conditions: %s", key, c.Pos(lk.Pos()), strings.Join(guards, " | ")))
					continue
				}
				r.Fail(key, c.Pos(lk.Pos()), fmt.Sprintf("after finding an existing entry in tstorage.%s, %s carries on (overwriting it) under a condition that is not in the reviewed list: %s", f, fnKey(fn), strings.Join(fresh, " | ")))
			}
		}
	}
}

// hitGuards: for a comma-ok lookup of a tstorage map, the conditions under which the function carries on after a
// hit (instead of returning an error). Each way out of the hit region gives one conjunction like
// "IsGeneric()=true & sameBase()=true".
func hitGuards(fn *ssa.Function, lk *ssa.Lookup) []string {
	var okv ssa.Value
	for _, ref := range *lk.Referrers() {
		if ex, ok := ref.(*ssa.Extract); ok && ex.Index == 1 {
			okv = ex
		}
	}
	if okv == nil {
		return nil
	}
	var hit *ssa.BasicBlock
	var iffBlock *ssa.BasicBlock
	for _, ref := range *okv.Referrers() {
		if iff, ok := ref.(*ssa.If); ok {
			hit = iff.Block().Succs[0]
			iffBlock = iff.Block()
		}
	}
	if hit == nil {
		return nil
	}
	isErrReturn := func(b *ssa.BasicBlock) bool {
		ret, ok := b.Instrs[len(b.Instrs)-1].(*ssa.Return)
		if !ok {
			return false
		}
		for i, r := range ret.Results {
			if core.IsErrorType(fn.Signature.Results().At(i).Type()) && !core.IsNilConst(r) {
				return true
			}
		}
		return false
	}
	describe := func(v ssa.Value) string {
		var d func(v ssa.Value, depth int) string
		d = func(v ssa.Value, depth int) string {
			if depth > 4 {
				return "…"
			}
			switch x := v.(type) {
			case *ssa.Call:
				if callee := x.Common().StaticCallee(); callee != nil {
					return callee.Name() + "()"
				}
				if x.Common().IsInvoke() {
					return x.Common().Method.Name() + "()"
				}
				return "call"
			case *ssa.BinOp:
				return d(x.X, depth+1) + x.Op.String() + d(x.Y, depth+1)
			case *ssa.UnOp:
				if x.Op == token.MUL {
					return d(x.X, depth+1)
				}
				return x.Op.String() + d(x.X, depth+1)
			case *ssa.FieldAddr:
				st := x.X.Type().Underlying().(*types.Pointer).Elem().Underlying().(*types.Struct)
				return "." + st.Field(x.Field).Name()
			case *ssa.Field:
				st := x.X.Type().Underlying().(*types.Struct)
				return "." + st.Field(x.Field).Name()
			case *ssa.Const:
				return x.Value.String()
			case *ssa.Extract:
				return d(x.Tuple, depth+1)
			case *ssa.Lookup:
				return "lookup"
			}
			return "v"
		}
		return d(v, 0)
	}
	// walk the region from the hit block; stop at error returns and when leaving (a block the hit block does not dominate)
	var out []string
	seen := map[string]bool{}
	var walk func(b *ssa.BasicBlock, conds []string, visited map[*ssa.BasicBlock]bool)
	walk = func(b *ssa.BasicBlock, conds []string, visited map[*ssa.BasicBlock]bool) {
		if visited[b] || len(visited) > 64 {
			return
		}
		visited[b] = true
		defer delete(visited, b)
		if isErrReturn(b) {
			return
		}
		leaves := !hit.Dominates(b) || b == iffBlock
		if _, isRet := b.Instrs[len(b.Instrs)-1].(*ssa.Return); isRet {
			leaves = true
		}
		if leaves {
			var kept []string
			for _, cd := range conds {
				// loop-control conditions (index comparisons, range ok flags) say nothing about the entry
				if strings.Contains(cd, "()") || strings.Contains(cd, ".") {
					kept = append(kept, cd)
				}
			}
			k := strings.Join(kept, " & ")
			if k == "" {
				k = "unconditional"
			}
			if !seen[k] {
				seen[k] = true
				out = append(out, k)
			}
			return
		}
		if iff, ok := b.Instrs[len(b.Instrs)-1].(*ssa.If); ok {
			walk(b.Succs[0], append(append([]string{}, conds...), describe(iff.Cond)+"=true"), visited)
			walk(b.Succs[1], append(append([]string{}, conds...), describe(iff.Cond)+"=false"), visited)
			return
		}
		for _, sc := range b.Succs {
			walk(sc, conds, visited)
		}
	}
	walk(hit, nil, map[*ssa.BasicBlock]bool{})
	sort.Strings(out)
	return out
}

// ---------------------------------------------------------------- R02.4

func checkExpansionsTypeCheck(c *core.Ctx) error {
	r := c.NewRule("R02.4", "S2", "every expansion produced by the generator built from the current tree type-checks", 30)
	// all go:generate fixtures in both tiers: the expansion is 20 s and the large examples are what exercises the
	// rarely taken template branches
	var names []string
	exp, err := c.Expand(names)
	if err != nil {
		msg := err.Error()
		switch {
		case strings.Contains(msg, "type/parse errors"):
			r.Fail("typecheck:expansions", "S2", "the packages written by the generator built from the current tree do not type-check: "+trimPosMsg(msg, 900))
		case strings.Contains(msg, "expanding") && (strings.Contains(msg, "goimports") || strings.Contains(msg, "format") || strings.Contains(msg, "expected ")):
			r.Fail("unparsable:expansions", "S2", "the generator failed on its own output (templates emitted unparsable Go): "+trimPosMsg(msg, 900))
		default:
			r.Undecided("expand", "-", trimPosMsg(msg, 900))
		}
		return nil
	}
	for _, fx := range exp.Fixtures {
		p := exp.Prog.PkgBy[fx.PkgPath]
		if p == nil || len(p.GoFiles) == 0 {
			r.Undecided("expansion:"+fx.Name, "-", "expansion not loaded or empty")
			continue
		}
		r.Pass(fmt.Sprintf("expansion %s (%s): %d files, 0 go/types errors", fx.Name, filepath.Base(fx.Spec), len(p.GoFiles)))
	}
	for _, s := range exp.Skipped {
		r.Note("skipped: %s", s)
	}
	r.Note("generated _test.go files (example tests) are not part of the loaded expansions")
	// informational only (C14 is not claimed: this is a comparison of two outputs, not a static verdict): do the
	// checked-in packages still equal what the generator built from this tree writes for the same directive?
	same, total := 0, 0
	for _, fx := range exp.Fixtures {
		if strings.HasPrefix(fx.Name, "vf_") {
			continue
		}
		checkedIn := filepath.Join(filepath.Dir(fx.Origin), fx.Name)
		files, _ := filepath.Glob(filepath.Join(fx.Dir, "*_gen.go"))
		var differ []string
		for _, f := range files {
			if strings.HasSuffix(f, "_test.go") {
				continue
			}
			a, err1 := os.ReadFile(f)
			b, err2 := os.ReadFile(filepath.Join(checkedIn, filepath.Base(f)))
			if err1 != nil || err2 != nil || !bytes.Equal(a, b) {
				differ = append(differ, filepath.Base(f))
			}
		}
		total++
		if len(differ) == 0 {
			same++
		} else {
			sort.Strings(differ)
			r.Note("informational (C14, not claimed): checked-in package %s differs from what the current generator writes in %v — rerun go generate", fx.Name, differ)
		}
	}
	r.Note("informational (C14, not claimed): %d of %d checked-in packages are byte-identical to the expansion of their go:generate directive", same, total)
	checkFeatureMatrix(c)
	return nil
}

// featureNames reads the feature table of package gen: every Feature literal's name and whether it is a default.
func featureNames(c *core.Ctx) (all []string, isDefault map[string]bool, err error) {
	pkgs, err := c.Load("./gen")
	if err != nil {
		return nil, nil, err
	}
	p := pkgs[0]
	nameOf := map[types.Object]string{}
	isDefault = map[string]bool{}
	for _, f := range p.Syntax {
		ast.Inspect(f, func(n ast.Node) bool {
			vs, ok := n.(*ast.ValueSpec)
			if !ok {
				return true
			}
			for i, id := range vs.Names {
				if i >= len(vs.Values) {
					continue
				}
				cl, ok := vs.Values[i].(*ast.CompositeLit)
				if !ok {
					continue
				}
				t := p.TypesInfo.TypeOf(cl)
				if t == nil {
					continue
				}
				if named, ok := t.(*types.Named); ok && named.Obj().Name() == "Feature" && len(cl.Elts) > 0 {
					e := cl.Elts[0]
					if kv, ok := e.(*ast.KeyValueExpr); ok {
						e = kv.Value
					}
					if bl, ok := e.(*ast.BasicLit); ok && bl.Kind == token.STRING {
						if s, err := strconv.Unquote(bl.Value); err == nil {
							nameOf[p.TypesInfo.Defs[id]] = s
						}
					}
				}
			}
			return true
		})
	}
	for _, f := range p.Syntax {
		ast.Inspect(f, func(n ast.Node) bool {
			vs, ok := n.(*ast.ValueSpec)
			if !ok {
				return true
			}
			for i, id := range vs.Names {
				if id.Name != "DefaultFeatures" || i >= len(vs.Values) {
					continue
				}
				if cl, ok := vs.Values[i].(*ast.CompositeLit); ok {
					for _, e := range cl.Elts {
						if eid, ok := e.(*ast.Ident); ok {
							if s, ok := nameOf[p.TypesInfo.Uses[eid]]; ok {
								isDefault[s] = true
							}
						}
					}
				}
			}
			return true
		})
	}
	for _, s := range nameOf {
		all = append(all, s)
	}
	sort.Strings(all)
	if len(all) == 0 {
		return nil, nil, fmt.Errorf("no gen.Feature literals found")
	}
	return all, isDefault, nil
}

// checkFeatureMatrix (R02.5, S2): config-less fixtures × feature variants — every single feature toggled, each of
// the four generation targets alone, and everything enabled. A variant the generator rejects with a diagnostic is
// fine; one that it accepts must type-check, and it must never fail on its own output.
func checkFeatureMatrix(c *core.Ctx) {
	r := c.NewRule("R02.5", "S2", "feature matrix: whatever feature set is chosen, a successful generation type-checks and the generator never chokes on its own output", 20)
	all, isDefault, err := featureNames(c)
	if err != nil {
		r.Undecided("anchor:features", "-", err.Error())
		return
	}
	var variants []core.Variant
	for _, f := range all {
		if isDefault[f] {
			variants = append(variants, core.Variant{Name: "without " + f, Disable: []string{f}})
		} else {
			variants = append(variants, core.Variant{Name: "with " + f, Enable: []string{f}})
		}
	}
	for _, f := range all {
		if strings.HasPrefix(f, "paths/") || strings.HasPrefix(f, "webhooks/") {
			variants = append(variants, core.Variant{Name: "only " + f, DisableAll: true, Enable: []string{f}})
		}
	}
	variants = append(variants, core.Variant{Name: "everything", Enable: all})
	fixtures := []string{"test_webhooks", "test_security"}
	if c.Thorough() {
		fixtures = []string{"test_webhooks", "test_security", "test_parameters", "test_http_responses", "test_http_requests", "test_form", "test_servers", "test_single_endpoint"}
	}
	r.Note("features read from gen: %d (%d default); variants: %d; fixtures: %v", len(all), len(isDefault), len(variants), fixtures)
	res, err := c.ExpandVariants(fixtures, variants)
	if err != nil {
		r.Undecided("expand-variants", "-", trimPosMsg(err.Error(), 600))
		return
	}
	rejected := 0
	for _, x := range res {
		key := fmt.Sprintf("variant:%s:%s", x.Fixture, x.Variant)
		switch {
		case x.GenErr != "" && x.Unparsable:
			r.Fail(key, "S2:"+x.Fixture, fmt.Sprintf("with features [%s] the generator failed on its own output: %s", x.Variant, trimPosMsg(x.GenErr, 400)))
		case x.GenErr != "":
			rejected++
			r.Pass(fmt.Sprintf("%s: rejected with a diagnostic (%s)", key, trimPosMsg(x.GenErr, 120)))
		case len(x.TypeErrors) > 0:
			r.Fail(key, "S2:"+x.Fixture, fmt.Sprintf("with features [%s] generation succeeded but the package does not type-check: %s", x.Variant, trimPosMsg(strings.Join(x.TypeErrors, "; "), 500)))
		default:
			r.Pass(fmt.Sprintf("%s: %d files, 0 go/types errors", key, x.Files))
		}
	}
	r.Note("variants rejected with a diagnostic: %d of %d", rejected, len(res))
}

func trimPosMsg(s string, n int) string {
	if len(s) > n {
		s = s[:n]
	}
	return s
}

// ---------------------------------------------------------------- R02.6

var declLine = regexp.MustCompile(`^(type|func|const|var)\s+((?:\{\{[^}]*\}\}|[A-Za-z0-9_])+)`)
var memberLine = regexp.MustCompile(`^\t((?:\{\{[^}]*\}\}|[A-Za-z0-9_])+)\s+(?:\{\{[^}]*\}\}|[A-Za-z0-9_.\[\]*])*\s*=`)
var actionRe = regexp.MustCompile(`\{\{-?\s*([^}]*?)\s*-?\}\}`)

// checkPackageScopeNames: every identifier the templates declare at package scope is catalogued from the template
// text. A name is safe when it is (a) the Name of a type held in the type storage (unique by R02.3), (b) unexported
// — registered type names are always exported Pascal-case identifiers, or (c) derived with a lower-case literal
// prefix. An exported fixed name, or an exported name derived from a registered name (FooParams, StatusPet, PetType),
// shares the namespace with the document's schema names, and nothing reserves it.
func checkPackageScopeNames(c *core.Ctx, ts *tmpl.Set, ck *tmpl.Checker) {
	r := c.NewRule("R02.6", "S1", "package-scope identifiers declared by templates cannot collide with names taken from the document", 40)
	// registry-backed actions: printing actions whose value is the Name field of an ir.Type
	registry := map[string]bool{} // file:line:action
	for _, e := range ck.Emissions {
		p := e.Val.Prov
		if p == nil || p.Kind != "field" || p.Name != "Name" {
			continue
		}
		if fv, ok := p.Obj.(*types.Var); ok && fv.Pkg() != nil && fv.Pkg().Path() == pkgIR {
			rt := p.RecvT
			if rt != nil {
				if ptr, ok := rt.Underlying().(*types.Pointer); ok {
					rt = ptr.Elem()
				}
				if n, ok := types.Unalias(rt).(*types.Named); ok && n.Obj().Name() == "Type" {
					registry[fmt.Sprintf("%s:%d:%s", e.File, e.Line, strings.ReplaceAll(e.Node, " ", ""))] = true
				}
			}
		}
	}
	type decl struct {
		file string
		line int
		kind string
		form string
	}
	var decls []decl
	for _, file := range ts.Files {
		src := ts.Source[file]
		inBlock := ""
		for i, ln := range strings.Split(src, "\n") {
			if m := regexp.MustCompile(`^(const|var)\s*\(`).FindStringSubmatch(ln); m != nil {
				inBlock = m[1]
				continue
			}
			if inBlock != "" {
				if strings.HasPrefix(ln, ")") {
					inBlock = ""
					continue
				}
				if m := memberLine.FindStringSubmatch(ln); m != nil {
					decls = append(decls, decl{file, i + 1, inBlock, m[1]})
				}
				continue
			}
			if m := declLine.FindStringSubmatch(ln); m != nil {
				if m[1] == "func" && strings.HasPrefix(strings.TrimSpace(ln[len("func"):]), "(") {
					continue // method
				}
				decls = append(decls, decl{file, i + 1, m[1], m[2]})
			}
		}
	}
	norm := func(form string) string {
		return actionRe.ReplaceAllStringFunc(form, func(a string) string {
			m := actionRe.FindStringSubmatch(a)
			return "{{" + strings.Join(strings.Fields(m[1]), " ") + "}}"
		})
	}
	scope := packageScopeLines(ts, ck)
	seen := map[string]bool{}
	var fixedExported []string
	nForms := 0
	nested := 0
	for _, d := range decls {
		if !scope[fmt.Sprintf("%s:%d", d.file, d.line)] {
			nested++
			continue
		}
		form := norm(d.form)
		if form == "_" {
			continue
		}
		k := d.kind + " " + form
		if seen[k] {
			continue
		}
		seen[k] = true
		nForms++
		pos := fmt.Sprintf("gen/_template/%s:%d", d.file, d.line)
		if !strings.Contains(form, "{{") {
			if token.IsExported(form) {
				fixedExported = append(fixedExported, form)
			} else {
				r.Pass(fmt.Sprintf("%s %s: fixed unexported identifier", d.kind, form))
			}
			continue
		}
		lit := form[:strings.Index(form, "{{")]
		switch {
		case strings.HasPrefix(d.file, "test_examples"):
			r.Pass(fmt.Sprintf("%s %s at %s: declared in the generated _test.go file only, with the fixed shape Test<type>_<word>; not compiled into the package (NOT covered: an enum constant spelled exactly like that)", d.kind, form, pos))
		case lit != "" && !token.IsExported(lit):
			r.Pass(fmt.Sprintf("%s %s at %s: lower-case literal prefix, cannot equal an exported schema name", d.kind, form, pos))
		case lit == "" && strings.Count(form, "{{") == 1 && strings.HasSuffix(form, "}}") && registry[fmt.Sprintf("%s:%d:%s", d.file, d.line, strings.ReplaceAll(form, " ", ""))]:
			r.Pass(fmt.Sprintf("%s %s at %s: the name of a type held in the type storage", d.kind, form, pos))
		default:
			r.Fail("pkgscope:"+k, pos, fmt.Sprintf("%s %s is declared at package scope with a name derived from document names, outside the type storage: a schema (or another derived name) with the same spelling is not detected and the package gets two declarations of it", d.kind, form))
		}
	}
	sort.Strings(fixedExported)
	if len(fixedExported) > 0 {
		r.Fail("pkgscope:fixed-exported-names", "gen/_template", fmt.Sprintf("%d exported identifiers are declared unconditionally by the templates (%s) and nothing keeps a schema from being given one of these names", len(fixedExported), strings.Join(fixedExported, ", ")))
	}
	r.Note("declaration forms catalogued from template text: %d (%d declaration lines, %d of them inside a function body)", nForms, len(decls), nested)
}

// packageScopeLines marks the template source lines whose text is emitted at Go brace depth 0: starting from the
// root templates (depth 0), text nodes move the depth by their braces (strings, runes and comments skipped), a
// {{template}} call hands its current depth to the callee, and the branches of if/range/with are assumed balanced.
func packageScopeLines(ts *tmpl.Set, ck *tmpl.Checker) map[string]bool {
	out := map[string]bool{}
	visited := map[string]bool{}
	var walkDefine func(name string, depth int)
	braceDelta := func(text string) int {
		d := 0
		inStr, inRaw, inChar, inLine, inBlock := false, false, false, false, false
		for i := 0; i < len(text); i++ {
			ch := text[i]
			switch {
			case inLine:
				if ch == '\n' {
					inLine = false
				}
			case inBlock:
				if ch == '*' && i+1 < len(text) && text[i+1] == '/' {
					inBlock = false
					i++
				}
			case inStr:
				if ch == '\\' {
					i++
				} else if ch == '"' || ch == '\n' {
					inStr = false
				}
			case inRaw:
				if ch == '`' {
					inRaw = false
				}
			case inChar:
				if ch == '\\' {
					i++
				} else if ch == '\'' || ch == '\n' {
					inChar = false
				}
			default:
				switch ch {
				case '"':
					inStr = true
				case '`':
					inRaw = true
				case '\'':
					inChar = true
				case '/':
					if i+1 < len(text) && text[i+1] == '/' {
						inLine = true
					} else if i+1 < len(text) && text[i+1] == '*' {
						inBlock = true
					}
				case '{':
					d++
				case '}':
					d--
				}
			}
		}
		return d
	}
	var walkList func(define string, l *parse.ListNode, depth int) int
	walkList = func(define string, l *parse.ListNode, depth int) int {
		if l == nil {
			return depth
		}
		file := ts.FileOf[define]
		for _, n := range l.Nodes {
			switch x := n.(type) {
			case *parse.TextNode:
				text := string(x.Text)
				// mark lines that start at depth 0
				line := ts.Line(define, x.Pos)
				cur := depth
				for _, ln := range strings.SplitAfter(text, "\n") {
					if cur == 0 {
						out[fmt.Sprintf("%s:%d", file, line)] = true
					}
					cur += braceDelta(ln)
					if strings.HasSuffix(ln, "\n") {
						line++
					}
				}
				depth = cur
			case *parse.IfNode:
				d1 := walkList(define, x.List, depth)
				walkList(define, x.ElseList, depth)
				depth = d1
			case *parse.RangeNode:
				walkList(define, x.List, depth)
				walkList(define, x.ElseList, depth)
			case *parse.WithNode:
				d1 := walkList(define, x.List, depth)
				walkList(define, x.ElseList, depth)
				depth = d1
			case *parse.TemplateNode:
				if depth == 0 {
					walkDefine(x.Name, 0)
				}
			case *parse.ActionNode:
				if depth == 0 {
					out[fmt.Sprintf("%s:%d", file, ts.Line(define, x.Pos))] = true
				}
			}
		}
		return depth
	}
	walkDefine = func(name string, depth int) {
		if visited[name] {
			return
		}
		visited[name] = true
		if tr := ts.Trees[name]; tr != nil {
			walkList(name, tr.Root, depth)
		}
	}
	for _, r := range ck.Roots {
		walkDefine(r, 0)
	}
	return out
}

// ---------------------------------------------------------------- R02.7

// checkIdentifierSafety: the IR fields templates print where Go expects an identifier (the Name of a type, field,
// variant, operation, parameter) never receive Go *type text* — the result of PrimitiveType.String(), Type.Go() or
// Type.NamePostfix() ("net.HardwareAddr", "[]byte", "time.Time") — unless it went through an identifier synthesiser
// (pascal & co., which end in token.IsIdentifier) or is certified by token.IsIdentifier on the dominating edge.
func checkIdentifierSafety(c *core.Ctx, prog *core.Prog) {
	r := c.NewRule("R02.7", "S1", "identifier-position IR fields never receive Go type text without an identifier guard", 5)
	cfg := taint.Config{
		NoSources:  true,
		Guards:     map[string]bool{"go/token.IsIdentifier": true},
		Sanitisers: map[string]bool{},
		SourceFuncs: map[string]bool{
			"(ogen/gen/ir.PrimitiveType).String": true,
			"(*ogen/gen/ir.Type).Go":             true,
		},
		InScope: func(f *ssa.Function) bool {
			if !core.InModule(f) {
				return false
			}
			p := core.FuncPkgPath(f)
			return p == pkgGen || p == pkgIR || p == core.Module+"/internal/naming"
		},
	}
	an := taint.Run(prog, cfg)
	r.Note("taint fixpoint (sources: PrimitiveType.String, Type.Go): %d functions, %d source reads, %d tainted fields", an.Funcs, an.Sources, len(an.Field))
	if an.Sources == 0 {
		r.Undecided("anchor:type-text-sources", "-", "no call of PrimitiveType.String / Type.Go found: the sources of this rule moved")
		return
	}
	irp := prog.PkgBy[pkgIR]
	if irp == nil {
		r.Undecided("load:gen/ir", "-", "package gen/ir not loaded")
		return
	}
	// identifier-position fields: fields called Name of the IR structs
	sc := irp.Types.Scope()
	n := 0
	for _, tn := range sc.Names() {
		obj, ok := sc.Lookup(tn).(*types.TypeName)
		if !ok {
			continue
		}
		st, ok := obj.Type().Underlying().(*types.Struct)
		if !ok {
			continue
		}
		for i := 0; i < st.NumFields(); i++ {
			fv := st.Field(i)
			if fv.Name() != "Name" {
				continue
			}
			if b, ok := fv.Type().Underlying().(*types.Basic); !ok || b.Info()&types.IsString == 0 {
				continue
			}
			n++
			key := "identifier-field:ir." + tn + ".Name"
			if f := an.Field[fv]; f != nil {
				r.Fail(key, c.Pos(f.Pos), fmt.Sprintf("ir.%s.Name can receive Go type text that is not an identifier (a dotted or bracketed type such as net.HardwareAddr or []byte): templates print it as a field / constant / type name and goimports fails: %s", tn, f.Chain(c)))
			} else {
				r.Pass(fmt.Sprintf("%s: receives no unguarded Go type text", key))
			}
		}
	}
	if n == 0 {
		r.Undecided("anchor:ir-name-fields", "-", "no string field called Name found in gen/ir")
	}
}
