package rules

import (
	"fmt"
	"go/token"
	"go/types"
	"sort"
	"strings"

	"golang.org/x/tools/go/packages"
	"golang.org/x/tools/go/ssa"

	"ogenverif/internal/core"
	"ogenverif/internal/panicob"
)

func init() {
	register(&Property{
		ID: "C11",
		Meta: core.Meta{
			Level: "other",
			Explanation: "Panic-freedom obligations on the input-facing generator code and the discipline that turns faults into errors: " +
				"(R11.1) every explicit panic( site of the generation path (ogen, gen, gen/ir, openapi, openapi/parser, jsonschema, jsonpointer, location, internal helpers) is the default of an exhaustive switch over a closed constant set, or has a reviewed justification (paired with a recover, reachable only from templates where text/template converts it into an error, or guarded by a preceding check) — a new panic site is a violation until triaged; " +
				"(R11.2) every bounds check the compiler cannot prove whose indexed operand is text (string, []byte, []rune) — the places where input text is scanned — is discharged by a dominating guard or a reviewed entry; bounds checks on slices of IR objects are out of scope (stated); " +
				"(R11.3) YAML-nullable results are tested before use: every function of openapi/parser and jsonschema that can return (nil, nil) is enumerated from its constant returns, and at each call site every dereference of the result is dominated by the non-nil edge of a nil test on that value (or the result is only passed on / stored). " +
				"NOT decided: termination time, memory and stack depth on deep documents, yaml decoder limits, and that reported positions lie inside the offending node.",
			Assumptions: []string{"integer overflow of index arithmetic ignored", "text/template recovers panics of functions it calls (safeCall)"},
			TrustedBase: []string{"compiler check_bce as enumerator", "tables/panic_justified.json"},
		},
		Run: runC11,
	})
}

var c11Pkgs = []string{".", "./gen", "./gen/ir", "./gen/genfs", "./openapi", "./openapi/parser", "./jsonschema", "./jsonpointer", "./location",
	"./internal/xmaps", "./internal/xslices", "./internal/naming", "./internal/bitset", "./internal/jsonmeta", "./internal/urlpath", "./internal/location", "./internal/ogenversion", "./internal/ogenzap", "./cmd/ogen"}

func isTextType(t types.Type) bool {
	if t == nil {
		return false
	}
	switch u := t.Underlying().(type) {
	case *types.Basic:
		return u.Info()&types.IsString != 0
	case *types.Slice:
		if b, ok := u.Elem().Underlying().(*types.Basic); ok {
			return b.Kind() == types.Uint8 || b.Kind() == types.Int32
		}
	case *types.Pointer:
		if a, ok := u.Elem().Underlying().(*types.Array); ok {
			if b, ok := a.Elem().Underlying().(*types.Basic); ok {
				return b.Kind() == types.Uint8
			}
		}
	case *types.Array:
		if b, ok := u.Elem().Underlying().(*types.Basic); ok {
			return b.Kind() == types.Uint8
		}
	}
	return false
}

func runC11(c *core.Ctx) error {
	var pats []string
	for _, p := range c11Pkgs {
		if p == "." {
			pats = append(pats, ".")
			continue
		}
		pats = append(pats, p)
	}
	// some internal packages may not exist: load what exists
	var existing []string
	for _, p := range pats {
		if _, err := c.Load(p); err == nil {
			existing = append(existing, p)
		}
	}
	prog, err := c.Program(existing...)
	if err != nil {
		return err
	}
	var scope []*packages.Package
	for _, p := range prog.Pkgs {
		scope = append(scope, p)
	}
	sort.Slice(scope, func(i, j int) bool { return scope[i].PkgPath < scope[j].PkgPath })
	table, err := panicob.LoadTable(c.VerifDir, "panic_justified.json")
	if err != nil {
		return err
	}
	r1 := c.NewRule("R11.1", "S1", "explicit panics of the generation path are exhaustive-switch defaults or justified", 40)
	r2 := c.NewRule("R11.2", "S1", "unproven bounds checks on text operands discharged", 20)
	r3 := c.NewRule("R11.3", "S1", "results of functions that can return (nil, nil) are tested before being dereferenced", 8)
	r1.Note("packages: %d", len(scope))

	var genScope []*packages.Package
	for _, p := range scope {
		if p.PkgPath == pkgJP { // C16 owns jsonpointer's obligations
			continue
		}
		genScope = append(genScope, p)
	}
	// functions referenced (called or address-taken) from Go code of the module
	referenced := map[string]bool{}
	for _, sp := range prog.SSA.AllPackages() {
		if !strings.HasPrefix(sp.Pkg.Path(), core.Module) {
			continue
		}
		for _, fn := range core.PkgFuncs(prog.SSA, sp) {
			for _, b := range fn.Blocks {
				for _, in := range b.Instrs {
					var ops []*ssa.Value
					for _, op := range in.Operands(ops) {
						if f, ok := (*op).(*ssa.Function); ok {
							if o := f.Origin(); o != nil {
								f = o
							}
							if f != fn {
								referenced[f.String()] = true
							}
						}
					}
					if call, ok := in.(ssa.CallInstruction); ok {
						if cal := call.Common().StaticCallee(); cal != nil && cal != fn {
							if o := cal.Origin(); o != nil {
								cal = o
							}
							referenced[cal.String()] = true
						}
					}
				}
			}
		}
	}
	templateOnly := func(s *panicob.Site) (bool, string) {
		if s.Pkg.PkgPath != pkgIR && s.Pkg.PkgPath != pkgGen {
			return false, ""
		}
		// enclosing top-level function as SSA name
		name := s.Func
		if i := strings.IndexByte(name, '$'); i >= 0 {
			name = name[:i]
		}
		fn := prog.Func(s.Pkg.PkgPath, name)
		if fn == nil || !token.IsExported(fn.Name()) || fn.Signature.Recv() == nil {
			return false, ""
		}
		if referenced[fn.String()] {
			return false, ""
		}
		return true, "exported IR helper with no caller in the module's Go code: reachable only from templates, where text/template (safeCall) converts a panic of a called method into an execution error"
	}
	panicob.DischargePanics(c, r1, panicob.Panics(c, genScope), table, templateOnly)

	sites, err := panicob.Bounds(c, genScope)
	if err != nil {
		return err
	}
	nAll := len(sites)
	// the packages that read the document directly are covered for every operand type; the generator
	// proper (gen, gen/ir, …) for text operands
	inputFacing := map[string]bool{pkgOpenAPI: true, pkgParser: true, pkgJS: true, pkgLoc: true, pkgRoot: true}
	panicob.Discharge(c, r2, sites, panicob.Options{Table: table, Filter: func(s *panicob.Site) bool {
		if inputFacing[s.Pkg.PkgPath] {
			return true
		}
		if s.Operand != nil {
			return isTextType(s.Operand)
		}
		return false
	}})
	// uri.NormalizeEscapedPath is applied to spec path keys (C11 anchor uri/normalize.go)
	if uriPkgs, err := c.Load("./uri"); err == nil {
		usites, err := panicob.Bounds(c, []*packages.Package{findPkg(uriPkgs, pkgURI)})
		if err == nil {
			panicob.Discharge(c, r2, usites, panicob.Options{Table: table, Filter: func(s *panicob.Site) bool {
				return strings.HasSuffix(s.Pos.Filename, "normalize.go")
			}})
		}
	}
	r2.Note("unproven bounds checks in scope packages: %d, of which on text operands: %d (the others index slices of IR / AST objects and are out of scope)", nAll, r2.Obligations)

	checkNilResults(c, r3, prog)
	r4 := c.NewRule("R11.4", "S1", "recursion over schema / IR graphs carries a visited set or depth bound", 5)
	recExempt := map[string]string{}
	for _, e := range table.Entries {
		if strings.HasPrefix(e.Key, "recursion:") {
			recExempt[e.Key] = e.Reason
		}
	}
	checkGuardedRecursion(c, r4, prog, recExempt)
	checkCycleGuardUnconditional(c, r4, prog)
	checkFileReadFresh(c, prog)
	checkRootFileOnlyForRoot(c, prog)
	checkNilContradictions(c, prog, table)
	checkNilBeliefsAcrossCalls(c, prog, table)
	checkNilableFieldDerefs(c, prog, table)
	checkTypeGraphWalksLinear(c, prog)
	r9 := c.NewRule("R11.9", "S1", "a local index is consulted with keys built the way it was filled (duplicates the parser promises to remove do not reach the generator's unreachable arms)", 5)
	checkInsertLookupKeyAgreement(c, r9, prog, pkgParser, pkgJS, pkgGen, pkgIR)
	return nil
}

// checkNilResults implements R11.3.
func checkNilResults(c *core.Ctx, r *core.Rule, prog *core.Prog) {
	var fns []*ssa.Function
	for _, p := range []string{pkgParser, pkgJS} {
		if sp := prog.ByPath[p]; sp != nil {
			fns = append(fns, core.PkgFuncs(prog.SSA, sp)...)
		}
	}
	// functions with a (nil, nil) return
	nilOK := map[*ssa.Function]bool{}
	for _, fn := range fns {
		res := fn.Signature.Results()
		if res.Len() != 2 || !core.IsErrorType(res.At(1).Type()) {
			continue
		}
		if _, isPtr := res.At(0).Type().Underlying().(*types.Pointer); !isPtr {
			continue
		}
		for _, b := range fn.Blocks {
			if ret, ok := b.Instrs[len(b.Instrs)-1].(*ssa.Return); ok && len(ret.Results) == 2 {
				if core.IsNilConst(ret.Results[0]) && core.IsNilConst(ret.Results[1]) {
					nilOK[fn] = true
				}
				// named results with a defer: `return nil, nil` is spilled into stores to the result
				// variables followed by loads at the return
				l0, ok0 := ret.Results[0].(*ssa.UnOp)
				l1, ok1 := ret.Results[1].(*ssa.UnOp)
				if ok0 && ok1 {
					a0, isA0 := l0.X.(*ssa.Alloc)
					a1, isA1 := l1.X.(*ssa.Alloc)
					if isA0 && isA1 {
						for _, bb := range fn.Blocks {
							n0, n1 := false, false
							for _, in := range bb.Instrs {
								if st, ok := in.(*ssa.Store); ok && core.IsNilConst(st.Val) {
									if st.Addr == ssa.Value(a0) {
										n0 = true
									}
									if st.Addr == ssa.Value(a1) {
										n1 = true
									}
								}
							}
							if n0 && n1 {
								nilOK[fn] = true
							}
						}
					}
				}
				// returns its own nil-checked-nil input: `if x == nil { return x, nil }` is covered by the constant form in this code base
			}
		}
	}
	// propagate one level: resolve* wrappers that return the callee's result unchanged
	for changed := true; changed; {
		changed = false
		for _, fn := range fns {
			if nilOK[fn] {
				continue
			}
			res := fn.Signature.Results()
			if res.Len() != 2 || !core.IsErrorType(res.At(1).Type()) {
				continue
			}
			for _, b := range fn.Blocks {
				ret, ok := b.Instrs[len(b.Instrs)-1].(*ssa.Return)
				if !ok || len(ret.Results) != 2 || !core.IsNilConst(ret.Results[1]) {
					continue
				}
				for _, v := range core.PhiClosure(ret.Results[0]) {
					if ex, ok := v.(*ssa.Extract); ok {
						if call, ok := ex.Tuple.(*ssa.Call); ok {
							cal := call.Common().StaticCallee()
							if cal != nil && cal.Origin() != nil {
								cal = cal.Origin()
							}
							if nilOK[cal] && !derefGuarded(ex, b) {
								nilOK[fn] = true
								changed = true
							}
							// generic resolveComponent returns what cr.parse returned: treat resolve* as nil-capable when
							// their parse callback is nil-capable
							if cal != nil && cal.Name() == "resolveComponent" {
								for _, a := range call.Common().Args {
									if ld, ok := a.(*ssa.UnOp); ok {
										if al, ok := ld.X.(*ssa.Alloc); ok {
											for _, ref := range *al.Referrers() {
												if fa, ok := ref.(*ssa.FieldAddr); ok && fieldName(fa.X.Type(), fa.Field) == "parse" {
													for _, r2 := range *fa.Referrers() {
														if st, ok := r2.(*ssa.Store); ok {
															if mc, ok := st.Val.(*ssa.MakeClosure); ok {
																if bf, ok := mc.Fn.(*ssa.Function); ok && strings.HasSuffix(bf.Name(), "$bound") {
																	for f2 := range nilOK {
																		if strings.TrimSuffix(bf.Name(), "$bound") == f2.Name() && !nilOK[fn] {
																			nilOK[fn] = true
																			changed = true
																		}
																	}
																}
															}
														}
													}
												}
											}
										}
									}
								}
							}
						}
					}
				}
			}
		}
	}
	var names []string
	for f := range nilOK {
		names = append(names, f.Name())
	}
	sort.Strings(names)
	r.Note("functions that can return (nil, nil): %v", names)
	if len(nilOK) == 0 {
		r.Undecided("nil-on-success", "-", "no function with a (nil, nil) return found in openapi/parser / jsonschema")
		return
	}
	// call sites
	for _, fn := range fns {
		for _, call := range core.Calls(fn) {
			cl, ok := call.(*ssa.Call)
			if !ok {
				continue
			}
			cal := cl.Common().StaticCallee()
			if cal != nil && cal.Origin() != nil {
				cal = cal.Origin()
			}
			if cal == nil || !nilOK[cal] {
				continue
			}
			res := extractOf(cl, 0)
			if res == ssa.Value(cl) {
				continue // result unused
			}
			key := fmt.Sprintf("%s:result-of:%s", fnKey(fn), cal.Name())
			bad := firstUnguardedDeref(res)
			if bad == nil {
				r.Pass(fmt.Sprintf("%s: every dereference of the result is behind a nil test (or there is none)", key))
			} else {
				r.Fail(key, c.Pos(core.InstrPos(bad)), fmt.Sprintf("%s can return (nil, nil) — e.g. for a YAML null — and %s dereferences the result without a nil test: a null in the document crashes the generator", cal.Name(), fn.Name()))
			}
		}
	}
}

// nonNilBlocks: blocks entered on the edge where v != nil.
func nonNilBlocks(v ssa.Value) []*ssa.BasicBlock {
	var out []*ssa.BasicBlock
	for _, ref := range *v.Referrers() {
		bo, ok := ref.(*ssa.BinOp)
		if !ok || (bo.Op != token.NEQ && bo.Op != token.EQL) || !(core.IsNilConst(bo.X) || core.IsNilConst(bo.Y)) {
			continue
		}
		out = append(out, core.EdgeBlocks(bo, bo.Op == token.NEQ)...)
	}
	return out
}

func derefGuarded(v ssa.Value, at *ssa.BasicBlock) bool {
	for _, nb := range nonNilBlocks(v) {
		if nb.Dominates(at) {
			return true
		}
	}
	return false
}

// firstUnguardedDeref finds a FieldAddr / Field / pointer-receiver method call
// on v (through phis and range stores) not dominated by a non-nil edge.
func firstUnguardedDeref(v ssa.Value) ssa.Instruction {
	seen := map[ssa.Value]bool{}
	var visit func(x ssa.Value) ssa.Instruction
	visit = func(x ssa.Value) ssa.Instruction {
		if seen[x] || x.Referrers() == nil {
			return nil
		}
		seen[x] = true
		for _, ref := range *x.Referrers() {
			switch in := ref.(type) {
			case *ssa.FieldAddr:
				if in.X == x && !derefGuarded(x, in.Block()) {
					return in
				}
			case *ssa.UnOp:
				if in.Op == token.MUL && in.X == x && !derefGuarded(x, in.Block()) {
					return in
				}
			case *ssa.Phi:
				if bad := visit(in); bad != nil {
					return bad
				}
			case *ssa.MapUpdate:
				// stored into a map: the values later ranged / looked up are nil-capable as well
				if in.Value != x || in.Map.Referrers() == nil {
					continue
				}
				for _, mref := range *in.Map.Referrers() {
					switch m := mref.(type) {
					case *ssa.Range:
						for _, nref := range *m.Referrers() {
							nx, ok := nref.(*ssa.Next)
							if !ok {
								continue
							}
							for _, eref := range *nx.Referrers() {
								if ex, ok := eref.(*ssa.Extract); ok && ex.Index == 2 {
									if bad := visit(ex); bad != nil {
										return bad
									}
								}
							}
						}
					case *ssa.Lookup:
						if bad := visit(m); bad != nil {
							return bad
						}
					}
				}
			}
		}
		return nil
	}
	return visit(v)
}

// ---------------------------------------------------------------------------
// R11.4 recursion over cyclic graphs is guarded

func resolveCallee(call ssa.CallInstruction) *ssa.Function {
	cc := call.Common()
	if f := cc.StaticCallee(); f != nil {
		return f
	}
	if cc.IsInvoke() {
		return nil
	}
	return resolveFnVal(cc.Value, 0)
}

func resolveFnVal(v ssa.Value, depth int) *ssa.Function {
	if depth > 6 {
		return nil
	}
	switch x := v.(type) {
	case *ssa.Function:
		return x
	case *ssa.MakeClosure:
		f, _ := x.Fn.(*ssa.Function)
		return f
	case *ssa.UnOp:
		if x.Op != token.MUL {
			return nil
		}
		switch a := x.X.(type) {
		case *ssa.Alloc:
			return storedFn(a, depth)
		case *ssa.FreeVar:
			// binding in the parent
			fn := a.Parent()
			p := fn.Parent()
			if p == nil {
				return nil
			}
			for _, b := range p.Blocks {
				for _, in := range b.Instrs {
					if mc, ok := in.(*ssa.MakeClosure); ok && mc.Fn == fn {
						for i, fv := range fn.FreeVars {
							if fv == a && i < len(mc.Bindings) {
								switch bnd := mc.Bindings[i].(type) {
								case *ssa.Alloc:
									return storedFn(bnd, depth)
								case *ssa.FreeVar:
									return resolveFnVal(&ssa.UnOp{Op: token.MUL, X: bnd}, depth+1)
								}
							}
						}
					}
				}
			}
		}
	}
	return nil
}

func storedFn(a *ssa.Alloc, depth int) *ssa.Function {
	var out *ssa.Function
	n := 0
	for _, ref := range *a.Referrers() {
		if st, ok := ref.(*ssa.Store); ok && st.Addr == ssa.Value(a) {
			if f := resolveFnVal(st.Val, depth+1); f != nil {
				out = f
				n++
			}
		}
	}
	if n >= 1 {
		return out
	}
	return nil
}

func hasCyclicParam(fn *ssa.Function) string {
	check := func(t types.Type) string {
		if sl, ok := t.Underlying().(*types.Slice); ok {
			t = sl.Elem()
		}
		p, n := core.NamedOf(t)
		if _, isPtr := t.Underlying().(*types.Pointer); !isPtr {
			return ""
		}
		switch {
		case p == pkgJS && n == "Schema":
			return "*jsonschema.Schema"
		case p == pkgIR && n == "Type":
			return "*ir.Type"
		}
		return ""
	}
	for _, p := range fn.Params {
		if s := check(p.Type()); s != "" {
			return s
		}
	}
	return ""
}

// checkGuardedRecursion implements R11.4.
func checkGuardedRecursion(c *core.Ctx, r *core.Rule, prog *core.Prog, exempt map[string]string) {
	var fns []*ssa.Function
	for _, p := range []string{pkgParser, pkgGen, pkgJS, pkgIR} {
		if sp := prog.ByPath[p]; sp != nil {
			fns = append(fns, core.PkgFuncs(prog.SSA, sp)...)
		}
	}
	idx := map[*ssa.Function]int{}
	for i, f := range fns {
		idx[f] = i
	}
	adj := make([][]int, len(fns))
	for i, f := range fns {
		for _, call := range core.Calls(f) {
			if g := resolveCallee(call); g != nil {
				if j, ok := idx[g]; ok {
					adj[i] = append(adj[i], j)
				}
			}
			// function values passed as arguments (slices.ContainsFunc(x, func…)) may be called back
			for _, a := range call.Common().Args {
				if g := resolveFnVal(a, 0); g != nil {
					if j, ok := idx[g]; ok {
						adj[i] = append(adj[i], j)
					}
				}
			}
		}
	}
	// Tarjan
	index, low, on := make([]int, len(fns)), make([]int, len(fns)), make([]bool, len(fns))
	for i := range index {
		index[i] = -1
	}
	var stack []int
	var sccs [][]int
	counter := 0
	var strong func(v int)
	strong = func(v int) {
		index[v], low[v] = counter, counter
		counter++
		stack = append(stack, v)
		on[v] = true
		for _, w := range adj[v] {
			if index[w] < 0 {
				strong(w)
				if low[w] < low[v] {
					low[v] = low[w]
				}
			} else if on[w] && index[w] < low[v] {
				low[v] = index[w]
			}
		}
		if low[v] == index[v] {
			var comp []int
			for {
				w := stack[len(stack)-1]
				stack = stack[:len(stack)-1]
				on[w] = false
				comp = append(comp, w)
				if w == v {
					break
				}
			}
			sccs = append(sccs, comp)
		}
	}
	for i := range fns {
		if index[i] < 0 {
			strong(i)
		}
	}
	for _, comp := range sccs {
		self := false
		if len(comp) == 1 {
			for _, w := range adj[comp[0]] {
				if w == comp[0] {
					self = true
				}
			}
			if !self {
				continue
			}
		}
		kind := ""
		var names []string
		for _, i := range comp {
			if k := hasCyclicParam(fns[i]); k != "" {
				kind = k
			}
			names = append(names, fnKey(fns[i])+closureSuffix(fns[i]))
		}
		if kind == "" {
			continue
		}
		sort.Strings(names)
		key := "recursion:" + strings.Join(names, "+")
		// guard: a comma-ok lookup / membership in a map keyed by a pointer (visited set), or a depth comparison
		guarded := ""
		for _, i := range comp {
			for _, b := range fns[i].Blocks {
				for _, in := range b.Instrs {
					switch x := in.(type) {
					case *ssa.Lookup:
						if mt, ok := x.X.Type().Underlying().(*types.Map); ok && x.CommaOk {
							if _, isPtr := mt.Key().Underlying().(*types.Pointer); isPtr {
								guarded = "visited set keyed by pointer"
							}
							if _, isStruct := mt.Key().Underlying().(*types.Struct); isStruct {
								guarded = "visited set keyed by reference"
							}
							if at, isArr := mt.Key().Underlying().(*types.Array); isArr {
								if _, isPtr := at.Elem().Underlying().(*types.Pointer); isPtr {
									guarded = "visited set keyed by a pair of pointers"
								}
							}
						}
					case *ssa.BinOp:
						if (x.Op == token.GTR || x.Op == token.GEQ || x.Op == token.LSS || x.Op == token.LEQ) && (isFieldLoad(x.X, "depthCount") || isFieldLoad(x.X, "depthLimit") || isFieldLoad(x.Y, "depthLimit")) {
							guarded = "depth counter"
						}
					case *ssa.Call:
						if cal := x.Common().StaticCallee(); cal != nil && (cal.Name() == "has" || cal.Name() == "AddKey") {
							guarded = "path/ref set (" + cal.Name() + ")"
						}
					}
				}
			}
		}
		// recursion over the nesting of one JSON text: every function of the cycle takes the *jx.Decoder and the cycle
		// passes through a callback handed to a Decoder method (Arr / Obj / ObjBytes), so each round consumes an opening
		// bracket of the input — bounded by the document's own depth, whatever schema pointer rides along
		if guarded == "" {
			all, viaCallback := true, false
			inComp := map[*ssa.Function]bool{}
			for _, i := range comp {
				inComp[fns[i]] = true
			}
			isDec := func(t types.Type) bool {
				return strings.HasSuffix(t.String(), "github.com/go-faster/jx.Decoder")
			}
			for _, i := range comp {
				has := false
				for _, p := range fns[i].Params {
					if isDec(p.Type()) {
						has = true
					}
				}
				if !has {
					all = false
				}
				for _, call := range core.Calls(fns[i]) {
					cal := call.Common().StaticCallee()
					if cal == nil || cal.Signature.Recv() == nil || !isDec(cal.Signature.Recv().Type()) {
						continue
					}
					for _, a := range call.Common().Args {
						if mc, ok := a.(*ssa.MakeClosure); ok {
							if f, ok := mc.Fn.(*ssa.Function); ok && inComp[f] {
								viaCallback = true
							}
						}
						if f, ok := a.(*ssa.Function); ok && inComp[f] {
							viaCallback = true
						}
					}
				}
			}
			if all && viaCallback {
				guarded = "JSON text being decoded (every function takes the *jx.Decoder and the cycle passes through a Decoder callback)"
			}
		}
		pos := c.Pos(fns[comp[0]].Pos())
		switch {
		case guarded != "":
			r.Pass(fmt.Sprintf("%s over %s: guarded by a %s", key, kind, guarded))
		case exempt[key] != "":
			r.Justified++
			r.Pass(fmt.Sprintf("%s over %s: reviewed: %s", key, kind, exempt[key]))
		default:
			r.Fail(key, pos, fmt.Sprintf("recursion over %s (a graph that $ref makes cyclic) without a visited set or depth bound: a self-referential schema overflows the stack", kind))
		}
	}
}

// ---------------------------------------------------------------- R11.5

// accessPath names the memory a pointer value was read from: param.f.g, local.f, rangevar.f. "" if not nameable.
func accessPath(v ssa.Value, depth int) string {
	if depth > 6 {
		return ""
	}
	switch x := v.(type) {
	case *ssa.Parameter:
		return x.Name()
	case *ssa.FreeVar:
		return x.Name()
	case *ssa.UnOp:
		if x.Op != token.MUL {
			return ""
		}
		switch a := x.X.(type) {
		case *ssa.FieldAddr:
			base := accessPath(a.X, depth+1)
			if base == "" {
				return ""
			}
			st, ok := a.X.Type().Underlying().(*types.Pointer).Elem().Underlying().(*types.Struct)
			if !ok {
				return ""
			}
			return base + "." + st.Field(a.Field).Name()
		case *ssa.Alloc:
			if a.Comment != "" && !strings.HasPrefix(a.Comment, "complit") && a.Comment != "varargs" {
				return "$" + a.Comment
			}
		case *ssa.FreeVar:
			return "$" + a.Name()
		}
	case *ssa.Field:
		base := accessPath(x.X, depth+1)
		if base == "" {
			return ""
		}
		st, ok := x.X.Type().Underlying().(*types.Struct)
		if !ok {
			return ""
		}
		return base + "." + st.Field(x.Field).Name()
	case *ssa.Extract:
		if nx, ok := x.Tuple.(*ssa.Next); ok {
			return fmt.Sprintf("range@%d#%d", nx.Pos(), x.Index)
		}
	case *ssa.Alloc:
		if x.Comment != "" && !strings.HasPrefix(x.Comment, "complit") {
			return "&" + x.Comment
		}
	}
	return ""
}

// checkNilContradictions (R11.5): a contradiction rule in Engler's sense. If a function tests a pointer read from
// some place (p.Schema == nil) and carries on when it is nil, then every dereference of a pointer read from the same
// place must sit under the non-nil edge of such a test. One path believes it can be nil, the other that it cannot.
func checkNilContradictions(c *core.Ctx, prog *core.Prog, table *panicob.Table) {
	r := c.NewRule("R11.5", "S1", "a pointer that is tested for nil on one path is not dereferenced unguarded on another (same access path, same function)", 20)
	scope := map[string]bool{pkgGen: true, pkgIR: true, core.Module + "/openapi/parser": true, pkgJS: true, pkgOpenAPI: true}
	var fns []*ssa.Function
	for _, sp := range prog.SSAPkgs {
		if sp == nil || !scope[sp.Pkg.Path()] {
			continue
		}
		fns = append(fns, core.PkgFuncs(prog.SSA, sp)...)
	}
	for _, fn := range fns {
		if fn.Blocks == nil {
			continue
		}
		// nil tests: path → blocks reached with the pointer known non-nil; and whether the nil side carries on
		type test struct {
			nonNil  *ssa.BasicBlock
			nilSide *ssa.BasicBlock
			pos     token.Pos
		}
		tests := map[string][]test{}
		for _, b := range fn.Blocks {
			iff, ok := b.Instrs[len(b.Instrs)-1].(*ssa.If)
			if !ok {
				continue
			}
			bo, ok := iff.Cond.(*ssa.BinOp)
			if !ok || (bo.Op != token.EQL && bo.Op != token.NEQ) {
				continue
			}
			var v ssa.Value
			switch {
			case core.IsNilConst(bo.Y):
				v = bo.X
			case core.IsNilConst(bo.X):
				v = bo.Y
			default:
				continue
			}
			if _, isPtr := v.Type().Underlying().(*types.Pointer); !isPtr {
				continue
			}
			path := accessPath(v, 0)
			if path == "" || !strings.Contains(path, ".") {
				continue
			}
			t := test{pos: bo.Pos()}
			if bo.Op == token.EQL {
				t.nilSide, t.nonNil = b.Succs[0], b.Succs[1]
			} else {
				t.nonNil, t.nilSide = b.Succs[0], b.Succs[1]
			}
			tests[path] = append(tests[path], t)
		}
		if len(tests) == 0 {
			continue
		}
		// does some nil side carry on (not end in return / panic right away)?
		carriesOn := func(b *ssa.BasicBlock) bool {
			seen := map[*ssa.BasicBlock]bool{}
			var walk func(x *ssa.BasicBlock, d int) bool
			walk = func(x *ssa.BasicBlock, d int) bool {
				if seen[x] || d > 3 {
					return d > 3
				}
				seen[x] = true
				switch x.Instrs[len(x.Instrs)-1].(type) {
				case *ssa.Return, *ssa.Panic:
					return false
				}
				for _, s := range x.Succs {
					if walk(s, d+1) {
						return true
					}
				}
				return len(x.Succs) == 0
			}
			return walk(b, 0)
		}
		// lazy initialisation: the nil side assigns the place (`if s.Items == nil { s.Items = new(T) }`)
		assigns := func(b *ssa.BasicBlock, path string) bool {
			for _, in := range b.Instrs {
				st, ok := in.(*ssa.Store)
				if !ok {
					continue
				}
				if fa, ok := st.Addr.(*ssa.FieldAddr); ok {
					base := accessPath(fa.X, 0)
					if stt, ok := fa.X.Type().Underlying().(*types.Pointer).Elem().Underlying().(*types.Struct); ok && base != "" {
						if base+"."+stt.Field(fa.Field).Name() == path && !core.IsNilConst(st.Val) {
							return true
						}
					}
				}
			}
			return false
		}
		for path, ts := range tests {
			cont := false
			for _, t := range ts {
				if carriesOn(t.nilSide) && !assigns(t.nilSide, path) {
					cont = true
				}
			}
			if !cont {
				continue
			}
			// dereferences of pointers read from the same place
			for _, b := range fn.Blocks {
				for _, in := range b.Instrs {
					var ptr ssa.Value
					switch x := in.(type) {
					case *ssa.Call:
						// handing the pointer to a module function that dereferences that parameter first thing (no
						// nil test of its own) is a dereference
						if g := x.Common().StaticCallee(); g != nil && g.Blocks != nil && core.InModule(g) {
							for i, a := range x.Common().Args {
								if i < len(g.Params) && accessPath(a, 0) == path && derefsParamAtEntry(g, i) {
									ptr = a
								}
							}
						}
					case *ssa.FieldAddr:
						ptr = x.X
					case *ssa.UnOp:
						if x.Op == token.MUL {
							if _, isFA := x.X.(*ssa.FieldAddr); !isFA {
								if _, isAl := x.X.(*ssa.Alloc); !isAl {
									ptr = x.X
								}
							}
						}
					}
					if ptr == nil || accessPath(ptr, 0) != path {
						continue
					}
					guarded := false
					for _, t := range ts {
						if len(t.nonNil.Preds) == 1 && (t.nonNil == b || t.nonNil.Dominates(b)) {
							guarded = true
						}
						// `if p.x == nil { return … }` makes everything after it non-nil: the join block is dominated by
						// the test block and the nil side does not reach it
						if !carriesOn(t.nilSide) && t.nonNil.Dominates(b) {
							guarded = true
						}
					}
					key := fmt.Sprintf("nil-contradiction:%s:%s", fnKeyFull(fn), strings.TrimPrefix(path, "$"))
					if guarded {
						r.Ob(true, "")
						continue
					}
					if e := tableReason(table, key); e != "" {
						r.Justified++
						r.Pass(fmt.Sprintf("%s at %s: reviewed: %s", key, c.Pos(in.Pos()), e))
						continue
					}
					r.Fail(key, c.Pos(in.Pos()), fmt.Sprintf("%s tests %s for nil (%s) and carries on when it is nil, but dereferences it here outside the non-nil branch: a document that makes it nil (null in place of a schema) crashes the generator", fn.Name(), strings.TrimPrefix(path, "$"), c.Pos(ts[0].pos)))
				}
			}
		}
	}
}

func tableReason(t *panicob.Table, key string) string {
	if t == nil {
		return ""
	}
	for _, e := range t.Entries {
		if e.Key == key {
			return e.Reason
		}
	}
	return ""
}

// checkCycleGuardUnconditional: ensureNoInfiniteRecursion is the cycle check that
// allOf / oneOf / anyOf generation relies on before it merges or walks the
// members. (a) It must not report success without having walked: every
// return of a constant nil in the function itself (not its walker closure) sits
// under `parent == nil`. (b) Each of its callers invokes it in its entry block,
// i.e. before any other work and on every path.
func checkCycleGuardUnconditional(c *core.Ctx, r *core.Rule, prog *core.Prog) {
	fn := prog.Func(pkgGen, "ensureNoInfiniteRecursion")
	if fn == nil {
		r.Undecided("anchor:ensureNoInfiniteRecursion", "-", "gen.ensureNoInfiniteRecursion not found")
		return
	}
	walked := false
	for _, call := range core.Calls(fn) {
		if g, _ := resolveLocalClosure(call.Common().Value); g != nil && g.Parent() == fn {
			walked = true
		}
	}
	if !walked {
		r.Fail("cycle-guard:no-walk", c.Pos(fn.Pos()), "ensureNoInfiniteRecursion no longer calls its walker closure")
	}
	for _, b := range fn.Blocks {
		ret, ok := b.Instrs[len(b.Instrs)-1].(*ssa.Return)
		if !ok || len(ret.Results) != 1 || !core.IsNilConst(ret.Results[0]) {
			continue
		}
		// allowed only under `parent == nil`
		okNil := false
		for _, d := range fn.Blocks {
			iff, isIf := d.Instrs[len(d.Instrs)-1].(*ssa.If)
			if !isIf {
				continue
			}
			bo, isBo := iff.Cond.(*ssa.BinOp)
			if !isBo || bo.Op != token.EQL || bo.X != ssa.Value(fn.Params[0]) || !core.IsNilConst(bo.Y) {
				continue
			}
			if t := d.Succs[0]; len(t.Preds) == 1 && (t == b || t.Dominates(b)) {
				okNil = true
			}
		}
		if okNil {
			r.Pass("ensureNoInfiniteRecursion: early success only for a nil schema")
			continue
		}
		r.Fail("cycle-guard:early-success", c.Pos(ret.Pos()), "ensureNoInfiniteRecursion reports success here without walking the schema: members reached only through this schema (inline allOf/oneOf/anyOf) are merged without a cycle check and a self-referential allOf overflows the stack")
	}
	n := 0
	for _, caller := range core.PkgFuncs(prog.SSA, prog.ByPath[pkgGen]) {
		for _, call := range core.Calls(caller) {
			if call.Common().StaticCallee() != fn {
				continue
			}
			n++
			_, ownParam := call.Common().Args[0].(*ssa.Parameter)
			if call.Block() == caller.Blocks[0] && ownParam {
				r.Pass(fmt.Sprintf("%s checks its schema for cycles first thing", caller.Name()))
			} else {
				r.Fail("cycle-guard:caller:"+fnKeyFull(caller), c.Pos(call.Pos()), fmt.Sprintf("%s does not call ensureNoInfiniteRecursion on its schema parameter in its entry block: some path reaches the member walk without the cycle check", caller.Name()))
			}
		}
	}
	if n < 3 {
		r.Fail("cycle-guard:callers", c.Pos(fn.Pos()), fmt.Sprintf("ensureNoInfiniteRecursion has %d callers; allOf, oneOf and anyOf generation are expected to call it", n))
	}
}

// resolveLocalClosure: the closure a call through a local variable invokes (var do func…; do = func…; do()).
func resolveLocalClosure(v ssa.Value) (*ssa.Function, []ssa.Value) {
	switch x := v.(type) {
	case *ssa.MakeClosure:
		g, _ := x.Fn.(*ssa.Function)
		return g, x.Bindings
	case *ssa.Function:
		return x, nil
	case *ssa.UnOp:
		if x.Op != token.MUL {
			return nil, nil
		}
		if al, ok := x.X.(*ssa.Alloc); ok {
			for _, ref := range *al.Referrers() {
				if st, ok := ref.(*ssa.Store); ok && st.Addr == ssa.Value(al) {
					if g, b := resolveLocalClosure(st.Val); g != nil {
						return g, b
					}
				}
			}
		}
	}
	return nil, nil
}

// checkFileReadFresh (R11.7): the position info of a parsed schema is built by
// Parser.extendInfo from the file that is current in the resolve context. The
// context's file changes when resolve pushes the referenced document
// (ResolveCtx.AddKey), so the file handed to extendInfo must be read from the
// context at that point: either the argument is the p.file(ctx) call itself, or
// a variable whose only assignment is such a call made after the push.
func checkFileReadFresh(c *core.Ctx, prog *core.Prog) {
	r := c.NewRule("R11.7", "S1", "the file recorded for a parsed schema is read from the resolve context after the referenced document was pushed", 2)
	sp := prog.ByPath[pkgJS]
	if sp == nil {
		r.Undecided("load:jsonschema", "-", "package jsonschema not loaded")
		return
	}
	isFileRead := func(v ssa.Value) *ssa.Call {
		call, ok := v.(*ssa.Call)
		if !ok {
			return nil
		}
		switch core.CalleeName(call.Common()) {
		case "(*ogen/jsonschema.Parser).file", "(*ogen/jsonpointer.ResolveCtx).File":
			return call
		}
		return nil
	}
	// the AddKey call of a function, if any
	pushOf := func(f *ssa.Function) ssa.CallInstruction {
		for _, call := range core.Calls(f) {
			if core.CalleeName(call.Common()) == "(*ogen/jsonpointer.ResolveCtx).AddKey" {
				return call
			}
		}
		return nil
	}
	after := func(x ssa.Instruction, push ssa.CallInstruction) bool {
		if x.Block() == push.Block() {
			for _, in := range x.Block().Instrs {
				if in == push.(ssa.Instruction) {
					return true
				}
				if in == x {
					return false
				}
			}
		}
		return push.Block().Dominates(x.Block())
	}
	for _, top := range core.PkgFuncs(prog.SSA, sp) {
		for _, fn := range core.AllFuncs(top) {
			for _, call := range core.Calls(fn) {
				if core.CalleeName(call.Common()) != "(*ogen/jsonschema.Parser).extendInfo" {
					continue
				}
				args := call.Common().Args
				fileArg := args[len(args)-1]
				key := "extendInfo-file:" + fnKeyFull(fn)
				if isFileRead(fileArg) != nil {
					r.Pass(fmt.Sprintf("%s: file read from the context at the call", key))
					continue
				}
				// a captured / local variable assigned once from a read made after the push
				ok := false
				why := "the file argument is not a read of the resolve context"
				if ld, isLd := fileArg.(*ssa.UnOp); isLd && ld.Op == token.MUL {
					var cell ssa.Value = ld.X
					owner := fn
					if fv, isFv := cell.(*ssa.FreeVar); isFv && fn.Parent() != nil {
						// binding in the parent
						for _, b := range fn.Parent().Blocks {
							for _, in := range b.Instrs {
								if mc, isMc := in.(*ssa.MakeClosure); isMc && mc.Fn == fn {
									for i, f := range fn.FreeVars {
										if f == fv {
											cell = mc.Bindings[i]
										}
									}
								}
							}
						}
						owner = fn.Parent()
					}
					if al, isAl := cell.(*ssa.Alloc); isAl {
						n := 0
						for _, ref := range *al.Referrers() {
							st, isSt := ref.(*ssa.Store)
							if !isSt || st.Addr != ssa.Value(al) {
								continue
							}
							n++
							rd := isFileRead(st.Val)
							push := pushOf(owner)
							switch {
							case rd == nil:
								why = "the variable holding the file is assigned something other than a read of the resolve context"
							case push != nil && !after(rd, push):
								why = fmt.Sprintf("the file is read from the resolve context (%s) before the referenced document is pushed (%s): a schema reached through a cross-file $ref is recorded with the referrer's file", c.Pos(rd.Pos()), c.Pos(push.Pos()))
							default:
								ok = n == 1
							}
						}
					}
				}
				if ok {
					r.Pass(fmt.Sprintf("%s: file variable assigned once, after the push", key))
				} else {
					r.Fail(key, c.Pos(call.Pos()), why)
				}
			}
		}
	}
}

// rootFileReaders: functions that may read the parser's rootFile although a
// resolve context is around, one reason each.
var rootFileReaders = map[string]string{
	"(*ogen/openapi/parser.parser).file":         "the accessor: falls back to rootFile only when the context's file is zero (root document)",
	"(*ogen/jsonschema.Parser).file":             "the accessor: falls back to rootFile only when the context's file is zero (root document)",
	"(*ogen/openapi/parser.parser).wrapLocation": "fallback when the file handed in is zero",
	"(*ogen/jsonschema.Parser).wrapLocation":     "fallback when the file handed in is zero",
}

// checkRootFileOnlyForRoot (R11.8): while a $ref is being followed the file a
// diagnostic belongs to is the one on top of the resolve context, not the root
// document. A function that reads the parser's rootFile must therefore not be
// part of reference-following code: it neither takes a *jsonpointer.ResolveCtx
// nor is called (statically, one edge) by a function that does — except the
// reviewed accessors above.
func checkRootFileOnlyForRoot(c *core.Ctx, prog *core.Prog) {
	r := c.NewRule("R11.8", "S1", "diagnostics of reference-following code are stamped with the resolve context's file, never with the parser's rootFile", 6)
	hasCtx := func(f *ssa.Function) bool {
		for root := f; root != nil; root = root.Parent() {
			for _, p := range root.Params {
				if strings.HasSuffix(p.Type().String(), "jsonpointer.ResolveCtx") {
					return true
				}
			}
		}
		return false
	}
	var all []*ssa.Function
	for _, pp := range []string{pkgParser, pkgJS} {
		if sp := prog.ByPath[pp]; sp != nil {
			for _, top := range core.PkgFuncs(prog.SSA, sp) {
				all = append(all, core.AllFuncs(top)...)
			}
		}
	}
	callers := map[*ssa.Function][]*ssa.Function{}
	for _, f := range all {
		for _, call := range core.Calls(f) {
			if g := call.Common().StaticCallee(); g != nil {
				callers[g] = append(callers[g], f)
			}
		}
	}
	seen := map[*ssa.Function]bool{}
	for _, f := range all {
		if seen[f] {
			continue
		}
		seen[f] = true
		var read token.Pos
		for _, b := range f.Blocks {
			for _, in := range b.Instrs {
				if fa, ok := in.(*ssa.FieldAddr); ok && fieldName(fa.X.Type(), fa.Field) == "rootFile" {
					// a load, not the initialising store
					for _, ref := range *fa.Referrers() {
						if ld, ok := ref.(*ssa.UnOp); ok && ld.Op == token.MUL {
							read = ld.Pos()
							if read == token.NoPos {
								read = fa.Pos()
							}
						}
					}
				}
			}
		}
		if read == token.NoPos {
			continue
		}
		if rootFileReadsUnderIsRoot(f) {
			r.Pass(fmt.Sprintf("%s reads rootFile only where ctx.IsRoot(key) holds (or replaces it on the other branch)", core.FuncName(f)))
			continue
		}
		name := core.FuncName(f)
		root := f
		for root.Parent() != nil {
			root = root.Parent()
		}
		if why, ok := rootFileReaders[core.FuncName(root)]; ok {
			r.Justified++
			r.Pass(fmt.Sprintf("%s reads rootFile: %s", name, why))
			continue
		}
		via := ""
		if hasCtx(f) {
			via = "it has a resolve context itself"
		} else {
			for _, cl := range callers[root] {
				if hasCtx(cl) {
					via = "it is called from " + cl.Name() + ", which follows references"
				}
			}
		}
		if via == "" {
			r.Pass(fmt.Sprintf("%s reads rootFile and is root-document code (no resolve context in it or in its callers)", name))
		} else {
			r.Fail("rootfile-in-ref-code:"+fnKeyFull(f), c.Pos(read), fmt.Sprintf("%s stamps its diagnostics with the parser's rootFile although %s: for an object reached through a $ref into another file the error names the root document with the other file's line and column", f.Name(), via))
		}
	}
}

// rootFileReadsUnderIsRoot: every use of every value loaded from the rootFile field in f happens where a
// (*ResolveCtx).IsRoot test of f is known true: the using instruction is dominated by the true edge, or it is a phi and
// the loaded value arrives over an edge whose source is dominated by the true edge (the other branch replaces it).
func rootFileReadsUnderIsRoot(f *ssa.Function) bool {
	var trueBlocks []*ssa.BasicBlock
	for _, call := range core.Calls(f) {
		cal := call.Common().StaticCallee()
		if cal == nil || cal.Name() != "IsRoot" || cal.Signature.Recv() == nil || !strings.HasSuffix(cal.Signature.Recv().Type().String(), "jsonpointer.ResolveCtx") {
			continue
		}
		if v, ok := call.(ssa.Value); ok {
			trueBlocks = append(trueBlocks, core.EdgeBlocks(v, true)...)
		}
	}
	if len(trueBlocks) == 0 {
		return false
	}
	under := func(b *ssa.BasicBlock) bool {
		for _, tb := range trueBlocks {
			if tb == b || tb.Dominates(b) {
				return true
			}
		}
		return false
	}
	n := 0
	for _, b := range f.Blocks {
		for _, in := range b.Instrs {
			fa, ok := in.(*ssa.FieldAddr)
			if !ok || fieldName(fa.X.Type(), fa.Field) != "rootFile" {
				continue
			}
			for _, ref := range *fa.Referrers() {
				ld, ok := ref.(*ssa.UnOp)
				if !ok || ld.Op != token.MUL {
					return false // a store or an address that escapes: not this idiom
				}
				for _, use := range *ld.Referrers() {
					n++
					switch u := use.(type) {
					case *ssa.DebugRef:
					case *ssa.Phi:
						for i, e := range u.Edges {
							if e == ssa.Value(ld) && !under(u.Block().Preds[i]) {
								return false
							}
						}
					default:
						if !under(use.Block()) {
							return false
						}
					}
				}
			}
		}
	}
	return n > 0
}

// derefsParamAtEntry: the function dereferences its i-th parameter in its
// entry block (before any branch could have tested it).
func derefsParamAtEntry(g *ssa.Function, i int) bool {
	if i >= len(g.Params) {
		return false
	}
	p := g.Params[i]
	if _, ok := p.Type().Underlying().(*types.Pointer); !ok {
		return false
	}
	for _, in := range g.Blocks[0].Instrs {
		switch x := in.(type) {
		case *ssa.FieldAddr:
			if x.X == ssa.Value(p) {
				// an address computation alone does not fault; a load or store through it does
				for _, ref := range *x.Referrers() {
					if ri, ok := ref.(ssa.Instruction); ok && ri.Block() == g.Blocks[0] {
						switch ref.(type) {
						case *ssa.UnOp, *ssa.Store:
							return true
						}
					}
				}
			}
		case *ssa.UnOp:
			if x.Op == token.MUL && x.X == ssa.Value(p) {
				return true
			}
		}
	}
	return false
}
