package rules

import (
	"fmt"
	"go/token"
	"go/types"
	"sort"
	"strings"

	"golang.org/x/tools/go/callgraph/rta"
	"golang.org/x/tools/go/ssa"

	"ogenverif/internal/core"
)

func init() {
	register(&Property{
		ID: "C20",
		Meta: core.Meta{
			Level: "proof",
			Explanation: "Every path of the real SSA control-flow graphs of cmd/ogen {main, run, generate, cleanDir} and every callee in an RTA call graph rooted at what runs before the IR exists is examined: " +
				"(R20.1) every filesystem-mutating std call site in the ogen module reachable from main is enumerated and must either be reachable only through calls in generate() that are dominated by the success edges of ogen.Parse and gen.NewGenerator, or be one of three user-path exemptions whose path argument is checked by dataflow; " +
				"(R20.2) the target-dir calls in generate() are dominated by both success edges, generate() itself by the success edges of flag parsing, loadConfig and SetLocation, the cleanDir call by clean==true; " +
				"(R20.3) every destructive call (os.Remove…) is unreachable when IsDir() is assumed true, when all approved HasSuffix tests are assumed false, and when all approved HasPrefix tests are assumed false, and its argument is Join(targetDir, f.Name()) of the tested entry of os.ReadDir(targetDir); the generator's own file-name formats satisfy the same predicate; " +
				"(R20.4) every failure edge in run/generate/loadConfig returns a non-nil error and main exits non-zero on it. Not covered: behaviour of the OS calls, third-party code (zap writing to its sinks), symlinks.",
			Assumptions: []string{
				"the frozen list of filesystem-mutating std APIs (os.Remove, RemoveAll, Rename, Mkdir, MkdirAll, WriteFile, Create, OpenFile, Chmod, Chown, Lchown, Chtimes, Truncate, Symlink, Link, CreateTemp, MkdirTemp, io/ioutil.WriteFile/TempFile/TempDir, os/exec.Command/CommandContext) is complete for this code base",
				"RTA (golang.org/x/tools/go/callgraph/rta) over-approximates the dynamic call graph of the pre-IR stage (reflection-based calls are resolved through runtime types)",
				"only call sites inside packages of the ogen module are examined; dependencies are trusted not to touch the target directory",
			},
			TrustedBase: []string{"callgraph/rta", "frozen fs-mutator API list"},
		},
		Run: runC20,
	})
}

var fsMutators = map[string]bool{
	"os.Remove": true, "os.RemoveAll": true, "os.Rename": true, "os.Mkdir": true, "os.MkdirAll": true,
	"os.WriteFile": true, "os.Create": true, "os.OpenFile": true, "os.Chmod": true, "os.Chown": true,
	"os.Lchown": true, "os.Chtimes": true, "os.Truncate": true, "os.Symlink": true, "os.Link": true,
	"os.CreateTemp": true, "os.MkdirTemp": true,
	"io/ioutil.WriteFile": true, "io/ioutil.TempFile": true, "io/ioutil.TempDir": true,
	"os/exec.Command": true, "os/exec.CommandContext": true,
}

var fsDestructive = map[string]bool{
	"os.Remove": true, "os.RemoveAll": true, "os.Rename": true, "os.Truncate": true,
}

type fsSite struct {
	fn     *ssa.Function
	call   ssa.CallInstruction
	callee string
}

func fsSitesOf(fn *ssa.Function) []fsSite {
	var out []fsSite
	for _, call := range core.Calls(fn) {
		n := core.CalleeName(call.Common())
		if fsMutators[n] {
			out = append(out, fsSite{fn, call, n})
		}
	}
	return out
}

// bothSuccess reports whether block b is dominated by the success edges of
// all gates.
func bothSuccess(gates []ssa.Value, b *ssa.BasicBlock) bool {
	for _, g := range gates {
		if !core.DominatedBySuccess(g, b) {
			return false
		}
	}
	return true
}

func runC20(c *core.Ctx) error {
	prog, err := c.Program("./cmd/ogen")
	if err != nil {
		return err
	}
	r1 := c.NewRule("R20.1", "S1", "who may mutate the filesystem before the IR exists / outside the write stage", 6)
	r2 := c.NewRule("R20.2", "S1", "target-dir calls dominated by success of Parse+NewGenerator; generate dominated by config/flags success; cleanDir by clean==true", 5)
	r3 := c.NewRule("R20.3", "S1", "clean predicate guards every destructive call; argument is the tested entry of the target dir; own file names satisfy predicate", 8)
	r4 := c.NewRule("R20.4", "S1", "failure edges return non-nil errors and main exits non-zero", 8)

	mainFn := prog.Func(pkgCmd, "main")
	runFn := prog.Func(pkgCmd, "run")
	genFn := prog.Func(pkgCmd, "generate")
	for n, f := range map[string]*ssa.Function{"main": mainFn, "run": runFn, "generate": genFn} {
		if f == nil {
			r1.Undecided("anchor:"+n, "-", "function cmd/ogen."+n+" not found")
		}
	}
	if mainFn == nil || runFn == nil || genFn == nil {
		return nil
	}

	// ----- gates in generate
	var gParse, gNewGen ssa.Value
	for _, call := range core.Calls(genFn) {
		if core.IsCallTo(call.Common(), pkgRoot, "Parse") {
			gParse = call.Value()
		}
		if core.IsCallTo(call.Common(), pkgGen, "NewGenerator") {
			gNewGen = call.Value()
		}
	}
	if gParse == nil || gNewGen == nil {
		r2.Undecided("anchor:gates", c.Pos(genFn.Pos()), "generate() no longer calls ogen.Parse and gen.NewGenerator directly")
		return nil
	}
	genGates := []ssa.Value{gParse, gNewGen}
	postGate := func(in ssa.Instruction) bool { return bothSuccess(genGates, in.Block()) }

	// ----- gates in run
	var runGates []ssa.Value
	var genCalls []ssa.CallInstruction
	gateNames := map[string]bool{}
	for _, call := range core.Calls(runFn) {
		cc := call.Common()
		switch {
		case core.IsCallTo(cc, "flag", "FlagSet.Parse"):
			runGates = append(runGates, call.Value())
			gateNames["flag.Parse"] = true
		case core.IsCallTo(cc, pkgCmd, "loadConfig"):
			runGates = append(runGates, call.Value())
			gateNames["loadConfig"] = true
		case core.IsCallTo(cc, pkgGen, "Options.SetLocation"):
			runGates = append(runGates, call.Value())
			gateNames["SetLocation"] = true
		case cc.StaticCallee() == genFn:
			genCalls = append(genCalls, call)
		}
	}
	if len(gateNames) != 3 {
		r2.Undecided("anchor:run-gates", c.Pos(runFn.Pos()), fmt.Sprintf("run() gates found: %v, want flag.Parse, loadConfig, SetLocation", keys(gateNames)))
	}
	if len(genCalls) == 0 {
		r2.Undecided("anchor:generate-call", c.Pos(runFn.Pos()), "run() does not call generate()")
	}
	// the package name is printed into every generated file: it reaches generate() only past a
	// token.IsIdentifier test (an invalid name otherwise fails in goimports, after --clean)
	for _, gc := range genCalls {
		okName := false
		for _, call := range core.Calls(runFn) {
			cv, isCall := call.(*ssa.Call)
			if !isCall || !core.IsCallTo(call.Common(), "go/token", "IsIdentifier") {
				continue
			}
			for _, eb := range core.EdgeBlocks(cv, true) {
				if eb == gc.Block() || eb.Dominates(gc.Block()) {
					okName = true
				}
			}
		}
		if okName {
			r2.Pass("run: generate() dominated by token.IsIdentifier(package name)")
		} else {
			r2.Fail("run:generate-before:package-name", c.Pos(gc.Pos()), "generate() is reachable with a --package value that was never checked to be an identifier: the error surfaces in goimports during WriteSource, after --clean has emptied the target directory")
		}
	}
	for _, gc := range genCalls {
		for _, g := range runGates {
			name := core.CalleeName(g.(*ssa.Call).Common())
			if core.DominatedBySuccess(g, gc.Block()) {
				r2.Pass("run: generate() dominated by success of " + name)
			} else {
				r2.Fail("run:generate-before:"+name, c.Pos(gc.Pos()), "generate() is reachable without the success edge of "+name)
			}
		}
	}

	// ----- RTA over the pre-IR stage.
	// Roots: main, run, every package initialiser, every closure of run, the
	// static callees of pre-gate calls of generate, closures created pre-gate.
	var roots0 []*ssa.Function
	rootSeen := map[*ssa.Function]bool{}
	addRoot := func(f *ssa.Function) {
		if f != nil && !rootSeen[f] && f.Blocks != nil {
			rootSeen[f] = true
			roots0 = append(roots0, f)
		}
	}
	for _, p := range prog.SSA.AllPackages() {
		addRoot(p.Func("init"))
	}
	// main and run bodies are scanned directly below; their callees are roots
	// except generate.
	for _, f := range append(core.AllFuncs(mainFn), core.AllFuncs(runFn)...) {
		for _, call := range core.Calls(f) {
			if cal := call.Common().StaticCallee(); cal != nil && cal != genFn && cal != runFn && cal != mainFn {
				addRoot(cal)
			}
		}
		if f != mainFn && f != runFn {
			addRoot(f)
		}
	}
	preGateCalls := 0
	for _, call := range core.Calls(genFn) {
		if postGate(call) {
			continue
		}
		preGateCalls++
		if cal := call.Common().StaticCallee(); cal != nil {
			addRoot(cal)
		}
	}
	for _, b := range genFn.Blocks {
		for _, in := range b.Instrs {
			if mc, ok := in.(*ssa.MakeClosure); ok && !postGate(in) {
				addRoot(mc.Fn.(*ssa.Function))
			}
		}
	}
	res0 := rta.Analyze(roots0, false)
	resAll := rta.Analyze(append([]*ssa.Function{mainFn}, roots0...), false)
	r1.Note("RTA pre-IR stage: %d roots, %d reachable functions; whole program from main: %d reachable functions; generate() has %d pre-gate calls",
		len(roots0), len(res0.Reachable), len(resAll.Reachable), preGateCalls)

	// dynamic / interface calls made directly by main, run, pre-gate generate
	// are resolved by RTA only for callees; for these three bodies we add the
	// invoked closures conservatively through the roots above (closures of run).

	type siteInfo struct {
		s   fsSite
		pre bool
	}
	var sites []siteInfo
	var allFns []*ssa.Function
	for f := range resAll.Reachable {
		if core.InModule(f) {
			allFns = append(allFns, f)
		}
	}
	sort.Slice(allFns, func(i, j int) bool { return allFns[i].String() < allFns[j].String() })
	for _, f := range allFns {
		for _, s := range fsSitesOf(f) {
			pre := false
			switch {
			case f == genFn:
				pre = !postGate(s.call)
			case f == mainFn || f == runFn:
				pre = true
			default:
				_, pre = res0.Reachable[f]
			}
			sites = append(sites, siteInfo{s, pre})
		}
	}
	r1.Note("module functions reachable from main: %d", len(allFns))

	for _, si := range sites {
		s := si.s
		fname := core.FuncName(s.fn)
		key := fname + ":" + s.callee
		pos := c.Pos(s.call.Pos())
		if !si.pre {
			r1.Pass(fmt.Sprintf("%s at %s — reachable only after Parse and NewGenerator succeeded", key, pos))
			continue
		}
		// exemptions: explicit user paths independent of --target
		ok, why := fsExempt(prog, s)
		if ok {
			r1.Pass(fmt.Sprintf("%s at %s — exempt: %s", key, pos, why))
			continue
		}
		r1.Fail(key, pos, fmt.Sprintf("filesystem mutation %s in %s can run before spec parsing and IR construction have succeeded (%s)", s.callee, fname, why))
	}

	// ----- R20.2: target-dir calls in generate
	for _, call := range core.Calls(genFn) {
		name := core.CalleeName(call.Common())
		interesting := name == "os.ReadDir" || fsMutators[name]
		if cal := call.Common().StaticCallee(); cal != nil && core.InModule(cal) && cal != nil {
			if reachesFS(resAll, cal) {
				interesting = true
			}
		}
		if call.Common().IsInvoke() && call.Common().Method.Name() == "WriteSource" {
			interesting = true
		}
		if !interesting || call.Value() == gParse || call.Value() == gNewGen {
			continue
		}
		if postGate(call) {
			r2.Pass(fmt.Sprintf("generate: %s at %s dominated by success of ogen.Parse and gen.NewGenerator", name, c.Pos(call.Pos())))
		} else if name == core.ShortPkg(pkgGen)+".NewGenerator" {
			continue
		} else {
			r2.Fail("generate:pre-gate:"+name, c.Pos(call.Pos()), name+" in generate() is reachable before ogen.Parse and gen.NewGenerator have both succeeded")
		}
	}
	// NewGenerator must itself be dominated by Parse success.
	if core.DominatedBySuccess(gParse, gNewGen.(*ssa.Call).Block()) {
		r2.Pass("generate: NewGenerator dominated by success of ogen.Parse")
	} else {
		r2.Fail("generate:NewGenerator-before-Parse", c.Pos(gNewGen.Pos()), "gen.NewGenerator reachable without ogen.Parse success")
	}

	// ----- R20.3 destructive calls
	checkDestructive(c, prog, r3, resAll, genFn)
	checkOwnNames(c, prog, r3)

	// ----- R20.4 failure edges
	for _, fn := range []*ssa.Function{runFn, genFn, prog.Func(pkgCmd, "loadConfig")} {
		if fn == nil {
			r4.Undecided("anchor:loadConfig", "-", "cmd/ogen.loadConfig not found")
			continue
		}
		checkFailureReturns(c, r4, fn)
	}
	checkMainExit(c, r4, mainFn, runFn)
	checkFeatureSetValidated(c, prog)
	r6 := c.NewRule("R20.6", "S1", "spec validation confines component keys to characters that cannot break the written code (a failure there would come after cleaning)", 1)
	if pprog, err := c.Program("./openapi/parser"); err != nil {
		r6.Undecided("load:openapi/parser", "-", err.Error())
	} else {
		checkComponentKeyAlphabet(c, r6, pprog)
	}
	checkWrapOfNilError(c, r4, prog, pkgCmd, pkgGen, pkgRoot, pkgParser, pkgJS, pkgIR)
	return nil
}

func keys(m map[string]bool) []string {
	var out []string
	for k := range m {
		out = append(out, k)
	}
	sort.Strings(out)
	return out
}

// reachesFS reports whether a module function (transitively, statically or
// through RTA edges) contains an fs mutator. Uses a simple DFS over static
// callees and closures inside the module.
func reachesFS(res *rta.Result, f *ssa.Function) bool {
	seen := map[*ssa.Function]bool{}
	var visit func(f *ssa.Function) bool
	visit = func(f *ssa.Function) bool {
		if f == nil || seen[f] || !core.InModule(f) {
			return false
		}
		seen[f] = true
		if len(fsSitesOf(f)) > 0 {
			return true
		}
		for _, call := range core.Calls(f) {
			cc := call.Common()
			if cal := cc.StaticCallee(); cal != nil {
				if visit(cal) {
					return true
				}
			} else if cc.IsInvoke() {
				// resolve against module types that RTA saw
				for g := range res.Reachable {
					if g.Signature.Recv() != nil && g.Name() == cc.Method.Name() && core.InModule(g) {
						if types.Identical(stripRecv(g.Signature), cc.Method.Type()) && visit(g) {
							return true
						}
					}
				}
			}
		}
		for _, a := range f.AnonFuncs {
			if visit(a) {
				return true
			}
		}
		return false
	}
	return visit(f)
}

func stripRecv(sig *types.Signature) *types.Signature {
	return types.NewSignatureType(nil, nil, nil, sig.Params(), sig.Results(), sig.Variadic())
}

// fsExempt decides the three user-path exemptions by dataflow on the path
// argument.
func fsExempt(prog *core.Prog, s fsSite) (bool, string) {
	args := s.call.Common().Args
	if len(args) == 0 {
		return false, "no path argument"
	}
	fname := core.FuncName(s.fn)
	switch {
	case fname == "ogen/cmd/ogen.run" && s.callee == "os.Create":
		// path must be *set.String("cpuprofile"|"memprofile", …)
		ld, ok := args[0].(*ssa.UnOp)
		if !ok || ld.Op != token.MUL {
			return false, "os.Create argument is not a load of a flag variable"
		}
		call, ok := ld.X.(*ssa.Call)
		if !ok || !core.IsCallTo(call.Common(), "flag", "FlagSet.String") {
			return false, "os.Create argument does not come from FlagSet.String"
		}
		name, _ := core.ConstString(call.Common().Args[1])
		if name != "cpuprofile" && name != "memprofile" {
			return false, "os.Create argument is flag -" + name + ", not a profile path"
		}
		return true, "path is the explicit -" + name + " argument"
	case fname == "ogen/gen.expandSpec":
		// path derives from parameter p through path/filepath only; every
		// caller passes Options.ExpandSpec.
		if !derivesFromParam(args[0], s.fn.Params[1], map[ssa.Value]bool{}) {
			return false, "path argument does not derive from expandSpec's path parameter"
		}
		for _, caller := range callersOf(prog, s.fn) {
			a := caller.Common().Args[1]
			if !isFieldLoad(a, "ExpandSpec") {
				return false, "expandSpec called with a path that is not Options.ExpandSpec at " + caller.Parent().Name()
			}
		}
		return true, "path is the explicit `expand` option"
	}
	return false, "not in the exemption table"
}

func callersOf(prog *core.Prog, f *ssa.Function) []ssa.CallInstruction {
	var out []ssa.CallInstruction
	pkg := f.Package()
	if pkg == nil {
		return nil
	}
	for _, g := range core.PkgFuncs(prog.SSA, pkg) {
		for _, call := range core.Calls(g) {
			if call.Common().StaticCallee() == f {
				out = append(out, call)
			}
		}
	}
	return out
}

func isFieldLoad(v ssa.Value, field string) bool {
	switch v := v.(type) {
	case *ssa.UnOp:
		if v.Op == token.MUL {
			if fa, ok := v.X.(*ssa.FieldAddr); ok {
				return fieldName(fa.X.Type(), fa.Field) == field
			}
		}
	case *ssa.Field:
		return fieldName(v.X.Type(), v.Field) == field
	case *ssa.Phi:
		for _, e := range v.Edges {
			if !isFieldLoad(e, field) {
				return false
			}
		}
		return true
	}
	return false
}

func fieldName(t types.Type, i int) string {
	if p, ok := t.Underlying().(*types.Pointer); ok {
		t = p.Elem()
	}
	st, ok := t.Underlying().(*types.Struct)
	if !ok || i >= st.NumFields() {
		return ""
	}
	return st.Field(i).Name()
}

func derivesFromParam(v ssa.Value, p *ssa.Parameter, seen map[ssa.Value]bool) bool {
	if seen[v] {
		return true
	}
	seen[v] = true
	switch v := v.(type) {
	case *ssa.Parameter:
		return v == p
	case *ssa.Extract:
		return derivesFromParam(v.Tuple, p, seen)
	case *ssa.Phi:
		for _, e := range v.Edges {
			if !derivesFromParam(e, p, seen) {
				return false
			}
		}
		return true
	case *ssa.Call:
		f := v.Common().StaticCallee()
		if f == nil || f.Pkg == nil || f.Pkg.Pkg.Path() != "path/filepath" {
			return false
		}
		any := false
		for _, a := range v.Common().Args {
			if _, isC := a.(*ssa.Const); isC {
				continue
			}
			if !derivesFromParam(a, p, seen) {
				return false
			}
			any = true
		}
		return any
	}
	return false
}

// reachAssuming does a forward search from the function entry; at every If
// whose condition is decided by assume() it follows only the decided edge. It
// returns the reachable blocks and the feasible edges.
func reachAssuming(fn *ssa.Function, assume func(cond ssa.Value) (val, known bool)) (map[*ssa.BasicBlock]bool, map[[2]*ssa.BasicBlock]bool) {
	// Optimistic fixpoint (as in sparse conditional constant propagation, for booleans only): a branch on a flag
	// variable (`hasPrefix`, a phi of constants) is decided by the values that arrive over edges found feasible so far;
	// edges only grow from pass to pass, so a flag that stops being constant un-prunes its branch in the next pass.
	edges := map[[2]*ssa.BasicBlock]bool{}
	for iter := 0; iter < 32; iter++ {
		seen := map[*ssa.BasicBlock]bool{}
		cur := map[[2]*ssa.BasicBlock]bool{}
		for k := range edges {
			cur[k] = true
		}
		n0 := len(cur)
		stack := []*ssa.BasicBlock{fn.Blocks[0]}
		for len(stack) > 0 {
			b := stack[len(stack)-1]
			stack = stack[:len(stack)-1]
			if seen[b] {
				continue
			}
			seen[b] = true
			succs := b.Succs
			if len(b.Instrs) > 0 {
				if iff, ok := b.Instrs[len(b.Instrs)-1].(*ssa.If); ok {
					val, known := evalCond(iff.Cond, assume)
					if !known {
						val, known = evalBoolPhi(iff.Cond, cur, assume, 0)
					}
					if known {
						if val {
							succs = b.Succs[:1]
						} else {
							succs = b.Succs[1:2]
						}
					}
				}
			}
			for _, s := range succs {
				cur[[2]*ssa.BasicBlock{b, s}] = true
				stack = append(stack, s)
			}
		}
		if len(cur) == n0 && iter > 0 {
			// the feasible edges are those leaving blocks seen in this (stable) pass
			return seen, cur
		}
		edges = cur
	}
	// no fixpoint within the bound: nothing is pruned
	all := map[*ssa.BasicBlock]bool{}
	alle := map[[2]*ssa.BasicBlock]bool{}
	for _, b := range fn.Blocks {
		all[b] = true
		for _, s := range b.Succs {
			alle[[2]*ssa.BasicBlock{b, s}] = true
		}
	}
	return all, alle
}

// evalBoolPhi: a boolean that is a phi (possibly negated) whose values over the edges known feasible are all the same
// constant (or themselves decided by assume / such phis).
func evalBoolPhi(v ssa.Value, feasible map[[2]*ssa.BasicBlock]bool, assume func(ssa.Value) (bool, bool), d int) (bool, bool) {
	if d > 6 {
		return false, false
	}
	if u, ok := v.(*ssa.UnOp); ok && u.Op == token.NOT {
		x, k := evalBoolPhi(u.X, feasible, assume, d+1)
		return !x, k
	}
	if isConstBool(v, true) {
		return true, true
	}
	if isConstBool(v, false) {
		return false, true
	}
	if val, known := evalCond(v, assume); known {
		return val, true
	}
	phi, ok := v.(*ssa.Phi)
	if !ok {
		return false, false
	}
	have, first := false, false
	for i, e := range phi.Edges {
		if !feasible[[2]*ssa.BasicBlock{phi.Block().Preds[i], phi.Block()}] {
			continue
		}
		if e == ssa.Value(phi) {
			continue
		}
		x, k := evalBoolPhi(e, feasible, assume, d+1)
		if !k {
			return false, false
		}
		if have && x != first {
			return false, false
		}
		have, first = true, x
	}
	return first, have
}

// unreachableAssuming reports whether target is unreachable under assume.
func unreachableAssuming(fn *ssa.Function, target *ssa.BasicBlock, assume func(cond ssa.Value) (val, known bool)) bool {
	seen, _ := reachAssuming(fn, assume)
	return !seen[target]
}

// knownFalseAssuming: v is false on every feasible path under assume (looks
// through phi nodes of short-circuit expressions).
func knownFalseAssuming(fn *ssa.Function, v ssa.Value, assume func(cond ssa.Value) (val, known bool), depth int) bool {
	if isConstBool(v, false) {
		return true
	}
	if val, known := evalCond(v, assume); known {
		return !val
	}
	phi, ok := v.(*ssa.Phi)
	if !ok || depth > 4 {
		return false
	}
	seen, edges := reachAssuming(fn, assume)
	for i, e := range phi.Edges {
		pred := phi.Block().Preds[i]
		if !seen[pred] || !edges[[2]*ssa.BasicBlock{pred, phi.Block()}] {
			continue
		}
		if !knownFalseAssuming(fn, e, assume, depth+1) {
			return false
		}
	}
	return true
}

func evalCond(cond ssa.Value, assume func(ssa.Value) (bool, bool)) (bool, bool) {
	if u, ok := cond.(*ssa.UnOp); ok && u.Op == token.NOT {
		v, k := evalCond(u.X, assume)
		return !v, k
	}
	return assume(cond)
}

var approvedSuffix = map[string]bool{"_gen.go": true, "_gen_test.go": true}
var approvedPrefix = map[string]bool{"oas": true, "openapi": true}

func checkDestructive(c *core.Ctx, prog *core.Prog, r *core.Rule, res *rta.Result, genFn *ssa.Function) {
	var fns []*ssa.Function
	for f := range res.Reachable {
		if core.InModule(f) {
			fns = append(fns, f)
		}
	}
	sort.Slice(fns, func(i, j int) bool { return fns[i].String() < fns[j].String() })
	found := 0
	for _, fn := range fns {
		for _, s := range fsSitesOf(fn) {
			if !fsDestructive[s.callee] {
				continue
			}
			found++
			key := core.FuncName(fn) + ":" + s.callee
			pos := c.Pos(s.call.Pos())
			if s.callee != "os.Remove" {
				r.Fail(key, pos, s.callee+" reachable from cmd/ogen main: only os.Remove of a single tested directory entry is accepted")
				continue
			}
			// argument shape: filepath.Join(dirParam, name) with name = f.Name()
			arg := s.call.Common().Args[0]
			join, ok := arg.(*ssa.Call)
			if !ok || !core.IsCallTo(join.Common(), "path/filepath", "Join") {
				r.Undecided(key+":arg", pos, "os.Remove argument is not filepath.Join(dir, name)")
				continue
			}
			elems := variadicElems(join.Common().Args[0])
			if len(elems) != 2 {
				r.Undecided(key+":arg", pos, fmt.Sprintf("filepath.Join has %d resolvable elements, want 2 (dir, name)", len(elems)))
				continue
			}
			dirP, ok := elems[0].(*ssa.Parameter)
			if !ok {
				r.Fail(key+":dir", pos, "directory part of the removed path is not the function's directory parameter")
				continue
			}
			nameCall, ok := elems[1].(*ssa.Call)
			if !ok || !nameCall.Common().IsInvoke() || nameCall.Common().Method.Name() != "Name" || !isDirEntry(nameCall.Common().Value.Type()) {
				r.Fail(key+":name", pos, "file part of the removed path is not DirEntry.Name() of the tested entry")
				continue
			}
			entry := nameCall.Common().Value
			r.Pass(fmt.Sprintf("%s at %s: argument is filepath.Join(%s, %s.Name())", key, pos, dirP.Name(), entry.Name()))

			blk := s.call.Block()
			// (1) IsDir assumed true
			if unreachableAssuming(fn, blk, func(cond ssa.Value) (bool, bool) {
				if call, ok := cond.(*ssa.Call); ok && call.Common().IsInvoke() && call.Common().Method.Name() == "IsDir" && call.Common().Value == entry {
					return true, true
				}
				return false, false
			}) {
				r.Pass(key + ": unreachable when entry.IsDir() is true")
			} else {
				r.Fail(key+":isdir", pos, "os.Remove is reachable for an entry whose IsDir() is true (directories must be skipped)")
			}
			// (2) all approved suffix tests false, (3) all approved prefix tests false
			for _, fam := range []struct {
				fn       string
				approved map[string]bool
			}{{"HasSuffix", approvedSuffix}, {"HasPrefix", approvedPrefix}} {
				un := unreachableAssuming(fn, blk, famAssume(nameCall, fam.fn, fam.approved, 0))
				if un {
					r.Pass(fmt.Sprintf("%s: unreachable unless strings.%s(name, c) holds for some c in %v", key, fam.fn, keys(fam.approved)))
				} else {
					r.Fail(key+":"+strings.ToLower(fam.fn), pos, fmt.Sprintf("os.Remove is reachable for a name for which no strings.%s(name, c), c in %v, holds — files outside the generator's own naming pattern can be removed", fam.fn, keys(fam.approved)))
				}
			}
			// entry is an element of the slice parameter; up the call chain the slice is os.ReadDir(dir) of the
			// same dir, dir is the -target flag, and the call is guarded by the -clean flag
			filesP := rangeSource(entry)
			if filesP == nil {
				r.Undecided(key+":entries", pos, "cannot trace the tested entry back to a slice parameter")
				continue
			}
			if ok, why := checkEntries(prog, fn, filesP, dirP, 0); ok {
				r.Pass(fmt.Sprintf("%s: entries are os.ReadDir(dir) of the directory files are removed from (%s)", key, why))
			} else {
				r.Fail(key+":caller-entries", pos, "the entries tested are not os.ReadDir of the directory files are removed from: "+why)
			}
			if ok, why := traceToFlag(prog, dirP, fn, "String", "target", 0); ok {
				r.Pass(key + ": cleaned directory is the -target flag (" + why + ")")
			} else {
				r.Fail(key+":caller-target", pos, "cleaned directory does not trace back to the -target flag: "+why)
			}
			if ok, why := guardedByFlag(prog, fn, blk, "clean", 0); ok {
				r.Pass(key + ": unreachable unless -clean was given (" + why + ")")
			} else {
				r.Fail(key+":clean-flag", pos, "the destructive call is reachable when --clean was not requested: "+why)
			}
		}
	}
	if found == 0 {
		r.Note("no destructive call reachable from main")
	}
}

func isDirEntry(t types.Type) bool {
	p, n := core.NamedOf(t)
	return (p == "io/fs" || p == "os") && n == "DirEntry"
}

// variadicElems resolves the elements stored into the backing array of a
// variadic argument slice.
func variadicElems(v ssa.Value) []ssa.Value {
	sl, ok := v.(*ssa.Slice)
	if !ok {
		return nil
	}
	alloc, ok := sl.X.(*ssa.Alloc)
	if !ok {
		return nil
	}
	arr, ok := alloc.Type().(*types.Pointer).Elem().Underlying().(*types.Array)
	if !ok {
		return nil
	}
	out := make([]ssa.Value, arr.Len())
	for _, r := range *alloc.Referrers() {
		ia, ok := r.(*ssa.IndexAddr)
		if !ok {
			continue
		}
		idx, ok := core.ConstInt(ia.Index)
		if !ok {
			return nil
		}
		for _, rr := range *ia.Referrers() {
			if st, ok := rr.(*ssa.Store); ok && st.Addr == ia {
				out[idx] = st.Val
			}
		}
	}
	for _, e := range out {
		if e == nil {
			return nil
		}
	}
	return out
}

// rangeSource traces a range element (load of IndexAddr(param, i)) back to the
// slice parameter.
func rangeSource(v ssa.Value) *ssa.Parameter {
	if ld, ok := v.(*ssa.UnOp); ok && ld.Op == token.MUL {
		if ia, ok := ld.X.(*ssa.IndexAddr); ok {
			if p, ok := ia.X.(*ssa.Parameter); ok {
				return p
			}
		}
	}
	return nil
}

func readDirOf(v ssa.Value) *ssa.Call {
	if v == nil {
		return nil
	}
	ex, ok := v.(*ssa.Extract)
	if !ok {
		return nil
	}
	call, ok := ex.Tuple.(*ssa.Call)
	if !ok || !core.IsCallTo(call.Common(), "os", "ReadDir") {
		return nil
	}
	return call
}

// checkOwnNames: constant file-name formats in (*Generator).WriteSource
// satisfy the clean predicate.
func checkOwnNames(c *core.Ctx, prog *core.Prog, r *core.Rule) {
	ws := prog.Func(pkgGen, "Generator.WriteSource")
	if ws == nil {
		r.Undecided("anchor:WriteSource", "-", "gen.(*Generator).WriteSource not found")
		return
	}
	n := 0
	// WriteSource, its closures and the helpers of package gen they call (the name may be built in a helper)
	var scope []*ssa.Function
	{
		seenF := map[*ssa.Function]bool{}
		var add func(f *ssa.Function, d int)
		add = func(f *ssa.Function, d int) {
			if seenF[f] || d > 2 {
				return
			}
			seenF[f] = true
			for _, g := range core.AllFuncs(f) {
				if g != f {
					seenF[g] = true
				}
				scope = append(scope, g)
				for _, call := range core.Calls(g) {
					if cal := call.Common().StaticCallee(); cal != nil && core.FuncPkgPath(cal) == pkgGen && len(cal.Blocks) > 0 && !seenF[cal] {
						add(cal, d+1)
					}
				}
			}
		}
		add(ws, 0)
	}
	// names built by concatenation: "oas_" + name + "_gen.go"
	for _, f := range scope {
		for _, b := range f.Blocks {
			for _, in := range b.Instrs {
				bo, ok := in.(*ssa.BinOp)
				if !ok || bo.Op != token.ADD {
					continue
				}
				// the right end: a constant, or a variable that is one of several constants ("_gen.go" / "_gen_test.go")
				var posts []string
				allConst := true
				for _, leaf := range core.PhiClosure(bo.Y) {
					cs, ok := core.ConstString(leaf)
					if !ok {
						allConst = false
						break
					}
					posts = append(posts, cs)
				}
				if !allConst || len(posts) == 0 {
					continue
				}
				goName := true
				for _, ps := range posts {
					if !strings.HasSuffix(ps, ".go") {
						goName = false
					}
				}
				if !goName {
					continue
				}
				sort.Strings(posts)
				post := posts[0]
				for _, ps := range posts[1:] {
					// every alternative has to satisfy the predicate: check the others here, the first below
					okAlt := false
					for sfx := range approvedSuffix {
						if strings.HasSuffix(ps, sfx) {
							okAlt = true
						}
					}
					if !okAlt {
						post = ps
					}
				}
				// leftmost constant of the chain
				left := bo.X
				for {
					l, ok := left.(*ssa.BinOp)
					if !ok || l.Op != token.ADD {
						break
					}
					left = l.X
				}
				pre, _ := core.ConstString(left)
				n++
				okP, okS := false, false
				for p := range approvedPrefix {
					if strings.HasPrefix(pre, p) {
						okP = true
					}
				}
				for sfx := range approvedSuffix {
					if strings.HasSuffix(post, sfx) {
						okS = true
					}
				}
				if okP && okS {
					r.Pass(fmt.Sprintf("file name %q + … + %q satisfies the clean predicate", pre, post))
				} else {
					r.Fail("WriteSource:format:"+pre+"…"+post, c.Pos(bo.Pos()), fmt.Sprintf("generated file name %q + … + %q does not satisfy the --clean predicate (stale files of a previous generation would survive cleaning)", pre, post))
				}
			}
		}
	}
	for _, f := range scope {
		for _, call := range core.Calls(f) {
			if !core.IsCallTo(call.Common(), "fmt", "Sprintf") {
				continue
			}
			format, ok := core.ConstString(call.Common().Args[0])
			if !ok || !strings.HasSuffix(format, ".go") {
				continue
			}
			n++
			pre := format
			if i := strings.IndexByte(format, '%'); i >= 0 {
				pre = format[:i]
			}
			post := format
			if i := strings.LastIndexByte(format, '%'); i >= 0 && i+2 <= len(format) {
				post = format[i+2:]
			}
			okP, okS := false, false
			for p := range approvedPrefix {
				if strings.HasPrefix(pre, p) {
					okP = true
				}
			}
			for s := range approvedSuffix {
				if strings.HasSuffix(post, s) {
					okS = true
				}
			}
			if okP && okS {
				r.Pass(fmt.Sprintf("WriteSource file-name format %q satisfies the clean predicate", format))
			} else {
				r.Fail("WriteSource:format:"+format, c.Pos(call.Pos()), fmt.Sprintf("generated file-name format %q does not satisfy the --clean predicate (stale files of a previous generation would survive cleaning)", format))
			}
		}
	}
	if n == 0 {
		r.Undecided("anchor:WriteSource-formats", c.Pos(ws.Pos()), "no constant *.go file-name format found in WriteSource")
	}
}

// checkFailureReturns: for every `if err != nil` on the error result of a
// call, every Return dominated by the failure edge returns a non-nil error.
func checkFailureReturns(c *core.Ctx, r *core.Rule, fn *ssa.Function) {
	errIdx := -1
	res := fn.Signature.Results()
	for i := 0; i < res.Len(); i++ {
		if core.IsErrorType(res.At(i).Type()) {
			errIdx = i
		}
	}
	if errIdx < 0 {
		return
	}
	for _, b := range fn.Blocks {
		for _, in := range b.Instrs {
			call, ok := in.(*ssa.Call)
			if !ok {
				continue
			}
			for _, ev := range core.ErrValueOf(call) {
				for _, fb := range failureBlocks(ev) {
					for _, rb := range fn.Blocks {
						if !fb.Dominates(rb) {
							continue
						}
						ret, ok := rb.Instrs[len(rb.Instrs)-1].(*ssa.Return)
						if !ok {
							continue
						}
						key := fmt.Sprintf("%s:after:%s", fn.Name(), core.CalleeName(call.Common()))
						v := ret.Results[errIdx]
						if core.IsNilConst(v) {
							// tolerated only when the failure edge is an explicitly handled
							// non-fatal condition: none today.
							r.Fail(key, c.Pos(ret.Pos()), fmt.Sprintf("%s returns nil on the failure edge of %s: the process would exit 0", fn.Name(), core.CalleeName(call.Common())))
						} else {
							r.Pass(fmt.Sprintf("%s: failure of %s returns non-nil (%s)", fn.Name(), core.CalleeName(call.Common()), c.Pos(ret.Pos())))
						}
					}
				}
			}
		}
	}
}

func failureBlocks(errv ssa.Value) []*ssa.BasicBlock {
	var out []*ssa.BasicBlock
	for _, r := range *errv.Referrers() {
		bo, ok := r.(*ssa.BinOp)
		if !ok || (bo.Op != token.NEQ && bo.Op != token.EQL) || !(core.IsNilConst(bo.X) || core.IsNilConst(bo.Y)) {
			continue
		}
		for _, br := range *bo.Referrers() {
			if iff, ok := br.(*ssa.If); ok {
				s := iff.Block().Succs[0]
				if bo.Op == token.EQL {
					s = iff.Block().Succs[1]
				}
				if len(s.Preds) == 1 {
					out = append(out, s)
				}
			}
		}
	}
	return out
}

// checkFeatureSetValidated (R20.5): an unknown feature name is a configuration
// error and has to be reported while the configuration is loaded, before the
// target directory is touched. FeatureOptions.Build runs inside WriteSource,
// i.e. after --clean, and fails for unknown names; that failure is unreachable
// only if a FeatureSet can never hold an unvalidated name: every insert into a
// FeatureSet happens in (*FeatureSet).Enable, after its membership test against
// AllFeatures, and Enable returns the error.
func checkFeatureSetValidated(c *core.Ctx, prog *core.Prog) {
	r := c.NewRule("R20.5", "S1", "a FeatureSet is filled only through Enable, which rejects unknown names (config errors surface before the target directory is touched)", 2)
	gp := prog.ByPath[pkgGen]
	if gp == nil {
		r.Undecided("load:gen", "-", "package gen not loaded")
		return
	}
	isFS := func(t types.Type) bool {
		_, n := core.NamedOf(t)
		return n == "FeatureSet"
	}
	n := 0
	for _, top := range core.PkgFuncs(prog.SSA, gp) {
		for _, fn := range core.AllFuncs(top) {
			for _, b := range fn.Blocks {
				for _, in := range b.Instrs {
					mu, ok := in.(*ssa.MapUpdate)
					if !ok || !isFS(mu.Map.Type()) {
						continue
					}
					n++
					if core.FuncName(fn) != "(*ogen/gen.FeatureSet).Enable" {
						r.Fail("featureset-insert:"+fnKeyFull(fn), c.Pos(mu.Pos()), fmt.Sprintf("%s inserts a name into a FeatureSet without going through Enable: an unknown feature in the config file is no longer reported when the config is loaded but only by FeatureOptions.Build inside WriteSource, after --clean has emptied the target directory", fn.Name()))
						continue
					}
					// dominated by the membership test's success
					okDom := false
					for _, call := range core.Calls(fn) {
						if !strings.HasPrefix(core.CalleeName(call.Common()), "slices.ContainsFunc") {
							continue
						}
						cv, isCall := call.(*ssa.Call)
						if !isCall {
							continue
						}
						for _, eb := range core.EdgeBlocks(cv, true) {
							if eb == b || eb.Dominates(b) {
								okDom = true
							}
						}
					}
					if okDom {
						r.Pass("Enable inserts only after the name was found in AllFeatures")
					} else {
						r.Fail("featureset-insert:Enable:unvalidated", c.Pos(mu.Pos()), "(*FeatureSet).Enable inserts a name that was not found in AllFeatures")
					}
				}
			}
		}
	}
	// the YAML decoder of the set must surface Enable's error
	if um := prog.Func(pkgGen, "FeatureSet.UnmarshalYAML"); um == nil {
		r.Undecided("anchor:UnmarshalYAML", "-", "(*gen.FeatureSet).UnmarshalYAML not found")
	} else {
		found := false
		for _, call := range core.Calls(um) {
			if core.CalleeName(call.Common()) == "(*ogen/gen.FeatureSet).Enable" {
				found = true
				cv, _ := call.(*ssa.Call)
				if cv != nil && len(failureBlocks(cv)) > 0 {
					r.Pass("FeatureSet.UnmarshalYAML enables each name and tests the error")
				} else {
					r.Fail("featureset:unmarshal-ignores-error", c.Pos(call.Pos()), "FeatureSet.UnmarshalYAML ignores the error of Enable")
				}
			}
		}
		if !found {
			r.Fail("featureset:unmarshal-no-enable", c.Pos(um.Pos()), "FeatureSet.UnmarshalYAML does not call Enable: names from the config file are not validated when the config is loaded")
		}
	}
	if n == 0 {
		r.Undecided("featureset:no-insert", "-", "no insert into a FeatureSet found")
	}
}

func checkMainExit(c *core.Ctx, r *core.Rule, mainFn, runFn *ssa.Function) {
	var runCall *ssa.Call
	for _, call := range core.Calls(mainFn) {
		if call.Common().StaticCallee() == runFn {
			runCall, _ = call.(*ssa.Call)
		}
	}
	if runCall == nil {
		r.Undecided("main:run", c.Pos(mainFn.Pos()), "main does not call run()")
		return
	}
	ok := false
	for _, fb := range failureBlocks(runCall) {
		for _, b := range mainFn.Blocks {
			if !fb.Dominates(b) {
				continue
			}
			for _, in := range b.Instrs {
				if call, isCall := in.(*ssa.Call); isCall && core.IsCallTo(call.Common(), "os", "Exit") {
					if code, isC := core.ConstInt(call.Common().Args[0]); isC && code != 0 {
						ok = true
					}
				}
			}
		}
		// every path from the failure block must pass a block that calls os.Exit(non-zero) before main returns
		if ok {
			exits := map[*ssa.BasicBlock]bool{}
			for _, b := range mainFn.Blocks {
				for _, in := range b.Instrs {
					if call, isCall := in.(*ssa.Call); isCall && core.IsCallTo(call.Common(), "os", "Exit") {
						if code, isC := core.ConstInt(call.Common().Args[0]); isC && code != 0 {
							exits[b] = true
						}
					}
				}
			}
			seen := map[*ssa.BasicBlock]bool{}
			work := []*ssa.BasicBlock{fb}
			for len(work) > 0 {
				b := work[len(work)-1]
				work = work[:len(work)-1]
				if seen[b] || exits[b] {
					continue
				}
				seen[b] = true
				if _, isRet := b.Instrs[len(b.Instrs)-1].(*ssa.Return); isRet {
					ok = false
				}
				work = append(work, b.Succs...)
			}
		}
		if ok {
			for _, b := range mainFn.Blocks {
				if fb.Dominates(b) {
					if _, isRet := b.Instrs[len(b.Instrs)-1].(*ssa.Return); isRet {
						hasExit := false
						for _, bb := range mainFn.Blocks {
							if fb.Dominates(bb) && bb.Dominates(b) {
								for _, in := range bb.Instrs {
									if call, isCall := in.(*ssa.Call); isCall && core.IsCallTo(call.Common(), "os", "Exit") {
										hasExit = true
									}
								}
							}
						}
						if !hasExit {
							ok = false
						}
					}
				}
			}
		}
	}
	if ok {
		r.Pass("main: os.Exit(non-zero) on every path after run() failed")
	} else {
		r.Fail("main:exit", c.Pos(runCall.Pos()), "main does not call os.Exit with a non-zero constant on every path after run() returned an error")
	}
}

// famAssume builds the assumption "every approved strings.<fam>(name, c) is
// false"; calls of module helpers taking name are resolved one level deep:
// the helper is known false if under the same assumption it cannot return
// anything but the constant false.
func famAssume(name ssa.Value, fam string, approved map[string]bool, depth int) func(cond ssa.Value) (bool, bool) {
	return func(cond ssa.Value) (bool, bool) {
		call, ok := cond.(*ssa.Call)
		if !ok {
			return false, false
		}
		if core.IsCallTo(call.Common(), "strings", fam) {
			if call.Common().Args[0] != name {
				return false, false
			}
			set, ok := constStringSet(call.Common().Args[1])
			if !ok {
				return false, false
			}
			for _, cs := range set {
				if !approved[cs] {
					return false, false
				}
			}
			return false, true
		}
		h := call.Common().StaticCallee()
		if h == nil || !core.InModule(h) || h.Blocks == nil || depth >= 2 {
			return false, false
		}
		if rs := h.Signature.Results(); rs.Len() != 1 || !isBoolT(rs.At(0).Type()) {
			return false, false
		}
		idx := -1
		for i, a := range call.Common().Args {
			if a == name {
				idx = i
			}
		}
		if idx < 0 {
			return false, false
		}
		sub := famAssume(h.Params[idx], fam, approved, depth+1)
		for _, b := range h.Blocks {
			ret, ok := b.Instrs[len(b.Instrs)-1].(*ssa.Return)
			if !ok {
				continue
			}
			if knownFalseAssuming(h, ret.Results[0], sub, 0) {
				continue
			}
			if !unreachableAssuming(h, b, sub) {
				return false, false
			}
		}
		return false, true
	}
}

// constStringSet: the strings v can be — a constant, or an element of a local array / slice literal all of whose
// elements are constants (`for _, p := range []string{"oas", "openapi"}`).
func constStringSet(v ssa.Value) ([]string, bool) {
	if cs, ok := core.ConstString(v); ok {
		return []string{cs}, true
	}
	ld, ok := v.(*ssa.UnOp)
	if !ok || ld.Op != token.MUL {
		return nil, false
	}
	ia, ok := ld.X.(*ssa.IndexAddr)
	if !ok {
		return nil, false
	}
	base := ia.X
	if sl, ok := base.(*ssa.Slice); ok {
		base = sl.X
	}
	al, ok := base.(*ssa.Alloc)
	if !ok {
		return nil, false
	}
	var out []string
	for _, ref := range *al.Referrers() {
		switch x := ref.(type) {
		case *ssa.IndexAddr:
			for _, u := range *x.Referrers() {
				switch y := u.(type) {
				case *ssa.Store:
					if y.Addr != ssa.Value(x) {
						continue
					}
					cs, ok := core.ConstString(y.Val)
					if !ok {
						return nil, false
					}
					out = append(out, cs)
				case *ssa.UnOp, *ssa.DebugRef:
				default:
					return nil, false
				}
			}
		case *ssa.Slice, *ssa.DebugRef:
		default:
			return nil, false
		}
	}
	return out, len(out) > 0
}

func isBoolT(t types.Type) bool {
	b, ok := t.Underlying().(*types.Basic)
	return ok && b.Kind() == types.Bool
}

func paramIndex(fn *ssa.Function, p *ssa.Parameter) int {
	for i, q := range fn.Params {
		if q == p {
			return i
		}
	}
	return -1
}

func isFlagLoad(v ssa.Value, flagFn, name string) bool {
	ld, ok := v.(*ssa.UnOp)
	if !ok || ld.Op != token.MUL {
		return false
	}
	call, ok := ld.X.(*ssa.Call)
	if !ok || !core.IsCallTo(call.Common(), "flag", "FlagSet."+flagFn) {
		return false
	}
	n, _ := core.ConstString(call.Common().Args[1])
	return n == name
}

// traceToFlag: v is *set.<flagFn>(name), or a parameter that every caller
// fills with such a value (recursively).
func traceToFlag(prog *core.Prog, v ssa.Value, fn *ssa.Function, flagFn, name string, depth int) (bool, string) {
	if isFlagLoad(v, flagFn, name) {
		return true, "-" + name + " in " + fn.Name()
	}
	p, ok := v.(*ssa.Parameter)
	if !ok || depth > 4 {
		return false, fmt.Sprintf("%s in %s is not the -%s flag", v.Name(), fn.Name(), name)
	}
	idx := paramIndex(fn, p)
	callers := callersOf(prog, fn)
	if idx < 0 || len(callers) == 0 {
		return false, fn.Name() + " has no static caller"
	}
	why := ""
	for _, cs := range callers {
		ok, w := traceToFlag(prog, cs.Common().Args[idx], cs.Parent(), flagFn, name, depth+1)
		if !ok {
			return false, w
		}
		why = fn.Name() + "." + p.Name() + " ← " + w
	}
	return true, why
}

// checkEntries: files is os.ReadDir(x) with x the same value as dir at some
// level of the call chain.
func checkEntries(prog *core.Prog, fn *ssa.Function, files, dir ssa.Value, depth int) (bool, string) {
	if rd := readDirOf(files); rd != nil {
		if rd.Common().Args[0] == dir {
			return true, "os.ReadDir in " + fn.Name()
		}
		return false, "os.ReadDir lists a different directory in " + fn.Name()
	}
	fp, ok1 := files.(*ssa.Parameter)
	dp, ok2 := dir.(*ssa.Parameter)
	if !ok1 || !ok2 || depth > 4 {
		return false, "entries are not the result of os.ReadDir in " + fn.Name()
	}
	fi, di := paramIndex(fn, fp), paramIndex(fn, dp)
	callers := callersOf(prog, fn)
	if fi < 0 || di < 0 || len(callers) == 0 {
		return false, fn.Name() + " has no static caller"
	}
	why := ""
	for _, cs := range callers {
		ok, w := checkEntries(prog, cs.Parent(), cs.Common().Args[fi], cs.Common().Args[di], depth+1)
		if !ok {
			return false, w
		}
		why = w
	}
	return true, why
}

// guardedByFlag: block is unreachable unless the bool flag is true, looking
// through bool parameters and up the static call chain.
func guardedByFlag(prog *core.Prog, fn *ssa.Function, blk *ssa.BasicBlock, name string, depth int) (bool, string) {
	if depth > 4 {
		return false, "call chain too deep"
	}
	// a flag load in this function
	if unreachableAssuming(fn, blk, func(cond ssa.Value) (bool, bool) {
		if isFlagLoad(cond, "Bool", name) {
			return false, true
		}
		return false, false
	}) {
		return true, "-" + name + " tested in " + fn.Name()
	}
	for _, p := range fn.Params {
		if !isBoolT(p.Type()) {
			continue
		}
		p := p
		if !unreachableAssuming(fn, blk, func(cond ssa.Value) (bool, bool) {
			if cond == ssa.Value(p) {
				return false, true
			}
			return false, false
		}) {
			continue
		}
		if ok, why := traceToFlag(prog, p, fn, "Bool", name, depth); ok {
			return true, why
		}
	}
	callers := callersOf(prog, fn)
	if len(callers) == 0 {
		return false, fn.Name() + " is not guarded and has no static caller"
	}
	why := ""
	for _, cs := range callers {
		ok, w := guardedByFlag(prog, cs.Parent(), cs.Block(), name, depth+1)
		if !ok {
			return false, w
		}
		why = w
	}
	return true, why
}
