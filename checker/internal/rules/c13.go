package rules

import (
	"fmt"
	"go/ast"
	"go/constant"
	"go/token"
	"go/types"
	"sort"
	"strings"

	"golang.org/x/tools/go/ssa"

	"ogenverif/internal/core"
)

func init() {
	register(&Property{
		ID: "C13",
		Meta: core.Meta{
			Level:       "other",
			Explanation: "Structural part of C13: every exported text codec of packages conv and json is paired by name and by Go type (R13.1); each pair is reduced (SSA, same-package calls inlined, constants propagated through parameters) to its sequence of library calls, and the decoder's sequence must be the element-wise inverse of the encoder's with matching parameters: same base, bitSize not narrower than the Go type, same layout constant, same Unix unit, same parser family as the formatter (R13.2); every FormatFloat/AppendFloat uses shortest round-trip precision (-1) or ≥17/≥9 significant digits and a bitSize not narrower than the value (R13.3); fixed scratch buffers are wide enough for the widest output (R13.4); json.hexEncode writes each of its 36 output positions exactly once with the right nibble and hyphens at 8/13/18/23 (R13.5). The value-level round trip through strconv/time/netip/uuid/url themselves is NOT decided; those libraries are trusted to be inverse pairs as listed in the frozen inverse table.",
			Assumptions: []string{
				"frozen inverse table of std/third-party formatter↔parser pairs (strconv, time, net, netip, net/url, github.com/google/uuid, go-faster/jx)",
				"maximum output widths of strconv.AppendInt/AppendUint (20) and AppendFloat 'g' -1 (24)",
			},
			TrustedBase: []string{"frozen inverse table in checker/internal/rules/c13.go"},
		},
		Run: runC13,
	})
}

// step is one library call of a codec, with its constant arguments.
type step struct {
	name string
	args []string // constants rendered, "_" for non-constant
	pos  token.Pos
	cons []constant.Value
}

func (s step) String() string { return s.name + "(" + strings.Join(s.args, ",") + ")" }

func inlinePkg(f *ssa.Function, pkgs map[string]bool) bool {
	return pkgs[core.FuncPkgPath(f)] && f.Blocks != nil
}

// signature lists the external calls of fn in dominator pre-order, inlining
// calls into pkgs and resolving constants through parameter substitution.
func signature(fn *ssa.Function, subst map[ssa.Value]ssa.Value, pkgs map[string]bool, depth int, out *[]step) {
	if depth > 6 || fn.Blocks == nil {
		return
	}
	resolve := func(v ssa.Value) ssa.Value {
		for i := 0; i < 10; i++ {
			if r, ok := subst[v]; ok {
				v = r
				continue
			}
			if cv, ok := v.(*ssa.Convert); ok {
				if _, isC := cv.X.(*ssa.Const); isC {
					v = cv.X
					continue
				}
				if r, ok := subst[cv.X]; ok {
					if _, isC := r.(*ssa.Const); isC {
						v = r
						continue
					}
				}
			}
			break
		}
		return v
	}
	for _, b := range fn.DomPreorder() {
		for _, in := range b.Instrs {
			call, ok := in.(*ssa.Call)
			if !ok {
				continue
			}
			cc := call.Common()
			if cal := cc.StaticCallee(); cal != nil {
				if alias, ok := opaqueAs[core.FuncName(cal)]; ok {
					*out = append(*out, step{name: alias, pos: call.Pos(), args: []string{"_"}, cons: []constant.Value{nil}})
					continue
				}
			}
			if cal := cc.StaticCallee(); cal != nil && inlinePkg(cal, pkgs) {
				sub := map[ssa.Value]ssa.Value{}
				for i, p := range cal.Params {
					if i < len(cc.Args) {
						sub[p] = resolve(cc.Args[i])
					}
				}
				signature(cal, sub, pkgs, depth+1, out)
				continue
			}
			name := core.CalleeName(cc)
			if strings.HasPrefix(name, "builtin ") {
				continue
			}
			// a call through a function-valued parameter that the caller bound to a method expression
			// (read := (*jx.Decoder).Int32; read(d)): the step is that method
			if !cc.IsInvoke() && cc.StaticCallee() == nil {
				if fv, ok := resolve(cc.Value).(*ssa.Function); ok {
					if inlinePkg(fv, pkgs) {
						sub := map[ssa.Value]ssa.Value{}
						for i, p := range fv.Params {
							if i < len(cc.Args) {
								sub[p] = resolve(cc.Args[i])
							}
						}
						signature(fv, sub, pkgs, depth+1, out)
						continue
					}
					if obj, ok := fv.Object().(*types.Func); ok {
						if m := fn.Prog.FuncValue(obj); m != nil {
							name = core.FuncName(m)
							if strings.HasPrefix(name, "(*jx.") || strings.HasPrefix(name, "(jx.") {
								name = strings.Replace(name, "jx.", "github.com/go-faster/jx.", 1)
							}
						}
					}
				}
			}
			st := step{name: name, pos: call.Pos()}
			args := cc.Args
			if cc.IsInvoke() {
				args = append([]ssa.Value{cc.Value}, args...)
			}
			for _, a := range args {
				a = resolve(a)
				if c, ok := a.(*ssa.Const); ok && c.Value != nil {
					st.args = append(st.args, c.Value.ExactString())
					st.cons = append(st.cons, c.Value)
				} else if p, ok := a.(*ssa.Parameter); ok && depth > 0 || ok && p.Parent() == fn && depth == 0 && isStringT(p.Type()) {
					// the codec's own parameter (e.g. a caller-supplied layout): both
					// sides must use the parameter of the same name
					st.args = append(st.args, "param:"+p.Name())
					st.cons = append(st.cons, constant.MakeString("param:"+p.Name()))
				} else {
					st.args = append(st.args, "_")
					st.cons = append(st.cons, nil)
				}
			}
			*out = append(*out, st)
		}
	}
}

// opaqueAs lists in-package re-implementations of a library formatter that
// are treated as that formatter (one symbol each, with the reason).
var opaqueAs = map[string]string{
	// copy of time.Duration.format from the standard library, writing into a caller buffer
	"ogen/json.formatDuration": "(time.Duration).String",
	// canonical 8-4-4-4-12 lower-case hex form, i.e. uuid.UUID.String; its layout is verified by R13.5
	"ogen/json.hexEncode": "(github.com/google/uuid.UUID).String",
}

func isStringT(t types.Type) bool {
	b, ok := t.Underlying().(*types.Basic)
	return ok && b.Kind() == types.String
}

// absStep is the abstract meaning of a library call.
type absStep struct {
	kind   string // int uint bool float time unix duration uuid mac addr url frame neutral
	base   int64
	bits   int64 // parse side: bitSize (0=int); format side (float): bitSize
	fmtc   int64 // float format byte
	prec   int64
	layout string
	unit   string
	strict string // parser family detail
	enc    bool
	raw    step
}

func cint(s step, i int) (int64, bool) {
	if i >= len(s.cons) || s.cons[i] == nil || s.cons[i].Kind() != constant.Int {
		return 0, false
	}
	return constant.Int64Val(s.cons[i])
}

func cstr(s step, i int) (string, bool) {
	if i >= len(s.cons) || s.cons[i] == nil || s.cons[i].Kind() != constant.String {
		return "", false
	}
	return constant.StringVal(s.cons[i]), true
}

// classify maps a library call to its abstract step; ok=false → unknown.
func classify(s step) (absStep, bool) {
	a := absStep{raw: s}
	need := func(v int64, ok bool) int64 {
		if !ok {
			return -999
		}
		return v
	}
	switch s.name {
	// ---- encoders
	case "strconv.Itoa":
		a.kind, a.base, a.enc = "int", 10, true
	case "strconv.FormatInt":
		a.kind, a.enc = "int", true
		a.base = need(cint(s, 1))
	case "strconv.AppendInt":
		a.kind, a.enc = "int", true
		a.base = need(cint(s, 2))
	case "strconv.FormatUint":
		a.kind, a.enc = "uint", true
		a.base = need(cint(s, 1))
	case "strconv.AppendUint":
		a.kind, a.enc = "uint", true
		a.base = need(cint(s, 2))
	case "strconv.FormatBool":
		a.kind, a.enc = "bool", true
	case "strconv.FormatFloat":
		a.kind, a.enc = "float", true
		a.fmtc, a.prec, a.bits = need(cint(s, 1)), need(cint(s, 2)), need(cint(s, 3))
	case "strconv.AppendFloat":
		a.kind, a.enc = "float", true
		a.fmtc, a.prec, a.bits = need(cint(s, 2)), need(cint(s, 3)), need(cint(s, 4))
	case "(time.Time).Format":
		a.kind, a.enc = "time", true
		l, ok := cstr(s, 1)
		if !ok {
			l = "_"
		}
		a.layout = l
	case "(time.Time).AppendFormat":
		a.kind, a.enc = "time", true
		l, ok := cstr(s, 2)
		if !ok {
			l = "_"
		}
		a.layout = l
	case "(time.Time).Unix":
		a.kind, a.unit, a.enc = "unix", "s", true
	case "(time.Time).UnixNano":
		a.kind, a.unit, a.enc = "unix", "ns", true
	case "(time.Time).UnixMicro":
		a.kind, a.unit, a.enc = "unix", "us", true
	case "(time.Time).UnixMilli":
		a.kind, a.unit, a.enc = "unix", "ms", true
	case "(time.Duration).String":
		a.kind, a.enc = "duration", true
	case "(github.com/google/uuid.UUID).String":
		a.kind, a.enc = "uuid", true
	case "(net.HardwareAddr).String":
		a.kind, a.enc = "mac", true
	case "(net/netip.Addr).String", "(net/netip.Addr).AppendTo":
		a.kind, a.enc = "addr", true
	case "(*net/url.URL).String":
		a.kind, a.enc = "url", true
	case "(*github.com/go-faster/jx.Encoder).Raw", "(*github.com/go-faster/jx.Encoder).ByteStr", "(*github.com/go-faster/jx.Encoder).Str":
		a.kind, a.enc = "frame", true
	case "(*github.com/go-faster/jx.Encoder).Int64":
		a.kind, a.base, a.enc = "int", 10, true
		a.strict = "jsonnum"
	// ---- decoders
	case "strconv.Atoi":
		a.kind, a.base, a.bits = "int", 10, 0
	case "strconv.ParseInt":
		a.kind = "int"
		a.base, a.bits = need(cint(s, 1)), need(cint(s, 2))
	case "strconv.ParseUint":
		a.kind = "uint"
		a.base, a.bits = need(cint(s, 1)), need(cint(s, 2))
	case "strconv.ParseBool":
		a.kind = "bool"
	case "strconv.ParseFloat":
		a.kind = "float"
		a.bits = need(cint(s, 1))
	case "time.Parse":
		a.kind = "time"
		l, ok := cstr(s, 0)
		if !ok {
			l = "_"
		}
		a.layout = l
	case "time.Unix":
		a.kind = "unix"
		sec, okS := cint(s, 0)
		ns, okN := cint(s, 1)
		switch {
		case !okS && okN && ns == 0:
			a.unit = "s"
		case okS && sec == 0 && !okN:
			a.unit = "ns"
		default:
			a.unit = "?"
		}
	case "time.UnixMicro":
		a.kind, a.unit = "unix", "us"
	case "time.UnixMilli":
		a.kind, a.unit = "unix", "ms"
	case "time.ParseDuration":
		a.kind = "duration"
	case "github.com/google/uuid.Parse", "github.com/google/uuid.ParseBytes":
		a.kind = "uuid"
	case "net.ParseMAC":
		a.kind = "mac"
	case "net/netip.ParseAddr":
		a.kind = "addr"
	case "net/url.Parse":
		a.kind = "url"
	case "net/url.ParseRequestURI":
		a.kind, a.strict = "url", "ParseRequestURI"
	case "(*github.com/go-faster/jx.Decoder).Str", "(*github.com/go-faster/jx.Decoder).StrBytes":
		a.kind = "frame"
	case "(*github.com/go-faster/jx.Decoder).Int":
		a.kind, a.base, a.bits = "int", 10, 0
	case "(*github.com/go-faster/jx.Decoder).Int8":
		a.kind, a.base, a.bits = "int", 10, 8
	case "(*github.com/go-faster/jx.Decoder).Int16":
		a.kind, a.base, a.bits = "int", 10, 16
	case "(*github.com/go-faster/jx.Decoder).Int32":
		a.kind, a.base, a.bits = "int", 10, 32
	case "(*github.com/go-faster/jx.Decoder).Int64":
		a.kind, a.base, a.bits = "int", 10, 64
	case "(*github.com/go-faster/jx.Decoder).UInt":
		a.kind, a.base, a.bits = "uint", 10, 0
	case "(*github.com/go-faster/jx.Decoder).UInt8":
		a.kind, a.base, a.bits = "uint", 10, 8
	case "(*github.com/go-faster/jx.Decoder).UInt16":
		a.kind, a.base, a.bits = "uint", 10, 16
	case "(*github.com/go-faster/jx.Decoder).UInt32":
		a.kind, a.base, a.bits = "uint", 10, 32
	case "(*github.com/go-faster/jx.Decoder).UInt64":
		a.kind, a.base, a.bits = "uint", 10, 64
	// ---- neutral
	case "github.com/go-faster/jx.DecodeBytes", "github.com/go-faster/errors.Wrap", "github.com/go-faster/errors.New",
		"github.com/go-faster/errors.Errorf",
		// whole-input guards of a decoder: they reject, they do not transform
		"bytes.ContainsAny", "(*github.com/go-faster/jx.Decoder).Skip",
		"(net/netip.Addr).Is4", "(net/netip.Addr).Is6", // version guards of the ipv4 / ipv6 decoders
		"dynamic", "slices.Clone":
		a.kind = "neutral"
	default:
		return a, false
	}
	return a, true
}

func typeBits(t types.Type) int64 {
	b, ok := t.Underlying().(*types.Basic)
	if !ok {
		return -1
	}
	switch b.Kind() {
	case types.Int, types.Uint:
		return 0
	case types.Int8, types.Uint8:
		return 8
	case types.Int16, types.Uint16:
		return 16
	case types.Int32, types.Uint32, types.Float32:
		return 32
	case types.Int64, types.Uint64, types.Float64:
		return 64
	}
	return -1
}

// geBits: parse width p covers type width t (0 = platform int, treated as
// covered only by 0 or 64).
func geBits(p, t int64) bool {
	if t == 0 {
		return p == 0 || p == 64
	}
	if p == 0 {
		return t <= 32
	}
	return p >= t
}

type codecPair struct {
	name     string
	enc, dec *ssa.Function
	T        types.Type
}

func runC13(c *core.Ctx) error {
	prog, err := c.Program("./conv", "./json")
	if err != nil {
		return err
	}
	r1 := c.NewRule("R13.1", "S1", "every exported text codec has its inverse with the same Go type", 60)
	r2 := c.NewRule("R13.2", "S1", "decoder call sequence is the element-wise inverse of the encoder's, parameters matching", 60)
	r3 := c.NewRule("R13.3", "S1", "float text is round-trippable (precision -1 or ≥17/≥9 digits, bitSize not narrower than the value)", 6)
	r4 := c.NewRule("R13.4", "S1", "fixed scratch buffers fit the widest strconv output plus quotes", 3)
	r5 := c.NewRule("R13.5", "S1", "json.hexEncode writes all 36 positions once, right nibbles, hyphens at 8/13/18/23", 36)

	var pairs []codecPair
	// ---- conv: XToString(T) string ↔ ToX(string) (T, error)
	convPkg := prog.ByPath[pkgConv]
	jsonPkg := prog.ByPath[pkgJSON]
	if convPkg == nil || jsonPkg == nil {
		return fmt.Errorf("conv/json packages not loaded")
	}
	var names []string
	for n := range convPkg.Members {
		names = append(names, n)
	}
	sort.Strings(names)
	isStr := func(t types.Type) bool {
		b, ok := t.Underlying().(*types.Basic)
		return ok && b.Kind() == types.String
	}
	isStrSlice := func(t types.Type) bool {
		s, ok := t.Underlying().(*types.Slice)
		return ok && isStr(s.Elem())
	}
	for _, n := range names {
		f, ok := convPkg.Members[n].(*ssa.Function)
		if !ok || !token.IsExported(n) {
			continue
		}
		sig := f.Signature
		switch {
		case strings.HasSuffix(n, "ToString") && sig.Params().Len() == 1 && sig.Results().Len() == 1 &&
			(isStr(sig.Results().At(0).Type()) || isStrSlice(sig.Results().At(0).Type())):
			x := strings.TrimSuffix(n, "ToString")
			T := sig.Params().At(0).Type()
			d := convPkg.Func("To" + x)
			if d == nil {
				r1.Fail("conv."+n, c.Pos(f.Pos()), "conv."+n+" has no inverse conv.To"+x)
				continue
			}
			ds := d.Signature
			if ds.Params().Len() != 1 || ds.Results().Len() != 2 || !types.Identical(ds.Results().At(0).Type(), T) ||
				!types.Identical(ds.Params().At(0).Type(), sig.Results().At(0).Type()) {
				r1.Fail("conv."+n, c.Pos(d.Pos()), fmt.Sprintf("conv.To%s has signature %s, want func(%s) (%s, error)", x, ds, sig.Results().At(0).Type(), T))
				continue
			}
			r1.Pass(fmt.Sprintf("conv.%s ↔ conv.To%s over %s", n, x, T))
			pairs = append(pairs, codecPair{"conv." + x, f, d, T})
		case strings.HasPrefix(n, "To") && sig.Params().Len() == 1 && sig.Results().Len() == 2 &&
			(isStr(sig.Params().At(0).Type()) || isStrSlice(sig.Params().At(0).Type())) && core.IsErrorType(sig.Results().At(1).Type()):
			x := strings.TrimPrefix(n, "To")
			if convPkg.Func(x+"ToString") == nil {
				r1.Fail("conv."+n, c.Pos(f.Pos()), "conv."+n+" has no inverse conv."+x+"ToString")
			} else {
				r1.Pass(fmt.Sprintf("conv.%s has inverse conv.%sToString", n, x))
			}
		}
	}
	// ---- json: EncodeX(e *jx.Encoder, v T[, extra]) ↔ DecodeX(d *jx.Decoder[, extra]) (T, error)
	names = names[:0]
	for n := range jsonPkg.Members {
		names = append(names, n)
	}
	sort.Strings(names)
	isJx := func(t types.Type, name string) bool {
		p, n := core.NamedOf(t)
		return p == "github.com/go-faster/jx" && n == name
	}
	for _, n := range names {
		f, ok := jsonPkg.Members[n].(*ssa.Function)
		if !ok || !token.IsExported(n) {
			continue
		}
		sig := f.Signature
		switch {
		case strings.HasPrefix(n, "Encode") && sig.Params().Len() >= 2 && isJx(sig.Params().At(0).Type(), "Encoder"):
			x := strings.TrimPrefix(n, "Encode")
			T := sig.Params().At(1).Type()
			d := jsonPkg.Func("Decode" + x)
			if d == nil {
				r1.Fail("json."+n, c.Pos(f.Pos()), "json."+n+" has no inverse json.Decode"+x)
				continue
			}
			ds := d.Signature
			if ds.Params().Len() < 1 || !isJx(ds.Params().At(0).Type(), "Decoder") || ds.Results().Len() != 2 || !types.Identical(ds.Results().At(0).Type(), T) {
				r1.Fail("json."+n, c.Pos(d.Pos()), fmt.Sprintf("json.Decode%s has signature %s, want func(*jx.Decoder) (%s, error)", x, ds, T))
				continue
			}
			r1.Pass(fmt.Sprintf("json.%s ↔ json.Decode%s over %s", n, x, T))
			pairs = append(pairs, codecPair{"json." + x, f, d, T})
		case strings.HasPrefix(n, "Decode") && sig.Params().Len() >= 1 && isJx(sig.Params().At(0).Type(), "Decoder") && sig.Results().Len() == 2:
			x := strings.TrimPrefix(n, "Decode")
			if jsonPkg.Func("Encode"+x) == nil {
				r1.Fail("json."+n, c.Pos(f.Pos()), "json."+n+" has no inverse json.Encode"+x)
			} else {
				r1.Pass(fmt.Sprintf("json.%s has inverse json.Encode%s", n, x))
			}
		}
	}

	// ---- R13.2 / R13.3 on every pair
	inl := map[string]bool{pkgConv: true, pkgJSON: true}
	for _, p := range pairs {
		var es, ds []step
		signature(p.enc, nil, inl, 0, &es)
		signature(p.dec, nil, inl, 0, &ds)
		checkPair(c, r2, r3, p, es, ds)
	}

	checkBuffers(c, prog, r4)
	checkHexEncode(c, prog, r5)
	r6 := c.NewRule("R13.6", "S1", "json.formatDuration writes the sign on every non-zero path", 2)
	checkDurationSign(c, prog, r6)
	checkCodecPrecedence(c, "R13.8")
	if irProg, err := c.Program("./gen/ir"); err == nil {
		checkFormatAliasAgreement(c, irProg)
	} else {
		return err
	}
	return nil
}

func checkPair(c *core.Ctx, r2, r3 *core.Rule, p codecPair, es, ds []step) {
	T := p.T
	elemT := T
	isArr := false
	if sl, ok := T.Underlying().(*types.Slice); ok {
		if b, isB := sl.Elem().Underlying().(*types.Basic); !(isB && b.Kind() == types.Uint8) {
			isArr = true
			elemT = sl.Elem()
		}
	}
	_ = elemT
	// a decoder that parses text with a fresh jx decoder (jx.DecodeBytes(s).Int32()) takes the first value and
	// stops: unless it then asks for the end of input, "12,13" or "12 " decode as 12. strconv parsers are
	// whole-string by themselves.
	{
		sub, end := false, false
		var pos token.Pos
		for _, s := range ds {
			switch s.name {
			case "github.com/go-faster/jx.DecodeBytes", "github.com/go-faster/jx.DecodeStr":
				sub, pos = true, s.pos
			case "(*github.com/go-faster/jx.Decoder).Skip":
				end = true
			}
		}
		if sub {
			if end {
				r2.Pass(fmt.Sprintf("%s: the nested decoder is asked for the end of its input", p.name))
			} else {
				r2.Fail(p.name+":nested-decoder-no-end", c.Pos(pos), fmt.Sprintf("%s parses its text with a nested jx decoder and never checks that the text ended: trailing data (\"12,13\", \"12 \") is silently ignored, while the URI decoder of the same format rejects it", p.name))
			}
		}
	}
	var ea, da []absStep
	for _, s := range es {
		a, ok := classify(s)
		if !ok {
			r2.Undecided(p.name+":enc:"+s.name, c.Pos(s.pos), fmt.Sprintf("%s encoder calls %s, which is not in the inverse table", p.name, s))
			return
		}
		if a.kind != "neutral" {
			ea = append(ea, a)
		}
	}
	for _, s := range ds {
		a, ok := classify(s)
		if !ok {
			r2.Undecided(p.name+":dec:"+s.name, c.Pos(s.pos), fmt.Sprintf("%s decoder calls %s, which is not in the inverse table", p.name, s))
			return
		}
		if a.kind != "neutral" {
			da = append(da, a)
		}
	}
	if isArr {
		// array variants delegate through function values: the "dynamic" call is
		// neutral; the function value passed must be the scalar pair (checked by name)
		base := strings.TrimSuffix(strings.TrimPrefix(p.name, "conv."), "Array")
		for _, side := range []struct {
			fn   *ssa.Function
			want string
		}{{p.enc, base + "ToString"}, {p.dec, "To" + base}} {
			got := ""
			identity := true
			for _, call := range core.Calls(side.fn) {
				for _, a := range call.Common().Args {
					if f, ok := a.(*ssa.Function); ok {
						got = f.Name()
					}
				}
				if !strings.HasPrefix(core.CalleeName(call.Common()), "slices.") {
					identity = false
				}
			}
			switch {
			case got == side.want:
				r2.Pass(fmt.Sprintf("%s: %s maps conv.%s over the elements", p.name, side.fn.Name(), got))
			case got == "" && identity && base == "String":
				r2.Pass(fmt.Sprintf("%s: %s is the identity on []string", p.name, side.fn.Name()))
			default:
				r2.Fail(p.name+":elem:"+side.fn.Name(), c.Pos(side.fn.Pos()), fmt.Sprintf("%s maps conv.%s over the elements, want conv.%s (the scalar codec of the same format)", side.fn.Name(), got, side.want))
			}
		}
		return
	}
	render := func(as []absStep) string {
		var parts []string
		for _, a := range as {
			parts = append(parts, a.raw.String())
		}
		return strings.Join(parts, " ; ")
	}
	if len(ea) != len(da) {
		r2.Fail(p.name+":shape", c.Pos(p.dec.Pos()), fmt.Sprintf("%s: encoder performs [%s] but decoder performs [%s]: not inverse sequences", p.name, render(ea), render(da)))
		return
	}
	// element-wise inverse, reversed
	valueT := T // the Go type at the outermost step
	for i := range ea {
		e := ea[i]
		d := da[len(da)-1-i]
		key := fmt.Sprintf("%s:%s", p.name, e.kind)
		pos := c.Pos(d.raw.pos)
		if e.kind != d.kind || !e.enc || d.enc {
			r2.Fail(key+":kind", pos, fmt.Sprintf("%s: encoder step %s is not inverted by decoder step %s", p.name, e.raw, d.raw))
			continue
		}
		stageT := valueT
		if i > 0 && ea[i-1].kind == "unix" {
			stageT = types.Typ[types.Int64]
		}
		ok := true
		switch e.kind {
		case "int", "uint":
			if e.base != d.base {
				r2.Fail(key+":base", pos, fmt.Sprintf("%s: formatted in base %d, parsed in base %d", p.name, e.base, d.base))
				ok = false
			}
			tb := typeBits(stageT)
			if tb >= 0 && !geBits(d.bits, tb) {
				r2.Fail(key+":bits", pos, fmt.Sprintf("%s: parsed with bitSize %d, narrower than %s: large values fail to parse back", p.name, d.bits, stageT))
				ok = false
			}
		case "float":
			tb := typeBits(stageT)
			if d.bits != tb {
				r2.Fail(key+":parsebits", pos, fmt.Sprintf("%s: ParseFloat bitSize %d does not match %s", p.name, d.bits, stageT))
				ok = false
			}
			// R13.3
			fkey := p.name + ":FormatFloat"
			switch {
			case e.bits < tb:
				r3.Fail(fkey, c.Pos(e.raw.pos), fmt.Sprintf("%s: float formatted with bitSize %d, narrower than %s: the value is rounded before printing", p.name, e.bits, stageT))
			case e.prec == -1:
				r3.Pass(fmt.Sprintf("%s: %s uses shortest round-trip precision", p.name, e.raw))
			case (e.fmtc == 'g' || e.fmtc == 'G') && ((tb == 64 && e.prec >= 17) || (tb == 32 && e.prec >= 9)):
				r3.Pass(fmt.Sprintf("%s: %s keeps %d significant digits", p.name, e.raw, e.prec))
			case (e.fmtc == 'e' || e.fmtc == 'E') && ((tb == 64 && e.prec >= 16) || (tb == 32 && e.prec >= 8)):
				r3.Pass(fmt.Sprintf("%s: %s keeps %d digits", p.name, e.raw, e.prec+1))
			default:
				r3.Fail(fkey, c.Pos(e.raw.pos), fmt.Sprintf("%s: %s (format %q, precision %d) cannot represent every %s: distinct values print the same text (e.g. 1e-11 prints as 0.0000000000)", p.name, e.raw, rune(e.fmtc), e.prec, stageT))
			}
		case "time":
			if e.layout != d.layout || e.layout == "_" {
				r2.Fail(key+":layout", pos, fmt.Sprintf("%s: formatted with layout %q, parsed with layout %q", p.name, e.layout, d.layout))
				ok = false
			}
		case "unix":
			if e.unit != d.unit {
				r2.Fail(key+":unit", pos, fmt.Sprintf("%s: encoded as Unix %s, decoded as Unix %s", p.name, e.unit, d.unit))
				ok = false
			}
		case "url":
			if d.strict != "" {
				r2.Fail(key+":parser", pos, fmt.Sprintf("%s: URL.String() is parsed back with url.%s, which is not its inverse (relative references are rejected and a #fragment is absorbed into the path)", p.name, d.strict))
				ok = false
			}
		}
		if ok {
			r2.Pass(fmt.Sprintf("%s: %s ⇄ %s", p.name, e.raw, d.raw))
		}
	}
}

// checkBuffers: R13.4 — in every function of package json that appends a
// strconv number into a fixed [N]byte array, N ≥ 2 + max width.
func checkBuffers(c *core.Ctx, prog *core.Prog, r *core.Rule) {
	pkg := prog.ByPath[pkgJSON]
	for _, fn := range core.PkgFuncs(prog.SSA, pkg) {
		for _, call := range core.Calls(fn) {
			name := core.CalleeName(call.Common())
			width := int64(0)
			switch name {
			case "strconv.AppendInt", "strconv.AppendUint":
				if b, ok := core.ConstInt(call.Common().Args[2]); !ok || b != 10 {
					continue
				}
				width = 20
			case "strconv.AppendFloat":
				f, ok1 := core.ConstInt(call.Common().Args[2])
				p, ok2 := core.ConstInt(call.Common().Args[3])
				if !ok1 || !ok2 || p != -1 || (f != 'g' && f != 'e') {
					r.Undecided(core.FuncName(fn)+":AppendFloat", c.Pos(call.Pos()), "AppendFloat with a format/precision whose maximum width is not in the table")
					continue
				}
				width = 24
			default:
				continue
			}
			// destination: slice of a local array
			sl, ok := call.Common().Args[0].(*ssa.Slice)
			if !ok {
				continue
			}
			alloc, ok := sl.X.(*ssa.Alloc)
			if !ok {
				continue
			}
			arr, ok := alloc.Type().(*types.Pointer).Elem().Underlying().(*types.Array)
			if !ok {
				continue
			}
			key := fn.Name() + ":" + name
			if o := fn.Origin(); o != nil {
				key = o.Name() + ":" + name
			}
			if arr.Len() >= width+2 {
				r.Pass(fmt.Sprintf("%s: [%d]byte ≥ 2 + %d", key, arr.Len(), width))
			} else {
				r.Fail(key, c.Pos(call.Pos()), fmt.Sprintf("scratch buffer [%d]byte is narrower than the widest %s output (%d) plus two quotes: the number is reallocated away and the emitted text is truncated", arr.Len(), name, width))
			}
		}
	}
}

func checkHexEncode(c *core.Ctx, prog *core.Prog, r *core.Rule) {
	fn := prog.Func(pkgJSON, "hexEncode")
	if fn == nil {
		r.Undecided("anchor:hexEncode", "-", "json.hexEncode not found")
		return
	}
	if len(fn.Params) != 2 {
		r.Undecided("anchor:hexEncode", c.Pos(fn.Pos()), "hexEncode signature changed")
		return
	}
	dst := fn.Params[0]
	type w struct {
		hyphen bool
		k      int64
		hi     bool
		pos    token.Pos
	}
	writes := map[int64][]w{}
	for _, b := range fn.Blocks {
		for _, in := range b.Instrs {
			st, ok := in.(*ssa.Store)
			if !ok {
				continue
			}
			ia, ok := st.Addr.(*ssa.IndexAddr)
			if !ok || ia.X != ssa.Value(dst) {
				continue
			}
			idx, ok := core.ConstInt(ia.Index)
			if !ok {
				r.Undecided("hexEncode:index", c.Pos(st.Pos()), "non-constant destination index")
				continue
			}
			if cv, ok := core.ConstInt(st.Val); ok {
				writes[idx] = append(writes[idx], w{hyphen: cv == '-', k: -1, pos: st.Pos()})
				continue
			}
			k, hi, ok := nibbleOf(st.Val)
			if !ok {
				r.Undecided(fmt.Sprintf("hexEncode:dst[%d]", idx), c.Pos(st.Pos()), "stored value is not hextable[v[k]>>4] or hextable[v[k]&0x0f]")
				continue
			}
			writes[idx] = append(writes[idx], w{k: k, hi: hi, pos: st.Pos()})
		}
	}
	// expected layout
	hy := map[int64]bool{8: true, 13: true, 18: true, 23: true}
	pos := int64(0)
	k := int64(0)
	for pos < 36 {
		ws := writes[pos]
		key := fmt.Sprintf("hexEncode:dst[%d]", pos)
		if len(ws) != 1 {
			r.Fail(key, c.Pos(fn.Pos()), fmt.Sprintf("destination byte %d is written %d times, want exactly once", pos, len(ws)))
			if hy[pos] {
				pos++
			} else {
				if pos%2 == 1 || true {
				}
				pos++
				if !hy[pos] && pos < 36 && (pos-countHy(pos))%2 == 0 {
					k++
				}
			}
			continue
		}
		wr := ws[0]
		if hy[pos] {
			if wr.hyphen {
				r.Pass(fmt.Sprintf("dst[%d] = '-'", pos))
			} else {
				r.Fail(key, c.Pos(wr.pos), fmt.Sprintf("destination byte %d must be a hyphen", pos))
			}
			pos++
			continue
		}
		nib := (pos - countHy(pos)) % 2 // 0 = high nibble
		k = (pos - countHy(pos)) / 2
		if wr.k == k && wr.hi == (nib == 0) {
			r.Pass(fmt.Sprintf("dst[%d] = %s nibble of v[%d]", pos, map[bool]string{true: "high", false: "low"}[wr.hi], k))
		} else {
			r.Fail(key, c.Pos(wr.pos), fmt.Sprintf("destination byte %d holds the %s nibble of v[%d], want the %s nibble of v[%d]", pos,
				map[bool]string{true: "high", false: "low"}[wr.hi], wr.k, map[bool]string{true: "high", false: "low"}[nib == 0], k))
		}
		pos++
	}
}

func countHy(pos int64) int64 {
	n := int64(0)
	for _, h := range []int64{8, 13, 18, 23} {
		if h < pos {
			n++
		}
	}
	return n
}

// nibbleOf matches hextable[v[k]>>4] / hextable[v[k]&0x0f].
func nibbleOf(v ssa.Value) (k int64, hi bool, ok bool) {
	ix, isIx := v.(*ssa.Index)
	if !isIx {
		return 0, false, false
	}
	tbl, isC := core.ConstString(ix.X)
	if !isC || tbl != "0123456789abcdef" {
		return 0, false, false
	}
	idx := ix.Index
	if cv, isCv := idx.(*ssa.Convert); isCv {
		idx = cv.X
	}
	bo, isBo := idx.(*ssa.BinOp)
	if !isBo {
		return 0, false, false
	}
	cst, isK := core.ConstInt(bo.Y)
	if !isK {
		return 0, false, false
	}
	switch {
	case bo.Op == token.SHR && cst == 4:
		hi = true
	case bo.Op == token.AND && cst == 15:
		hi = false
	default:
		return 0, false, false
	}
	// operand: load of IndexAddr(alloc/param, const k) or Index(param, const k)
	switch x := bo.X.(type) {
	case *ssa.UnOp:
		if x.Op != token.MUL {
			return 0, false, false
		}
		ia, isIA := x.X.(*ssa.IndexAddr)
		if !isIA {
			return 0, false, false
		}
		kk, isK := core.ConstInt(ia.Index)
		return kk, hi, isK
	case *ssa.Index:
		kk, isK := core.ConstInt(x.Index)
		return kk, hi, isK
	}
	return 0, false, false
}

// checkDurationSign: in the in-package port of time.Duration.String the '-'
// is stored under `d < 0`, and the test of that condition dominates every
// return except those of the u == 0 arm.
func checkDurationSign(c *core.Ctx, prog *core.Prog, r *core.Rule) {
	fn := prog.Func(pkgJSON, "formatDuration")
	if fn == nil {
		r.Undecided("anchor:formatDuration", "-", "json.formatDuration not found")
		return
	}
	// neg := d < 0
	var neg *ssa.BinOp
	for _, b := range fn.Blocks {
		for _, in := range b.Instrs {
			if bo, ok := in.(*ssa.BinOp); ok && bo.Op == token.LSS {
				if _, isP := bo.X.(*ssa.Parameter); isP {
					if z, ok := core.ConstInt(bo.Y); ok && z == 0 {
						neg = bo
					}
				}
			}
		}
	}
	if neg == nil {
		r.Undecided("formatDuration:neg", c.Pos(fn.Pos()), "no `d < 0` test found")
		return
	}
	// the If(neg) whose true edge stores '-'
	var signIf *ssa.BasicBlock
	for _, ref := range *neg.Referrers() {
		iff, ok := ref.(*ssa.If)
		if !ok {
			continue
		}
		tb := iff.Block().Succs[0]
		for _, in := range tb.Instrs {
			if st, ok := in.(*ssa.Store); ok {
				if v, ok := core.ConstInt(st.Val); ok && v == '-' {
					signIf = iff.Block()
				}
			}
		}
	}
	if signIf == nil {
		r.Fail("formatDuration:sign-store", c.Pos(neg.Pos()), "no store of '-' under `d < 0`: negative durations are printed without their sign")
		return
	}
	r.Pass("formatDuration stores '-' under d < 0")
	// zero arm: blocks dominated by the true edge of u == 0
	var zeroBlocks []*ssa.BasicBlock
	for _, b := range fn.Blocks {
		for _, in := range b.Instrs {
			if bo, ok := in.(*ssa.BinOp); ok && bo.Op == token.EQL {
				if z, ok := core.ConstInt(bo.Y); ok && z == 0 {
					zeroBlocks = append(zeroBlocks, core.EdgeBlocks(bo, true)...)
				}
			}
		}
	}
	okAll := true
	for _, b := range fn.Blocks {
		ret, ok := b.Instrs[len(b.Instrs)-1].(*ssa.Return)
		if !ok {
			continue
		}
		inZero := false
		for _, zb := range zeroBlocks {
			if zb.Dominates(b) {
				inZero = true
			}
		}
		if inZero {
			continue
		}
		if !signIf.Dominates(b) {
			okAll = false
			r.Fail("formatDuration:sign-skipped", c.Pos(ret.Pos()), "a non-zero duration can be returned without passing the `d < 0` sign test: its sign is lost (e.g. -250ms prints as 250ms)")
		}
	}
	if okAll {
		r.Pass("every non-zero return of formatDuration passes the sign test")
	}
}

// checkFormatAliasAgreement (R13.7): the JSON side (ir.JSON.Format) and the URI
// side (ir.Type.uriFormat) each choose a codec from the schema's format name.
// Format names that are aliases on the JSON side (they select the same codec,
// e.g. "unix" and "unix-seconds") denote one wire representation; the URI
// side must treat them alike: both get the same codec, or both fall through to
// the type's default. A name known to only one spelling on the URI side sends a
// parameter in a representation its own JSON sibling (and the peer) does not
// use.
func checkFormatAliasAgreement(c *core.Ctx, prog *core.Prog) {
	r := c.NewRule("R13.7", "S1", "format names that are aliases for the JSON codec are aliases for the URI codec; every time.Time format has a URI case", 5)
	irp := prog.PkgBy[pkgIR]
	if irp == nil {
		r.Undecided("load", "-", "gen/ir not loaded")
		return
	}
	var jsonFmt, uriFmt *ast.FuncDecl
	mapLits := map[string]*ast.CompositeLit{}
	for _, f := range irp.Syntax {
		for _, d := range f.Decls {
			switch x := d.(type) {
			case *ast.FuncDecl:
				if x.Recv == nil || x.Body == nil {
					continue
				}
				switch {
				case x.Name.Name == "Format" && astRecvName(x.Recv.List[0].Type) == "JSON":
					jsonFmt = x
				case x.Name.Name == "uriFormat" && astRecvName(x.Recv.List[0].Type) == "Type":
					uriFmt = x
				}
			case *ast.GenDecl:
				for _, sp := range x.Specs {
					if vs, ok := sp.(*ast.ValueSpec); ok {
						for i, id := range vs.Names {
							if i < len(vs.Values) {
								if cl, ok := vs.Values[i].(*ast.CompositeLit); ok {
									mapLits[id.Name] = cl
								}
							}
						}
					}
				}
			}
		}
	}
	if jsonFmt == nil || uriFmt == nil {
		r.Undecided("anchor:Format/uriFormat", "-", "ir.JSON.Format or ir.Type.uriFormat not found")
		return
	}
	jt := switchTerms(jsonFmt)
	ut := switchTerms(uriFmt)
	if ut == nil {
		ut = map[string]map[string]bool{}
	}
	// table lookups: `if v, ok := table[s.Format]; ok { return v }`
	ast.Inspect(uriFmt.Body, func(n ast.Node) bool {
		ix, ok := n.(*ast.IndexExpr)
		if !ok {
			return true
		}
		id, ok := ix.X.(*ast.Ident)
		if !ok {
			return true
		}
		cl := mapLits[id.Name]
		if cl == nil {
			return true
		}
		for _, e := range cl.Elts {
			kv, ok := e.(*ast.KeyValueExpr)
			if !ok {
				continue
			}
			k, ok := strLit(kv.Key)
			if !ok {
				continue
			}
			if ut[k] == nil {
				ut[k] = map[string]bool{}
			}
			ut[k][types.ExprString(kv.Value)] = true
		}
		return true
	})
	if len(jt) == 0 {
		r.Undecided("anchor:format-switch", c.Pos(jsonFmt.Pos()), "no switch over format labels recognised in JSON.Format")
		return
	}
	// alias groups of the JSON side
	groups := map[string][]string{}
	for l, t := range jt {
		groups[termKey(t)] = append(groups[termKey(t)], l)
	}
	var keys []string
	for k := range groups {
		keys = append(keys, k)
	}
	sort.Strings(keys)
	n := 0
	for _, k := range keys {
		g := groups[k]
		if len(g) < 2 {
			continue
		}
		sort.Strings(g)
		n++
		// generic terms such as "String" + Capitalize(f) differ per label by construction: compare presence only
		first, firstOK := ut[g[0]]
		same := true
		for _, l := range g[1:] {
			t, ok := ut[l]
			if ok != firstOK {
				same = false
			}
			if ok && firstOK && termKey(t) != termKey(first) && !strings.Contains(termKey(t), "\"") {
				same = false
			}
		}
		key := "format-alias:" + strings.Join(g, "/")
		if same {
			r.Pass(fmt.Sprintf("%s: JSON codec %s; URI side treats the names alike", key, k))
		} else {
			var desc []string
			for _, l := range g {
				if t, ok := ut[l]; ok {
					desc = append(desc, fmt.Sprintf("%q → %s", l, termKey(t)))
				} else {
					desc = append(desc, fmt.Sprintf("%q → (type default)", l))
				}
			}
			r.Fail(key, c.Pos(uriFmt.Pos()), fmt.Sprintf("the format names %v select the same JSON codec (%s) but ir.Type.uriFormat treats them differently: %s — a parameter declared with one spelling is sent in another wire representation", g, k, strings.Join(desc, ", ")))
		}
	}
	if n == 0 {
		r.Undecided("format-alias:none", c.Pos(jsonFmt.Pos()), "JSON.Format has no two labels with the same codec: the alias groups the rule looks for are gone")
	}
	// the unix formats are declared on integer schemas as well as on string schemas (JSON.Format serves both through
	// typePrefix): on the URI side their arms must not sit behind a test of the schema type
	{
		var stack []ast.Node
		ast.Inspect(uriFmt.Body, func(n ast.Node) bool {
			if n == nil {
				stack = stack[:len(stack)-1]
				return true
			}
			stack = append(stack, n)
			cc, ok := n.(*ast.CaseClause)
			if !ok {
				return true
			}
			isUnix := false
			for _, e := range cc.List {
				if sv, ok := strLit(e); ok && strings.HasPrefix(sv, "unix") {
					isUnix = true
				}
			}
			if !isUnix {
				return true
			}
			gate := ""
			for _, anc := range stack[:len(stack)-1] {
				if is, ok := anc.(*ast.IfStmt); ok {
					if cs := types.ExprString(is.Cond); strings.Contains(cs, ".Type ") || strings.HasSuffix(cs, ".Type") {
						gate = cs
					}
				}
			}
			ast.Inspect(cc, func(m ast.Node) bool {
				if is, ok := m.(*ast.IfStmt); ok {
					if cs := types.ExprString(is.Cond); strings.Contains(cs, ".Type ") {
						gate = cs
					}
				}
				return true
			})
			key := "format-unix-type-gated"
			if gate == "" {
				r.Pass("unix format arms of uriFormat do not depend on the schema type")
			} else {
				r.Fail(key, c.Pos(cc.Pos()), fmt.Sprintf("the unix format arm of ir.Type.uriFormat sits behind `%s`: an integer-typed parameter with format unix / unix-milli … falls through to the default text form of time.Time (\"15:04:05\") while its JSON sibling uses the declared unit", gate))
			}
			return true
		})
	}
	// the formats carried by time.Time share one Go type and therefore one default URI codec: each of them
	// needs its own case on the URI side, or it is sent in the default representation
	var labels []string
	for l := range jt {
		labels = append(labels, l)
	}
	sort.Strings(labels)
	for _, l := range labels {
		k := termKey(jt[l])
		if !(strings.Contains(k, "Unix") || k == `"Date"` || k == `"Time"` || k == `"DateTime"`) {
			continue
		}
		if _, ok := ut[l]; ok {
			r.Pass(fmt.Sprintf("format-time:%s has a URI codec case", l))
		} else {
			r.Fail("format-time:"+l, c.Pos(uriFmt.Pos()), fmt.Sprintf("format %q selects the JSON codec %s for a time.Time value, but ir.Type.uriFormat has no case for it: parameters use the type's default text form (conv.TimeToString), not the declared one", l, k))
		}
	}
}
