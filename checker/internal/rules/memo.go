package rules

import (
	"fmt"
	"go/token"
	"go/types"
	"sort"
	"strings"

	"golang.org/x/tools/go/ssa"

	"ogenverif/internal/core"
)

// checkSkipMemoKeyCoversInputs: the read-set rule for long-lived memo tables.
//
// A *skip memo* is a map that outlives the call (a field of a struct reached
// through a parameter / receiver / captured variable, or a package-level
// variable) which a function consults first and, on a hit, leaves without
// doing the work that the rest of its body does; the same function (or a
// closure it defers) inserts into that map. Answering from the table is only
// right when the key determines everything the skipped work would have read.
//
// For every such site the rule computes, on SSA,
//   - the key atoms: the access paths (root.field.field…) of the values the
//     key is built from, through struct literals and conversions;
//   - the input atoms of the skipped region (the blocks dominated by the miss
//     edge, closures made there included): access paths of everything defined
//     outside the region and read inside, one call edge deep for in-module
//     callees that receive such a value whole;
//
// and demands that every input atom is covered: a key atom is a prefix of it,
// or it is rooted at the object that owns the table (long-lived state, by
// assumption stable while the table lives), or it is a function value, or it
// only flows into the construction of error values / diagnostics (a memo that
// records successes may ignore what only shapes the message), or it is a
// per-call scratch container (a map / slice made by the enclosing function).
// An uncovered atom is an input on which the skipped work depends and the key
// does not: the second caller that differs only there gets the first caller's
// answer.
func checkSkipMemoKeyCoversInputs(c *core.Ctx, r *core.Rule, prog *core.Prog, exempt map[string]string, pkgs ...string) {
	n := 0
	for _, pp := range pkgs {
		pkg := prog.ByPath[pp]
		if pkg == nil {
			continue
		}
		memoCallSites = map[*ssa.Function][]ssa.CallInstruction{}
		for _, top := range core.PkgFuncs(prog.SSA, pkg) {
			for _, fn := range core.AllFuncs(top) {
				for _, call := range core.Calls(fn) {
					if cal := call.Common().StaticCallee(); cal != nil {
						memoCallSites[cal] = append(memoCallSites[cal], call)
					}
				}
			}
		}
		for _, top := range core.PkgFuncs(prog.SSA, pkg) {
			for _, fn := range core.AllFuncs(top) {
				for _, site := range findSkipMemos(fn) {
					n++
					key := fmt.Sprintf("memo-inputs:%s:%s", fnKeyFull(fn), site.mapName)
					keyAtoms := map[string]bool{}
					for _, k := range site.keys {
						for _, a := range keyAtomsOf(k, 0) {
							keyAtoms[a] = true
						}
					}
					inputs := regionInputs(fn, site)
					var missing []string
					for _, in := range inputs {
						if coveredByKey(in.path, keyAtoms) || in.path == "" {
							continue
						}
						if strings.HasPrefix(in.path+".", site.ownerRoot+".") {
							continue
						}
						if in.diagnosticOnly || in.funcValue || in.scratch {
							continue
						}
						// a local of the enclosing function computed before the closure was made: what it was computed from
						root, _, _ := strings.Cut(in.path, ".")
						if roots := derivedLocalRoots(fn, root); roots != nil {
							for _, rp := range sortedKeysOf(roots) {
								if rp == "?" || coveredByKey(rp, keyAtoms) || strings.HasPrefix(rp+".", site.ownerRoot+".") || llRootName(fn, rp) {
									continue
								}
								missing = append(missing, rp+" (through "+root+")")
							}
							continue
						}
						missing = append(missing, in.path)
					}
					sort.Strings(missing)
					missing = uniqStrings(missing)
					ka := sortedKeysOf(keyAtoms)
					if len(missing) == 0 {
						r.Pass(fmt.Sprintf("%s: key {%s} covers the %d inputs of the skipped work", key, strings.Join(ka, ", "), len(inputs)))
						continue
					}
					full := key + ":" + strings.Join(missing, ",")
					if why, ok := exempt[full]; ok {
						r.Justified++
						r.Pass(fmt.Sprintf("%s: reviewed (%s)", full, why))
						continue
					}
					r.Fail(full, c.Pos(site.lookup.Pos()), fmt.Sprintf("%s answers from the long-lived table %s when the key {%s} was seen before and skips the rest of its body, but that body also reads %s, which the key does not determine: a later call that differs only there is answered with the earlier call's result", fnKeyFull(fn), site.mapName, strings.Join(ka, ", "), strings.Join(missing, ", ")))
				}
			}
		}
	}
	r.Note("skip-memo sites (lookup on a long-lived map, hit leaves, same function inserts): %d", n)
}

// skipMemoReviewed: sites whose uncovered inputs were read and argued harmless, keyed by site + the uncovered atoms (a
// new uncovered atom at the same site is reported).
var skipMemoReviewed = map[string]string{}

type skipMemo struct {
	lookup    *ssa.Lookup
	mapName   string // owner type + field, or global name
	ownerRoot string // access path of the object that holds the map ("" for a global)
	keys      []ssa.Value
	miss      *ssa.BasicBlock
}

// memoCallSites: static call sites per callee in the package under analysis (for map parameters).
var memoCallSites map[*ssa.Function][]ssa.CallInstruction

// paramMapLongLived: the map parameter receives, at some call site in the package, a map that lives in a field or a
// package-level variable (directly or through the same parameter of the caller, one level).
func paramMapLongLived(p *ssa.Parameter, depth int) (string, bool) {
	fn := p.Parent()
	idx := -1
	for i, q := range fn.Params {
		if q == p {
			idx = i
		}
	}
	if idx < 0 || depth > 2 {
		return "", false
	}
	for _, call := range memoCallSites[fn] {
		args := call.Common().Args
		if idx >= len(args) {
			continue
		}
		switch a := args[idx].(type) {
		case *ssa.UnOp:
			if a.Op != token.MUL {
				continue
			}
			switch x := a.X.(type) {
			case *ssa.Global:
				return core.ShortPkg(x.Pkg.Pkg.Path()) + "." + x.Name(), true
			case *ssa.FieldAddr:
				if pt, ok := x.X.Type().Underlying().(*types.Pointer); ok {
					if st, ok := pt.Elem().Underlying().(*types.Struct); ok {
						if _, isAlloc := x.X.(*ssa.Alloc); !isAlloc {
							tn := types.TypeString(pt.Elem(), func(p *types.Package) string { return p.Name() })
							return tn + "." + st.Field(x.Field).Name(), true
						}
					}
				}
			}
		case *ssa.Parameter:
			if a.Parent() != fn {
				if n, ok := paramMapLongLived(a, depth+1); ok {
					return n, true
				}
			}
		}
	}
	return "", false
}

// cellParam: the cell (a spilled parameter, or a free variable bound to one in the enclosing function) holds a parameter
// and nothing else.
func cellParam(cell ssa.Value, d int) *ssa.Parameter {
	if d > 3 {
		return nil
	}
	switch x := cell.(type) {
	case *ssa.Alloc:
		var p *ssa.Parameter
		for _, ref := range *x.Referrers() {
			if st, ok := ref.(*ssa.Store); ok && st.Addr == ssa.Value(x) {
				q, isP := st.Val.(*ssa.Parameter)
				if !isP || p != nil {
					return nil
				}
				p = q
			}
		}
		return p
	case *ssa.FreeVar:
		fn := x.Parent()
		par := fn.Parent()
		if par == nil {
			return nil
		}
		for _, b := range par.Blocks {
			for _, in := range b.Instrs {
				if mc, ok := in.(*ssa.MakeClosure); ok && mc.Fn == ssa.Value(fn) {
					for i, fv := range fn.FreeVars {
						if fv == x {
							return cellParam(mc.Bindings[i], d+1)
						}
					}
				}
			}
		}
	}
	return nil
}

// mapIdentity names a long-lived map: field of a struct not allocated in fn, or a global.
func mapIdentity(v ssa.Value) (name, ownerRoot string, ok bool) {
	if p, isP := v.(*ssa.Parameter); isP {
		if _, isMap := p.Type().Underlying().(*types.Map); isMap {
			if n, ok := paramMapLongLived(p, 0); ok {
				return n + " (as parameter " + p.Name() + ")", p.Name(), true
			}
		}
		return "", "", false
	}
	if fv, isFV := v.(*ssa.FreeVar); isFV {
		_ = fv
		return "", "", false
	}
	u, isU := v.(*ssa.UnOp)
	if !isU || u.Op != token.MUL {
		return "", "", false
	}
	if p := cellParam(u.X, 0); p != nil {
		return mapIdentity(p)
	}
	switch x := u.X.(type) {
	case *ssa.Global:
		return core.ShortPkg(x.Pkg.Pkg.Path()) + "." + x.Name(), "", true
	case *ssa.FieldAddr:
		st, okS := x.X.Type().Underlying().(*types.Pointer)
		if !okS {
			return "", "", false
		}
		s, okS := st.Elem().Underlying().(*types.Struct)
		if !okS {
			return "", "", false
		}
		root := accessPathOf(x.X, 0)
		if root == "" {
			return "", "", false
		}
		tn := types.TypeString(st.Elem(), func(p *types.Package) string { return p.Name() })
		return tn + "." + s.Field(x.Field).Name(), root, true
	}
	return "", "", false
}

// accessPathOf renders root.field.field for values read out of parameters, free variables and globals. "" if not nameable
// (results of calls, locals allocated here, phis).
func accessPathOf(v ssa.Value, d int) string {
	if d > 8 {
		return ""
	}
	switch x := v.(type) {
	case *ssa.Parameter:
		return x.Name()
	case *ssa.FreeVar:
		return x.Name()
	case *ssa.Global:
		return core.ShortPkg(x.Pkg.Pkg.Path()) + "." + x.Name()
	case *ssa.UnOp:
		if x.Op == token.MUL {
			return accessPathOf(x.X, d+1)
		}
	case *ssa.FieldAddr:
		b := accessPathOf(x.X, d+1)
		if b == "" {
			return ""
		}
		if pt, ok := x.X.Type().Underlying().(*types.Pointer); ok {
			if s, ok := pt.Elem().Underlying().(*types.Struct); ok {
				return b + "." + s.Field(x.Field).Name()
			}
		}
	case *ssa.Field:
		b := accessPathOf(x.X, d+1)
		if b == "" {
			return ""
		}
		if s, ok := x.X.Type().Underlying().(*types.Struct); ok {
			return b + "." + s.Field(x.Field).Name()
		}
	case *ssa.ChangeType:
		return accessPathOf(x.X, d+1)
	case *ssa.Convert:
		return accessPathOf(x.X, d+1)
	case *ssa.MakeInterface:
		return accessPathOf(x.X, d+1)
	case *ssa.IndexAddr:
		if b := accessPathOf(x.X, d+1); b != "" {
			return b + "[]"
		}
	case *ssa.Index:
		if b := accessPathOf(x.X, d+1); b != "" {
			return b + "[]"
		}
	case *ssa.Lookup:
		if _, isMap := x.X.Type().Underlying().(*types.Map); isMap {
			if b := accessPathOf(x.X, d+1); b != "" {
				return b + "[]"
			}
		}
	case *ssa.Extract:
		switch t := x.Tuple.(type) {
		case *ssa.Next:
			if rg, ok := t.Iter.(*ssa.Range); ok && x.Index >= 1 {
				if b := accessPathOf(rg.X, d+1); b != "" {
					if x.Index == 1 {
						return b + "[key]"
					}
					return b + "[]"
				}
			}
		case *ssa.Lookup:
			if x.Index == 0 {
				return accessPathOf(t, d+1)
			}
		}
	case *ssa.Alloc:
		// a cell holding one stored value (spilled parameter / captured variable): the stored value's path
		var only ssa.Value
		cnt := 0
		for _, ref := range *x.Referrers() {
			if st, ok := ref.(*ssa.Store); ok && st.Addr == ssa.Value(x) {
				only = st.Val
				cnt++
			}
		}
		if cnt == 1 {
			return accessPathOf(only, d+1)
		}
	}
	return ""
}

func findSkipMemos(fn *ssa.Function) []skipMemo {
	var out []skipMemo
	if len(fn.Blocks) == 0 {
		return nil
	}
	// inserts in fn and the closures it makes
	type ins struct {
		name string
		key  ssa.Value
	}
	var inserts []ins
	var collect func(f *ssa.Function, d int)
	collect = func(f *ssa.Function, d int) {
		for _, b := range f.Blocks {
			for _, in := range b.Instrs {
				if mu, ok := in.(*ssa.MapUpdate); ok {
					if name, _, ok := mapIdentity(mu.Map); ok {
						inserts = append(inserts, ins{name, mu.Key})
					}
				}
			}
		}
		if d < 2 {
			for _, a := range f.AnonFuncs {
				collect(a, d+1)
			}
		}
	}
	collect(fn, 0)
	if len(inserts) == 0 {
		return nil
	}
	for _, b := range fn.Blocks {
		for _, in := range b.Instrs {
			lk, ok := in.(*ssa.Lookup)
			if !ok {
				continue
			}
			if _, isMap := lk.X.Type().Underlying().(*types.Map); !isMap {
				continue
			}
			name, owner, ok := mapIdentity(lk.X)
			if !ok {
				continue
			}
			has := false
			for _, i := range inserts {
				if i.name == name {
					has = true
				}
			}
			if !has {
				continue
			}
			// the branch taken on a hit
			hit, miss := hitMissBlocks(lk)
			if hit == nil || miss == nil {
				continue
			}
			if !leavesQuickly(hit, miss) {
				continue
			}
			out = append(out, skipMemo{lookup: lk, mapName: name, ownerRoot: owner, keys: []ssa.Value{lk.Index}, miss: miss})
		}
	}
	return out
}

// hitMissBlocks: successors of the If that tests the lookup (comma-ok flag, or value != nil / == nil).
func hitMissBlocks(lk *ssa.Lookup) (hit, miss *ssa.BasicBlock) {
	var conds []struct {
		v      ssa.Value
		negate bool
	}
	for _, ref := range *lk.Referrers() {
		switch x := ref.(type) {
		case *ssa.Extract:
			if lk.CommaOk && x.Index == 1 {
				conds = append(conds, struct {
					v      ssa.Value
					negate bool
				}{x, false})
			}
			if lk.CommaOk && x.Index == 0 {
				for _, r2 := range *x.Referrers() {
					if bo, ok := r2.(*ssa.BinOp); ok && (bo.Op == token.NEQ || bo.Op == token.EQL) && (core.IsNilConst(bo.X) || core.IsNilConst(bo.Y)) {
						conds = append(conds, struct {
							v      ssa.Value
							negate bool
						}{bo, bo.Op == token.EQL})
					}
				}
			}
		case *ssa.BinOp:
			if !lk.CommaOk && (x.Op == token.NEQ || x.Op == token.EQL) && (core.IsNilConst(x.X) || core.IsNilConst(x.Y)) {
				conds = append(conds, struct {
					v      ssa.Value
					negate bool
				}{x, x.Op == token.EQL})
			}
		}
	}
	for _, cd := range conds {
		for _, ref := range *cd.v.Referrers() {
			if iff, ok := ref.(*ssa.If); ok {
				t, f := iff.Block().Succs[0], iff.Block().Succs[1]
				if cd.negate {
					t, f = f, t
				}
				return t, f
			}
		}
	}
	return nil, nil
}

// leavesQuickly: the hit block returns (directly or through jumps) without entering the miss region and without calling
// into the module.
func leavesQuickly(hit, miss *ssa.BasicBlock) bool {
	seen := map[*ssa.BasicBlock]bool{}
	b := hit
	for i := 0; i < 4 && b != nil; i++ {
		if b == miss || seen[b] {
			return false
		}
		// `continue`: back at a block that dominates the test (the loop head) without having entered the miss side
		if i > 0 && b.Dominates(miss) && !miss.Dominates(b) {
			return true
		}
		seen[b] = true
		for _, in := range b.Instrs {
			if mi, ok := in.(*ssa.MakeInterface); ok && core.IsErrorType(mi.Type()) {
				return false
			}
			if call, ok := in.(ssa.CallInstruction); ok {
				if _, isDefer := in.(*ssa.Defer); isDefer {
					continue
				}
				if sig := call.Common().Signature(); sig.Results().Len() > 0 && core.IsErrorType(sig.Results().At(sig.Results().Len()-1).Type()) {
					return false
				}
				if f := call.Common().StaticCallee(); f != nil && core.InModule(f) {
					return false
				}
				if call.Common().StaticCallee() == nil {
					if _, isB := call.Common().Value.(*ssa.Builtin); !isB {
						return false
					}
				}
			}
		}
		switch t := b.Instrs[len(b.Instrs)-1].(type) {
		case *ssa.Return:
			return returnsSuccess(t)
		case *ssa.Jump:
			b = t.Block().Succs[0]
			if b.Dominates(miss) && !miss.Dominates(b) {
				return true // continue
			}
			// a jump into a block that the miss side also reaches is a join, not a skip
			if len(b.Preds) > 1 {
				if ret, isRet := b.Instrs[len(b.Instrs)-1].(*ssa.Return); isRet && len(b.Instrs) <= 3 {
					return returnsSuccess(ret)
				}
				return false
			}
		default:
			return false
		}
	}
	return false
}

// returnsSuccess: no error result of the return is a non-nil value (a hit that reports a conflict is a uniqueness check,
// not a memo).
func returnsSuccess(ret *ssa.Return) bool {
	for _, v := range ret.Results {
		if !core.IsErrorType(v.Type()) || core.IsNilConst(v) {
			continue
		}
		switch x := v.(type) {
		case *ssa.Call, *ssa.MakeInterface, *ssa.Extract:
			return false
		case *ssa.Phi:
			for _, e := range x.Edges {
				if _, isCall := e.(*ssa.Call); isCall {
					return false
				}
				if _, isMI := e.(*ssa.MakeInterface); isMI {
					return false
				}
			}
		}
	}
	return true
}

// longLivedOwner: per-document singletons whose own state every table in them takes as stable.
func longLivedOwner(t types.Type) bool {
	if p, ok := t.Underlying().(*types.Pointer); ok {
		t = p.Elem()
	}
	n, ok := types.Unalias(t).(*types.Named)
	if !ok || n.Obj().Pkg() == nil {
		return false
	}
	switch n.Obj().Pkg().Path() + "." + n.Obj().Name() {
	case core.Module + "/openapi/parser.parser", core.Module + "/jsonschema.Parser", core.Module + "/gen.Generator":
		return true
	}
	return false
}

func keyAtomsOf(v ssa.Value, d int) []string {
	if d > 4 {
		return nil
	}
	if p := accessPathOf(v, 0); p != "" {
		return []string{p}
	}
	var out []string
	switch x := v.(type) {
	case *ssa.UnOp:
		if al, ok := x.X.(*ssa.Alloc); ok && x.Op == token.MUL {
			for _, ref := range *al.Referrers() {
				if fa, ok := ref.(*ssa.FieldAddr); ok {
					for _, u := range *fa.Referrers() {
						if st, ok := u.(*ssa.Store); ok && st.Addr == ssa.Value(fa) {
							out = append(out, keyAtomsOf(st.Val, d+1)...)
						}
					}
				}
				if st, ok := ref.(*ssa.Store); ok && st.Addr == ssa.Value(al) {
					out = append(out, keyAtomsOf(st.Val, d+1)...)
				}
				if ia, ok := ref.(*ssa.IndexAddr); ok {
					for _, u := range *ia.Referrers() {
						if st, ok := u.(*ssa.Store); ok && st.Addr == ssa.Value(ia) {
							out = append(out, keyAtomsOf(st.Val, d+1)...)
						}
					}
				}
			}
		}
	case *ssa.BinOp:
		out = append(out, keyAtomsOf(x.X, d+1)...)
		out = append(out, keyAtomsOf(x.Y, d+1)...)
	case *ssa.Call:
		// a key computed by a function of values: the arguments are what it is made of (an injective
		// construction is the business of the lossy-key rule)
		for _, a := range x.Common().Args {
			out = append(out, keyAtomsOf(a, d+1)...)
		}
		if x.Common().IsInvoke() {
			out = append(out, keyAtomsOf(x.Common().Value, d+1)...)
		}
	case *ssa.Extract:
		out = append(out, keyAtomsOf(x.Tuple, d+1)...)
	case *ssa.Phi:
		for _, e := range x.Edges {
			out = append(out, keyAtomsOf(e, d+1)...)
		}
	case *ssa.MakeInterface:
		out = append(out, keyAtomsOf(x.X, d+1)...)
	case *ssa.Convert:
		out = append(out, keyAtomsOf(x.X, d+1)...)
	case *ssa.ChangeType:
		out = append(out, keyAtomsOf(x.X, d+1)...)
	}
	return out
}

type memoInput struct {
	path           string
	diagnosticOnly bool
	funcValue      bool
	scratch        bool
}

// regionInputs lists what the blocks dominated by the miss edge read from outside.
func regionInputs(fn *ssa.Function, site skipMemo) []memoInput {
	inRegion := func(b *ssa.BasicBlock) bool { return site.miss.Dominates(b) }
	got := map[string]*memoInput{}
	add := func(path string, v ssa.Value, user ssa.Instruction, scope func(ssa.Instruction) bool) {
		if path == "" {
			return
		}
		mi := got[path]
		if mi == nil {
			mi = &memoInput{path: path, diagnosticOnly: true}
			got[path] = mi
			if rootIsLongLived(v) {
				mi.scratch = true
			}
			if _, ok := v.Type().Underlying().(*types.Signature); ok {
				mi.funcValue = true
			}
		}
		if !flowsOnlyToDiagnostics(v, user, scope, 0, map[ssa.Value]bool{}) {
			mi.diagnosticOnly = false
		}
	}
	visitedFn := map[*ssa.Function]bool{fn: true}
	var scanFunc func(f *ssa.Function, blocks func(*ssa.BasicBlock) bool, depth int, rename func(string) string)
	scanFunc = func(f *ssa.Function, blocks func(*ssa.BasicBlock) bool, depth int, rename func(string) string) {
		scope := func(in ssa.Instruction) bool { return in.Parent() == f && blocks(in.Block()) }
		for _, b := range f.Blocks {
			if !blocks(b) {
				continue
			}
			for _, in := range b.Instrs {
				if in == ssa.Instruction(site.lookup) {
					continue
				}
				// path-extending instructions (field selection, loads of cells and fields of outside roots) are not
				// reads by themselves: what is done with the value they produce is
				switch x := in.(type) {
				case *ssa.FieldAddr, *ssa.Field:
					continue
				case *ssa.UnOp:
					if x.Op == token.MUL && accessPathOf(x, 0) != "" {
						continue
					}
				}
				for _, op := range in.Operands(nil) {
					if *op == nil {
						continue
					}
					v := *op
					switch v.(type) {
					case *ssa.Const, *ssa.Function, *ssa.Builtin:
						continue
					}
					p := accessPathOf(v, 0)
					if p == "" {
						continue
					}
					// whole value handed to an in-module callee: one level of field sensitivity
					if call, ok := in.(ssa.CallInstruction); ok && depth < 2 {
						if callee := call.Common().StaticCallee(); callee != nil && core.InModule(callee) && len(callee.Blocks) > 0 && !onlyErrorResults(callee.Signature) {
							idx := -1
							for i, a := range call.Common().Args {
								if a == v {
									idx = i
								}
							}
							if idx >= 0 && idx < len(callee.Params) {
								pname := callee.Params[idx].Name()
								base := rename(p)
								if base == "" {
									continue
								}
								scanFunc(callee, func(*ssa.BasicBlock) bool { return true }, depth+1, func(s string) string {
									if s == pname {
										return base
									}
									if strings.HasPrefix(s, pname+".") {
										return base + s[len(pname):]
									}
									return "" // other roots of the callee are its own business
								})
								continue
							}
						}
					}
					add(rename(p), v, in, scope)
				}
				// a call through a local function variable (`check`, `allowed`): the closures assigned to a variable
				// of that name anywhere in the enclosing top-level function; their free variables are the same
				// variables, so the names carry over
				if call, ok := in.(ssa.CallInstruction); ok && depth < 3 {
					if ld, ok := call.Common().Value.(*ssa.UnOp); ok && ld.Op == token.MUL && !call.Common().IsInvoke() {
						name := ""
						switch cell := ld.X.(type) {
						case *ssa.FreeVar:
							name = cell.Name()
						case *ssa.Alloc:
							name = cell.Comment
						}
						if name != "" {
							for _, cf := range closuresNamed(f, name) {
								if visitedFn[cf] {
									continue
								}
								visitedFn[cf] = true
								own := map[string]bool{}
								for _, pa := range cf.Params {
									own[pa.Name()] = true
								}
								scanFunc(cf, func(*ssa.BasicBlock) bool { return true }, depth+1, func(s string) string {
									root, _, _ := strings.Cut(s, ".")
									if own[root] {
										return ""
									}
									return rename(s)
								})
							}
						}
					}
				}
				// closures made in the region read their free variables
				if mc, ok := in.(*ssa.MakeClosure); ok && depth < 2 {
					cf := mc.Fn.(*ssa.Function)
					binds := map[string]string{}
					for i, fv := range cf.FreeVars {
						binds[fv.Name()] = accessPathOf(mc.Bindings[i], 0)
					}
					scanFunc(cf, func(*ssa.BasicBlock) bool { return true }, depth+1, func(s string) string {
						root, rest, _ := strings.Cut(s, ".")
						if b, ok := binds[root]; ok && b != "" {
							if rest != "" {
								return rename(b + "." + rest)
							}
							return rename(b)
						}
						return ""
					})
				}
			}
		}
	}
	scanFunc(fn, inRegion, 0, func(s string) string { return s })
	// per-document singletons by root name (paths that came back from callees carry the caller's root)
	llRoots := map[string]bool{}
	for f := fn; f != nil; f = f.Parent() {
		for _, pa := range f.Params {
			if longLivedOwner(pa.Type()) {
				llRoots[pa.Name()] = true
			}
		}
		for _, fv := range f.FreeVars {
			t := fv.Type()
			if pt, ok := t.Underlying().(*types.Pointer); ok && longLivedOwner(pt.Elem()) {
				llRoots[fv.Name()] = true
			}
			if longLivedOwner(t) {
				llRoots[fv.Name()] = true
			}
		}
	}
	for pth, mi := range got {
		root, _, _ := strings.Cut(pth, ".")
		if llRoots[root] {
			mi.scratch = true
		}
	}
	// scratch containers: free variables bound to a map / slice the enclosing function makes
	for p, mi := range got {
		root, _, _ := strings.Cut(p, ".")
		for _, fv := range fn.FreeVars {
			if fv.Name() == root {
				if pt, ok := fv.Type().Underlying().(*types.Pointer); ok {
					switch pt.Elem().Underlying().(type) {
					case *types.Map, *types.Slice:
						if freeVarIsLocalContainer(fn, fv) {
							mi.scratch = true
						}
					case *types.Signature:
						mi.funcValue = true
					}
				}
			}
		}
	}
	var out []memoInput
	for _, mi := range got {
		out = append(out, *mi)
	}
	sort.Slice(out, func(i, j int) bool { return out[i].path < out[j].path })
	return out
}

// rootIsLongLived: the access path of v starts at a per-document singleton.
func rootIsLongLived(v ssa.Value) bool {
	for d := 0; d < 10 && v != nil; d++ {
		switch x := v.(type) {
		case *ssa.Parameter:
			return longLivedOwner(x.Type())
		case *ssa.FreeVar:
			if p, ok := x.Type().Underlying().(*types.Pointer); ok && longLivedOwner(p.Elem()) {
				return true
			}
			return longLivedOwner(x.Type())
		case *ssa.UnOp:
			v = x.X
		case *ssa.FieldAddr:
			if longLivedOwner(x.X.Type()) {
				return true
			}
			v = x.X
		case *ssa.Field:
			v = x.X
		case *ssa.ChangeType:
			v = x.X
		case *ssa.Convert:
			v = x.X
		case *ssa.MakeInterface:
			v = x.X
		default:
			return false
		}
	}
	return false
}

// closuresNamed: the function literals stored into a local variable called name anywhere under f's top-level function.
func closuresNamed(f *ssa.Function, name string) []*ssa.Function {
	top := f
	for top.Parent() != nil {
		top = top.Parent()
	}
	var out []*ssa.Function
	for _, g := range core.AllFuncs(top) {
		for _, b := range g.Blocks {
			for _, in := range b.Instrs {
				st, ok := in.(*ssa.Store)
				if !ok {
					continue
				}
				mc, ok := st.Val.(*ssa.MakeClosure)
				if !ok {
					continue
				}
				switch cell := st.Addr.(type) {
				case *ssa.Alloc:
					if cell.Comment == name {
						out = append(out, mc.Fn.(*ssa.Function))
					}
				case *ssa.FreeVar:
					if cell.Name() == name {
						out = append(out, mc.Fn.(*ssa.Function))
					}
				}
			}
		}
	}
	return out
}

// onlyErrorResults: a function whose every result is an error builds a diagnostic; what it reads shapes the message.
func onlyErrorResults(sig *types.Signature) bool {
	if sig.Results().Len() == 0 {
		return false
	}
	for i := 0; i < sig.Results().Len(); i++ {
		if !core.IsErrorType(sig.Results().At(i).Type()) {
			return false
		}
	}
	return true
}

// sliceRoots: the access paths a value is computed from (backward data dependences through calls, lookups, arithmetic,
// struct literals), for values derived outside the skipped region. "?" marks a dependence that cannot be named.
func sliceRoots(v ssa.Value, d int, seen map[ssa.Value]bool, out map[string]bool) {
	if v == nil || seen[v] {
		return
	}
	seen[v] = true
	if d > 10 {
		out["?"] = true
		return
	}
	if p := accessPathOf(v, 0); p != "" {
		if al, isAlloc := rootAlloc(v); !isAlloc || spilledRoot(al) {
			out[p] = true
			return
		}
	}
	switch x := v.(type) {
	case *ssa.Const, *ssa.Function, *ssa.Builtin, *ssa.MakeMap, *ssa.MakeSlice, *ssa.MakeChan:
		return
	case *ssa.Alloc:
		for _, ref := range *x.Referrers() {
			switch y := ref.(type) {
			case *ssa.Store:
				if y.Addr == ssa.Value(x) {
					sliceRoots(y.Val, d+1, seen, out)
				}
			case *ssa.FieldAddr:
				for _, u := range *y.Referrers() {
					if st, ok := u.(*ssa.Store); ok && st.Addr == ssa.Value(y) {
						sliceRoots(st.Val, d+1, seen, out)
					}
				}
			case *ssa.IndexAddr:
				for _, u := range *y.Referrers() {
					if st, ok := u.(*ssa.Store); ok && st.Addr == ssa.Value(y) {
						sliceRoots(st.Val, d+1, seen, out)
					}
				}
			}
		}
		return
	case *ssa.Call:
		for _, a := range x.Common().Args {
			sliceRoots(a, d+1, seen, out)
		}
		if x.Common().IsInvoke() {
			sliceRoots(x.Common().Value, d+1, seen, out)
		}
		return
	}
	if in, ok := v.(ssa.Instruction); ok {
		for _, op := range in.Operands(nil) {
			if *op != nil {
				sliceRoots(*op, d+1, seen, out)
			}
		}
		return
	}
	out["?"] = true
}

// spilledRoot: the cell holds a parameter or a captured variable and nothing else.
func spilledRoot(al *ssa.Alloc) bool {
	n := 0
	for _, ref := range *al.Referrers() {
		if st, ok := ref.(*ssa.Store); ok && st.Addr == ssa.Value(al) {
			switch st.Val.(type) {
			case *ssa.Parameter, *ssa.FreeVar:
				n++
			default:
				return false
			}
		}
	}
	return n == 1
}

func rootAlloc(v ssa.Value) (*ssa.Alloc, bool) {
	for d := 0; d < 10; d++ {
		switch x := v.(type) {
		case *ssa.Alloc:
			return x, true
		case *ssa.UnOp:
			v = x.X
		case *ssa.FieldAddr:
			v = x.X
		case *ssa.Field:
			v = x.X
		default:
			return nil, false
		}
	}
	return nil, false
}

// derivedLocalRoots: a free variable of fn that is a local of the enclosing function computed from other values: the
// paths it was computed from. nil if the variable is not such a local.
func derivedLocalRoots(fn *ssa.Function, name string) map[string]bool {
	par := fn.Parent()
	if par == nil {
		return nil
	}
	for _, b := range par.Blocks {
		for _, in := range b.Instrs {
			mc, ok := in.(*ssa.MakeClosure)
			if !ok {
				continue
			}
			cf := mc.Fn.(*ssa.Function)
			for i, fv := range cf.FreeVars {
				if fv.Name() != name {
					continue
				}
				al, ok := mc.Bindings[i].(*ssa.Alloc)
				if !ok {
					continue
				}
				out := map[string]bool{}
				n := 0
				for _, ref := range *al.Referrers() {
					if st, ok := ref.(*ssa.Store); ok && st.Addr == ssa.Value(al) {
						if _, isParam := st.Val.(*ssa.Parameter); isParam {
							return nil // a spilled parameter is a root itself
						}
						n++
						sliceRoots(st.Val, 0, map[ssa.Value]bool{}, out)
					}
				}
				if n == 0 {
					return nil
				}
				return out
			}
		}
	}
	return nil
}

// llRootName: path starts at a per-document singleton visible from fn.
func llRootName(fn *ssa.Function, path string) bool {
	root, _, _ := strings.Cut(path, ".")
	for f := fn; f != nil; f = f.Parent() {
		for _, pa := range f.Params {
			if pa.Name() == root && longLivedOwner(pa.Type()) {
				return true
			}
		}
		for _, fv := range f.FreeVars {
			if fv.Name() != root {
				continue
			}
			t := fv.Type()
			if pt, ok := t.Underlying().(*types.Pointer); ok && longLivedOwner(pt.Elem()) {
				return true
			}
			if longLivedOwner(t) {
				return true
			}
		}
	}
	return false
}

func usedBeyondPaths(v ssa.Value) bool {
	refs := v.Referrers()
	if refs == nil {
		return true
	}
	for _, ref := range *refs {
		switch ref.(type) {
		case *ssa.FieldAddr, *ssa.Field:
			continue
		case *ssa.DebugRef:
			continue
		}
		return true
	}
	return false
}

// freeVarIsLocalContainer: the captured variable is a cell of the parent that is only ever assigned fresh containers.
func freeVarIsLocalContainer(fn *ssa.Function, fv *ssa.FreeVar) bool {
	par := fn.Parent()
	if par == nil {
		return false
	}
	for _, b := range par.Blocks {
		for _, in := range b.Instrs {
			mc, ok := in.(*ssa.MakeClosure)
			if !ok || mc.Fn != ssa.Value(fn) {
				continue
			}
			for i, v := range fn.FreeVars {
				if v != fv {
					continue
				}
				al, ok := mc.Bindings[i].(*ssa.Alloc)
				if !ok {
					return false
				}
				for _, ref := range *al.Referrers() {
					if st, ok := ref.(*ssa.Store); ok && st.Addr == ssa.Value(al) {
						switch st.Val.(type) {
						case *ssa.MakeMap, *ssa.MakeSlice:
						default:
							if !core.IsNilConst(st.Val) {
								return false
							}
						}
					}
				}
				return true
			}
		}
	}
	return false
}

// flowsOnlyToDiagnostics: within scope, the value (as used by `user`) ends up only in error values, formatted messages
// that end up in error values, or location/diagnostic helpers.
func flowsOnlyToDiagnostics(v ssa.Value, user ssa.Instruction, scope func(ssa.Instruction) bool, d int, seen map[ssa.Value]bool) bool {
	if d > 6 {
		return false
	}
	check := func(in ssa.Instruction) bool {
		switch x := in.(type) {
		case *ssa.DebugRef:
			return true
		case ssa.CallInstruction:
			cc := x.Common()
			name := core.CalleeName(cc)
			sig := cc.Signature()
			allErr := sig.Results().Len() > 0
			for i := 0; i < sig.Results().Len(); i++ {
				if !core.IsErrorType(sig.Results().At(i).Type()) {
					allErr = false
				}
			}
			if allErr {
				return true
			}
			if bi, ok := cc.Value.(*ssa.Builtin); ok && bi.Name() == "append" {
				// appended to a list: the list is stored, the element does not decide anything here
				if val, ok := in.(ssa.Value); ok && len(cc.Args) > 0 {
					return usesOnlyDiagnostic(val, scope, d+1, seen)
				}
			}
			if strings.HasPrefix(name, "fmt.Sprint") || strings.HasPrefix(name, "fmt.Errorf") {
				if val, ok := in.(ssa.Value); ok {
					return usesOnlyDiagnostic(val, scope, d+1, seen)
				}
			}
			return false
		case *ssa.MakeInterface:
			return usesOnlyDiagnostic(x, scope, d+1, seen)
		case *ssa.MapUpdate:
			// recorded as the value of an entry (interning table, registry): stored, not decided upon
			return x.Value == v && x.Key != v
		case *ssa.Phi:
			return usesOnlyDiagnostic(x, scope, d+1, seen)
		case *ssa.Convert:
			return usesOnlyDiagnostic(x, scope, d+1, seen)
		case *ssa.ChangeType:
			return usesOnlyDiagnostic(x, scope, d+1, seen)
		case *ssa.Store:
			// element of a variadic argument slice
			if ia, ok := x.Addr.(*ssa.IndexAddr); ok && x.Val == v {
				if al, ok := ia.X.(*ssa.Alloc); ok {
					for _, ref := range *al.Referrers() {
						if sl, ok := ref.(*ssa.Slice); ok {
							if !usesOnlyDiagnostic(sl, scope, d+1, seen) {
								return false
							}
						}
					}
					return true
				}
			}
			// stored into a field of a long-lived object or through a pointer (x.list = append(x.list, s)): recorded
			if x.Val == v {
				switch a := x.Addr.(type) {
				case *ssa.FieldAddr:
					if _, isAlloc := a.X.(*ssa.Alloc); !isAlloc {
						return true
					}
				}
			}
			// field of a struct literal that is itself only a diagnostic (wrapped error types)
			if fa, ok := x.Addr.(*ssa.FieldAddr); ok && x.Val == v {
				if al, ok := fa.X.(*ssa.Alloc); ok {
					if types.Implements(al.Type(), errorIface()) || types.Implements(types.NewPointer(al.Type()), errorIface()) {
						return true
					}
				}
			}
			return false
		}
		return false
	}
	return check(user)
}

func usesOnlyDiagnostic(v ssa.Value, scope func(ssa.Instruction) bool, d int, seen map[ssa.Value]bool) bool {
	if seen[v] {
		return true
	}
	seen[v] = true
	refs := v.Referrers()
	if refs == nil {
		return false
	}
	for _, ref := range *refs {
		if !flowsOnlyToDiagnostics(v, ref, scope, d, seen) {
			return false
		}
	}
	return true
}

func errorIface() *types.Interface {
	return types.Universe.Lookup("error").Type().Underlying().(*types.Interface)
}

func coveredByKey(path string, keyAtoms map[string]bool) bool {
	for k := range keyAtoms {
		if path == k || strings.HasPrefix(path, k+".") {
			return true
		}
	}
	return false
}

func sortedKeysOf(m map[string]bool) []string {
	var out []string
	for k := range m {
		out = append(out, k)
	}
	sort.Strings(out)
	return out
}
