package rules

import (
	"fmt"
	"go/ast"
	"go/token"
	"go/types"
	"sort"
	"strings"

	"golang.org/x/tools/go/ast/astutil"
	"golang.org/x/tools/go/cfg"
	"golang.org/x/tools/go/packages"
	"golang.org/x/tools/go/ssa"

	"ogenverif/internal/core"
)

func init() {
	register(&Property{
		ID: "C18",
		Meta: core.Meta{
			Level:       "other",
			Explanation: "Four structural obligations of json.Equal, each a necessary condition of 'equality holds exactly for equal JSON values': (R18.1) compare.equal dispatches on every jx.Type constant and returns false when the two types differ; (R18.2) in equalNumber no result that can be true is computed from a float64 comparison (floats may only justify false) — exact byte/zero/big.Rat comparisons decide equality; (R18.3) the enum duplicate scan compares every pair of distinct members of the same list with json.Equal and rejects on true; (R18.4) every path that returns the constant true has consumed a value from both decoders (otherwise the surrounding array/object iteration derails and equal composites compare as an error). The equivalence-relation laws over all JSON texts (reflexivity/symmetry/transitivity, e.g. with duplicate object keys) are NOT decided.",
			Assumptions: []string{"jx.Decoder methods consume exactly one value", "Num.Float64 is monotone (nearest-float rounding)"},
		},
		Run: runC18,
	})
}

func runC18(c *core.Ctx) error {
	prog, err := c.Program("./json", "./jsonschema")
	if err != nil {
		return err
	}
	r1 := c.NewRule("R18.1", "S1", "compare.equal is exhaustive over jx.Type; mismatched types are unequal", 7)
	r2 := c.NewRule("R18.2", "S1", "no possibly-true result of equalNumber flows from a float64 comparison", 3)
	r3 := c.NewRule("R18.3", "S1", "enum duplicate scan calls Equal on every pair i≠j of one list and rejects on true", 3)
	r4 := c.NewRule("R18.4", "S1", "constant-true returns are dominated by consuming both decoders", 3)

	eq := prog.Func(pkgJSON, "compare.equal")
	if eq == nil {
		r1.Undecided("anchor:compare.equal", "-", "json.compare.equal not found")
		return nil
	}
	// ---- R18.1: constants of jx.Type
	var jxType *types.Named
	var allConsts []string
	if jx := prog.PkgBy["github.com/go-faster/jx"]; jx != nil {
		if tn, ok := jx.Types.Scope().Lookup("Type").(*types.TypeName); ok {
			jxType, _ = tn.Type().(*types.Named)
		}
		for _, n := range jx.Types.Scope().Names() {
			if k, ok := jx.Types.Scope().Lookup(n).(*types.Const); ok && jxType != nil && types.Identical(k.Type(), jxType) {
				allConsts = append(allConsts, n)
			}
		}
	}
	if jxType == nil || len(allConsts) == 0 {
		r1.Undecided("anchor:jx.Type", "-", "jx.Type constants not found")
	} else {
		pkg := prog.PkgBy[pkgJSON]
		fd := methodDecl(pkg, "compare", "equal")
		handled := map[string]bool{}
		mismatchFalse := false
		if fd != nil {
			ast.Inspect(fd, func(n ast.Node) bool {
				sw, ok := n.(*ast.SwitchStmt)
				if !ok {
					return true
				}
				for _, st := range sw.Body.List {
					cc := st.(*ast.CaseClause)
					for _, x := range cc.List {
						// tagged: case jx.X ; tagless: lt == jx.Invalid / lt != rt
						ast.Inspect(x, func(m ast.Node) bool {
							if se, ok := m.(*ast.SelectorExpr); ok {
								if k, ok := pkg.TypesInfo.Uses[se.Sel].(*types.Const); ok && types.Identical(k.Type(), jxType) {
									if terminatesOrReturns(cc.Body) {
										handled[k.Name()] = true
									}
								}
							}
							return true
						})
						if be, ok := x.(*ast.BinaryExpr); ok && be.Op == token.NEQ && sw.Tag == nil {
							if isIdentOfType(pkg.TypesInfo, be.X, jxType) && isIdentOfType(pkg.TypesInfo, be.Y, jxType) {
								if len(cc.Body) == 1 {
									if ret, ok := cc.Body[0].(*ast.ReturnStmt); ok && len(ret.Results) == 2 {
										if id, ok := ret.Results[0].(*ast.Ident); ok && id.Name == "false" {
											mismatchFalse = true
										}
									}
								}
							}
						}
					}
				}
				return true
			})
		}
		sort.Strings(allConsts)
		for _, k := range allConsts {
			if handled[k] {
				r1.Pass("jx." + k + " has an arm in compare.equal")
			} else {
				r1.Fail("compare.equal:jx."+k, c.Pos(eq.Pos()), "jx."+k+" has no arm in compare.equal: such values reach the unreachable-panic")
			}
		}
		if mismatchFalse {
			r1.Pass("values of different JSON types compare false")
		} else {
			r1.Fail("compare.equal:type-mismatch", c.Pos(eq.Pos()), "no `lt != rt → false` arm: values of different JSON types are not reported unequal")
		}
	}

	// ---- R18.2
	if en := prog.Func(pkgJSON, "compare.equalNumber"); en == nil {
		r2.Undecided("anchor:equalNumber", "-", "json.compare.equalNumber not found")
	} else {
		n := 0
		for _, b := range en.Blocks {
			ret, ok := b.Instrs[len(b.Instrs)-1].(*ssa.Return)
			if !ok || len(ret.Results) != 2 {
				continue
			}
			n++
			if fc := floatCompareIn(ret.Results[0], map[ssa.Value]bool{}); fc != nil {
				r2.Fail("equalNumber:float-result", c.Pos(fc.Pos()), "equalNumber returns the result of a float64 comparison: numbers that differ beyond float64 precision (9007199254740993 vs 9007199254740992.0) compare equal")
			} else {
				r2.Pass(fmt.Sprintf("return at %s does not depend on a float comparison", c.Pos(ret.Pos())))
			}
		}
		// and: a float comparison may only guard `return false`
		for _, b := range en.Blocks {
			for _, in := range b.Instrs {
				bo, ok := in.(*ssa.BinOp)
				if !ok || !isFloat(bo.X.Type()) || (bo.Op != token.EQL && bo.Op != token.NEQ) {
					continue
				}
				for _, ref := range *bo.Referrers() {
					iff, ok := ref.(*ssa.If)
					if !ok {
						continue
					}
					// the "floats equal" edge must not lead directly to return true
					eqSucc := iff.Block().Succs[0]
					if bo.Op == token.NEQ {
						eqSucc = iff.Block().Succs[1]
					}
					if rt, ok := eqSucc.Instrs[len(eqSucc.Instrs)-1].(*ssa.Return); ok && isConstBool(rt.Results[0], true) {
						r2.Fail("equalNumber:float-guard-true", c.Pos(bo.Pos()), "equal float64 approximations lead directly to `return true`")
					} else {
						r2.Pass("float comparison only decides inequality")
					}
				}
			}
		}
		if n == 0 {
			r2.Undecided("equalNumber:returns", c.Pos(en.Pos()), "no return found")
		}
	}

	// ---- R18.4 consuming
	jsonPkg := prog.ByPath[pkgJSON]
	for _, fn := range core.PkgFuncs(prog.SSA, jsonPkg) {
		if fn.Signature.Recv() == nil || recvName(fn.Signature.Recv().Type()) != "compare" || fn.Parent() != nil {
			continue
		}
		for _, b := range fn.Blocks {
			ret, ok := b.Instrs[len(b.Instrs)-1].(*ssa.Return)
			if !ok || len(ret.Results) != 2 || !isConstBool(ret.Results[0], true) {
				continue
			}
			for _, side := range []string{"left", "right"} {
				if consumedBefore(fn, b, side) {
					r4.Pass(fmt.Sprintf("%s: return true at %s after consuming %s", fn.Name(), c.Pos(ret.Pos()), side))
				} else {
					r4.Fail(fmt.Sprintf("%s:return-true:%s", fn.Name(), side), c.Pos(ret.Pos()),
						fmt.Sprintf("%s returns true without consuming the value from the %s decoder: inside an array or object the next element is then misparsed and equal composites (e.g. [null] vs [null]) compare as an error", fn.Name(), side))
				}
			}
		}
	}

	// ---- R18.3 enum scan
	checkEnumScan(c, prog, r3)

	r5 := c.NewRule("R18.5", "S1", "scalar comparisons treat left and right symmetrically; equalNumber decides only through reviewed exact predicates", 8)
	r6 := c.NewRule("R18.6", "S1", "composite comparisons return true only after an iterator reported exhaustion", 2)
	checkSymmetry(c, prog, r5)
	checkExhaustion(c, prog, r6)
	checkRawTextNeverDecides(c, prog)
	checkNumberSpellingCanonical(c, prog)
	return nil
}

// checkRawTextNeverDecides (R18.7). Equality of JSON values is decided on
// decoded values only. (a) In package json, bytes.Equal may compare only what
// (*jx.Decoder).StrBytes returned (decoded string contents); comparing the raw
// text of a value decides wrongly whenever a value has two spellings (escapes
// in strings) and accepts malformed text without parsing it. (b) json.Equal has
// no constant-true return of its own: every `true` comes out of compare.equal,
// which has consumed and thereby validated both documents. (c) In the generator
// (package gen) two schema numbers are never judged equal because their float64
// approximations are equal.
func checkRawTextNeverDecides(c *core.Ctx, prog *core.Prog) {
	r := c.NewRule("R18.7", "S1", "raw JSON text and float64 approximations never decide equality", 3)
	jsonPkg := prog.ByPath[pkgJSON]
	fromStrBytes := func(v ssa.Value) bool {
		ex, ok := v.(*ssa.Extract)
		if !ok || ex.Index != 0 {
			return false
		}
		call, ok := ex.Tuple.(*ssa.Call)
		return ok && core.CalleeName(call.Common()) == "(*github.com/go-faster/jx.Decoder).StrBytes"
	}
	n := 0
	for _, top := range core.PkgFuncs(prog.SSA, jsonPkg) {
		inEqual := top.Name() == "Equal" && top.Signature.Recv() == nil
		if top.Signature.Recv() != nil && recvName(top.Signature.Recv().Type()) == "compare" {
			inEqual = true
		}
		if !inEqual {
			continue
		}
		for _, fn := range core.AllFuncs(top) {
			for _, call := range core.Calls(fn) {
				if !core.IsCallTo(call.Common(), "bytes", "Equal") && !core.IsCallTo(call.Common(), "bytes", "Compare") {
					continue
				}
				n++
				a := call.Common().Args
				if fromStrBytes(a[0]) && fromStrBytes(a[1]) {
					r.Pass(fmt.Sprintf("%s: bytes.Equal compares decoded string contents", fn.Name()))
				} else {
					r.Fail("raw-text-compare:"+fnKeyFull(fn), c.Pos(call.Pos()), fmt.Sprintf("%s compares undecoded JSON text with bytes.Equal: \"\\u0061\" and \"a\" are the same string but different text, and identical malformed texts are accepted without being parsed", fn.Name()))
				}
			}
		}
	}
	if eq := prog.Func(pkgJSON, "Equal"); eq == nil {
		r.Undecided("anchor:Equal", "-", "json.Equal not found")
	} else {
		// the true-edges of errors.Is(<Skip() of a decoder>, io.EOF), per decoder
		eofEdges := map[ssa.Value][]*ssa.BasicBlock{}
		var equalCall *ssa.Call
		for _, call := range core.Calls(eq) {
			cv, isCall := call.(*ssa.Call)
			if !isCall {
				continue
			}
			name := core.CalleeName(call.Common())
			if strings.HasSuffix(name, "json.compare).equal") {
				equalCall = cv
			}
			if name != "github.com/go-faster/errors.Is" && name != "errors.Is" {
				continue
			}
			skip, ok := call.Common().Args[0].(*ssa.Call)
			if !ok || core.CalleeName(skip.Common()) != "(*github.com/go-faster/jx.Decoder).Skip" {
				continue
			}
			if g, ok := call.Common().Args[1].(*ssa.UnOp); !ok || !strings.HasSuffix(g.X.String(), "EOF") {
				continue
			}
			dec := skip.Common().Args[0]
			if ld, ok := dec.(*ssa.UnOp); ok && ld.Op == token.MUL {
				dec = ld.X // the variable cell (captured by the deferred Put)
			}
			eofEdges[dec] = append(eofEdges[dec], core.EdgeBlocks(cv, true)...)
		}
		okRet := true
		nTrue := 0
		for _, b := range eq.Blocks {
			ret, isRet := b.Instrs[len(b.Instrs)-1].(*ssa.Return)
			if !isRet || len(ret.Results) != 2 {
				continue
			}
			res0 := ret.Results[0]
			// with a defer the results are spilled: `*t0 = v; rundefers; return *t0`
			if ld, ok := res0.(*ssa.UnOp); ok && ld.Op == token.MUL {
				var last ssa.Value
				for _, in := range b.Instrs {
					if st, ok := in.(*ssa.Store); ok && st.Addr == ld.X {
						last = st.Val
					}
				}
				if last == nil {
					continue // the recover block: returns whatever was stored before the panic
				}
				res0 = last
			}
			if isConstBool(res0, false) {
				continue
			}
			nTrue++
			// a possibly-true result: after compare.equal said so, and after both inputs ended
			after := equalCall != nil && core.DominatedBySuccess(equalCall, b)
			nDec := 0
			for _, edges := range eofEdges {
				for _, e := range edges {
					if e == b || e.Dominates(b) {
						nDec++
						break
					}
				}
			}
			if !isConstBool(res0, true) || !after || nDec < 2 {
				okRet = false
				r.Fail("Equal:true-without-end-of-input", c.Pos(ret.Pos()), "json.Equal can return true without compare.equal having succeeded and both decoders having reported io.EOF: unparsed text compares equal to itself, or data after the first value is ignored (Equal(\"1\", \"1 x\") is true)")
			}
		}
		if okRet && nTrue > 0 {
			r.Pass("json.Equal: true only after compare.equal succeeded and both inputs ended (Skip → io.EOF)")
		}
		if nTrue == 0 {
			r.Undecided("Equal:no-true-return", c.Pos(eq.Pos()), "json.Equal has no return that can be true")
		}
	}
	// (c) generator
	if gp, err := c.Program("./gen"); err != nil {
		r.Undecided("load:gen", "-", err.Error())
	} else {
		nf := 0
		for _, top := range core.PkgFuncs(gp.SSA, gp.ByPath[pkgGen]) {
			for _, fn := range core.AllFuncs(top) {
				for _, b := range fn.Blocks {
					for _, in := range b.Instrs {
						bo, ok := in.(*ssa.BinOp)
						if !ok || !isFloat(bo.X.Type()) {
							continue
						}
						if !fromNumFloat(bo.X, 0) && !fromNumFloat(bo.Y, 0) {
							continue
						}
						nf++
						if bo.Op == token.EQL || bo.Op == token.NEQ {
							r.Fail("float-equality:"+fnKeyFull(fn), c.Pos(bo.Pos()), fmt.Sprintf("%s compares the float64 approximations of two schema numbers for equality: bounds that differ beyond float64 precision (9007199254740993 vs 9007199254740992) are judged the same and one of them is dropped", fn.Name()))
						} else {
							r.Ob(true, "")
						}
					}
				}
			}
		}
		r.Note("float comparisons on jx.Num.Float64 results in package gen: %d (orderings only)", nf)
	}
}

func fromNumFloat(v ssa.Value, depth int) bool {
	if depth > 4 {
		return false
	}
	switch x := v.(type) {
	case *ssa.Extract:
		if call, ok := x.Tuple.(*ssa.Call); ok {
			return core.CalleeName(call.Common()) == "(github.com/go-faster/jx.Num).Float64"
		}
	case *ssa.Phi:
		for _, e := range x.Edges {
			if fromNumFloat(e, depth+1) {
				return true
			}
		}
	case *ssa.UnOp:
		if al, ok := x.X.(*ssa.Alloc); ok {
			for _, ref := range *al.Referrers() {
				if st, ok := ref.(*ssa.Store); ok && st.Addr == ssa.Value(al) && fromNumFloat(st.Val, depth+1) {
					return true
				}
			}
		}
	}
	return false
}

func recvName(t types.Type) string {
	_, n := core.NamedOf(t)
	return n
}

func isFloat(t types.Type) bool {
	b, ok := t.Underlying().(*types.Basic)
	return ok && b.Info()&types.IsFloat != 0
}

func isConstBool(v ssa.Value, want bool) bool {
	c, ok := v.(*ssa.Const)
	if !ok || c.Value == nil {
		return false
	}
	return c.Value.String() == fmt.Sprint(want)
}

func floatCompareIn(v ssa.Value, seen map[ssa.Value]bool) *ssa.BinOp {
	if seen[v] {
		return nil
	}
	seen[v] = true
	switch x := v.(type) {
	case *ssa.BinOp:
		if isFloat(x.X.Type()) && (x.Op == token.EQL || x.Op == token.NEQ || x.Op == token.LEQ || x.Op == token.GEQ) {
			return x
		}
		if r := floatCompareIn(x.X, seen); r != nil {
			return r
		}
		return floatCompareIn(x.Y, seen)
	case *ssa.UnOp:
		return floatCompareIn(x.X, seen)
	case *ssa.Phi:
		for _, e := range x.Edges {
			if r := floatCompareIn(e, seen); r != nil {
				return r
			}
		}
	}
	return nil
}

// consumedBefore: some call dominating block b has the decoder loaded from
// field `side` of the receiver as receiver or argument.
func consumedBefore(fn *ssa.Function, b *ssa.BasicBlock, side string) bool {
	for _, blk := range fn.Blocks {
		if !blk.Dominates(b) {
			continue
		}
		for _, in := range blk.Instrs {
			call, ok := in.(ssa.CallInstruction)
			if !ok {
				continue
			}
			if _, isDefer := in.(*ssa.Defer); isDefer {
				continue
			}
			// (*jx.Decoder).Next only peeks at the next token's type
			if core.CalleeName(call.Common()) == "(*github.com/go-faster/jx.Decoder).Next" {
				continue
			}
			for _, a := range call.Common().Args {
				if isSideField(a, side) {
					return true
				}
			}
			if call.Common().IsInvoke() && isSideField(call.Common().Value, side) {
				return true
			}
			// a compare method called on the receiver itself consumes both
			if cal := call.Common().StaticCallee(); cal != nil && cal.Signature.Recv() != nil && recvName(cal.Signature.Recv().Type()) == "compare" && cal != fn {
				return true
			}
		}
	}
	return false
}

func isSideField(v ssa.Value, side string) bool {
	switch x := v.(type) {
	case *ssa.Field:
		return fieldName(x.X.Type(), x.Field) == side
	case *ssa.UnOp:
		if x.Op == token.MUL {
			if fa, ok := x.X.(*ssa.FieldAddr); ok {
				return fieldName(fa.X.Type(), fa.Field) == side
			}
		}
	}
	return false
}

func methodDecl(p *packages.Package, recv, name string) *ast.FuncDecl {
	if p == nil {
		return nil
	}
	for _, f := range p.Syntax {
		for _, d := range f.Decls {
			fd, ok := d.(*ast.FuncDecl)
			if !ok || fd.Recv == nil || fd.Name.Name != name || len(fd.Recv.List) != 1 {
				continue
			}
			t := fd.Recv.List[0].Type
			if st, ok := t.(*ast.StarExpr); ok {
				t = st.X
			}
			if id, ok := t.(*ast.Ident); ok && id.Name == recv {
				return fd
			}
		}
	}
	return nil
}

func terminatesOrReturns(body []ast.Stmt) bool {
	if len(body) == 0 {
		return false
	}
	switch s := body[len(body)-1].(type) {
	case *ast.ReturnStmt:
		return true
	case *ast.ExprStmt:
		if ce, ok := s.X.(*ast.CallExpr); ok {
			if id, ok := ce.Fun.(*ast.Ident); ok && id.Name == "panic" {
				return false
			}
		}
	}
	return false
}

func isIdentOfType(info *types.Info, x ast.Expr, t types.Type) bool {
	id, ok := x.(*ast.Ident)
	return ok && info.TypeOf(id) != nil && types.Identical(info.TypeOf(id), t)
}

func checkEnumScan(c *core.Ctx, prog *core.Prog, r *core.Rule) {
	pkg := prog.PkgBy[pkgJS]
	if pkg == nil {
		r.Undecided("anchor:jsonschema", "-", "package jsonschema not loaded")
		return
	}
	found := 0
	for _, f := range pkg.Syntax {
		ast.Inspect(f, func(n ast.Node) bool {
			outer, ok := n.(*ast.RangeStmt)
			if !ok {
				return true
			}
			ast.Inspect(outer.Body, func(m ast.Node) bool {
				inner, ok := m.(*ast.RangeStmt)
				if !ok {
					return true
				}
				if types.ExprString(inner.X) != types.ExprString(outer.X) {
					return true
				}
				var negGuard *ast.IfStmt
				cb := func(k ast.Node) bool {
					ifs, ok := k.(*ast.IfStmt)
					if !ok {
						return true
					}
					var call *ast.CallExpr
					visit := func(x ast.Node) bool {
						if ce, ok := x.(*ast.CallExpr); ok {
							if se, ok := ce.Fun.(*ast.SelectorExpr); ok && se.Sel.Name == "Equal" {
								if fn, ok := pkg.TypesInfo.Uses[se.Sel].(*types.Func); ok && fn.Pkg() != nil && fn.Pkg().Path() == pkgJSON {
									call = ce
								}
							}
						}
						return true
					}
					if ifs.Init != nil {
						ast.Inspect(ifs.Init, visit)
					}
					ast.Inspect(ifs.Cond, visit)
					if call == nil {
						return true
					}
					found++
					fname := "?"
					for _, d := range f.Decls {
						if fd, ok := d.(*ast.FuncDecl); ok && fd.Pos() <= call.Pos() && call.Pos() < fd.End() {
							fname = fd.Name.Name
						}
					}
					pos := c.Pos(call.Pos())
					ov, iv := identName(outer.Value), identName(inner.Value)
					a0, a1 := types.ExprString(call.Args[0]), types.ExprString(call.Args[1])
					if ov != "" && iv != "" && ov != iv && ((a0 == ov && a1 == iv) || (a0 == iv && a1 == ov)) {
						r.Pass(fmt.Sprintf("%s: Equal(%s, %s) over all pairs of %s (%s)", fname, a0, a1, types.ExprString(outer.X), pos))
					} else {
						r.Fail(fname+":enum-scan:args", pos, "json.Equal is not applied to the two loop elements of the same enum list")
					}
					// the skip condition may only exclude i == j (or one triangle)
					skipOK := true
					for _, st := range inner.Body.List {
						if is, ok := st.(*ast.IfStmt); ok && is != ifs && is != negGuard && containsContinue(is.Body) {
							cond := types.ExprString(is.Cond)
							ok1 := false
							ok2 := identName(outer.Key) != "" && identName(inner.Key) != ""
							if ok2 {
								i, j := identName(outer.Key), identName(inner.Key)
								for _, allowed := range []string{i + " == " + j, j + " == " + i, j + " <= " + i, i + " >= " + j, j + " < " + i + " || " + i + " == " + j} {
									if cond == allowed {
										ok1 = true
									}
								}
							}
							if !ok1 {
								skipOK = false
							}
						}
					}
					if skipOK {
						r.Pass(fname + ": only the diagonal (or one triangle) is skipped")
					} else {
						r.Fail(fname+":enum-scan:skip", pos, "the duplicate scan skips pairs other than i == j")
					}
					// the scan is not conditional on anything but the list being non-empty: a fast path that takes some
					// lists (by type, by length) around the json.Equal scan decides them by other means
					path, _ := astutil.PathEnclosingInterval(f, outer.Pos(), outer.Pos())
					condOK, condWhy := true, ""
					for pi := 1; pi < len(path); pi++ {
						if _, isFn := path[pi].(*ast.FuncDecl); isFn {
							break
						}
						pis, ok := path[pi].(*ast.IfStmt)
						if !ok {
							continue
						}
						inThen := pis.Body.Pos() <= outer.Pos() && outer.End() <= pis.Body.End()
						cs := types.ExprString(pis.Cond)
						lenTest := strings.HasPrefix(cs, "len(") && (strings.HasSuffix(cs, ") > 0") || strings.HasSuffix(cs, ") != 0") || strings.HasSuffix(cs, ") > 1") || strings.HasSuffix(cs, ") >= 2"))
						if !inThen || !lenTest {
							condOK = false
							if inThen {
								condWhy = "only if `" + cs + "`"
							} else {
								condWhy = "only if not `" + cs + "`"
							}
						}
					}
					// … and no return comes before it that lets a list leave the function undecided by json.Equal: in a
					// function that reports errors, an earlier return must carry one; in a helper whose whole job is the
					// scan (no error result), there is no earlier return except under a length test
					if condOK {
						var encl ast.Node
						var ftype *ast.FuncType
						for pi := 1; pi < len(path) && encl == nil; pi++ {
							switch fnode := path[pi].(type) {
							case *ast.FuncDecl:
								encl, ftype = fnode.Body, fnode.Type
							case *ast.FuncLit:
								encl, ftype = fnode.Body, fnode.Type
							}
						}
						if encl != nil {
							hasErr := false
							if ftype.Results != nil && len(ftype.Results.List) > 0 {
								last := ftype.Results.List[len(ftype.Results.List)-1]
								hasErr = types.ExprString(last.Type) == "error"
							}
							var stack []ast.Node
							ast.Inspect(encl, func(x ast.Node) bool {
								if x == nil {
									stack = stack[:len(stack)-1]
									return true
								}
								stack = append(stack, x)
								if _, isLit := x.(*ast.FuncLit); isLit && x != path[0] {
									// another function
									if x.Pos() > outer.Pos() || x.End() < outer.Pos() {
										stack = stack[:len(stack)-1]
										return false
									}
								}
								ret, ok := x.(*ast.ReturnStmt)
								if !ok || ret.Pos() >= outer.Pos() || !condOK {
									return true
								}
								if hasErr {
									if len(ret.Results) == 0 {
										return true
									}
									// only returns that depend on the list: an enclosing condition mentions the list or a
									// variable computed from it (`if schema == nil { return s, nil }` does not)
									dep := false
									for _, anc := range stack {
										if is, ok := anc.(*ast.IfStmt); ok && mentionsAny(is.Cond, listTaint(encl, outer)) {
											dep = true
										}
									}
									if !dep {
										return true
									}
									if id, ok := ret.Results[len(ret.Results)-1].(*ast.Ident); ok && id.Name == "nil" {
										condOK, condWhy = false, "only for lists that did not leave through the earlier `"+types.ExprString(ret.Results[0])+", nil` return at "+c.Pos(ret.Pos())
									}
									return true
								}
								// helper without an error result: allowed only directly under a length test
								under := false
								for _, anc := range stack {
									if is, ok := anc.(*ast.IfStmt); ok {
										cs := types.ExprString(is.Cond)
										if strings.HasPrefix(cs, "len(") {
											under = true
										}
									}
								}
								if !under {
									condOK, condWhy = false, "only for lists that did not leave through the earlier return at "+c.Pos(ret.Pos())+" (decided by other means than json.Equal)"
								}
								return true
							})
						}
					}
					if condOK {
						r.Pass(fname + ": the pair scan is guarded by the list's length only")
					} else {
						r.Fail(fname+":enum-scan:conditional", pos, "the json.Equal pair scan runs "+condWhy+": the other lists are not compared value by value, so two spellings of one value (\"a\" and \"\\u0061\", 1 and 1.0) pass as distinct members")
					}
					// true ⇒ return a non-nil error
					rejects := false
					if n := len(ifs.Body.List); n > 0 {
						if ret, ok := ifs.Body.List[n-1].(*ast.ReturnStmt); ok && len(ret.Results) >= 1 {
							last := ret.Results[len(ret.Results)-1]
							if id, ok := last.(*ast.Ident); !ok || id.Name != "nil" {
								rejects = true
							}
						}
					}
					condStr := types.ExprString(ifs.Cond)
					if rejects && !strings.HasPrefix(condStr, "!") {
						r.Pass(fname + ": a true comparison returns an error")
					} else {
						r.Fail(fname+":enum-scan:reject", pos, "a true json.Equal result does not lead to an error return: duplicate enum members are accepted")
					}
					return true
				}
				ast.Inspect(inner.Body, cb)
				// the same scan written as `same, _ := json.Equal(a, b)` followed by `if same { return err }` or by
				// `if !same { continue }` and the error return: rewritten into the if-with-init form and analysed alike
				for si, st := range inner.Body.List {
					as, ok := st.(*ast.AssignStmt)
					if !ok || len(as.Lhs) < 1 || len(as.Rhs) != 1 || si+1 >= len(inner.Body.List) {
						continue
					}
					ce, ok := as.Rhs[0].(*ast.CallExpr)
					if !ok {
						continue
					}
					se, ok := ce.Fun.(*ast.SelectorExpr)
					if !ok || se.Sel.Name != "Equal" {
						continue
					}
					if fn, ok := pkg.TypesInfo.Uses[se.Sel].(*types.Func); !ok || fn.Pkg() == nil || fn.Pkg().Path() != pkgJSON {
						continue
					}
					flag := identName(as.Lhs[0])
					nx, ok := inner.Body.List[si+1].(*ast.IfStmt)
					if !ok || flag == "" || nx.Init != nil {
						continue
					}
					switch types.ExprString(nx.Cond) {
					case flag:
						cb(&ast.IfStmt{If: nx.If, Init: as, Cond: nx.Cond, Body: nx.Body})
					case "!" + flag:
						if containsContinue(nx.Body) && len(nx.Body.List) == 1 {
							negGuard = nx
							rest := &ast.BlockStmt{Lbrace: nx.End(), List: inner.Body.List[si+2:], Rbrace: inner.Body.Rbrace}
							cb(&ast.IfStmt{If: nx.If, Init: as, Cond: &ast.Ident{NamePos: nx.Cond.Pos(), Name: flag}, Body: rest})
							negGuard = nil
						}
					}
				}
				return true
			})
			return true
		})
	}
	if found == 0 {
		r.Undecided("anchor:enum-scan", "-", "no nested range over one list calling json.Equal found in package jsonschema")
	}
}

func identName(x ast.Expr) string {
	if id, ok := x.(*ast.Ident); ok && id.Name != "_" {
		return id.Name
	}
	return ""
}

func containsContinue(b *ast.BlockStmt) bool {
	for _, s := range b.List {
		if br, ok := s.(*ast.BranchStmt); ok && br.Tok == token.CONTINUE {
			return true
		}
	}
	return false
}

// sideOf classifies a value as derived from the left (1), right (2), both (3)
// or neither (0) decoder of the compare receiver, following calls, extracts,
// conversions, phis and stores into locals.
func sideOf(v ssa.Value, memo map[ssa.Value]int, depth int) int {
	if v == nil || depth > 12 {
		return 0
	}
	if s, ok := memo[v]; ok {
		return s
	}
	memo[v] = 0
	s := 0
	switch x := v.(type) {
	case *ssa.Field:
		switch fieldName(x.X.Type(), x.Field) {
		case "left":
			s = 1
		case "right":
			s = 2
		}
	case *ssa.UnOp:
		if fa, ok := x.X.(*ssa.FieldAddr); ok && x.Op == token.MUL {
			switch fieldName(fa.X.Type(), fa.Field) {
			case "left":
				s = 1
			case "right":
				s = 2
			}
		}
		if s == 0 {
			s = sideOf(x.X, memo, depth+1)
		}
	case *ssa.Call:
		for _, a := range x.Common().Args {
			s |= sideOf(a, memo, depth+1)
		}
		if x.Common().IsInvoke() {
			s |= sideOf(x.Common().Value, memo, depth+1)
		}
	case *ssa.Extract:
		s = sideOf(x.Tuple, memo, depth+1)
	case *ssa.Convert:
		s = sideOf(x.X, memo, depth+1)
	case *ssa.ChangeType:
		s = sideOf(x.X, memo, depth+1)
	case *ssa.MakeInterface:
		s = sideOf(x.X, memo, depth+1)
	case *ssa.Slice:
		s = sideOf(x.X, memo, depth+1)
	case *ssa.Phi:
		for _, e := range x.Edges {
			s |= sideOf(e, memo, depth+1)
		}
	case *ssa.Alloc:
		// a local that receives a side-derived value through a method call with a side-derived argument
		// (lnum.UnmarshalText(lval)) or a store
		for _, ref := range *x.Referrers() {
			switch r := ref.(type) {
			case *ssa.Store:
				if r.Addr == ssa.Value(x) {
					s |= sideOf(r.Val, memo, depth+1)
				}
			case *ssa.Call:
				// only methods that fill the receiver from their argument
				mut := false
				if cal := r.Common().StaticCallee(); cal != nil {
					for _, pre := range []string{"Unmarshal", "Set", "Parse", "Decode", "Read", "Reset"} {
						if strings.HasPrefix(cal.Name(), pre) {
							mut = true
						}
					}
				}
				if mut && len(r.Common().Args) > 1 && r.Common().Args[0] == ssa.Value(x) {
					for _, a := range r.Common().Args[1:] {
						s |= sideOf(a, memo, depth+1)
					}
				}
			}
		}
	case *ssa.FreeVar:
		// captured variable of the parent: find the binding
		fn := x.Parent()
		if p := fn.Parent(); p != nil {
			for _, b := range p.Blocks {
				for _, in := range b.Instrs {
					if mc, ok := in.(*ssa.MakeClosure); ok && mc.Fn == fn {
						for i, fv := range fn.FreeVars {
							if fv == x && i < len(mc.Bindings) {
								s = sideOf(mc.Bindings[i], memo, depth+1)
							}
						}
					}
				}
			}
		}
	case *ssa.Parameter:
		// parameter of a closure called with side-derived arguments
		fn := x.Parent()
		if p := fn.Parent(); p != nil {
			idx := paramIndex(fn, x)
			for _, call := range core.Calls(p) {
				if mc, ok := call.Common().Value.(*ssa.MakeClosure); ok && mc.Fn == fn && idx < len(call.Common().Args) {
					s |= sideOf(call.Common().Args[idx], memo, depth+1)
				}
				if call.Common().StaticCallee() == fn && idx < len(call.Common().Args) {
					s |= sideOf(call.Common().Args[idx], memo, depth+1)
				}
			}
		}
	}
	memo[v] = s
	return s
}

var reviewedNumberPredicates = map[string]string{
	"(github.com/go-faster/jx.Num).Zero":     "exact: all digits zero",
	"(github.com/go-faster/jx.Num).Equal":    "exact: byte equality",
	"(github.com/go-faster/jx.Num).IsInt":    "exact: no fraction/exponent",
	"(github.com/go-faster/jx.Num).Float64":  "monotone rounding: may only decide inequality (R18.2)",
	"(*math/big.Rat).UnmarshalText":          "exact",
	"(*math/big.Rat).Cmp":                    "exact",
	"(*github.com/go-faster/jx.Decoder).Num": "reads the number",
	"github.com/go-faster/errors.Wrap":       "error path",
}

func checkSymmetry(c *core.Ctx, prog *core.Prog, r *core.Rule) {
	for _, name := range []string{"equalBool", "equalString", "equalNumber"} {
		fn := prog.Func(pkgJSON, "compare."+name)
		if fn == nil {
			r.Undecided("anchor:"+name, "-", "json.compare."+name+" not found")
			continue
		}
		memo := map[ssa.Value]int{}
		left, right := map[string]int{}, map[string]int{}
		for _, f := range core.AllFuncs(fn) {
			for _, call := range core.Calls(f) {
				cc := call.Common()
				callee := core.CalleeName(cc)
				if strings.HasPrefix(callee, "builtin") {
					continue
				}
				s := 0
				for _, a := range cc.Args {
					s |= sideOf(a, memo, 0)
				}
				if cc.IsInvoke() {
					s |= sideOf(cc.Value, memo, 0)
				}
				if mc, ok := cc.Value.(*ssa.MakeClosure); ok {
					callee = "closure " + mc.Fn.Name()
				} else if cc.StaticCallee() == nil && !cc.IsInvoke() {
					callee = "closure-call"
				}
				switch s {
				case 1:
					left[callee]++
				case 2:
					right[callee]++
				}
			}
		}
		ok := len(left) == len(right)
		for k, n := range left {
			if right[k] != n {
				ok = false
			}
		}
		if ok && len(left) > 0 {
			r.Pass(fmt.Sprintf("%s: the same %d operations are applied to the left and to the right operand", name, len(left)))
		} else {
			r.Fail(name+":asymmetric", c.Pos(fn.Pos()), fmt.Sprintf("%s applies %v to the left operand but %v to the right: the comparison is not symmetric (Equal(a,b) ≠ Equal(b,a))", name, left, right))
		}
	}
	// reviewed predicates in equalNumber
	if fn := prog.Func(pkgJSON, "compare.equalNumber"); fn != nil {
		// helpers of package json that equalNumber hands part of the decision to are held to the same list
		work := []*ssa.Function{fn}
		seenFn := map[*ssa.Function]bool{fn: true}
		var calls []ssa.CallInstruction
		for len(work) > 0 {
			f := work[0]
			work = work[1:]
			for _, call := range core.Calls(f) {
				callee := core.CalleeName(call.Common())
				if _, reviewed := reviewedNumberPredicates[callee]; !reviewed {
					if cal := call.Common().StaticCallee(); cal != nil && core.FuncPkgPath(cal) == pkgJSON && len(cal.Blocks) > 0 && len(seenFn) < 8 {
						if !seenFn[cal] {
							seenFn[cal] = true
							work = append(work, cal)
						}
						continue
					}
				}
				calls = append(calls, call)
			}
		}
		for _, call := range calls {
			callee := core.CalleeName(call.Common())
			if strings.HasPrefix(callee, "builtin") {
				continue
			}
			if why, ok := reviewedNumberPredicates[callee]; ok {
				r.Pass(fmt.Sprintf("equalNumber uses %s (%s)", core.ShortPkg(callee), why))
			} else {
				r.Fail("equalNumber:predicate:"+callee, c.Pos(call.Pos()), fmt.Sprintf("equalNumber decides through %s, which is not in the reviewed list of exact predicates: a shortcut that is not exact for every spelling (0.5 vs 5e-1) breaks number-spelling insensitivity", core.ShortPkg(callee)))
			}
		}
	}
}

func checkExhaustion(c *core.Ctx, prog *core.Prog, r *core.Rule) {
	for _, name := range []string{"equalArray", "equalObject"} {
		fn := prog.Func(pkgJSON, "compare."+name)
		if fn == nil {
			r.Undecided("anchor:"+name, "-", "json.compare."+name+" not found")
			continue
		}
		// iterator Next() calls
		var nexts []*ssa.Call
		for _, call := range core.Calls(fn) {
			if cl, ok := call.(*ssa.Call); ok && cl.Common().StaticCallee() != nil && cl.Common().StaticCallee().Name() == "Next" &&
				strings.HasSuffix(recvName(cl.Common().StaticCallee().Signature.Recv().Type()), "Iter") {
				nexts = append(nexts, cl)
			}
		}
		n := 0
		for _, b := range fn.Blocks {
			ret, ok := b.Instrs[len(b.Instrs)-1].(*ssa.Return)
			if !ok || len(ret.Results) != 2 {
				continue
			}
			v := ret.Results[0]
			if isConstBool(v, false) {
				continue
			}
			if _, isConst := v.(*ssa.Const); !isConst {
				// `return !riter.Next(), nil` — the verdict itself is the exhaustion test
				if u, ok := v.(*ssa.UnOp); ok && u.Op == token.NOT {
					if cl, ok := u.X.(*ssa.Call); ok && cl.Common().StaticCallee() != nil && cl.Common().StaticCallee().Name() == "Next" {
						// still requires the left iterator to be exhausted
					}
				}
			}
			n++
			dom := false
			for _, nx := range nexts {
				for _, eb := range core.EdgeBlocks(nx, false) {
					if eb.Dominates(b) {
						dom = true
					}
				}
			}
			if dom {
				r.Pass(fmt.Sprintf("%s: verdict at %s is reached only after an iterator reported exhaustion", name, c.Pos(ret.Pos())))
			} else {
				r.Fail(name+":early-true", c.Pos(ret.Pos()), fmt.Sprintf("%s can report equality before any iterator is exhausted: a value that is a proper prefix/subset of the other compares equal, and the decoders are left mid-value", name))
			}
		}
		if n == 0 {
			r.Undecided(name+":returns", c.Pos(fn.Pos()), "no possibly-true return found")
		}
	}
}

// checkNumberSpellingCanonical (R18.8, S1). Enum members, defaults and examples reach the parser as raw JSON made by
// jsonschema.convertYAMLtoRawJSON, and the generator later compares the values parsed from that text with
// reflect.DeepEqual (default responses, allOf merging), where int64(1) and float64(1) differ. What makes `1`, `1.0`
// and `1e0` the same value there is that every document scalar is re-spelled by one converter (YAMLToJSON) before it
// is parsed. The structural necessary condition decided here: convertYAMLtoRawJSON has no success return that is
// reachable without passing through that converter — a shortcut that hands a scalar's own text back makes the
// equality used for enums and defaults sensitive to number spelling.
func checkNumberSpellingCanonical(c *core.Ctx, prog *core.Prog) {
	r := c.NewRule("R18.8", "S1", "every value convertYAMLtoRawJSON returns was spelled by the one YAML→JSON converter (no verbatim shortcut for scalars)", 1)
	pkg := prog.PkgBy[pkgJS]
	if pkg == nil {
		r.Undecided("load:jsonschema", "-", "package not loaded")
		return
	}
	var fd *ast.FuncDecl
	for _, f := range pkg.Syntax {
		for _, d := range f.Decls {
			if x, ok := d.(*ast.FuncDecl); ok && x.Recv == nil && x.Name.Name == "convertYAMLtoRawJSON" && x.Body != nil {
				fd = x
			}
		}
	}
	if fd == nil {
		r.Undecided("anchor:convertYAMLtoRawJSON", "-", "function not found")
		return
	}
	isConv := func(n ast.Node) bool {
		found := false
		ast.Inspect(n, func(m ast.Node) bool {
			if _, isLit := m.(*ast.FuncLit); isLit {
				return false
			}
			if ce, ok := m.(*ast.CallExpr); ok {
				if se, ok := ce.Fun.(*ast.SelectorExpr); ok {
					if fn, ok := pkg.TypesInfo.Uses[se.Sel].(*types.Func); ok && fn.Name() == "YAMLToJSON" {
						found = true
					}
				}
			}
			return true
		})
		return found
	}
	g := cfg.New(fd.Body, func(*ast.CallExpr) bool { return true })
	// blocks reachable from the entry without executing a conversion; a block that contains the conversion is entered
	// but not left (the statements before the call inside it are examined, the successors are not)
	nConv := 0
	seen := map[*cfg.Block]bool{}
	var stack []*cfg.Block
	if len(g.Blocks) > 0 {
		stack = append(stack, g.Blocks[0])
		seen[g.Blocks[0]] = true
	}
	bad := 0
	for len(stack) > 0 {
		b := stack[len(stack)-1]
		stack = stack[:len(stack)-1]
		converted := false
		for _, n := range b.Nodes {
			if isConv(n) {
				converted = true
				nConv++
			}
			ret, ok := n.(*ast.ReturnStmt)
			if !ok || converted {
				continue
			}
			// a return reached without conversion: fine only if it reports an error (last result not the literal nil)
			success := len(ret.Results) == 0
			if len(ret.Results) > 0 {
				if id, ok := ret.Results[len(ret.Results)-1].(*ast.Ident); ok && id.Name == "nil" {
					success = true
				}
			}
			if success {
				bad++
				r.Fail("convertYAMLtoRawJSON:unconverted-return", c.Pos(ret.Pos()), "convertYAMLtoRawJSON returns a value that did not pass through YAMLToJSON: a scalar handed back in its own spelling makes `1` and `1.0` (int64 vs float64 once parsed) different enum members / defaults for the generator's DeepEqual comparisons")
			}
		}
		if converted {
			continue
		}
		for _, s := range b.Succs {
			if !seen[s] {
				seen[s] = true
				stack = append(stack, s)
			}
		}
	}
	convAnywhere := isConv(fd.Body)
	switch {
	case !convAnywhere:
		r.Undecided("anchor:YAMLToJSON", c.Pos(fd.Pos()), "convertYAMLtoRawJSON no longer calls a YAMLToJSON converter: the rule's anchor is gone")
	case bad == 0:
		r.Pass("convertYAMLtoRawJSON: no success return is reachable without the YAML→JSON conversion")
	}
}

// listTaint: the identifier the scan ranges over and the variables assigned, before the scan, from expressions that
// mention it (two rounds).
func listTaint(body ast.Node, outer *ast.RangeStmt) map[string]bool {
	t := map[string]bool{}
	if id, ok := outer.X.(*ast.Ident); ok {
		t[id.Name] = true
	} else {
		t[types.ExprString(outer.X)] = true
	}
	for round := 0; round < 2; round++ {
		ast.Inspect(body, func(x ast.Node) bool {
			if x == nil || x.Pos() >= outer.Pos() {
				return x == nil || x.Pos() < outer.Pos()
			}
			switch st := x.(type) {
			case *ast.AssignStmt:
				dep := false
				for _, r := range st.Rhs {
					if mentionsAny(r, t) {
						dep = true
					}
				}
				if dep {
					for _, l := range st.Lhs {
						if id, ok := l.(*ast.Ident); ok && id.Name != "_" {
							t[id.Name] = true
						}
					}
				}
			case *ast.RangeStmt:
				if st != outer && mentionsAny(st.X, t) {
					for _, l := range []ast.Expr{st.Key, st.Value} {
						if id, ok := l.(*ast.Ident); ok && id.Name != "_" {
							t[id.Name] = true
						}
					}
				}
			}
			return true
		})
	}
	return t
}

func mentionsAny(x ast.Node, names map[string]bool) bool {
	found := false
	ast.Inspect(x, func(n ast.Node) bool {
		switch y := n.(type) {
		case *ast.Ident:
			if names[y.Name] {
				found = true
			}
		case *ast.SelectorExpr:
			if names[types.ExprString(y)] {
				found = true
			}
		}
		return !found
	})
	return found
}
