package rules

import (
	"fmt"
	"go/token"
	"go/types"
	"sort"
	"strings"

	"golang.org/x/tools/go/ssa"

	"ogenverif/internal/core"
	"ogenverif/internal/effects"
)

func init() {
	register(&Property{
		ID: "C19",
		Meta: core.Meta{
			Level:       "other",
			Explanation: "A static race-freedom argument for every schedule: shared state is immutable after initialisation and per-request state is request-local. (R19.1, S1+S2) no instruction outside package initialisers (and sync.Once bodies) stores to a package-level variable or through a pointer / map / slice loaded from one — in the runtime packages (uri, conv, json, http, validate, ogenerrors, middleware, ogenregex, otelogen) and in every expanded package (regexMap, ratMap, oauth2 scope tables, …); (R19.2, S1) a *big.Rat loaded from a validator field is never the receiver of a mutating math/big method (the only mutated Rats are local new(big.Rat)); (R19.3, S2) in every generated send<Op> the *url.URL that is mutated (uri.AddPathParts, RawQuery/Path stores) is the result of uri.Clone / url.Parse, never the shared server URL; (R19.4, S2) no method of *Server / *Client / baseServer / baseClient / webhook types stores to a field of its receiver; (R19.5, S1) pooled jx decoders/encoders are not used after a non-deferred Put and are not stored into longer-lived structures. NOT decided: thread-safety of dependencies (regexp2, otel, net/http), user handlers, and 'every call's outcome equals the outcome it has when run alone' beyond the absence of shared mutable state.",
			Assumptions: []string{"sync.Pool / sync.Once internals are trusted", "aliasing is approximated by address roots (a pointer loaded from a global or the receiver is shared; a local Alloc / call result is request-local)", "S2 quantifies over the fixture corpus"},
			TrustedBase: []string{"cmd/ogen as macro-expander (build step)", "frozen list of mutating math/big.Rat methods"},
		},
		Run: runC19,
	})
}

// addrRoot follows an address back to what it is rooted in.
type rootKind int

const (
	rootLocal rootKind = iota
	rootGlobal
	rootParam
	rootFree
	rootOther
)

func addrRoot(v ssa.Value, depth int) (rootKind, ssa.Value) {
	return addrRootSeen(v, depth, map[*ssa.Phi]bool{})
}

// allocContentRoot: does some store into the local variable put a reference rooted at package-level state there?
func allocContentRoot(al *ssa.Alloc, depth int, seen map[*ssa.Phi]bool) (rootKind, ssa.Value) {
	switch al.Type().(*types.Pointer).Elem().Underlying().(type) {
	case *types.Map, *types.Slice, *types.Pointer:
	default:
		return rootLocal, al
	}
	if refs := al.Referrers(); refs != nil {
		for _, ref := range *refs {
			if st, ok := ref.(*ssa.Store); ok && st.Addr == ssa.Value(al) {
				if k, r := addrRootSeen(st.Val, depth+16, seen); k == rootGlobal {
					return k, r
				}
			}
		}
	}
	return rootLocal, al
}

func addrRootSeen(v ssa.Value, depth int, seen map[*ssa.Phi]bool) (rootKind, ssa.Value) {
	for depth < 64 {
		depth++
		switch x := v.(type) {
		case *ssa.Global:
			return rootGlobal, x
		case *ssa.Alloc:
			return rootLocal, x
		case *ssa.MakeMap, *ssa.MakeSlice, *ssa.MakeChan, *ssa.MakeInterface, *ssa.MakeClosure:
			return rootLocal, x
		case *ssa.Parameter:
			return rootParam, x
		case *ssa.FreeVar:
			return rootFree, x
		case *ssa.FieldAddr:
			v = x.X
		case *ssa.IndexAddr:
			v = x.X
		case *ssa.Field:
			v = x.X
		case *ssa.Index:
			v = x.X
		case *ssa.Slice:
			v = x.X
		case *ssa.UnOp:
			if x.Op != token.MUL {
				return rootOther, x
			}
			// a map / slice / pointer read out of a local variable that was filled from package-level state shares it
			if al, ok := x.X.(*ssa.Alloc); ok && depth < 32 {
				if k, r := allocContentRoot(al, depth, seen); k == rootGlobal {
					return k, r
				}
			}
			v = x.X // a pointer / map / slice loaded from …
		case *ssa.ChangeType:
			v = x.X
		case *ssa.Convert:
			v = x.X
		case *ssa.Lookup:
			v = x.X
		case *ssa.Phi:
			// shared if any edge is shared
			worst := rootLocal
			var wv ssa.Value = x
			if seen[x] {
				return worst, wv
			}
			seen[x] = true
			for _, e := range x.Edges {
				if k, r := addrRootSeen(e, depth, seen); k == rootGlobal {
					return k, r
				} else if k != rootLocal {
					worst, wv = k, r
				}
			}
			return worst, wv
		case *ssa.Call:
			// a package-level function value (sync.OnceValue product, lazily built table) hands out process-wide state
			if ld, ok := x.Common().Value.(*ssa.UnOp); ok && ld.Op == token.MUL {
				if g, ok := ld.X.(*ssa.Global); ok {
					return rootGlobal, g
				}
			}
			// a module function that returns something rooted at a package-level variable (a getter)
			if callee := x.Common().StaticCallee(); callee != nil && callee.Blocks != nil && core.InModule(callee) && depth < 40 {
				for _, b := range callee.Blocks {
					if ret, ok := b.Instrs[len(b.Instrs)-1].(*ssa.Return); ok && len(ret.Results) > 0 {
						if k, r := addrRootSeen(ret.Results[0], depth+24, seen); k == rootGlobal {
							return k, r
						}
					}
				}
			}
			return rootLocal, x // other call results are treated as fresh
		case *ssa.Extract:
			v = x.Tuple
		case *ssa.TypeAssert:
			v = x.X
		default:
			return rootOther, v
		}
	}
	return rootOther, v
}

func isInitFunc(fn *ssa.Function) bool {
	for f := fn; f != nil; f = f.Parent() {
		if f.Name() == "init" || strings.HasPrefix(f.Name(), "init#") || strings.HasPrefix(f.Synthetic, "package init") {
			return true
		}
	}
	return false
}

// inOnceBody: fn is a closure passed to (*sync.Once).Do.
func inOnceBody(fn *ssa.Function) bool {
	p := fn.Parent()
	if p == nil {
		return false
	}
	for _, call := range core.Calls(p) {
		if core.IsCallTo(call.Common(), "sync", "Once.Do") {
			if mc, ok := call.Common().Args[1].(*ssa.MakeClosure); ok && mc.Fn == fn {
				return true
			}
			if f, ok := call.Common().Args[1].(*ssa.Function); ok && f == fn {
				return true
			}
		}
	}
	return false
}

func checkGlobalWrites(c *core.Ctx, r *core.Rule, prog *core.Prog, pkgPath, label string) {
	pkg := prog.ByPath[pkgPath]
	if pkg == nil {
		r.Undecided("load:"+label, "-", "package "+pkgPath+" not loaded")
		return
	}
	nGlobals := 0
	for _, m := range pkg.Members {
		if _, ok := m.(*ssa.Global); ok {
			nGlobals++
		}
	}
	bad := 0
	nFn := 0
	for _, fn := range core.PkgFuncs(prog.SSA, pkg) {
		if isInitFunc(fn) || inOnceBody(fn) {
			continue
		}
		nFn++
		for _, b := range fn.Blocks {
			for _, in := range b.Instrs {
				var addr ssa.Value
				what := ""
				switch x := in.(type) {
				case *ssa.Store:
					addr, what = x.Addr, "store"
				case *ssa.MapUpdate:
					addr, what = x.Map, "map update"
				default:
					continue
				}
				if k, root := addrRoot(addr, 0); k == rootGlobal {
					g := root.(*ssa.Global)
					bad++
					r.Fail(fmt.Sprintf("%s:%s:write:%s", label, fnKey(fn), g.Name()), c.Pos(in.Pos()), fmt.Sprintf("%s to package-level state %s.%s outside package initialisation (in %s): concurrent requests race on it", what, label, g.Name(), fn.Name()))
				}
			}
		}
	}
	if bad == 0 {
		r.Pass(fmt.Sprintf("%s: %d package-level variables, no write outside init in %d functions", label, nGlobals, nFn))
	}
}

func fnKey(fn *ssa.Function) string {
	if fn.Parent() != nil {
		return fnKey(fn.Parent()) + "$"
	}
	if fn.Signature.Recv() != nil {
		return recvName(fn.Signature.Recv().Type()) + "." + fn.Name()
	}
	return fn.Name()
}

var ratMutators = map[string]bool{
	"Set": true, "SetFloat64": true, "SetFrac": true, "SetFrac64": true, "SetInt": true, "SetInt64": true, "SetUint64": true, "SetString": true,
	"Abs": true, "Add": true, "Sub": true, "Mul": true, "Quo": true, "Neg": true, "Inv": true,
	"UnmarshalText": true, "UnmarshalJSON": true, "GobDecode": true, "Scan": true,
}

func runC19(c *core.Ctx) error {
	r1 := c.NewRule("R19.1", "S1+S2", "package-level state is written only during initialisation", 12)
	r2 := c.NewRule("R19.2", "S1", "shared *big.Rat is never a mutating receiver", 1)
	r3 := c.NewRule("R19.3", "S2", "the URL mutated per request is a clone", 20)
	r4 := c.NewRule("R19.4", "S2", "methods of Server/Client never store to their receiver", 6)
	r5 := c.NewRule("R19.5", "S1", "pooled objects are not used after Put nor stored away", 2)

	rt := []string{"./uri", "./conv", "./json", "./http", "./validate", "./ogenerrors", "./middleware", "./ogenregex", "./otelogen"}
	prog, err := c.Program(rt...)
	if err != nil {
		return err
	}
	for _, p := range rt {
		path := core.Module + strings.TrimPrefix(p, ".")
		checkGlobalWrites(c, r1, prog, path, core.ShortPkg(path))
	}

	// R19.2
	nRat := 0
	for _, p := range []string{pkgVal} {
		for _, fn := range core.PkgFuncs(prog.SSA, prog.ByPath[p]) {
			for _, call := range core.Calls(fn) {
				cal := call.Common().StaticCallee()
				if cal == nil || cal.Signature.Recv() == nil || core.FuncPkgPath(cal) != "math/big" || recvName(cal.Signature.Recv().Type()) != "Rat" {
					continue
				}
				if !ratMutators[cal.Name()] {
					continue
				}
				nRat++
				recv := call.Common().Args[0]
				k, _ := addrRoot(recv, 0)
				key := fmt.Sprintf("%s:Rat.%s", fnKey(fn), cal.Name())
				// the receiver must be a local new(big.Rat) (possibly through a call chain returning its receiver)
				if isLocalRat(recv, 0) {
					r2.Pass(fmt.Sprintf("%s: receiver is a local new(big.Rat)", key))
				} else {
					r2.Fail(key, c.Pos(call.Pos()), fmt.Sprintf("(*big.Rat).%s mutates a receiver that is not a request-local value (root kind %d): validators share their *big.Rat across goroutines", cal.Name(), k))
				}
			}
		}
	}
	if nRat == 0 {
		r2.Note("no mutating math/big.Rat call in package validate")
		r2.Pass("validate: no mutating big.Rat method is called")
	}

	// R19.5 pools (S1)
	for _, p := range rt {
		path := core.Module + strings.TrimPrefix(p, ".")
		for _, fn := range core.PkgFuncs(prog.SSA, prog.ByPath[path]) {
			checkPoolDiscipline(c, r5, fn)
		}
		checkSyncPoolDiscipline(c, r5, prog, path, core.ShortPkg(path))
	}

	checkSharedReceiversReadOnly(c, r4, prog)

	r6 := c.NewRule("R19.6", "S1+S2", "function values that outlive their creator do not store to captured variables", 3)
	r7 := c.NewRule("R19.7", "S1+S2", "package-level slices and maps are not handed out whole (their backing store stays private to read-only code)", 3)
	for _, p := range rt {
		path := core.Module + strings.TrimPrefix(p, ".")
		checkEscapingClosures(c, r6, prog, path, core.ShortPkg(path))
		// runtime packages: package-level pointers to library objects with internal state (a *rand.Rand, a
		// *bytes.Buffer) are covered too — calling a method on one from concurrent requests races inside it
		checkGlobalRefEscapeOpt(c, r7, prog, path, core.ShortPkg(path), true)
	}

	// S2
	ex, err := c.Expand(fixtureNames(c))
	if err != nil {
		return err
	}
	for _, fx := range ex.Fixtures {
		checkGlobalWrites(c, r1, ex.Prog, fx.PkgPath, "S2:"+fx.Name)
		pkg := ex.Prog.ByPath[fx.PkgPath]
		shared := map[string]bool{"Server": true, "Client": true, "baseServer": true, "baseClient": true, "WebhookHandler": true, "WebhookClient": true}
		nMeth, badRecv := 0, 0
		for _, fn := range core.PkgFuncs(ex.Prog.SSA, pkg) {
			root := fn
			for root.Parent() != nil {
				root = root.Parent()
			}
			if root.Signature.Recv() == nil || !shared[recvName(root.Signature.Recv().Type())] {
				continue
			}
			nMeth++
			recvParam := root.Params[0]
			for _, b := range fn.Blocks {
				for _, in := range b.Instrs {
					st, ok := in.(*ssa.Store)
					if !ok {
						continue
					}
					k, rv := addrRoot(st.Addr, 0)
					isRecv := (k == rootParam && rv == ssa.Value(recvParam))
					if k == rootFree && fn != root {
						// captured receiver inside a closure
						if fv, ok := rv.(*ssa.FreeVar); ok && fv.Name() == recvParam.Name() {
							isRecv = true
						}
					}
					// a value receiver (baseServer) is a copy: stores into it are local
					if _, isPtr := recvParam.Type().(*types.Pointer); !isPtr {
						isRecv = false
					}
					if isRecv {
						// storing into the receiver's own spilled copy (value receivers) is excluded above;
						// this is a write through the shared pointer
						badRecv++
						r4.Fail(fmt.Sprintf("S2:%s:%s:recv-write", fx.Name, fnKey(fn)), c.Pos(st.Pos()), fmt.Sprintf("%s stores to a field of its shared receiver: concurrent calls race", fnKey(fn)))
					}
				}
			}
			if strings.HasPrefix(root.Name(), "send") && fn == root {
				checkURLClone(c, r3, fx.Name, fn)
			}
		}
		if badRecv == 0 && nMeth > 0 {
			r4.Pass(fmt.Sprintf("S2:%s: %d functions with a shared receiver, none stores through it", fx.Name, nMeth))
		}
		for _, fn := range core.PkgFuncs(ex.Prog.SSA, pkg) {
			checkPoolDiscipline(c, r5, fn)
		}
		checkSyncPoolDiscipline(c, r5, ex.Prog, fx.PkgPath, "S2:"+fx.Name)
		checkEscapingClosures(c, r6, ex.Prog, fx.PkgPath, "S2:"+fx.Name)
		checkGlobalRefEscape(c, r7, ex.Prog, fx.PkgPath, "S2:"+fx.Name)
	}
	return nil
}

// closureEscapes: the MakeClosure value is returned, stored, or passed to a
// go statement / another function (other than being called or deferred in
// place).
func closureEscapes(mc *ssa.MakeClosure) bool {
	return closureEscapesSeen(mc, map[*ssa.MakeClosure]bool{})
}

func closureEscapesSeen(mc *ssa.MakeClosure, visiting map[*ssa.MakeClosure]bool) bool {
	if visiting[mc] {
		return false
	}
	visiting[mc] = true
	seen := map[ssa.Value]bool{}
	var esc func(v ssa.Value) bool
	esc = func(v ssa.Value) bool {
		if seen[v] || v.Referrers() == nil {
			return false
		}
		seen[v] = true
		for _, ref := range *v.Referrers() {
			switch x := ref.(type) {
			case *ssa.Return:
				return true
			case *ssa.Store:
				if x.Val == v {
					// stored into a local variable that is only called is fine; anything else escapes
					if al, ok := x.Addr.(*ssa.Alloc); ok {
						for _, r2 := range *al.Referrers() {
							if ld, ok := r2.(*ssa.UnOp); ok && ld.Op == token.MUL {
								if esc(ld) {
									return true
								}
							}
							if mc2, ok := r2.(*ssa.MakeClosure); ok {
								// captured by another closure: follows that closure's fate
								if closureEscapesSeen(mc2, visiting) {
									return true
								}
							}
						}
						continue
					}
					return true
				}
			case *ssa.Go:
				return true
			case *ssa.MapUpdate:
				return true
			case *ssa.MakeInterface, *ssa.ChangeType, *ssa.Phi:
				if esc(x.(ssa.Value)) {
					return true
				}
			case ssa.CallInstruction:
				// called in place (callee position) or deferred: does not outlive; passed as an argument: escapes
				if x.Common().Value == v {
					continue
				}
				for _, a := range x.Common().Args {
					if a == v {
						// arguments of known synchronous helpers do not retain the function
						n := core.CalleeName(x.Common())
						if strings.HasPrefix(n, "slices.") || strings.HasPrefix(n, "sort.") || strings.HasPrefix(n, "strings.") || strings.Contains(n, ".Arr") || strings.Contains(n, ".Obj") ||
							strings.Contains(n, "DecodeParam") || strings.Contains(n, "EncodeParam") || strings.Contains(n, "EncodeArray") || strings.Contains(n, "EncodeField") ||
							strings.Contains(n, "DecodeArray") || strings.Contains(n, "DecodeFields") || strings.Contains(n, "HookMiddleware") || strings.Contains(n, "runtime/pprof.Do") ||
							strings.Contains(n, "CreateMultipartBody") || strings.Contains(n, "splitFunc") || strings.Contains(n, "ObjBytes") || strings.Contains(n, "Capture") {
							continue
						}
						return true
					}
				}
			}
		}
		return false
	}
	return esc(mc)
}

// checkEscapingClosures implements R19.6.
func checkEscapingClosures(c *core.Ctx, r *core.Rule, prog *core.Prog, pkgPath, label string) {
	pkg := prog.ByPath[pkgPath]
	if pkg == nil {
		return
	}
	n, bad := 0, 0
	for _, fn := range core.PkgFuncs(prog.SSA, pkg) {
		if isInitFunc(fn) {
			continue
		}
		for _, b := range fn.Blocks {
			for _, in := range b.Instrs {
				mc, ok := in.(*ssa.MakeClosure)
				if !ok {
					continue
				}
				lit := mc.Fn.(*ssa.Function)
				if !closureEscapes(mc) {
					continue
				}
				n++
				// stores through captured variables inside the escaping closure (and closures nested in it)
				for _, g := range core.AllFuncs(lit) {
					for _, bb := range g.Blocks {
						for _, i2 := range bb.Instrs {
							st, ok := i2.(*ssa.Store)
							if !ok {
								continue
							}
							k, root := addrRoot(st.Addr, 0)
							if k != rootFree {
								continue
							}
							fv := root.(*ssa.FreeVar)
							if fv.Parent() != lit {
								continue // captured from the escaping closure itself: per-invocation state
							}
							// the captured variable is written per invocation of a function value that outlives its creator
							// and may be invoked concurrently. Allowed: variables of the parent that the parent itself only
							// reads after the closure ran synchronously — cannot be known here.
							bad++
							r.Fail(fmt.Sprintf("%s:%s:captured-write:%s", label, fnKey(fn), fv.Name()), c.Pos(st.Pos()), fmt.Sprintf("the function value created in %s outlives the call and stores to its captured variable %s on every invocation: concurrent invocations race and see each other's value", fn.Name(), fv.Name()))
						}
					}
				}
			}
		}
	}
	if bad == 0 {
		r.Pass(fmt.Sprintf("%s: %d escaping function values, none stores to a captured variable", label, n))
	}
}

// checkGlobalRefEscape implements R19.7.
func checkGlobalRefEscape(c *core.Ctx, r *core.Rule, prog *core.Prog, pkgPath, label string) {
	checkGlobalRefEscapeOpt(c, r, prog, pkgPath, label, false)
}

// immutableByAPI: pointer types whose exported API offers no mutation (sharing them is harmless).
var immutableByAPI = map[string]bool{
	"*regexp.Regexp": true, "*text/template.Template": true, "*go/token.FileSet": true, "*strings.Replacer": true,
	"*unicode.RangeTable": true, // read-only table consulted by unicode.Is
}

// readOnlyOrSyncSafe: methods of library types that may be called on a
// package-level variable outside initialisation. The first group never writes;
// the second group writes but is safe under concurrency and carries no state
// from one generation to the next that the output could observe.
var readOnlyOrSyncSafe = map[string]string{
	"(*sync.Pool).Get": "pool", "(*sync.Pool).Put": "pool",
	"(*sync.Once).Do": "once", "(*sync.Mutex).Lock": "lock", "(*sync.Mutex).Unlock": "lock",
	"(*sync.RWMutex).Lock": "lock", "(*sync.RWMutex).Unlock": "lock", "(*sync.RWMutex).RLock": "lock", "(*sync.RWMutex).RUnlock": "lock",
	"(*sync.Map).Load": "read", "(*sync.Map).Range": "read",
}

// checkGlobalMethodCalls: a method of a library type invoked on (the address of)
// a package-level variable outside initialisation must be read-only or one of
// the synchronisation idioms; anything else (sync.Map.Store, bytes.Buffer.Write,
// atomic adds) is process-wide state that outlives the call.
func checkGlobalMethodCalls(c *core.Ctx, r *core.Rule, prog *core.Prog, pkgPath, label string) {
	pkg := prog.ByPath[pkgPath]
	if pkg == nil {
		return
	}
	n, bad := 0, 0
	for _, fn := range core.PkgFuncs(prog.SSA, pkg) {
		if isInitFunc(fn) || inOnceBody(fn) {
			continue
		}
		for _, call := range core.Calls(fn) {
			cal := call.Common().StaticCallee()
			if cal == nil || core.InModule(cal) || cal.Signature.Recv() == nil || len(call.Common().Args) == 0 {
				continue
			}
			if _, isPtr := cal.Signature.Recv().Type().(*types.Pointer); !isPtr {
				continue
			}
			recv := call.Common().Args[0]
			g, ok := recv.(*ssa.Global)
			if !ok {
				if fa, isFA := recv.(*ssa.FieldAddr); isFA {
					g, ok = fa.X.(*ssa.Global)
				}
			}
			if !ok {
				continue
			}
			n++
			name := core.FuncName(cal)
			if _, fine := readOnlyOrSyncSafe[name]; fine {
				continue
			}
			bad++
			r.Fail(fmt.Sprintf("%s:%s:global-method:%s:%s", label, fnKey(fn), g.Name(), cal.Name()), c.Pos(call.Pos()), fmt.Sprintf("%s is called on the package-level variable %s outside initialisation (in %s): state written here outlives the call and is shared by everything that runs in the process", name, g.Name(), fn.Name()))
		}
	}
	if bad == 0 {
		r.Pass(fmt.Sprintf("%s: %d library-method calls on package-level variables, all read-only or synchronisation idioms", label, n))
	}
}

// checkGlobalRefEscapeOpt: with ptrs set, package-level pointers to mutable
// structures are covered too (the generator must not weave process-wide objects
// into the per-document IR, where later passes write to them).
func checkGlobalRefEscapeOpt(c *core.Ctx, r *core.Rule, prog *core.Prog, pkgPath, label string, ptrs bool) {
	pkg := prog.ByPath[pkgPath]
	if pkg == nil {
		return
	}
	n, bad := 0, 0
	for _, fn := range core.PkgFuncs(prog.SSA, pkg) {
		if isInitFunc(fn) {
			continue
		}
		for _, b := range fn.Blocks {
			for _, in := range b.Instrs {
				ld, ok := in.(*ssa.UnOp)
				if !ok || ld.Op != token.MUL {
					continue
				}
				g, ok := ld.X.(*ssa.Global)
				if !ok || g.Pkg != pkg {
					continue
				}
				switch pt := ld.Type().Underlying().(type) {
				case *types.Slice, *types.Map:
				case *types.Pointer:
					if !ptrs || immutableByAPI[types.TypeString(ld.Type(), nil)] {
						continue
					}
					if _, isStruct := pt.Elem().Underlying().(*types.Struct); !isStruct {
						continue
					}
				default:
					continue
				}
				n++
				// an element of a package-level map that is itself a slice or a map is shared storage too: m[k] handed
				// out whole lets the receiver write into what every other request reads
				for _, ref := range *ld.Referrers() {
					lk, ok := ref.(*ssa.Lookup)
					if !ok || lk.X != ssa.Value(ld) {
						continue
					}
					var elems []ssa.Value
					if lk.CommaOk {
						for _, r2 := range *lk.Referrers() {
							if ex, ok := r2.(*ssa.Extract); ok && ex.Index == 0 {
								elems = append(elems, ex)
							}
						}
					} else {
						elems = append(elems, lk)
					}
					for _, ev := range elems {
						switch ev.Type().Underlying().(type) {
						case *types.Slice, *types.Map:
						default:
							continue
						}
						for _, r3 := range *ev.Referrers() {
							escapes := ""
							switch x := r3.(type) {
							case *ssa.Store:
								if x.Val == ev {
									escapes = "is stored into another structure"
									// the cell of a local variable (captured or not) is not a structure: `part = p` in
									// gen/names.go; what is done through the variable afterwards (append in place) is the
									// business of the append-effect rule R10.2
									switch x.Addr.(type) {
									case *ssa.Alloc, *ssa.FreeVar:
										escapes = ""
									}
								}
							case *ssa.Return:
								escapes = "is returned"
							case *ssa.MakeInterface:
								escapes = "is converted to an interface value"
							}
							if escapes != "" {
								bad++
								r.Fail(fmt.Sprintf("%s:global-element-escape:%s", label, g.Name()), c.Pos(core.InstrPos(r3)), fmt.Sprintf("an element of the package-level map %s (a %s) %s in %s without being copied: its backing store is shared by every request, and whoever receives it (a user's handler) can modify it in place (sort it, overwrite an entry) under every other request's feet", g.Name(), ev.Type().Underlying().String(), escapes, fn.Name()))
							}
						}
					}
				}
				for _, ref := range *ld.Referrers() {
					escapes := ""
					switch x := ref.(type) {
					case *ssa.Store:
						if x.Val == ssa.Value(ld) {
							escapes = "is stored into another structure"
						}
					case *ssa.Return:
						escapes = "is returned"
					case *ssa.MakeInterface:
						escapes = "is converted to an interface value"
					case *ssa.MapUpdate:
						if x.Map != ssa.Value(ld) {
							escapes = "is stored into a map"
						}
					case ssa.CallInstruction:
						name := core.CalleeName(x.Common())
						if bi, ok := x.Common().Value.(*ssa.Builtin); ok {
							if bi.Name() == "len" || bi.Name() == "cap" {
								continue
							}
							if bi.Name() == "append" && len(x.Common().Args) > 0 && x.Common().Args[0] != ssa.Value(ld) {
								continue // appended FROM (copied), not appended to
							}
						}
						if strings.HasPrefix(name, "slices.Contains") || strings.HasPrefix(name, "slices.Index") || strings.HasPrefix(name, "slices.Clone") || strings.HasPrefix(name, "strings.Join") || strings.HasPrefix(name, "maps.Clone") {
							continue
						}
						escapes = "is passed to " + name
					}
					if escapes != "" {
						bad++
						r.Fail(fmt.Sprintf("%s:global-escape:%s", label, g.Name()), c.Pos(core.InstrPos(ref)), fmt.Sprintf("the package-level %s %s %s in %s: its backing store is shared by every request and the receiver may modify it (e.g. sort it in place)", ld.Type().Underlying().String(), g.Name(), escapes, fn.Name()))
					}
				}
			}
		}
	}
	if bad == 0 {
		r.Pass(fmt.Sprintf("%s: %d loads of package-level slices/maps, none hands the whole value out", label, n))
	}
}

func isLocalRat(v ssa.Value, depth int) bool {
	if depth > 6 {
		return false
	}
	switch x := v.(type) {
	case *ssa.Alloc:
		return true
	case *ssa.Call:
		// methods of big.Rat return their receiver: new(big.Rat).SetFloat64(v)
		if cal := x.Common().StaticCallee(); cal != nil && core.FuncPkgPath(cal) == "math/big" && len(x.Common().Args) > 0 {
			return isLocalRat(x.Common().Args[0], depth+1)
		}
	case *ssa.Phi:
		for _, e := range x.Edges {
			if !isLocalRat(e, depth+1) {
				return false
			}
		}
		return true
	}
	return false
}

// checkURLClone implements R19.3 for one send<Op>.
func checkURLClone(c *core.Ctx, r *core.Rule, fx string, fn *ssa.Function) {
	key := fmt.Sprintf("S2:%s:%s", fx, fn.Name())
	n := 0
	fresh := func(v ssa.Value) bool {
		call, ok := v.(*ssa.Call)
		if !ok {
			if ex, isEx := v.(*ssa.Extract); isEx {
				call, ok = ex.Tuple.(*ssa.Call)
			}
		}
		if !ok {
			return false
		}
		return core.IsCallTo(call.Common(), pkgURI, "Clone") || core.IsCallTo(call.Common(), "net/url", "Parse")
	}
	for _, f := range core.AllFuncs(fn) {
		for _, b := range f.Blocks {
			for _, in := range b.Instrs {
				var u ssa.Value
				what := ""
				switch x := in.(type) {
				case *ssa.Call:
					if core.IsCallTo(x.Common(), pkgURI, "AddPathParts") {
						u, what = x.Common().Args[0], "uri.AddPathParts"
					}
				case *ssa.Store:
					if fa, ok := x.Addr.(*ssa.FieldAddr); ok {
						if p, nme := core.NamedOf(fa.X.Type()); p == "net/url" && nme == "URL" {
							u, what = fa.X, "store to URL."+fieldName(fa.X.Type(), fa.Field)
						}
					}
				}
				if u == nil {
					continue
				}
				n++
				ok := true
				for _, pv := range core.PhiClosure(u) {
					if !fresh(pv) {
						ok = false
					}
				}
				if ok {
					r.Pass(fmt.Sprintf("%s: %s on a clone", key, what))
				} else {
					r.Fail(key+":shared-url", c.Pos(in.Pos()), fmt.Sprintf("%s mutates a *url.URL that is not the result of uri.Clone/url.Parse: the client's shared server URL is modified per request", what))
				}
			}
		}
	}
	_ = n
}

// checkPoolDiscipline implements R19.5.
func checkPoolDiscipline(c *core.Ctx, r *core.Rule, fn *ssa.Function) {
	for _, call := range core.Calls(fn) {
		cl, ok := call.(*ssa.Call)
		if !ok {
			continue
		}
		if !(core.IsCallTo(cl.Common(), "github.com/go-faster/jx", "GetDecoder") || core.IsCallTo(cl.Common(), "github.com/go-faster/jx", "GetEncoder") || core.IsCallTo(cl.Common(), "github.com/go-faster/jx", "GetWriter")) {
			continue
		}
		key := fmt.Sprintf("%s:%s", fnKey(fn), cl.Common().StaticCallee().Name())
		// uses of the pooled value
		var puts []ssa.Instruction
		stored := false
		for _, ref := range *cl.Referrers() {
			switch x := ref.(type) {
			case *ssa.Call:
				if n := core.CalleeName(x.Common()); strings.HasPrefix(n, "github.com/go-faster/jx.Put") {
					puts = append(puts, x)
				}
			case *ssa.Store:
				if x.Val == ssa.Value(cl) {
					if k, _ := addrRoot(x.Addr, 0); k != rootLocal {
						stored = true
					}
				}
			}
		}
		if stored {
			r.Fail(key+":escape", c.Pos(cl.Pos()), "a pooled jx object is stored into a structure that outlives the call")
			continue
		}
		bad := false
		for _, put := range puts {
			for _, ref := range *cl.Referrers() {
				in, ok := ref.(ssa.Instruction)
				if !ok || in == put {
					continue
				}
				if put.Block().Dominates(in.Block()) && (put.Block() != in.Block() || instrIndex(put) < instrIndex(in)) {
					bad = true
					r.Fail(key+":use-after-put", c.Pos(in.Pos()), "a pooled jx object is used after it was returned to the pool: another goroutine may already own it")
				}
			}
		}
		// with a Put anywhere in the function (deferred ones run at return), memory handed out by the pooled
		// object (Bytes()) must be consumed synchronously: written, appended from, copied or converted
		hasPut := len(puts) > 0
		for _, ref := range *cl.Referrers() {
			if d, ok := ref.(*ssa.Defer); ok && strings.HasPrefix(core.CalleeName(&d.Call), "github.com/go-faster/jx.Put") {
				hasPut = true
			}
		}
		if hasPut {
			// direct uses and uses of a loaded copy (value-receiver methods)
			var users []ssa.Instruction
			for _, ref := range *cl.Referrers() {
				users = append(users, ref)
				if ld, ok := ref.(*ssa.UnOp); ok && ld.Op == token.MUL {
					users = append(users, *ld.Referrers()...)
				}
			}
			for _, ref := range users {
				bc, ok := ref.(*ssa.Call)
				if !ok || bc.Common().StaticCallee() == nil || bc.Common().StaticCallee().Name() != "Bytes" {
					continue
				}
				for _, use := range *bc.Referrers() {
					okUse := false
					switch u := use.(type) {
					case ssa.CallInstruction:
						n := core.CalleeName(u.Common())
						if strings.Contains(n, ".Write") || strings.HasPrefix(n, "builtin append") || strings.HasPrefix(n, "builtin copy") || strings.HasPrefix(n, "builtin len") || strings.HasPrefix(n, "bytes.Equal") || strings.HasPrefix(n, "slices.Clone") || strings.HasPrefix(n, "bytes.Clone") {
							okUse = true
						}
					case *ssa.Convert:
						okUse = true // string(b) copies
					}
					if !okUse {
						bad = true
						r.Fail(key+":bytes-escape", c.Pos(core.InstrPos(use)), "memory of a pooled jx object (Bytes()) is handed on while the object is returned to the pool when the function exits: a later reader (e.g. the HTTP transport reading the request body) sees another goroutine's data")
					}
				}
			}
		}
		if !bad {
			r.Pass(fmt.Sprintf("%s at %s: no use after a non-deferred Put, not stored away", key, c.Pos(cl.Pos())))
		}
	}
}

// checkSyncPoolDiscipline (R19.5, any sync.Pool): an object taken from a
// sync.Pool (directly or through a one-line getter) and given back in the same
// function (directly, deferred, or through a putter) lends its memory only for
// the duration of the call. Slices obtained from it (Bytes(), re-slices) must
// not be stored into heap objects, returned, or boxed into an interface: after
// the Put another goroutine owns and overwrites that memory.
func checkSyncPoolDiscipline(c *core.Ctx, r *core.Rule, prog *core.Prog, pkgPath, label string) {
	pkg := prog.ByPath[pkgPath]
	if pkg == nil {
		return
	}
	isPoolCall := func(cc *ssa.CallCommon, m string) bool {
		return core.CalleeName(cc) == "(*sync.Pool)."+m
	}
	var fromPoolGet func(v ssa.Value, depth int) bool
	getters := map[*ssa.Function]bool{}
	putters := map[*ssa.Function]bool{}
	fromPoolGet = func(v ssa.Value, depth int) bool {
		if depth > 4 {
			return false
		}
		switch x := v.(type) {
		case *ssa.Call:
			if isPoolCall(x.Common(), "Get") {
				return true
			}
			if g := x.Common().StaticCallee(); g != nil && getters[g] {
				return true
			}
		case *ssa.TypeAssert:
			return fromPoolGet(x.X, depth+1)
		case *ssa.ChangeType:
			return fromPoolGet(x.X, depth+1)
		case *ssa.Extract:
			return fromPoolGet(x.Tuple, depth+1)
		}
		return false
	}
	fns := core.PkgFuncs(prog.SSA, pkg)
	for iter := 0; iter < 2; iter++ {
		for _, fn := range fns {
			for _, b := range fn.Blocks {
				if ret, ok := b.Instrs[len(b.Instrs)-1].(*ssa.Return); ok && len(ret.Results) == 1 && fromPoolGet(ret.Results[0], 0) {
					getters[fn] = true
				}
			}
			for _, call := range core.Calls(fn) {
				if isPoolCall(call.Common(), "Put") && len(call.Common().Args) == 2 {
					if _, isParam := call.Common().Args[1].(*ssa.MakeInterface); isParam {
						if p, ok := call.Common().Args[1].(*ssa.MakeInterface).X.(*ssa.Parameter); ok && p.Parent() == fn {
							putters[fn] = true
						}
					}
				}
			}
		}
	}
	n := 0
	for _, top := range fns {
		for _, fn := range core.AllFuncs(top) {
			if getters[fn] || putters[fn] {
				continue
			}
			for _, b := range fn.Blocks {
				for _, in := range b.Instrs {
					obj, ok := in.(ssa.Value)
					if !ok || !fromPoolGet(obj, 0) {
						continue
					}
					if _, isCall := in.(*ssa.Call); isCall && isPoolCall(in.(*ssa.Call).Common(), "Get") {
						continue // judged at the type assertion / through the getter
					}
					// is it given back in this function?
					given := false
					for _, call := range core.Calls(fn) {
						cc := call.Common()
						g := cc.StaticCallee()
						for _, a := range cc.Args {
							if mi, ok := a.(*ssa.MakeInterface); ok {
								a = mi.X
							}
							if a == obj && (isPoolCall(cc, "Put") || (g != nil && putters[g])) {
								given = true
							}
						}
					}
					if !given {
						continue
					}
					n++
					key := fmt.Sprintf("%s:%s:pool-memory", label, fnKey(fn))
					// memory lent by the object
					lent := map[ssa.Value]bool{}
					var add func(v ssa.Value)
					add = func(v ssa.Value) {
						if lent[v] {
							return
						}
						lent[v] = true
						for _, ref := range *v.Referrers() {
							switch x := ref.(type) {
							case *ssa.Slice:
								add(x)
							case *ssa.Phi:
								add(x)
							case *ssa.ChangeType:
								add(x)
							}
						}
					}
					for _, ref := range *obj.Referrers() {
						if call, ok := ref.(*ssa.Call); ok && len(call.Common().Args) > 0 && call.Common().Args[0] == obj {
							if _, isSlice := call.Type().Underlying().(*types.Slice); isSlice {
								add(call)
							}
						}
					}
					bad := false
					for v := range lent {
						for _, ref := range *v.Referrers() {
							why := ""
							switch x := ref.(type) {
							case *ssa.Store:
								if x.Val == v {
									if k, root := addrRoot(x.Addr, 0); k != rootLocal {
										why = "stored into a structure that outlives the call"
									} else if al, ok := root.(*ssa.Alloc); ok && al.Heap && x.Addr != ssa.Value(al) {
										why = "stored into a heap object (" + al.Comment + ")"
									}
								}
							case *ssa.Return:
								why = "returned"
							case *ssa.MakeInterface:
								why = "boxed into an interface value"
							case *ssa.Go:
								why = "handed to a goroutine"
							}
							if why != "" {
								bad = true
								r.Fail(key, c.Pos(core.InstrPos(ref)), fmt.Sprintf("memory lent by a pooled object (a slice of its buffer) is %s in %s, but the object goes back to the sync.Pool when the function returns: whoever reads it later sees another request's data", why, fn.Name()))
							}
						}
					}
					if !bad {
						r.Pass(fmt.Sprintf("%s: memory of the pooled object stays inside the call", key))
					}
				}
			}
		}
	}
	_ = n
}

// checkSharedReceiversReadOnly (R19.4, S1 part): compiled patterns
// (ogenregex.Regexp implementations) live in the generated package-level
// regexMap and validators (package validate) hold them and the shared *big.Rat;
// every request uses the same objects concurrently. No method of a type of
// these two packages may write to memory reachable from its receiver — not
// the receiver's fields (pointer receivers) and not what its fields point to
// (scratch buffers, caches), including append into a receiver-held slice.
func checkSharedReceiversReadOnly(c *core.Ctx, r *core.Rule, prog *core.Prog) {
	scope := map[string]bool{pkgRegex: true, pkgVal: true}
	an := effects.Analyze(prog, func(f *ssa.Function) bool { return scope[core.FuncPkgPath(f)] })
	var fns []*ssa.Function
	var regexpIface *types.Interface
	if rp := prog.PkgBy[pkgRegex]; rp != nil {
		if o := rp.Types.Scope().Lookup("Regexp"); o != nil {
			regexpIface, _ = o.Type().Underlying().(*types.Interface)
		}
	}
	for f := range an.Sum {
		if f.Signature.Recv() == nil || f.Parent() != nil || !scope[core.FuncPkgPath(f)] {
			continue
		}
		if core.FuncPkgPath(f) == pkgRegex {
			rt := f.Signature.Recv().Type()
			if regexpIface == nil || !(types.Implements(rt, regexpIface) || types.Implements(types.NewPointer(rt), regexpIface)) {
				continue // the converter's parser is a per-call local
			}
		}
		fns = append(fns, f)
	}
	sort.Slice(fns, func(i, j int) bool { return fns[i].String() < fns[j].String() })
	n := 0
	for _, f := range fns {
		// setters used while a validator value is being built are value-local: a pointer-receiver method named Set* on
		// a validator is called on the caller's own local (generated code builds validators per call); what matters
		// is memory behind the receiver's reference fields, so pointer receivers are judged on deep writes only
		_, ptrRecv := f.Signature.Recv().Type().(*types.Pointer)
		n++
		var bad []string
		var pos token.Pos
		for _, e := range an.Sum[f].Effects {
			if e.Root != effects.Param || e.Index != 0 {
				continue
			}
			// the pattern engines' own methods: their thread-safety is an assumption of C19 (stated), not decided here
			if strings.HasPrefix(e.Kind, "ext:(*github.com/dlclark/regexp2.Regexp).") || strings.HasPrefix(e.Kind, "ext:(*regexp.Regexp).") {
				continue
			}
			if ptrRecv && e.Kind == "store" && e.Via == core.FuncName(f) && !effectIsDeep(f, e) {
				continue // assigns its own fields: a builder method on a private value
			}
			bad = append(bad, e.String())
			pos = e.Pos
		}
		sort.Strings(bad)
		key := "shared-receiver-write:" + core.FuncName(f)
		if len(bad) == 0 {
			r.Pass(fmt.Sprintf("%s writes nothing reachable from its receiver", core.FuncName(f)))
		} else {
			r.Fail(key, c.Pos(pos), fmt.Sprintf("%s writes to memory reachable from its receiver (%s): the object is shared by all requests (package-level pattern table / validator fields), so concurrent calls race and see each other's data", core.FuncName(f), strings.Join(bad, "; ")))
		}
	}
	if n == 0 {
		r.Undecided("shared-receivers:none", "-", "no methods found in ogenregex / validate")
	}
	// value receivers everywhere in the runtime: the method got a copy of the struct, so anything it writes
	// through the copy's reference fields (maps, slices, pointers) lands in memory the caller still shares —
	// e.g. a header map supplied once and used for concurrent uploads
	rtScope := map[string]bool{}
	for _, p := range prog.Pkgs {
		rtScope[p.PkgPath] = true
	}
	an2 := effects.Analyze(prog, func(f *ssa.Function) bool { return rtScope[core.FuncPkgPath(f)] })
	var vfns []*ssa.Function
	for f := range an2.Sum {
		if f.Signature.Recv() == nil || f.Parent() != nil || !rtScope[core.FuncPkgPath(f)] || scope[core.FuncPkgPath(f)] {
			continue
		}
		if _, ptr := f.Signature.Recv().Type().(*types.Pointer); ptr {
			continue
		}
		if f.Synthetic != "" {
			continue
		}
		vfns = append(vfns, f)
	}
	sort.Slice(vfns, func(i, j int) bool { return vfns[i].String() < vfns[j].String() })
	for _, f := range vfns {
		var bad []string
		var pos token.Pos
		for _, e := range an2.Sum[f].Effects {
			if e.Root != effects.Param || e.Index != 0 || strings.HasPrefix(e.Kind, "ext:") || strings.HasPrefix(e.Kind, "unknown:") {
				continue
			}
			bad = append(bad, e.String())
			pos = e.Pos
		}
		sort.Strings(bad)
		key := "value-receiver-write:" + core.FuncName(f)
		if len(bad) == 0 {
			r.Ob(true, "")
		} else {
			r.Fail(key, c.Pos(pos), fmt.Sprintf("%s has a value receiver but writes through one of its reference fields (%s): the memory belongs to the caller's original, which other goroutines may be using (a shared header map, a shared slice)", core.FuncName(f), strings.Join(bad, "; ")))
		}
	}
}

// effectIsDeep: the store lands behind a reference held by the receiver (not in the receiver's own fields).
func effectIsDeep(f *ssa.Function, e effects.Effect) bool {
	for _, b := range f.Blocks {
		for _, in := range b.Instrs {
			st, ok := in.(*ssa.Store)
			if !ok || st.Pos() != e.Pos {
				continue
			}
			// address = FieldAddr(recv, …) [IndexAddr on array fields] only → shallow
			a := st.Addr
			for {
				switch x := a.(type) {
				case *ssa.FieldAddr:
					a = x.X
					continue
				case *ssa.IndexAddr:
					if _, isArr := x.X.Type().Underlying().(*types.Pointer); isArr {
						a = x.X
						continue
					}
				}
				break
			}
			_, isParam := a.(*ssa.Parameter)
			return !isParam
		}
	}
	return true
}
