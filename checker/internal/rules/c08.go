package rules

import (
	"fmt"
	"go/ast"
	"go/constant"
	"go/token"
	"go/types"
	"regexp/syntax"
	"sort"
	"strings"

	"golang.org/x/tools/go/packages"
	"golang.org/x/tools/go/ssa"

	"ogenverif/internal/core"
	"ogenverif/internal/panicob"
)

func init() {
	register(&Property{
		ID: "C08",
		Meta: core.Meta{
			Level:       "other",
			Explanation: "Decided statically: (R08.1) every constant the converter substitutes denotes the ECMA-262 set it stands for — the set each constant denotes is computed with regexp/syntax (constants are data, not ogen code): '.' → complement of {LF, CR, U+2028, U+2029}; \\s → WhiteSpace ∪ LineTerminator (25 code points), \\S → its complement; [] → ∅; [^] → every code point U+0000–U+10FFFF; (R08.2) wiring that makes 'never approximated' and 'reports its original source' hold: Convert returns ok=true only under parse()==nil, parse returns the parser's error field, every non-fatal construct (look-ahead, look-behind, back-references, \\S in a class) records an error, Compile passes the ORIGINAL pattern and ECMAScript|Unicode to regexp2 on every path that does not return a goRegexp built under both success edges, goRegexp.orig is the original pattern and both String() methods return the original; (R08.3) every compiler-unproven bounds check of the package is discharged. Language equality between a pattern and its rewriting for arbitrary patterns (the token-level rewriting of escapes, classes, quantifiers) is a semantic property of the rewriting loop and is NOT decided.",
			Assumptions: []string{"reference sets frozen from ECMA-262 §12.2 WhiteSpace (incl. Unicode Zs) and §12.3 LineTerminator", "regexp2.Regexp.String returns the pattern it was compiled from"},
			TrustedBase: []string{"regexp/syntax as the evaluator of what a constant character class denotes", "tables/panic_justified.json"},
		},
		Run: runC08,
	})
}

type runeSet [][2]rune

func (s runeSet) String() string {
	var parts []string
	for _, r := range s {
		if r[0] == r[1] {
			parts = append(parts, fmt.Sprintf("U+%04X", r[0]))
		} else {
			parts = append(parts, fmt.Sprintf("U+%04X-U+%04X", r[0], r[1]))
		}
	}
	return "{" + strings.Join(parts, " ") + "}"
}

func normSet(rs []rune) runeSet {
	var out runeSet
	for i := 0; i+1 < len(rs); i += 2 {
		out = append(out, [2]rune{rs[i], rs[i+1]})
	}
	sort.Slice(out, func(i, j int) bool { return out[i][0] < out[j][0] })
	var merged runeSet
	for _, r := range out {
		if n := len(merged); n > 0 && r[0] <= merged[n-1][1]+1 {
			if r[1] > merged[n-1][1] {
				merged[n-1][1] = r[1]
			}
			continue
		}
		merged = append(merged, r)
	}
	return merged
}

func complement(s runeSet) runeSet {
	var out runeSet
	next := rune(0)
	for _, r := range s {
		if r[0] > next {
			out = append(out, [2]rune{next, r[0] - 1})
		}
		next = r[1] + 1
	}
	if next <= 0x10FFFF {
		out = append(out, [2]rune{next, 0x10FFFF})
	}
	return out
}

func setEq(a, b runeSet) bool {
	if len(a) != len(b) {
		return false
	}
	for i := range a {
		if a[i] != b[i] {
			return false
		}
	}
	return true
}

func setFromRunes(rs []rune) runeSet {
	var flat []rune
	for _, r := range rs {
		flat = append(flat, r, r)
	}
	return normSet(flat)
}

// classDenotation parses a constant as an RE2 pattern that must be a single
// character class (or no-match / any-char) and returns its set.
func classDenotation(pat string) (runeSet, error) {
	re, err := syntax.Parse(pat, syntax.Perl)
	if err != nil {
		return nil, err
	}
	switch re.Op {
	case syntax.OpCharClass:
		return normSet(re.Rune), nil
	case syntax.OpLiteral:
		if len(re.Rune) == 1 {
			return setFromRunes(re.Rune), nil
		}
	case syntax.OpNoMatch:
		return runeSet{}, nil
	case syntax.OpAnyChar:
		return runeSet{{0, 0x10FFFF}}, nil
	case syntax.OpAnyCharNotNL:
		return complement(runeSet{{'\n', '\n'}}), nil
	}
	return nil, fmt.Errorf("constant %q is not a single character class (op %v)", pat, re.Op)
}

var ecmaWhitespace = setFromRunes([]rune{
	0x09, 0x0B, 0x0C, 0x20, 0xA0, 0xFEFF, // TAB VT FF SP NBSP ZWNBSP
	0x1680, 0x2000, 0x2001, 0x2002, 0x2003, 0x2004, 0x2005, 0x2006, 0x2007, 0x2008, 0x2009, 0x200A, 0x202F, 0x205F, 0x3000, // Zs
	0x0A, 0x0D, 0x2028, 0x2029, // LineTerminator
})

var ecmaLineTerm = setFromRunes([]rune{0x0A, 0x0D, 0x2028, 0x2029})

func runC08(c *core.Ctx) error {
	prog, err := c.Program("./ogenregex")
	if err != nil {
		return err
	}
	pkg := prog.PkgBy[pkgRegex]
	spkg := prog.ByPath[pkgRegex]
	r1 := c.NewRule("R08.1", "S1", "substituted constants denote the ECMA-262 sets they stand for", 7)
	r2 := c.NewRule("R08.2", "S1", "fallback wiring: never approximated; original text kept", 12)
	r3 := c.NewRule("R08.3", "S1", "unproven bounds checks of package ogenregex discharged", 8)

	// ---- R08.1: every constant string written by writeString
	type site struct {
		fn, ctx     string
		val         string
		pos         token.Pos
		inClassThen *bool
	}
	var sites []site
	for _, f := range pkg.Syntax {
		for _, d := range f.Decls {
			fd, ok := d.(*ast.FuncDecl)
			if !ok || fd.Body == nil {
				continue
			}
			var stack []ast.Node
			ast.Inspect(fd.Body, func(n ast.Node) bool {
				if n == nil {
					stack = stack[:len(stack)-1]
					return true
				}
				stack = append(stack, n)
				ce, ok := n.(*ast.CallExpr)
				if !ok {
					return true
				}
				se, ok := ce.Fun.(*ast.SelectorExpr)
				if !ok || se.Sel.Name != "writeString" || len(ce.Args) != 1 {
					return true
				}
				tv := pkg.TypesInfo.Types[ce.Args[0]]
				if tv.Value == nil || tv.Value.Kind() != constant.String {
					return true
				}
				s := site{fn: fd.Name.Name, val: constant.StringVal(tv.Value), pos: ce.Pos()}
				// context: nearest enclosing case clause with char constants, or if HasPrefix(_, lit)
				for i := len(stack) - 1; i >= 0 && s.ctx == ""; i-- {
					switch p := stack[i].(type) {
					case *ast.CaseClause:
						var chars []string
						for _, x := range p.List {
							if v := pkg.TypesInfo.Types[x].Value; v != nil && v.Kind() == constant.Int {
								n, _ := constant.Int64Val(v)
								chars = append(chars, string(rune(n)))
							}
						}
						if len(chars) == 1 {
							s.ctx = "case '" + chars[0] + "'"
						}
					case *ast.IfStmt:
						if call, ok := p.Cond.(*ast.CallExpr); ok {
							if fse, ok := call.Fun.(*ast.SelectorExpr); ok && fse.Sel.Name == "HasPrefix" && len(call.Args) == 2 {
								if v := pkg.TypesInfo.Types[call.Args[1]].Value; v != nil && v.Kind() == constant.String {
									s.ctx = "prefix " + constant.StringVal(v)
								}
							}
						}
						if be, ok := p.Cond.(*ast.BinaryExpr); ok && be.Op == token.EQL && types.ExprString(be.X) == "p.chr" {
							if v := pkg.TypesInfo.Types[be.Y].Value; v != nil && v.Kind() == constant.Int {
								n, _ := constant.Int64Val(v)
								s.ctx = "chr '" + string(rune(n)) + "'"
							}
						}
						if id, ok := p.Cond.(*ast.Ident); ok && id.Name == "inClass" && i+1 < len(stack) {
							then := stack[i+1] == ast.Node(p.Body)
							s.inClassThen = &then
						}
					}
				}
				sites = append(sites, s)
				return true
			})
		}
	}
	// the dot is rewritten wherever pattern text is scanned outside a class: both scanner loops (top level and
	// inside a group) need their own `case '.'` that writes the ECMA dot class — a loop without it passes '.'
	// through with RE2's meaning
	for _, fnName := range []string{"scan", "scanGroup"} {
		has := false
		for _, st := range sites {
			if st.fn == fnName && st.ctx == "case '.'" {
				has = true
			}
		}
		if has {
			r1.Pass(fnName + " rewrites '.'")
		} else {
			r1.Fail("dot-not-rewritten:"+fnName, "-", "ogenregex.(*parser)."+fnName+" has no `case '.'` that writes the ECMA-262 dot class: inside that scanner a dot keeps RE2's meaning (it matches U+2028/U+2029 and, with (?s), line feeds)")
		}
	}
	for _, s := range sites {
		key := s.fn + ":" + s.ctx
		pos := c.Pos(s.pos)
		var want runeSet
		var wantDesc string
		raw := false
		switch s.ctx {
		case "case '.'":
			want, wantDesc = complement(ecmaLineTerm), "every code point except LF, CR, U+2028, U+2029"
		case "case 's'":
			want, wantDesc = ecmaWhitespace, "ECMA-262 WhiteSpace ∪ LineTerminator"
			if s.inClassThen != nil && *s.inClassThen {
				raw = true
				key += ":inClass"
			}
		case "case 'S'":
			want, wantDesc = complement(ecmaWhitespace), "complement of ECMA-262 WhiteSpace ∪ LineTerminator"
		case "chr '['":
			// written inside a class in place of the member '['
			got, err := classDenotation("[" + s.val + "]")
			if err != nil {
				r1.Undecided(key, pos, err.Error())
				continue
			}
			if setEq(got, runeSet{{'[', '['}}) {
				r1.Pass(fmt.Sprintf("%s: %q inside a class denotes exactly '['", key, s.val))
			} else {
				r1.Fail(key, pos, fmt.Sprintf("%q inside a class denotes %s, but must denote the single member '['", s.val, got))
			}
			continue
		case "prefix []":
			want, wantDesc = runeSet{}, "the empty set"
		case "prefix [^]":
			want, wantDesc = runeSet{{0, 0x10FFFF}}, "every code point U+0000–U+10FFFF"
		default:
			r1.Undecided(key, pos, fmt.Sprintf("constant %q is written in a context the rule has no reference for", s.val))
			continue
		}
		var got runeSet
		if raw {
			// written inside an existing class: must be plain members, no class metacharacters
			if strings.ContainsAny(s.val, `]\^-[`) {
				r1.Fail(key, pos, "raw class members contain a class metacharacter")
				continue
			}
			got = setFromRunes([]rune(s.val))
		} else {
			var err error
			got, err = classDenotation(s.val)
			if err != nil {
				r1.Undecided(key, pos, err.Error())
				continue
			}
		}
		if setEq(got, want) {
			r1.Pass(fmt.Sprintf("%s: %q denotes %s", key, s.val, wantDesc))
		} else {
			r1.Fail(key, pos, fmt.Sprintf("%q denotes %s, but must denote %s", s.val, got, wantDesc))
		}
	}

	// ---- R08.2 wiring
	compile := spkg.Func("Compile")
	convert := spkg.Func("Convert")
	if compile == nil || convert == nil {
		r2.Undecided("anchor:Compile", "-", "ogenregex.Compile/Convert not found")
	} else {
		checkCompileWiring(c, prog, r2, compile, convert)
		checkConvertWiring(c, prog, r2, convert)
	}
	checkNonFatal(c, pkg, r2)
	checkSingleDigitEscape(c, prog, r2)
	checkSpecialClassesFirst(c, prog, r2)

	// ---- R08.4
	r4 := c.NewRule("R08.4", "S1", "hex escapes are zero-padded exactly below the radix (\\x0H for value < 16, \\xHH otherwise)", 1)
	checkHexPadding(c, prog, r4)

	// ---- R08.5
	if err := checkPatternTextUnchanged(c); err != nil {
		return err
	}

	// ---- R08.3
	table, err := panicob.LoadTable(c.VerifDir, "panic_justified.json")
	if err != nil {
		return err
	}
	bs, err := panicob.Bounds(c, []*packages.Package{pkg})
	if err != nil {
		return err
	}
	panicob.Discharge(c, r3, bs, panicob.Options{Table: table})
	return nil
}

func checkCompileWiring(c *core.Ctx, prog *core.Prog, r *core.Rule, compile, convert *ssa.Function) {
	exp := compile.Params[0]
	// Compile and the helpers of the package it calls: the two engines may be tried in functions of their own
	fns := []*ssa.Function{compile}
	sites := map[*ssa.Function][]ssa.CallInstruction{}
	{
		seenF := map[*ssa.Function]bool{compile: true}
		for i := 0; i < len(fns) && len(fns) < 8; i++ {
			for _, call := range core.Calls(fns[i]) {
				cal := call.Common().StaticCallee()
				if cal == nil || cal == convert || core.FuncPkgPath(cal) != pkgRegex || len(cal.Blocks) == 0 {
					continue
				}
				sites[cal] = append(sites[cal], call)
				if !seenF[cal] {
					seenF[cal] = true
					fns = append(fns, cal)
				}
			}
		}
	}
	// isPat: v is the original pattern — Compile's parameter, or a helper's parameter that every call site feeds with it
	var isPat func(v ssa.Value, d int) bool
	isPat = func(v ssa.Value, d int) bool {
		if v == ssa.Value(exp) {
			return true
		}
		p, ok := v.(*ssa.Parameter)
		if !ok || d > 3 || len(sites[p.Parent()]) == 0 {
			return false
		}
		idx := paramIndex(p.Parent(), p)
		for _, cs := range sites[p.Parent()] {
			if idx < 0 || idx >= len(cs.Common().Args) || !isPat(cs.Common().Args[idx], d+1) {
				return false
			}
		}
		return true
	}
	var convCall, goCompile, re2Compile *ssa.Call
	for _, f := range fns {
		for _, call := range core.Calls(f) {
			cl, ok := call.(*ssa.Call)
			if !ok {
				continue
			}
			switch {
			case cl.Common().StaticCallee() == convert:
				convCall = cl
			case core.IsCallTo(cl.Common(), "regexp", "Compile"):
				goCompile = cl
			case core.IsCallTo(cl.Common(), "github.com/dlclark/regexp2", "Compile"):
				re2Compile = cl
			}
		}
	}
	if convCall == nil || goCompile == nil || re2Compile == nil {
		r.Undecided("Compile:anchors", c.Pos(compile.Pos()), "Compile (with the helpers of the package it calls) does not call Convert, regexp.Compile and regexp2.Compile")
		return
	}
	if convCall.Parent() != goCompile.Parent() {
		r.Undecided("Compile:anchors", c.Pos(compile.Pos()), "Convert and regexp.Compile are called in different functions: the success conditions of the linear-time path cannot be related")
		return
	}
	if isPat(convCall.Common().Args[0], 0) {
		r.Pass("Convert receives the original pattern")
	} else {
		r.Fail("Compile:Convert-arg", c.Pos(convCall.Pos()), "Convert is not applied to the original pattern")
	}
	// regexp.Compile(converted)
	if ex, ok := goCompile.Common().Args[0].(*ssa.Extract); ok && ex.Tuple == ssa.Value(convCall) && ex.Index == 0 {
		r.Pass("regexp.Compile receives Convert's output")
	} else {
		r.Fail("Compile:regexp-arg", c.Pos(goCompile.Pos()), "regexp.Compile does not receive the converted pattern")
	}
	// regexp2.Compile(exp, ECMAScript|Unicode)
	if isPat(re2Compile.Common().Args[0], 0) {
		r.Pass("regexp2.Compile receives the original pattern")
	} else {
		r.Fail("Compile:regexp2-arg", c.Pos(re2Compile.Pos()), "the backtracking engine does not receive the original pattern (a partially converted pattern would be an approximation)")
	}
	wantOpt := int64(-1)
	if p2 := prog.PkgBy["github.com/dlclark/regexp2"]; p2 != nil {
		a, ok1 := p2.Types.Scope().Lookup("ECMAScript").(*types.Const)
		b, ok2 := p2.Types.Scope().Lookup("Unicode").(*types.Const)
		if ok1 && ok2 {
			x, _ := constant.Int64Val(a.Val())
			y, _ := constant.Int64Val(b.Val())
			wantOpt = x | y
		}
	}
	if got, ok := core.ConstInt(re2Compile.Common().Args[1]); ok && got == wantOpt {
		r.Pass("regexp2 options are ECMAScript|Unicode")
	} else {
		r.Fail("Compile:regexp2-options", c.Pos(re2Compile.Pos()), fmt.Sprintf("regexp2 options are %d, want ECMAScript|Unicode (%d): the fallback engine would not use ECMA-262 Unicode semantics", got, wantOpt))
	}
	// In the function that tries the linear-time engine (Compile itself or a helper): a goRegexp is returned only under
	// both success edges; every other return of that function either reaches regexp2.Compile (same function) or
	// reports failure to its caller
	linear := convCall.Parent()
	okEdge := core.EdgeBlocks(extractOf(convCall, 1), true)
	nGo := 0
	for _, b := range linear.Blocks {
		ret, ok := b.Instrs[len(b.Instrs)-1].(*ssa.Return)
		if !ok {
			continue
		}
		if re2Compile.Parent() == linear && re2Compile.Block().Dominates(b) {
			continue
		}
		key := "Compile:early-return"
		mi, isMI := ret.Results[0].(*ssa.MakeInterface)
		isGo := isMI && recvName(mi.X.Type()) == "goRegexp"
		domConv := false
		for _, eb := range okEdge {
			if eb.Dominates(b) {
				domConv = true
			}
		}
		domGo := core.DominatedBySuccess(goCompile, b)
		if !isGo {
			if linear != compile && (core.IsNilConst(ret.Results[0]) || !isMI) {
				// the helper reports "no linear-time form": its caller decides (checked below)
				continue
			}
			r.Fail(key, c.Pos(ret.Pos()), "Compile returns without trying regexp2 on a path where Convert or regexp.Compile did not both succeed")
			continue
		}
		if !domConv || !domGo {
			r.Fail(key, c.Pos(ret.Pos()), "a goRegexp is returned on a path where Convert or regexp.Compile did not both succeed")
			continue
		}
		nGo++
		r.Pass("goRegexp is returned only when Convert reported ok and regexp.Compile succeeded; all other paths reach regexp2.Compile")
		// goRegexp{orig: exp, exp: re}
		origOK, expOK := structFieldStores(mi.X, map[string]func(ssa.Value) bool{
			"orig": func(v ssa.Value) bool { return isPat(v, 0) },
			"exp": func(v ssa.Value) bool {
				ex, ok := v.(*ssa.Extract)
				return ok && ex.Tuple == ssa.Value(goCompile) && ex.Index == 0
			},
		})
		if origOK {
			r.Pass("goRegexp.orig is the original pattern")
		} else {
			r.Fail("Compile:orig", c.Pos(ret.Pos()), "goRegexp.orig is not the original pattern: String() would report the converted text")
		}
		if expOK {
			r.Pass("goRegexp.exp is the compiled converted pattern")
		} else {
			r.Fail("Compile:exp", c.Pos(ret.Pos()), "goRegexp.exp is not the result of regexp.Compile(converted)")
		}
	}
	if nGo == 0 {
		r.Fail("Compile:early-return", c.Pos(linear.Pos()), "no path returns a goRegexp under the success of Convert and regexp.Compile")
	}
	// when the linear-time attempt lives in a helper: Compile hands on the helper's result only on its success edge, every
	// other path reaches the fallback
	if linear != compile {
		var lcall *ssa.Call
		for _, cs := range sites[linear] {
			if cl, ok := cs.(*ssa.Call); ok && cl.Parent() == compile {
				lcall = cl
			}
		}
		var fb ssa.CallInstruction
		if re2Compile.Parent() == compile {
			fb = re2Compile
		} else {
			for _, cs := range sites[re2Compile.Parent()] {
				if cs.Parent() == compile {
					fb = cs
				}
			}
		}
		if lcall == nil || fb == nil {
			r.Undecided("Compile:helper-calls", c.Pos(compile.Pos()), "Compile does not call the linear-time helper and the fallback itself")
		} else {
			var succ []*ssa.BasicBlock
			sig := linear.Signature.Results()
			last := sig.At(sig.Len() - 1).Type()
			switch {
			case core.IsErrorType(last):
				for _, ev := range core.ErrValueOf(lcall) {
					succ = append(succ, core.SuccessBlocks(ev)...)
				}
			case isBoolT(last):
				succ = core.EdgeBlocks(extractOf(lcall, sig.Len()-1), true)
			default:
				// a nil test of the single result
				for _, ref := range *lcall.Referrers() {
					if bo, ok := ref.(*ssa.BinOp); ok && (bo.Op == token.NEQ || bo.Op == token.EQL) && (core.IsNilConst(bo.X) || core.IsNilConst(bo.Y)) {
						succ = append(succ, core.EdgeBlocks(bo, bo.Op == token.NEQ)...)
					}
				}
			}
			bad := false
			for _, b := range compile.Blocks {
				ret, ok := b.Instrs[len(b.Instrs)-1].(*ssa.Return)
				if !ok || fb.Block().Dominates(b) {
					continue
				}
				under := false
				for _, sb := range succ {
					if sb == b || sb.Dominates(b) {
						under = true
					}
				}
				if !under {
					bad = true
					r.Fail("Compile:early-return", c.Pos(ret.Pos()), "Compile returns without trying regexp2 on a path where the linear-time helper did not report success")
				}
			}
			if !bad {
				r.Pass("Compile returns the linear-time helper's result only on its success edge; every other path reaches the fallback")
			}
		}
	}
	// String methods
	if f := prog.Func(pkgRegex, "goRegexp.String"); f != nil {
		ok := false
		for _, b := range f.Blocks {
			if ret, isRet := b.Instrs[len(b.Instrs)-1].(*ssa.Return); isRet && isFieldLoad(ret.Results[0], "orig") {
				ok = true
			}
		}
		if ok {
			r.Pass("goRegexp.String returns orig")
		} else {
			r.Fail("goRegexp.String", c.Pos(f.Pos()), "goRegexp.String does not return the original pattern")
		}
	} else {
		r.Undecided("anchor:goRegexp.String", "-", "goRegexp.String not found")
	}
	if f := prog.Func(pkgRegex, "regexp2Regexp.String"); f != nil {
		ok := false
		for _, call := range core.Calls(f) {
			if core.IsCallTo(call.Common(), "github.com/dlclark/regexp2", "Regexp.String") {
				ok = true
			}
		}
		if ok {
			r.Pass("regexp2Regexp.String returns the engine's stored pattern")
		} else {
			r.Fail("regexp2Regexp.String", c.Pos(f.Pos()), "regexp2Regexp.String does not return the engine's stored pattern")
		}
	} else {
		r.Undecided("anchor:regexp2Regexp.String", "-", "regexp2Regexp.String not found")
	}
}

func extractOf(call *ssa.Call, idx int) ssa.Value {
	for _, ref := range *call.Referrers() {
		if ex, ok := ref.(*ssa.Extract); ok && ex.Index == idx {
			return ex
		}
	}
	return call
}

// structFieldStores checks stores into the fields of a struct value built in
// a local Alloc and loaded (v = *alloc).
func structFieldStores(v ssa.Value, preds map[string]func(ssa.Value) bool) (bool, bool) {
	res := map[string]bool{}
	ld, ok := v.(*ssa.UnOp)
	if !ok {
		return false, false
	}
	alloc, ok := ld.X.(*ssa.Alloc)
	if !ok {
		return false, false
	}
	for _, ref := range *alloc.Referrers() {
		fa, ok := ref.(*ssa.FieldAddr)
		if !ok {
			continue
		}
		name := fieldName(fa.X.Type(), fa.Field)
		for _, r2 := range *fa.Referrers() {
			if st, ok := r2.(*ssa.Store); ok && st.Addr == ssa.Value(fa) {
				if p := preds[name]; p != nil && p(st.Val) {
					res[name] = true
				}
			}
		}
	}
	return res["orig"], res["exp"]
}

func checkConvertWiring(c *core.Ctx, prog *core.Prog, r *core.Rule, convert *ssa.Function) {
	var parseCall *ssa.Call
	for _, call := range core.Calls(convert) {
		if cl, ok := call.(*ssa.Call); ok && core.IsCallTo(cl.Common(), pkgRegex, "parser.parse") {
			parseCall = cl
		}
	}
	if parseCall == nil {
		r.Undecided("Convert:parse", c.Pos(convert.Pos()), "Convert does not call parser.parse")
		return
	}
	n := 0
	for _, b := range convert.Blocks {
		ret, ok := b.Instrs[len(b.Instrs)-1].(*ssa.Return)
		if !ok || !isConstBool(ret.Results[1], true) {
			continue
		}
		// the empty-pattern shortcut returns ("", true) before parsing
		if s, isC := core.ConstString(ret.Results[0]); isC && s == "" {
			r.Pass("Convert(\"\") = (\"\", true)")
			continue
		}
		n++
		if core.DominatedBySuccess(parseCall, b) {
			r.Pass("Convert returns ok=true only when parse() returned nil")
		} else {
			r.Fail("Convert:ok-without-parse-success", c.Pos(ret.Pos()), "Convert can return ok=true although parsing recorded an error: a partial rewrite reaches regexp.Compile")
		}
	}
	if n == 0 {
		r.Undecided("Convert:returns", c.Pos(convert.Pos()), "Convert has no ok=true return after parsing")
	}
	// parse returns p.err
	if pf := prog.Func(pkgRegex, "parser.parse"); pf != nil {
		ok := false
		for _, b := range pf.Blocks {
			if ret, isRet := b.Instrs[len(b.Instrs)-1].(*ssa.Return); isRet && isFieldLoad(ret.Results[0], "err") {
				ok = true
			} else if isRet {
				ok = false
				break
			}
		}
		if ok {
			r.Pass("parser.parse returns the parser's error field")
		} else {
			r.Fail("parser.parse:err", c.Pos(pf.Pos()), "parser.parse does not return the recorded error")
		}
	}
	// error() records the first error and never clears it
	if ef := prog.Func(pkgRegex, "parser.error"); ef != nil {
		clears := false
		sets := false
		for _, b := range ef.Blocks {
			for _, in := range b.Instrs {
				if st, ok := in.(*ssa.Store); ok {
					if fa, ok := st.Addr.(*ssa.FieldAddr); ok && fieldName(fa.X.Type(), fa.Field) == "err" {
						if core.IsNilConst(st.Val) {
							clears = true
						} else {
							sets = true
						}
					}
				}
			}
		}
		if sets && !clears {
			r.Pass("parser.error records an error and never clears it")
		} else {
			r.Fail("parser.error", c.Pos(ef.Pos()), "parser.error does not record the error (or clears it)")
		}
	} else {
		r.Undecided("anchor:parser.error", "-", "parser.error not found")
	}
}

// checkNonFatal: the constructs RE2 cannot express record an error.
func checkNonFatal(c *core.Ctx, pkg *packages.Package, r *core.Rule) {
	// collect p.error(false, "...") message constants per function
	type ec struct {
		fn, msg          string
		fatal            bool
		pos              token.Pos
		followedByReturn bool
	}
	var calls []ec
	for _, f := range pkg.Syntax {
		for _, d := range f.Decls {
			fd, ok := d.(*ast.FuncDecl)
			if !ok || fd.Body == nil {
				continue
			}
			ast.Inspect(fd.Body, func(n ast.Node) bool {
				var list []ast.Stmt
				switch b := n.(type) {
				case *ast.BlockStmt:
					list = b.List
				case *ast.CaseClause:
					list = b.Body
				default:
					return true
				}
				for i, st := range list {
					es, ok := st.(*ast.ExprStmt)
					if !ok {
						continue
					}
					ce, ok := es.X.(*ast.CallExpr)
					if !ok {
						continue
					}
					se, ok := ce.Fun.(*ast.SelectorExpr)
					if !ok || se.Sel.Name != "error" || len(ce.Args) < 2 {
						continue
					}
					fv := pkg.TypesInfo.Types[ce.Args[0]].Value
					mv := pkg.TypesInfo.Types[ce.Args[1]].Value
					if fv == nil || mv == nil {
						continue
					}
					e := ec{fn: fd.Name.Name, msg: constant.StringVal(mv), fatal: constant.BoolVal(fv), pos: ce.Pos()}
					if i+1 < len(list) {
						_, e.followedByReturn = list[i+1].(*ast.ReturnStmt)
					}
					calls = append(calls, e)
				}
				return true
			})
		}
	}
	need := map[string]string{
		"lookahead":     "look-ahead (?= (?!",
		"lookbehind":    "look-behind / named group (?<",
		"backreference": "back-reference \\1…\\9",
		"S in class":    "\\S inside a character class",
	}
	for k, desc := range need {
		found := false
		for _, e := range calls {
			if strings.Contains(e.msg, k) {
				found = true
				if e.followedByReturn {
					r.Pass(fmt.Sprintf("%s records an error and returns (%s)", desc, c.Pos(e.pos)))
				} else {
					r.Fail("nonfatal:"+k+":no-return", c.Pos(e.pos), desc+": the error is recorded but scanning continues and may write to the output")
				}
			}
		}
		if !found {
			r.Fail("nonfatal:"+k, "-", "no error is recorded for "+desc+": the construct would be passed to RE2 or silently rewritten")
		}
	}
}

// checkHexPadding: every strconv.AppendInt(dst, v, 16) of the package whose
// destination is a choice between a 2-byte ("\\x") and a 3-byte ("\\x0")
// prefix must take the unpadded prefix exactly when v >= 16. The comparison
// that makes the choice is tabulated over v = 0..255.
// constSliceLen: the statically known length of a byte slice value: s[lo:hi] with constant bounds, make([]T, n),
// a slice of a whole local array, append(x, a, b, …) with a counted number of elements.
func constSliceLen(v ssa.Value, d int) (int64, bool) {
	if d > 6 {
		return 0, false
	}
	switch x := v.(type) {
	case *ssa.Slice:
		lo := int64(0)
		if x.Low != nil {
			l, ok := core.ConstInt(x.Low)
			if !ok {
				return 0, false
			}
			lo = l
		}
		if x.High != nil {
			h, ok := core.ConstInt(x.High)
			if !ok {
				return 0, false
			}
			return h - lo, true
		}
		if pt, ok := x.X.Type().Underlying().(*types.Pointer); ok {
			if at, ok := pt.Elem().Underlying().(*types.Array); ok {
				return at.Len() - lo, true
			}
		}
		return 0, false
	case *ssa.MakeSlice:
		return core.ConstInt(x.Len)
	case *ssa.Call:
		bi, ok := x.Common().Value.(*ssa.Builtin)
		if !ok || bi.Name() != "append" || len(x.Common().Args) != 2 {
			return 0, false
		}
		base, ok := constSliceLen(x.Common().Args[0], d+1)
		if !ok {
			return 0, false
		}
		add, ok := constSliceLen(x.Common().Args[1], d+1)
		if !ok {
			return 0, false
		}
		return base + add, true
	}
	return 0, false
}

func checkHexPadding(c *core.Ctx, prog *core.Prog, r *core.Rule) {
	pkg := prog.ByPath[pkgRegex]
	n := 0
	for _, fn := range core.PkgFuncs(prog.SSA, pkg) {
		ord := 0
		for _, call := range core.Calls(fn) {
			if !core.IsCallTo(call.Common(), "strconv", "AppendInt") {
				continue
			}
			base, _ := core.ConstInt(call.Common().Args[2])
			phi, ok := call.Common().Args[0].(*ssa.Phi)
			if !ok || base != 16 {
				continue
			}
			v := call.Common().Args[1]
			// each edge: Slice with constant High
			type edge struct {
				high int64
				pred *ssa.BasicBlock
			}
			var edges []edge
			okShape := true
			for i, e := range phi.Edges {
				// the length of the prefix on this edge: tmp[0:k] of a literal, or \x built up with append
				h, ok := constSliceLen(e, 0)
				if !ok {
					okShape = false
					break
				}
				edges = append(edges, edge{h, phi.Block().Preds[i]})
			}
			if !okShape || len(edges) != 2 {
				continue
			}
			n++
			key := fmt.Sprintf("%s:hex-padding#%d", fn.Name(), ord)
			ord++
			// the deciding If: common dominator of both preds, comparing v with a constant
			var iff *ssa.If
			for _, b := range fn.Blocks {
				if i, ok := b.Instrs[len(b.Instrs)-1].(*ssa.If); ok && b.Dominates(edges[0].pred) && b.Dominates(edges[1].pred) {
					if bo, ok := i.Cond.(*ssa.BinOp); ok && (bo.X == v || bo.Y == v) {
						iff = i
					}
				}
			}
			if iff == nil {
				r.Undecided(key, c.Pos(call.Pos()), "cannot find the comparison that chooses the padding")
				continue
			}
			bo := iff.Cond.(*ssa.BinOp)
			kv, isK := core.ConstInt(bo.Y)
			vLeft := true
			if bo.X != v {
				kv, isK = core.ConstInt(bo.X)
				vLeft = false
			}
			if !isK {
				r.Undecided(key, c.Pos(call.Pos()), "padding comparison is not against a constant")
				continue
			}
			// which edge is taken when the condition is true?
			trueSucc := iff.Block().Succs[0]
			highWhenTrue := int64(-1)
			for _, e := range edges {
				if trueSucc == e.pred || trueSucc.Dominates(e.pred) {
					highWhenTrue = e.high
				}
			}
			highWhenFalse := edges[0].high
			if highWhenFalse == highWhenTrue {
				highWhenFalse = edges[1].high
			}
			bad := int64(-1)
			for x := int64(0); x < 256; x++ {
				a, b := x, kv
				if !vLeft {
					a, b = kv, x
				}
				cond := map[token.Token]bool{token.GEQ: a >= b, token.GTR: a > b, token.LSS: a < b, token.LEQ: a <= b, token.EQL: a == b, token.NEQ: a != b}[bo.Op]
				high := highWhenFalse
				if cond {
					high = highWhenTrue
				}
				wantHigh := int64(3) // "\\x0" + one digit
				if x >= 16 {
					wantHigh = 2 // "\\x" + two digits
				}
				if high != wantHigh {
					bad = x
					break
				}
			}
			if bad < 0 {
				r.Pass(fmt.Sprintf("%s: zero padding chosen exactly for values < 16 (tabulated 0..255)", key))
			} else {
				r.Fail(key, c.Pos(bo.Pos()), fmt.Sprintf("value %d (0x%x) is written with the wrong number of hex digits after \\x: RE2 reads exactly two, so the escape denotes a different character (e.g. \\cP)", bad, bad))
			}
		}
	}
	if n == 0 {
		r.Undecided("hex-padding", "-", "no padded strconv.AppendInt(_, v, 16) found in package ogenregex")
	}
}

// checkSingleDigitEscape: ECMA-262 reads \N (one decimal digit, N ≥ 1) as a
// back-reference whenever the pattern has at least N groups anywhere, also
// after the reference; a single left-to-right pass cannot know that number, so
// the converter has to hand every such escape to the backtracking engine. In
// scanEscape the region entered when exactly one digit was read (size == 1)
// may branch only on whether the value is zero, must end in a return on every
// path, and its non-zero side must record the non-fatal error.
func checkSingleDigitEscape(c *core.Ctx, prog *core.Prog, r *core.Rule) {
	fn := prog.Func(pkgRegex, "parser.scanEscape")
	if fn == nil {
		r.Undecided("anchor:scanEscape", "-", "ogenregex.(*parser).scanEscape not found")
		return
	}
	var region *ssa.BasicBlock
	for _, b := range fn.Blocks {
		iff, ok := b.Instrs[len(b.Instrs)-1].(*ssa.If)
		if !ok {
			continue
		}
		bo, ok := iff.Cond.(*ssa.BinOp)
		if !ok || bo.Op != token.EQL {
			continue
		}
		k, isK := bo.Y.(*ssa.Const)
		phi, isPhi := bo.X.(*ssa.Phi)
		if isK && isPhi && k.Value != nil && k.Int64() == 1 && phi.Comment == "size" {
			region = b.Succs[0]
		}
	}
	if region == nil {
		r.Undecided("single-digit:shape", c.Pos(fn.Pos()), "no `size == 1` test found in scanEscape: the handling of \\1…\\7 cannot be located")
		return
	}
	okAll := true
	sawError := false
	for _, b := range fn.Blocks {
		if !(b == region || region.Dominates(b)) {
			continue
		}
		for _, in := range b.Instrs {
			if call, ok := in.(ssa.CallInstruction); ok && strings.HasSuffix(core.CalleeName(call.Common()), "parser).error") {
				if len(call.Common().Args) > 1 {
					if k, ok := call.Common().Args[1].(*ssa.Const); ok && k.Value != nil && !constant.BoolVal(k.Value) {
						sawError = true
					}
				}
			}
		}
		switch t := b.Instrs[len(b.Instrs)-1].(type) {
		case *ssa.Return:
		case *ssa.If:
			bo, ok := t.Cond.(*ssa.BinOp)
			valueVsZero := false
			if ok && (bo.Op == token.NEQ || bo.Op == token.EQL) {
				if k, isK := bo.Y.(*ssa.Const); isK && k.Value != nil && k.Int64() == 0 {
					if phi, isPhi := bo.X.(*ssa.Phi); isPhi && phi.Comment == "value" {
						valueVsZero = true
					}
				}
			}
			if !valueVsZero {
				okAll = false
				r.Fail("single-digit:extra-condition", c.Pos(t.Cond.Pos()), "whether \\N (one digit) is treated as a back-reference depends on more than N != 0: a reference that precedes its group (\\1(a)) is rewritten as a character code and run on the linear engine with different semantics")
			}
			for _, s := range b.Succs {
				if !(s == region || region.Dominates(s)) {
					okAll = false
					r.Fail("single-digit:falls-through", c.Pos(t.Pos()), "the single-digit escape can continue into the octal rewriting instead of returning")
				}
			}
		case *ssa.Jump:
			if s := b.Succs[0]; !(s == region || region.Dominates(s)) {
				okAll = false
				r.Fail("single-digit:falls-through", c.Pos(t.Pos()), "the single-digit escape can continue into the octal rewriting instead of returning")
			}
		}
	}
	if !sawError {
		okAll = false
		r.Fail("single-digit:no-fallback", c.Pos(region.Instrs[0].Pos()), "no non-fatal error is recorded for a single non-zero digit escape")
	}
	if okAll {
		r.Pass("scanEscape: a single digit escape \\N is passed through for N = 0 and falls back to the backtracking engine for every N ≥ 1, unconditionally")
	}
}

// checkSpecialClassesFirst: `[]` (matches nothing) and `[^]` (matches any
// character) are ECMA-262 spellings RE2 reads differently (`[^]…]` is a negated
// class starting with ']'). scanBracket has to recognise both before it copies
// any class text: every call that writes to the output in scanBracket is either
// inside the arm of one of the two prefix tests or dominated by the false edge
// of both.
func checkSpecialClassesFirst(c *core.Ctx, prog *core.Prog, r *core.Rule) {
	fn := prog.Func(pkgRegex, "parser.scanBracket")
	if fn == nil {
		r.Undecided("anchor:scanBracket", "-", "ogenregex.(*parser).scanBracket not found")
		return
	}
	type test struct{ yes, no *ssa.BasicBlock }
	tests := map[string]test{}
	for _, call := range core.Calls(fn) {
		cv, ok := call.(*ssa.Call)
		if !ok || !core.IsCallTo(call.Common(), "strings", "HasPrefix") {
			continue
		}
		k, ok := call.Common().Args[1].(*ssa.Const)
		if !ok || k.Value == nil {
			continue
		}
		lit := constant.StringVal(k.Value)
		if lit != "[]" && lit != "[^]" {
			continue
		}
		for _, ref := range *cv.Referrers() {
			if iff, ok := ref.(*ssa.If); ok {
				tests[lit] = test{iff.Block().Succs[0], iff.Block().Succs[1]}
			}
		}
	}
	if len(tests) != 2 {
		r.Fail("special-classes:tests", c.Pos(fn.Pos()), fmt.Sprintf("scanBracket tests %d of the two special spellings `[]`, `[^]`", len(tests)))
		return
	}
	n, bad := 0, 0
	for _, call := range core.Calls(fn) {
		name := core.CalleeName(call.Common())
		if !strings.Contains(name, "ogenregex.parser).") {
			continue
		}
		switch name[strings.LastIndex(name, ".")+1:] {
		case "pass", "passString", "write", "writeString", "scanEscape":
		default:
			continue
		}
		n++
		b := call.Block()
		inArm := false
		after := true
		for _, t := range tests {
			if len(t.yes.Preds) == 1 && (t.yes == b || t.yes.Dominates(b)) {
				inArm = true
			}
			if !(len(t.no.Preds) == 1 && (t.no == b || t.no.Dominates(b))) {
				after = false
			}
		}
		if inArm || after {
			continue
		}
		bad++
		r.Fail("special-classes:write-before-test", c.Pos(call.Pos()), fmt.Sprintf("scanBracket calls %s on a path that has not ruled out `[]` and `[^]`: `[^]` followed by a later ']' is copied verbatim and RE2 reads it as one negated class", name[strings.LastIndex(name, ".")+1:]))
	}
	if bad == 0 {
		r.Pass(fmt.Sprintf("scanBracket: %d output calls, all after both special-class tests or inside their arms", n))
	}
	// '[' inside a class: an ordinary member for ECMA-262, the start of a POSIX class "[:name:]" for RE2. The
	// member loop must single it out and write it escaped.
	escaped := false
	for _, b := range fn.Blocks {
		iff, ok := b.Instrs[len(b.Instrs)-1].(*ssa.If)
		if !ok {
			continue
		}
		bo, ok := iff.Cond.(*ssa.BinOp)
		if !ok || bo.Op != token.EQL {
			continue
		}
		k, ok := bo.Y.(*ssa.Const)
		if !ok || k.Value == nil || k.Value.Kind() != constant.Int || k.Int64() != '[' {
			continue
		}
		for _, in := range b.Succs[0].Instrs {
			if call, ok := in.(ssa.CallInstruction); ok && strings.HasSuffix(core.CalleeName(call.Common()), "parser).writeString") {
				if a, ok := call.Common().Args[len(call.Common().Args)-1].(*ssa.Const); ok && a.Value != nil && constant.StringVal(a.Value) == `\[` {
					escaped = true
				}
			}
		}
	}
	if escaped {
		r.Pass("scanBracket writes '[' inside a class as \\[ (no POSIX class can form)")
	} else {
		r.Fail("class-open-bracket-unescaped", c.Pos(fn.Pos()), "scanBracket copies '[' inside a character class verbatim: RE2 reads \"[:alpha:]\" there as a POSIX class, ECMA-262 as six ordinary members — the pattern runs on the linear engine with another meaning")
	}
}

// checkPatternTextUnchanged (R08.5, S1). The text the regex compiler sees is the text the document has: from
// RawSchema.Pattern to Schema.Pattern to ogenregex.Compile nothing rewrites it. ECMA-262 gives every character of the
// `pattern` keyword a meaning (it is the RegExp *source*, not a /literal/), so any trimming, unwrapping, anchoring or
// case folding on the way changes the set of accepted strings, and the compiled pattern no longer reports its source.
//
//	(a) whatever is stored into jsonschema.Schema.Pattern is a direct load of a field named Pattern of a jsonschema
//	    struct (RawSchema, Schema), or — in gen.mergeSchemes only — the result of the function-local selector applied to
//	    two such loads (allOf merge: one of the two);
//	(b) the argument of every ogenregex.Compile / MustCompile call outside package ogenregex is such a load.
func checkPatternTextUnchanged(c *core.Ctx) error {
	r := c.NewRule("R08.5", "S1", "the pattern text reaches the regex compiler unchanged (no rewriting between the document and ogenregex.Compile)", 3)
	prog, err := c.Program("./jsonschema", "./gen", "./gen/ir", "./openapi/parser")
	if err != nil {
		return err
	}
	isPatternLoad := func(v ssa.Value) bool {
		for {
			ct, ok := v.(*ssa.ChangeType)
			if !ok {
				break
			}
			v = ct.X
		}
		switch x := v.(type) {
		case *ssa.UnOp:
			if x.Op != token.MUL {
				return false
			}
			fa, ok := x.X.(*ssa.FieldAddr)
			return ok && fieldName(fa.X.Type(), fa.Field) == "Pattern" && typePkgPath(fa.X.Type()) == pkgJS
		case *ssa.Field:
			return fieldName(x.X.Type(), x.Field) == "Pattern" && typePkgPath(x.X.Type()) == pkgJS
		}
		return false
	}
	for _, path := range []string{pkgJS, pkgGen, pkgIR, core.Module + "/openapi/parser"} {
		sp := prog.ByPath[path]
		if sp == nil {
			r.Undecided("load:"+path, "-", "package not loaded")
			continue
		}
		for _, top := range core.PkgFuncs(prog.SSA, sp) {
			for _, fn := range core.AllFuncs(top) {
				for _, b := range fn.Blocks {
					for _, in := range b.Instrs {
						switch x := in.(type) {
						case *ssa.Store:
							fa, ok := x.Addr.(*ssa.FieldAddr)
							if !ok || fieldName(fa.X.Type(), fa.Field) != "Pattern" || typePkgPath(fa.X.Type()) != pkgJS || recvName(fa.X.Type()) != "Schema" {
								continue
							}
							if _, isStr := x.Val.Type().Underlying().(*types.Basic); !isStr {
								continue
							}
							key := "pattern-store:" + fnKeyFull(fn)
							ok2 := isPatternLoad(x.Val)
							if !ok2 {
								if ex, isEx := x.Val.(*ssa.Extract); isEx && ex.Index == 0 {
									// allOf merge (gen.mergeSchemes): the function-local selector someStr(a, b, both) returns one
									// of its two arguments, or both(a, b), which returns a only when a == b (reviewed); a call
									// of a package-level function is a rewriting step and is not accepted
									if call, isCall := ex.Tuple.(*ssa.Call); isCall {
										callee := call.Common().StaticCallee()
										a := call.Common().Args
										local := callee == nil || callee.Parent() != nil
										ok2 = local && fn.Name() == "mergeSchemes" && len(a) >= 2 && isPatternLoad(a[0]) && isPatternLoad(a[1])
									}
								}
							}
							if ok2 {
								r.Pass(fmt.Sprintf("%s stores an unchanged pattern text into Schema.Pattern", fnKeyFull(fn)))
							} else {
								r.Fail(key, c.Pos(x.Pos()), "Schema.Pattern receives a computed value instead of the document's pattern text: the `pattern` keyword is the RegExp source, every character of it (a leading `/`, `^`, whitespace) is part of the expression")
							}
						case *ssa.Call:
							name := core.CalleeName(x.Common())
							if !strings.HasSuffix(name, "/ogenregex.Compile") && !strings.HasSuffix(name, "/ogenregex.MustCompile") {
								continue
							}
							key := "pattern-compile-arg:" + fnKeyFull(fn)
							if len(x.Common().Args) == 1 && isPatternLoad(x.Common().Args[0]) {
								r.Pass(fmt.Sprintf("%s compiles the pattern text as stored", fnKeyFull(fn)))
							} else {
								r.Fail(key, c.Pos(x.Pos()), "ogenregex.Compile is handed a computed string instead of a schema's pattern text: what is compiled is not what the document says")
							}
						}
					}
				}
			}
		}
	}
	return nil
}

func typePkgPath(t types.Type) string {
	if p, ok := t.Underlying().(*types.Pointer); ok {
		t = p.Elem()
	}
	if n, ok := types.Unalias(t).(*types.Named); ok && n.Obj().Pkg() != nil {
		return n.Obj().Pkg().Path()
	}
	return ""
}
