package rules

import (
	"fmt"
	"go/token"
	"go/types"
	"strings"

	"golang.org/x/tools/go/packages"
	"golang.org/x/tools/go/ssa"

	"ogenverif/internal/core"
	"ogenverif/internal/panicob"
	"ogenverif/internal/peval"
)

func init() {
	register(&Property{
		ID: "C15",
		Meta: core.Meta{
			Level: "other",
			Explanation: "Path properties of every generated handler, for all requests, per expansion (subject S2: the templates expanded by cmd/ogen built from the current tree over the repository's go:generate fixtures; the expansion is a build step, every verdict is a static rule over the expanded Go code's SSA): " +
				"(R15.1) on every path through handle<Op>Request at least one response writer (ErrorHandler, encodeErrorResponse, encode<Op>Response) is called before return, and a second writer call happens only on the error edge of the first; " +
				"(R15.2) every call of the user handler s.h.<Op> — including the one inside the closure handed to HookMiddleware — is dominated by the success edges of every security call, the requirement test, decode<Op>Params and decode<Op>Request, and each failure edge constructs the stage's error type (SecurityError, DecodeParamsError, DecodeRequestError); " +
				"(R15.3) every request decoder that dispatches on the content type reaches validate.InvalidContentType for unknown types, and every JSON body decode is followed by a trailing-data test (Skip() == io.EOF) dominating its success; " +
				"(R15.4, S1) the error type → status mapping: Code() constants 401/400/400, InvalidContentTypeError → 415 tested before the generic arm, ErrNotImplemented → 501, default 500; notFound → 404, notAllowed → 405 with Allow set before WriteHeader; " +
				"(R15.5, S1) all compiler-unproven bounds checks and explicit panics of the runtime packages on the request path (conv, json, http, validate, ogenerrors, middleware; uri under C06) are discharged. " +
				"NOT decided: net/http's own parsing, resource exhaustion, multipart temp files, what user handlers and user error handlers do; specs outside the fixture corpus for the S2 rules.",
			Assumptions: []string{"S2 quantifies over the repository's fixture corpus (quick: 8 fixtures; thorough: all go:generate directives whose input is present)"},
			TrustedBase: []string{"cmd/ogen as macro-expander (build step)", "tables/panic_justified.json"},
		},
		Run: runC15,
	})
}

func runC15(c *core.Ctx) error {
	ex, err := c.Expand(fixtureNames(c))
	if err != nil {
		return err
	}
	r1 := c.NewRule("R15.1", "S2", "every path writes a response; a second write only on the error edge of the first", 100)
	r2 := c.NewRule("R15.2", "S2", "handler dominated by success of security, params and request decoding; failure edges build the stage error", 100)
	r3 := c.NewRule("R15.3", "S2", "unknown content types refused; JSON trailing data refused", 20)
	r4 := c.NewRule("R15.4", "S1", "error type → status code mapping", 9)
	r5 := c.NewRule("R15.5", "S1", "bounds obligations and explicit panics of conv, json, http, validate, ogenerrors, middleware", 30)
	r1.Note("fixtures expanded from the current templates: %v; skipped: %v", ex.FixtureNames(), ex.Skipped)

	for _, fx := range ex.Fixtures {
		hs := handlersOf(ex, fx)
		r1.Analyse(fmt.Sprintf("%s: %d handlers", fx.Name, len(hs)))
		for _, h := range hs {
			checkOneResponse(c, r1, h)
			checkStageOrder(c, r2, h)
		}
		checkRequestDecoders(c, r3, ex, fx)
		checkNotFoundAllowed(c, r4, ex, fx)
	}
	checkErrorCodes(c, r4)

	// ---- R15.5
	pkgs, err := c.Load("./conv", "./json", "./http", "./validate", "./ogenerrors", "./middleware")
	if err != nil {
		return err
	}
	table, err := panicob.LoadTable(c.VerifDir, "panic_justified.json")
	if err != nil {
		return err
	}
	var scope []*packages.Package
	for _, p := range pkgs {
		scope = append(scope, p)
	}
	sites, err := panicob.Bounds(c, scope)
	if err != nil {
		return err
	}
	panicob.Discharge(c, r5, sites, panicob.Options{Table: table})
	panicob.DischargePanics(c, r5, panicob.Panics(c, scope), table)

	// ---- R15.6
	r6 := c.NewRule("R15.6", "S1+S2", "sizes from ContentLength are sign-tested; recursive shape guards get a fresh visited set per root; ErrorHandler after an encoder only under the sentinel guard", 20)
	rt, err := c.Program("./conv", "./json", "./http", "./validate", "./ogenerrors", "./middleware", "./uri", "./gen")
	if err != nil {
		return err
	}
	checkUntrustedSizes(c, r6, rt)
	checkFreshVisitedSets(c, r6, rt, pkgGen)
	if progM, err := c.Program("./gen", "./openapi/parser"); err != nil {
		r6.Undecided("load:memo", "-", trimPosMsg(err.Error(), 300))
	} else {
		// the shape checks that keep the runtime's panics unreachable are not answered from a table keyed by less than they read
		checkSkipMemoKeyCoversInputs(c, r6, progM, skipMemoReviewed, pkgParser, pkgGen)
	}
	checkErrorHandlerAfterEncoder(c, r6, ex)
	// net/http panics on WriteHeader with a code outside 100..999 ("invalid WriteHeader code"): a constant
	// status written by a generated response encoder must be a real status code
	for _, fx := range ex.Fixtures {
		pkg := ex.Prog.ByPath[fx.PkgPath]
		if pkg == nil {
			continue
		}
		n := 0
		for _, top := range core.PkgFuncs(ex.Prog.SSA, pkg) {
			if !strings.HasPrefix(top.Name(), "encode") {
				continue
			}
			for _, fn := range core.AllFuncs(top) {
				for _, call := range core.Calls(fn) {
					cc := call.Common()
					if !cc.IsInvoke() || cc.Method.Name() != "WriteHeader" || len(cc.Args) != 1 {
						continue
					}
					k, ok := cc.Args[0].(*ssa.Const)
					if !ok || k.Value == nil {
						continue
					}
					n++
					if code := k.Int64(); code < 100 || code > 599 {
						r6.Fail("writeheader-invalid-constant", c.Pos(call.Pos()), fmt.Sprintf("%s/%s writes the constant status %d: net/http panics with \"invalid WriteHeader code\" and the request gets no answer (a response component shared between an explicit status code and `default` is generated once, without the status-code field)", fx.Name, top.Name(), code))
					} else {
						r6.Ob(true, "")
					}
				}
			}
		}
		_ = n
	}
	return nil
}

// checkOneResponse implements R15.1.
func checkOneResponse(c *core.Ctx, r *core.Rule, h *handlerInfo) {
	fn := h.fn
	isW := map[ssa.Instruction]bool{}
	for _, w := range h.writers {
		isW[w] = true
	}
	if len(h.writers) == 0 {
		r.Fail(h.key+":no-writer", c.Pos(fn.Pos()), "handler contains no response writer call")
		return
	}
	// must-analysis: written[b] at block exit
	n := len(fn.Blocks)
	out := make([]bool, n)
	for i := range out {
		out[i] = true // optimistic
	}
	hasW := make([]bool, n)
	for _, b := range fn.Blocks {
		for _, in := range b.Instrs {
			if isW[in] {
				hasW[b.Index] = true
			}
		}
	}
	changed := true
	for changed {
		changed = false
		for _, b := range fn.Blocks {
			in := true
			if b.Index == 0 {
				in = false
			}
			for _, p := range b.Preds {
				if !out[p.Index] {
					in = false
				}
			}
			v := in || hasW[b.Index]
			if v != out[b.Index] {
				out[b.Index] = v
				changed = true
			}
		}
	}
	bad := 0
	for _, b := range fn.Blocks {
		ret, ok := b.Instrs[len(b.Instrs)-1].(*ssa.Return)
		if !ok {
			continue
		}
		if out[b.Index] {
			continue
		}
		bad++
		r.Fail(h.key+":silent-return", c.Pos(ret.Pos()), fmt.Sprintf("handle%sRequest can return without having written any response (no ErrorHandler / encodeErrorResponse / encode%sResponse on this path): the client hangs on an empty 200", h.op, h.op))
	}
	if bad == 0 {
		r.Pass(fmt.Sprintf("%s: every return is preceded by a response writer (%d writer sites)", h.key, len(h.writers)))
	}
	// at most one: a writer reachable after another writer must be on the first one's error edge
	reach := func(from ssa.Instruction) map[*ssa.BasicBlock]bool {
		seen := map[*ssa.BasicBlock]bool{}
		var stack []*ssa.BasicBlock
		stack = append(stack, from.Block().Succs...)
		for len(stack) > 0 {
			b := stack[len(stack)-1]
			stack = stack[:len(stack)-1]
			if seen[b] {
				continue
			}
			seen[b] = true
			stack = append(stack, b.Succs...)
		}
		return seen
	}
	double := 0
	for _, w1 := range h.writers {
		after := reach(w1)
		for _, w2 := range h.writers {
			if w1 == w2 {
				continue
			}
			sameBlockLater := w1.Block() == w2.Block() && instrIndex(w1) < instrIndex(w2)
			if !after[w2.Block()] && !sameBlockLater {
				continue
			}
			// allowed iff w1 returns an error and w2 is dominated by its failure edge
			okEdge := false
			if v, isVal := w1.(ssa.Value); isVal {
				for _, ev := range core.ErrValueOf(v) {
					for _, fb := range failureBlocks(ev) {
						if fb.Dominates(w2.Block()) {
							okEdge = true
						}
					}
				}
			}
			if !okEdge {
				double++
				r.Fail(h.key+":double-write", c.Pos(w2.Pos()), fmt.Sprintf("a second response writer (%s) is reachable after %s outside the error edge of the first: two responses are written", core.CalleeName(w2.Common()), core.CalleeName(w1.Common())))
			}
		}
	}
	if double == 0 {
		r.Pass(h.key + ": no second response outside an error edge")
	}
}

func instrIndex(in ssa.Instruction) int {
	for i, x := range in.Block().Instrs {
		if x == in {
			return i
		}
	}
	return -1
}

// checkStageOrder implements R15.2.
func checkStageOrder(c *core.Ctx, r *core.Rule, h *handlerInfo) {
	if len(h.handler) == 0 {
		r.Fail(h.key+":no-handler-call", c.Pos(h.fn.Pos()), "handle"+h.op+"Request never calls s.h."+h.op)
		return
	}
	type gate struct {
		name string
		ok   func(b *ssa.BasicBlock) bool
		errT string
		call *ssa.Call
	}
	var gates []gate
	for _, sc := range h.security {
		sc := sc
		gates = append(gates, gate{core.CalleeName(sc.Common()), func(b *ssa.BasicBlock) bool { return core.DominatedBySuccess(sc, b) }, "SecurityError", sc})
	}
	if h.requirement != nil {
		rq := h.requirement
		gates = append(gates, gate{"security requirement test", func(b *ssa.BasicBlock) bool {
			for _, eb := range core.EdgeBlocks(rq, true) {
				if eb.Dominates(b) {
					return true
				}
			}
			return false
		}, "SecurityError", nil})
	} else if len(h.security) > 0 {
		r.Fail(h.key+":no-requirement-test", c.Pos(h.fn.Pos()), "security schemes are evaluated but no requirement test (func() bool) guards the handler")
	}
	if h.params != nil {
		pc := h.params
		gates = append(gates, gate{"decode" + h.op + "Params", func(b *ssa.BasicBlock) bool { return core.DominatedBySuccess(pc, b) }, "DecodeParamsError", pc})
	}
	if h.request != nil {
		rc := h.request
		gates = append(gates, gate{"decode" + h.op + "Request", func(b *ssa.BasicBlock) bool { return core.DominatedBySuccess(rc, b) }, "DecodeRequestError", rc})
	}
	for _, hc := range h.handler {
		b := blockOfInParent(h.fn, hc)
		if b == nil {
			r.Undecided(h.key+":handler-position", c.Pos(hc.Pos()), "cannot position the handler call inside handle"+h.op+"Request")
			continue
		}
		for _, g := range gates {
			if g.ok(b) {
				r.Pass(fmt.Sprintf("%s: s.h.%s at %s dominated by success of %s", h.key, h.op, c.Pos(hc.Pos()), g.name))
			} else {
				r.Fail(fmt.Sprintf("%s:handler-before:%s", h.key, g.name), c.Pos(hc.Pos()), fmt.Sprintf("the user handler s.h.%s is reachable without the success edge of %s: a request that failed this stage reaches the handler", h.op, g.name))
			}
		}
	}
	// the unsatisfied-requirement edge builds SecurityError
	if h.requirement != nil {
		found := false
		for _, eb := range core.EdgeBlocks(h.requirement, false) {
			for _, b := range h.fn.Blocks {
				if !eb.Dominates(b) {
					continue
				}
				for _, in := range b.Instrs {
					if al, ok := in.(*ssa.Alloc); ok {
						if _, n := core.NamedOf(al.Type().(*types.Pointer).Elem()); n == "SecurityError" {
							found = true
						}
					}
				}
			}
		}
		if found {
			r.Pass(h.key + ": unsatisfied security requirements build ogenerrors.SecurityError")
		} else {
			r.Fail(h.key+":stage-error:requirement", c.Pos(h.requirement.Pos()), "the unsatisfied-requirement edge does not build ogenerrors.SecurityError: a request without credentials is answered with the wrong status")
		}
	}
	// stage error types on the failure edges
	for _, g := range gates {
		if g.call == nil {
			continue
		}
		found := false
		for _, ev := range core.ErrValueOf(g.call) {
			for _, fb := range failureBlocks(ev) {
				for _, b := range h.fn.Blocks {
					if !fb.Dominates(b) {
						continue
					}
					for _, in := range b.Instrs {
						if al, ok := in.(*ssa.Alloc); ok {
							if _, n := core.NamedOf(al.Type().(*types.Pointer).Elem()); n == g.errT {
								found = true
							}
						}
					}
				}
			}
		}
		if found {
			r.Pass(fmt.Sprintf("%s: failure of %s builds ogenerrors.%s", h.key, g.name, g.errT))
		} else {
			r.Fail(fmt.Sprintf("%s:stage-error:%s", h.key, g.name), c.Pos(g.call.Pos()), fmt.Sprintf("the failure edge of %s does not build ogenerrors.%s: the failure would be answered with the wrong status", g.name, g.errT))
		}
	}
}

// checkRequestDecoders implements R15.3 on decode<Op>Request methods.
func checkRequestDecoders(c *core.Ctx, r *core.Rule, ex *core.Expansion, fx *core.Fixture) {
	pkg := ex.Prog.ByPath[fx.PkgPath]
	for _, fn := range core.PkgFuncs(ex.Prog.SSA, pkg) {
		if fn.Parent() != nil || !strings.HasPrefix(fn.Name(), "decode") || !strings.HasSuffix(fn.Name(), "Request") {
			continue
		}
		key := fx.Name + "/" + fn.Name()
		dispatch, refuses := false, false
		for _, f := range core.AllFuncs(fn) {
			for _, call := range core.Calls(f) {
				if core.IsCallTo(call.Common(), "mime", "ParseMediaType") {
					dispatch = true
				}
				if core.IsCallTo(call.Common(), pkgVal, "InvalidContentType") {
					refuses = true
				}
			}
		}
		if dispatch {
			if refuses {
				r.Pass(key + ": unknown content types reach validate.InvalidContentType")
			} else {
				r.Fail(key+":no-default", c.Pos(fn.Pos()), "the content-type dispatch has no arm returning validate.InvalidContentType: an unsupported media type is not answered 415")
			}
		}
		// JSON trailing data
		for _, f := range core.AllFuncs(fn) {
			if f == fn {
				continue
			}
			var decodeCall, skipCall *ssa.Call
			// only immediately-invoked closures (the body / value decoding block), not callbacks handed to
			// d.Arr / d.Obj
			immediate := false
			for _, pc := range core.Calls(f.Parent()) {
				if pc.Common().StaticCallee() == f {
					immediate = true
				}
			}
			if !immediate {
				continue
			}
			for _, call := range core.Calls(f) {
				cl, ok := call.(*ssa.Call)
				if !ok {
					continue
				}
				if core.IsCallTo(cl.Common(), "github.com/go-faster/jx", "Decoder.Skip") {
					skipCall = cl
					continue
				}
				// any use of a *jx.Decoder as receiver or argument: this closure decodes JSON
				usesDecoder := false
				for _, a := range cl.Common().Args {
					if pp, n := core.NamedOf(a.Type()); pp == "github.com/go-faster/jx" && n == "Decoder" {
						usesDecoder = true
					}
				}
				if usesDecoder && decodeCall == nil {
					decodeCall = cl
				}
			}
			if decodeCall == nil || f.Signature.Results().Len() != 1 {
				continue
			}
			// is this the body closure (d comes from jx.DecodeBytes in the parent)? accept any closure with Decode
			k := key + ":trailing"
			// a decoder built from a string value (jx.DecodeStr(val)): JSON carried inside a form field /
			// parameter, one template construct for all operations
			for _, pc := range core.Calls(f.Parent()) {
				if cal := pc.Common().StaticCallee(); cal == f && len(pc.Common().Args) == 1 {
					if dc, ok := pc.Common().Args[0].(*ssa.Call); ok && core.IsCallTo(dc.Common(), "github.com/go-faster/jx", "DecodeStr") {
						k = "json-in-uri-value:trailing"
					}
				}
			}
			if skipCall == nil {
				r.Fail(k, c.Pos(decodeCall.Pos()), "a JSON body is decoded without the trailing-data test (d.Skip() != io.EOF): `{}garbage` is accepted")
				continue
			}
			okAll := true
			for _, b := range f.Blocks {
				ret, ok := b.Instrs[len(b.Instrs)-1].(*ssa.Return)
				if !ok || !core.IsNilConst(ret.Results[0]) {
					continue
				}
				// success return must be dominated by the EOF-equal edge of a comparison on Skip's result
				dom := false
				for _, ref := range *skipCall.Referrers() {
					bo, ok := ref.(*ssa.BinOp)
					if !ok || (bo.Op != token.NEQ && bo.Op != token.EQL) {
						continue
					}
					for _, eb := range core.EdgeBlocks(bo, bo.Op == token.EQL) {
						if eb.Dominates(b) {
							dom = true
						}
					}
				}
				if !dom {
					okAll = false
				}
			}
			if okAll {
				r.Pass(key + ": JSON decode success is dominated by Skip() == io.EOF")
			} else {
				r.Fail(k, c.Pos(skipCall.Pos()), "the success return of a JSON body decode is not dominated by the trailing-data test")
			}
		}
	}
}

// checkNotFoundAllowed: generated notFound/notAllowed write 404/405 and set
// Allow before WriteHeader.
func checkNotFoundAllowed(c *core.Ctx, r *core.Rule, ex *core.Expansion, fx *core.Fixture) {
	pkg := ex.Prog.ByPath[fx.PkgPath]
	// notFound → cfg.NotFound ; default handlers live in baseServer / cfg: check constants where they are written
	for _, fn := range core.PkgFuncs(ex.Prog.SSA, pkg) {
		if fn.Name() != "notAllowed" || fn.Parent() != nil {
			continue
		}
		// look into it and its callees in this package for WriteHeader(405) preceded by Header().Set("Allow", …)
		var fns []*ssa.Function
		fns = append(fns, core.AllFuncs(fn)...)
		for _, call := range core.Calls(fn) {
			if cal := call.Common().StaticCallee(); cal != nil && core.FuncPkgPath(cal) == fx.PkgPath {
				fns = append(fns, core.AllFuncs(cal)...)
			}
		}
		_ = fns
	}
	// the defaults are installed in newServerConfig: NotFound: http.NotFound and a MethodNotAllowed literal
	found405, allowBefore := false, false
	found404 := false
	for _, fn := range core.PkgFuncs(ex.Prog.SSA, pkg) {
		for _, b := range fn.Blocks {
			for _, in := range b.Instrs {
				st, ok := in.(*ssa.Store)
				if !ok {
					continue
				}
				fa, ok := st.Addr.(*ssa.FieldAddr)
				if !ok {
					continue
				}
				switch fieldName(fa.X.Type(), fa.Field) {
				case "NotFound":
					v := st.Val
					if ct, ok := v.(*ssa.ChangeType); ok {
						v = ct.X
					}
					if f, ok := v.(*ssa.Function); ok && core.IsFunc(f, "net/http", "NotFound") {
						found404 = true
					}
				case "MethodNotAllowed":
					v := st.Val
					if mc, ok := v.(*ssa.MakeClosure); ok {
						v = mc.Fn
					}
					lit, ok := v.(*ssa.Function)
					if !ok || lit.Blocks == nil {
						continue
					}
					var setAllow, wh ssa.CallInstruction
					for _, call := range core.Calls(lit) {
						cc := call.Common()
						if cc.IsInvoke() && cc.Method.Name() == "WriteHeader" {
							wh = call
						}
						if core.IsCallTo(cc, "net/http", "Header.Set") && len(cc.Args) >= 3 {
							if k, ok := core.ConstString(cc.Args[1]); ok && k == "Allow" && len(lit.Params) == 3 && cc.Args[2] == ssa.Value(lit.Params[2]) {
								setAllow = call
							}
						}
					}
					if wh == nil || setAllow == nil {
						continue
					}
					// the status written on the path through the Allow block is 405
					arg := wh.Common().Args[0]
					if k, ok := core.ConstInt(arg); ok && k == 405 {
						found405 = true
						allowBefore = setAllow.Block().Dominates(wh.Block())
					}
					if phi, ok := arg.(*ssa.Phi); ok {
						for i, e := range phi.Edges {
							if k, ok := core.ConstInt(e); ok && k == 405 {
								found405 = true
								pred := phi.Block().Preds[i]
								if setAllow.Block() == pred || setAllow.Block().Dominates(pred) {
									allowBefore = true
								}
							}
						}
					}
				}
			}
		}
	}
	hasRouter := pkg.Func("notAllowed") != nil || ex.Prog.Func(fx.PkgPath, "Server.notAllowed") != nil
	if !hasRouter {
		return
	}
	if found405 && allowBefore {
		r.Pass(fx.Name + ": 405 is written after the Allow header is set")
	} else {
		r.Fail(fx.Name+":405", "-", "the generated method-not-allowed path does not set Allow before WriteHeader(405)")
	}
	if found404 {
		r.Pass(fx.Name + ": not-found path writes 404")
	} else {
		r.Fail(fx.Name+":404", "-", "the generated not-found path does not write 404")
	}
}

// checkErrorCodes: S1 constants of ogenerrors.
func checkErrorCodes(c *core.Ctx, r *core.Rule) {
	prog, err := c.Program("./ogenerrors")
	if err != nil {
		r.Undecided("load:ogenerrors", "-", err.Error())
		return
	}
	pev := peval.New(prog.PkgBy[pkgErrs])
	for _, w := range []struct {
		typ  string
		code int64
	}{{"SecurityError", 401}, {"DecodeParamsError", 400}, {"DecodeRequestError", 400}} {
		fn, _ := pev.FindFunc(pkgErrs, w.typ+".Code")
		if fn == nil {
			r.Undecided("anchor:"+w.typ+".Code", "-", "ogenerrors."+w.typ+".Code not found")
			continue
		}
		res := pev.Run(fn, nil)
		ok := len(res.Returns) > 0
		for _, ret := range res.Returns {
			if len(ret) != 1 || ret[0].Kind != peval.Const || ret[0].K.ExactString() != fmt.Sprint(w.code) {
				ok = false
			}
		}
		if ok {
			r.Pass(fmt.Sprintf("ogenerrors.%s.Code() = %d", w.typ, w.code))
		} else {
			r.Fail(w.typ+".Code", c.Pos(pev.Decls[fn].Pos()), fmt.Sprintf("ogenerrors.%s.Code() does not return the constant %d", w.typ, w.code))
		}
	}
	ec := prog.Func(pkgErrs, "ErrorCode")
	if ec == nil {
		r.Undecided("anchor:ErrorCode", "-", "ogenerrors.ErrorCode not found")
		return
	}
	// a test is a direct errors.Is / errors.As call, or a call of a helper of the package whose boolean result is the
	// result of such a call on its parameter (isInvalidContentType(err), asError(err))
	type errTest struct {
		ssa.Value
		in ssa.Instruction
	}
	var isNI, asCT, asErr *errTest
	asTarget := func(cl *ssa.Call) string {
		tgt := cl.Common().Args[1]
		if mi, ok := tgt.(*ssa.MakeInterface); ok {
			tgt = mi.X
		}
		if p, ok := tgt.Type().(*types.Pointer); ok {
			if _, n := core.NamedOf(p.Elem()); n == "InvalidContentTypeError" {
				return "CT"
			}
			return "ERR"
		}
		return ""
	}
	classify := func(cl *ssa.Call) string {
		switch {
		case core.IsCallTo(cl.Common(), "github.com/go-faster/errors", "Is"):
			return "NI"
		case core.IsCallTo(cl.Common(), "github.com/go-faster/errors", "As"):
			return asTarget(cl)
		}
		return ""
	}
	set := func(kind string, t *errTest) {
		switch kind {
		case "NI":
			isNI = t
		case "CT":
			asCT = t
		case "ERR":
			asErr = t
		}
	}
	for _, call := range core.Calls(ec) {
		cl, ok := call.(*ssa.Call)
		if !ok {
			continue
		}
		if k := classify(cl); k != "" {
			set(k, &errTest{cl, cl})
			continue
		}
		h := cl.Common().StaticCallee()
		if h == nil || core.FuncPkgPath(h) != core.FuncPkgPath(ec) || len(h.Blocks) == 0 {
			continue
		}
		res := h.Signature.Results()
		if res.Len() == 0 || !isBoolT(res.At(res.Len()-1).Type()) {
			continue
		}
		kind := ""
		for _, hc := range core.Calls(h) {
			if hcl, ok := hc.(*ssa.Call); ok {
				if k := classify(hcl); k != "" && len(hcl.Common().Args) > 0 && len(h.Params) > 0 && hcl.Common().Args[0] == ssa.Value(h.Params[0]) {
					kind = k
				}
			}
		}
		if kind == "" {
			continue
		}
		var cond ssa.Value = cl
		if res.Len() > 1 {
			cond = extractOf(cl, res.Len()-1)
		}
		if cond != nil {
			set(kind, &errTest{cond, cl})
		}
	}
	if isNI == nil || asCT == nil || asErr == nil {
		r.Undecided("ErrorCode:shape", c.Pos(ec.Pos()), "ErrorCode does not test ErrNotImplemented, *InvalidContentTypeError and Error")
		return
	}
	// constants assigned on the true edges
	codeOn := func(call *errTest) (int64, bool) {
		for _, eb := range core.EdgeBlocks(call.Value, true) {
			// the phi at the merge takes a constant from a block dominated by eb
			for _, b := range ec.Blocks {
				for _, in := range b.Instrs {
					phi, ok := in.(*ssa.Phi)
					if !ok {
						continue
					}
					for i, e := range phi.Edges {
						if eb.Dominates(b.Preds[i]) {
							if k, ok := core.ConstInt(e); ok {
								return k, true
							}
						}
					}
				}
			}
			// early-return form: `if errors.Is(…) { return http.StatusNotImplemented }`
			if ret, ok := eb.Instrs[len(eb.Instrs)-1].(*ssa.Return); ok && len(ret.Results) == 1 {
				if k, ok := core.ConstInt(ret.Results[0]); ok {
					return k, true
				}
			}
		}
		return 0, false
	}
	if k, ok := codeOn(isNI); ok && k == 501 {
		r.Pass("ErrNotImplemented → 501")
	} else {
		r.Fail("ErrorCode:501", c.Pos(isNI.in.Pos()), "ErrNotImplemented is not mapped to 501")
	}
	if k, ok := codeOn(asCT); ok && k == 415 {
		r.Pass("InvalidContentTypeError → 415")
	} else {
		r.Fail("ErrorCode:415", c.Pos(asCT.in.Pos()), "InvalidContentTypeError is not mapped to 415")
	}
	// precedence: the generic arm is evaluated only when the content-type test failed
	prec := false
	for _, eb := range core.EdgeBlocks(asCT.Value, false) {
		if eb.Dominates(asErr.in.Block()) || eb == asErr.in.Block() {
			prec = true
		}
	}
	if prec {
		r.Pass("the content-type arm takes precedence over the generic Error arm")
	} else {
		r.Fail("ErrorCode:precedence", c.Pos(asErr.in.Pos()), "the generic Error arm is not evaluated after the InvalidContentTypeError arm: a DecodeRequestError wrapping an invalid content type is answered 400 instead of 415")
	}
	// default 500
	def := false
	for _, b := range ec.Blocks {
		for _, in := range b.Instrs {
			if phi, ok := in.(*ssa.Phi); ok {
				for _, e := range phi.Edges {
					if k, ok := core.ConstInt(e); ok && k == 500 {
						def = true
					}
				}
			}
			// early-return form: the return reached when every test failed
			if ret, ok := in.(*ssa.Return); ok && len(ret.Results) == 1 {
				if k, ok := core.ConstInt(ret.Results[0]); ok && k == 500 {
					falseAll := true
					for _, t := range []*errTest{isNI, asCT, asErr} {
						under := false
						for _, eb := range core.EdgeBlocks(t.Value, false) {
							if eb == b || eb.Dominates(b) {
								under = true
							}
						}
						if !under {
							falseAll = false
						}
					}
					if falseAll {
						def = true
					}
				}
			}
		}
	}
	if def {
		r.Pass("default status is 500")
	} else {
		r.Fail("ErrorCode:500", c.Pos(ec.Pos()), "the default status is not 500")
	}
}
