package rules

import (
	"fmt"
	"go/ast"
	"go/token"
	"go/types"
	"sort"
	"strconv"
	"strings"
	"unicode"

	"golang.org/x/tools/go/ssa"
	"golang.org/x/tools/go/ssa/ssautil"

	"ogenverif/internal/core"
)

const pkgJSONrt = core.Module + "/json"

func init() {
	register(&Property{
		ID: "C04",
		Meta: core.Meta{
			Level: "other",
			Explanation: "Structural necessary conditions of 'encode then decode gives the same value': the two directions are driven by the same tables. " +
				"(R04.1) every name ir.JSON.Format() can return (constants of its switch, \"String\"+Capitalize(label), typePrefix results; enumerated from the AST) has a pair json.Encode<F>(e, T) / json.Decode<F>(d) (T, error) in the runtime package with the identical T; " +
				"(R04.2) inside package json no integer conversion on the way between the value parameter / result and the jx call changes values (no narrowing, no sign change) — checked on every instantiation of the generic helpers; " +
				"(R04.3, S2) generic wrappers (Opt/Nil/OptNil) in every expansion keep the three states apart: Decode ends with Set=true on every success path and Null = (the null token was consumed); Encode writes nothing unless Set, writes null iff Null; " +
				"(R04.4, S2) every array decoded with d.Arr is first assigned a non-nil empty slice (so [] does not come back as nil); " +
				"(R04.5, S2) per generated struct: the keys written by encodeFields, the case labels of Decode and the jsonFieldsNameOf table are the same list in the same order; an Opt field is written under its Set flag; " +
				"(R04.6, S2) sum types: the discriminator constants written by Encode are the ones Decode maps back, and variant inference looks at every key regardless of its value. " +
				"NOT decided: equality after a round trip, validity of the emitted JSON against the schema, number and string escaping (inside jx), time formats.",
			Assumptions: []string{"jx.Encoder / jx.Decoder methods of the same name are inverse (trusted dependency)"},
			TrustedBase: []string{"go/types, go/ssa on the expansions"},
		},
		Run: runC04,
	})
}

func runC04(c *core.Ctx) error {
	prog, err := c.Program("./json", "./gen/ir")
	if err != nil {
		return err
	}
	checkFormatPairs(c, prog)
	checkLosslessConversions(c, prog)
	checkWrapperNaming(c, prog)
	exp, err := c.Expand(nil)
	r3 := c.NewRule("R04.3", "S2", "generic wrappers keep absent / null / present apart in both directions", 40)
	r4 := c.NewRule("R04.4", "S2", "arrays decoded with d.Arr start from a non-nil empty slice", 100)
	r5 := c.NewRule("R04.5", "S2", "struct codecs: encodeFields keys = Decode case labels = name table, same order; optional members written under Set", 500)
	r6 := c.NewRule("R04.6", "S2", "sum types: Encode and Decode agree on variant tags; inference is value-independent", 10)
	r7 := c.NewRule("R04.7", "S2", "generated encoders: on every path a value follows a written key before the next key, the end of the object or the return", 500)
	if err != nil {
		for _, r := range []*core.Rule{r3, r4, r5, r6, r7} {
			r.Undecided("expand", "-", trimPosMsg(err.Error(), 500))
		}
		return nil
	}
	for _, fx := range exp.Fixtures {
		checkGenericWrappers(c, r3, exp, fx)
		checkArrayInit(c, r4, exp, fx)
		checkStructKeys(c, r5, exp, fx)
		checkSumTypes(c, r6, exp, fx)
		checkDiscriminatedInlining(c, r6, exp, fx)
		checkValueFollowsKey(c, r7, exp, fx)
	}
	return nil
}

// ---------------------------------------------------------------- R04.1

func capitalizeASCII(s string) string {
	if s == "" {
		return s
	}
	r := []rune(s)
	r[0] = unicode.ToUpper(r[0])
	return string(r)
}

func checkFormatPairs(c *core.Ctx, prog *core.Prog) {
	r := c.NewRule("R04.1", "S1", "every format name ir.JSON.Format() can return has an Encode/Decode pair with the same Go type in package json", 15)
	irp := prog.PkgBy[pkgIR]
	jp := prog.PkgBy[pkgJSONrt]
	if irp == nil || jp == nil {
		r.Undecided("load", "-", "packages gen/ir or json not loaded")
		return
	}
	var fd *ast.FuncDecl
	for _, f := range irp.Syntax {
		for _, d := range f.Decls {
			if x, ok := d.(*ast.FuncDecl); ok && x.Name.Name == "Format" && x.Recv != nil && astRecvName(x.Recv.List[0].Type) == "JSON" {
				fd = x
			}
		}
	}
	if fd == nil {
		r.Undecided("anchor:JSON.Format", "-", "ir.JSON.Format not found")
		return
	}
	names := map[string]token.Pos{}
	undecided := 0
	// returns inside case clauses know their labels
	var walk func(n ast.Node, labels []string)
	walk = func(n ast.Node, labels []string) {
		switch x := n.(type) {
		case *ast.CaseClause:
			var ls []string
			for _, e := range x.List {
				if bl, ok := e.(*ast.BasicLit); ok && bl.Kind == token.STRING {
					s, _ := strconv.Unquote(bl.Value)
					ls = append(ls, s)
				}
			}
			for _, st := range x.Body {
				walk(st, ls)
			}
			return
		case *ast.FuncLit:
			return // typePrefix: handled at its call sites
		case *ast.ReturnStmt:
			if len(x.Results) != 1 {
				return
			}
			switch e := x.Results[0].(type) {
			case *ast.BasicLit:
				s, _ := strconv.Unquote(e.Value)
				if s != "" {
					names[s] = e.Pos()
				}
			case *ast.CallExpr:
				if id, ok := e.Fun.(*ast.Ident); ok && id.Name == "typePrefix" && len(e.Args) == 1 {
					if bl, ok := e.Args[0].(*ast.BasicLit); ok {
						s, _ := strconv.Unquote(bl.Value)
						names[s] = e.Pos()
						names["String"+capitalizeASCII(s)] = e.Pos()
						return
					}
				}
				undecided++
			case *ast.BinaryExpr:
				// "String" + naming.Capitalize(f)
				if bl, ok := e.X.(*ast.BasicLit); ok && e.Op == token.ADD {
					prefix, _ := strconv.Unquote(bl.Value)
					if _, ok := e.Y.(*ast.CallExpr); ok && len(labels) > 0 {
						for _, l := range labels {
							names[prefix+capitalizeASCII(l)] = e.Pos()
						}
						return
					}
				}
				undecided++
			case *ast.Ident:
				// `return f` under case labels: the label itself… not a pattern of this function
				undecided++
			default:
				undecided++
			}
			return
		}
		if n == nil {
			return
		}
		ast.Inspect(n, func(m ast.Node) bool {
			if m == n || m == nil {
				return true
			}
			switch m.(type) {
			case *ast.CaseClause, *ast.FuncLit, *ast.ReturnStmt:
				walk(m, labels)
				return false
			}
			return true
		})
	}
	walk(fd.Body, nil)
	if undecided > 0 {
		r.Undecided("format:unrecognised-return", c.Pos(fd.Pos()), fmt.Sprintf("%d return statements of ir.JSON.Format are not of a recognised shape (constant, typePrefix(const), \"String\"+Capitalize(label))", undecided))
	}
	var sorted []string
	for n := range names {
		sorted = append(sorted, n)
	}
	sort.Strings(sorted)
	scope := jp.Types.Scope()
	for _, n := range sorted {
		enc, _ := scope.Lookup("Encode" + n).(*types.Func)
		dec, _ := scope.Lookup("Decode" + n).(*types.Func)
		key := "format-pair:" + n
		if enc == nil || dec == nil {
			r.Fail(key, c.Pos(names[n]), fmt.Sprintf("ir.JSON.Format can return %q but package json lacks %s: generated code would not compile, or one direction falls back to another representation", n, map[bool]string{true: "Encode" + n, false: "Decode" + n}[enc == nil]))
			continue
		}
		es := enc.Type().(*types.Signature)
		ds := dec.Type().(*types.Signature)
		if es.Params().Len() != 2 || ds.Results().Len() != 2 {
			r.Fail(key, c.Pos(enc.Pos()), fmt.Sprintf("json.Encode%s / json.Decode%s do not have the shapes (e, T) and (d) (T, error)", n, n))
			continue
		}
		et, dt := es.Params().At(1).Type(), ds.Results().At(0).Type()
		if !types.Identical(et, dt) {
			r.Fail(key, c.Pos(dec.Pos()), fmt.Sprintf("json.Encode%s takes %s but json.Decode%s returns %s: the value changes type across a round trip", n, et, n, dt))
			continue
		}
		r.Pass(fmt.Sprintf("%s: Encode%s(e, %s) / Decode%s(d) (%s, error)", key, n, et, n, dt))
	}
	// every exported Encode<X> has a Decode<X> sibling of the same type
	for _, nm := range scope.Names() {
		if !strings.HasPrefix(nm, "Encode") || nm == "Encode" {
			continue
		}
		enc, ok := scope.Lookup(nm).(*types.Func)
		if !ok {
			continue
		}
		suffix := strings.TrimPrefix(nm, "Encode")
		dec, _ := scope.Lookup("Decode" + suffix).(*types.Func)
		if dec == nil {
			r.Fail("sibling:"+suffix, c.Pos(enc.Pos()), "json."+nm+" has no json.Decode"+suffix)
			continue
		}
		es, ds := enc.Type().(*types.Signature), dec.Type().(*types.Signature)
		if es.Params().Len() >= 2 && ds.Results().Len() >= 1 && types.Identical(es.Params().At(1).Type(), ds.Results().At(0).Type()) {
			r.Pass("sibling:" + suffix + ": same Go type in both directions")
		} else if es.Params().Len() >= 2 && ds.Results().Len() >= 1 {
			r.Fail("sibling:"+suffix, c.Pos(dec.Pos()), fmt.Sprintf("json.%s takes %s, json.Decode%s returns %s", nm, es.Params().At(1).Type(), suffix, ds.Results().At(0).Type()))
		}
	}
}

// ---------------------------------------------------------------- R04.2

func intRange(b *types.Basic) (bits int, signed bool, ok bool) {
	switch b.Kind() {
	case types.Int8:
		return 8, true, true
	case types.Int16:
		return 16, true, true
	case types.Int32:
		return 32, true, true
	case types.Int64, types.Int:
		return 64, true, true
	case types.Uint8:
		return 8, false, true
	case types.Uint16:
		return 16, false, true
	case types.Uint32:
		return 32, false, true
	case types.Uint64, types.Uint, types.Uintptr:
		return 64, false, true
	}
	return 0, false, false
}

// reviewedConversions: value-changing integer conversions of package json that are part of a sign-magnitude algorithm.
var reviewedConversions = map[string]string{
	"convert:ogen/json.formatDuration:int64→uint64": "copy of time.Duration.String: the sign is taken first (neg := d < 0) and the magnitude is u = -u in two's complement, exact for every int64 including MinInt64",
}

func checkLosslessConversions(c *core.Ctx, prog *core.Prog) {
	r := c.NewRule("R04.2", "S1", "package json: integer conversions between the value and the jx call preserve every value (all generic instantiations)", 10)
	n := 0
	var fns []*ssa.Function
	for f := range ssautil.AllFunctions(prog.SSA) {
		if f.Blocks == nil || core.FuncPkgPath(f) != pkgJSONrt {
			continue
		}
		fns = append(fns, f)
	}
	sort.Slice(fns, func(i, j int) bool { return fns[i].String() < fns[j].String() })
	for _, f := range fns {
		for _, b := range f.Blocks {
			for _, in := range b.Instrs {
				cv, ok := in.(*ssa.Convert)
				if !ok {
					continue
				}
				sb, ok1 := cv.X.Type().Underlying().(*types.Basic)
				db, ok2 := cv.Type().Underlying().(*types.Basic)
				if !ok1 || !ok2 {
					continue
				}
				sbits, ssigned, ok1 := intRange(sb)
				dbits, dsigned, ok2 := intRange(db)
				if !ok1 || !ok2 {
					continue
				}
				// only conversions of data: the operand derives from a parameter or from a decoder call result
				if !derivesFromData(cv.X, 0) {
					continue
				}
				n++
				lossless := false
				switch {
				case ssigned == dsigned:
					lossless = dbits >= sbits
				case !ssigned && dsigned:
					lossless = dbits > sbits
				default: // signed → unsigned
					lossless = false
				}
				key := fmt.Sprintf("convert:%s:%s→%s", core.FuncName(f), sb.Name(), db.Name())
				if why, ok := reviewedConversions[key]; ok {
					r.Justified++
					r.Pass(fmt.Sprintf("%s at %s: reviewed: %s", key, c.Pos(cv.Pos()), why))
					continue
				}
				if rem, ok := cv.X.(*ssa.BinOp); ok && rem.Op == token.REM {
					if k, ok := core.ConstInt(rem.Y); ok && k > 0 && k <= 256 && !ssigned {
						r.Pass(fmt.Sprintf("%s at %s: operand is x %% %d, fits", key, c.Pos(cv.Pos()), k))
						continue
					}
				}
				if lossless {
					r.Pass(fmt.Sprintf("%s at %s: every value representable", key, c.Pos(cv.Pos())))
				} else if guardedByRangeCheck(cv) {
					r.Pass(fmt.Sprintf("%s at %s: narrowing under an explicit range check", key, c.Pos(cv.Pos())))
				} else {
					r.Fail(key, c.Pos(cv.Pos()), fmt.Sprintf("%s converts %s to %s on the data path: values outside the target range come out changed (e.g. a uint64 above MaxInt64 is written as a negative number)", core.FuncName(f), sb.Name(), db.Name()))
				}
			}
		}
	}
	r.Note("integer conversions on data paths examined: %d in %d functions (instantiations included)", n, len(fns))
}

func derivesFromData(v ssa.Value, depth int) bool {
	if depth > 6 {
		return false
	}
	switch x := v.(type) {
	case *ssa.Parameter:
		return true
	case *ssa.Call:
		return true
	case *ssa.Extract:
		return derivesFromData(x.Tuple, depth+1)
	case *ssa.Convert:
		return derivesFromData(x.X, depth+1)
	case *ssa.ChangeType:
		return derivesFromData(x.X, depth+1)
	case *ssa.Phi:
		for _, e := range x.Edges {
			if derivesFromData(e, depth+1) {
				return true
			}
		}
	case *ssa.UnOp:
		return derivesFromData(x.X, depth+1)
	case *ssa.BinOp:
		return derivesFromData(x.X, depth+1) || derivesFromData(x.Y, depth+1)
	case *ssa.Alloc:
		// spilled parameter
		for _, ref := range *x.Referrers() {
			if st, ok := ref.(*ssa.Store); ok && st.Addr == ssa.Value(x) {
				if derivesFromData(st.Val, depth+1) {
					return true
				}
			}
		}
	}
	return false
}

// guardedByRangeCheck: the conversion's block is dominated by a comparison of the same operand (v > max / v < min).
func guardedByRangeCheck(cv *ssa.Convert) bool {
	for b := cv.Block().Idom(); b != nil; b = b.Idom() {
		if iff, ok := b.Instrs[len(b.Instrs)-1].(*ssa.If); ok {
			if bo, ok := iff.Cond.(*ssa.BinOp); ok {
				switch bo.Op {
				case token.LSS, token.GTR, token.LEQ, token.GEQ:
					if bo.X == cv.X || bo.Y == cv.X {
						return true
					}
				}
			}
		}
	}
	return false
}

// ---------------------------------------------------------------- R04.3 (S2)

func structFieldNames(t types.Type) map[string]types.Type {
	st, ok := t.Underlying().(*types.Struct)
	if !ok {
		return nil
	}
	m := map[string]types.Type{}
	for i := 0; i < st.NumFields(); i++ {
		m[st.Field(i).Name()] = st.Field(i).Type()
	}
	return m
}

// isGenericWrapper: struct { Value T; Set bool } / { Value T; Null bool } / { Value T; Set, Null bool }.
func isGenericWrapper(t types.Type) (hasSet, hasNull, ok bool) {
	f := structFieldNames(t)
	if f == nil || f["Value"] == nil || len(f) > 3 {
		return
	}
	isBool := func(t types.Type) bool {
		b, ok := t.Underlying().(*types.Basic)
		return ok && b.Kind() == types.Bool
	}
	if s, has := f["Set"]; has && isBool(s) {
		hasSet = true
	}
	if n, has := f["Null"]; has && isBool(n) {
		hasNull = true
	}
	ok = (hasSet || hasNull) && len(f) == 1+btoi(hasSet)+btoi(hasNull)
	return
}

func btoi(b bool) int {
	if b {
		return 1
	}
	return 0
}

func checkGenericWrappers(c *core.Ctx, r *core.Rule, exp *core.Expansion, fx *core.Fixture) {
	pkg := exp.Prog.ByPath[fx.PkgPath]
	if pkg == nil {
		return
	}
	var names []string
	for n := range pkg.Members {
		names = append(names, n)
	}
	sort.Strings(names)
	for _, n := range names {
		tm, ok := pkg.Members[n].(*ssa.Type)
		if !ok {
			continue
		}
		hasSet, hasNull, ok := isGenericWrapper(tm.Type())
		if !ok {
			continue
		}
		key := fx.Name + "/" + n
		dec := lookupMethodSafe(exp.Prog, types.NewPointer(tm.Type()), pkg.Pkg, "Decode")
		enc := lookupMethodSafe(exp.Prog, tm.Type(), pkg.Pkg, "Encode")
		if dec != nil && dec.Blocks != nil {
			if msg := wrapperDecodeStates(dec, hasSet, hasNull); msg != "" {
				r.Fail("wrapper-decode:"+key, c.Pos(dec.Pos()), fmt.Sprintf("%s.Decode: %s", n, msg))
			} else {
				r.Pass(fmt.Sprintf("%s.Decode: Set/Null states exact on every success path", key))
			}
		}
		if enc != nil && enc.Blocks != nil {
			if msg := wrapperEncodeStates(enc, hasSet, hasNull); msg != "" {
				r.Fail("wrapper-encode:"+key, c.Pos(enc.Pos()), fmt.Sprintf("%s.Encode: %s", n, msg))
			} else {
				r.Pass(fmt.Sprintf("%s.Encode: writes nothing unless Set, null iff Null", key))
			}
		}
	}
}

// wrapperDecodeStates enumerates the acyclic paths of Decode to each `return nil` and checks the last constant
// stored into o.Set / o.Null against whether the path consumed a null token (a call of (*jx.Decoder).Null).
func wrapperDecodeStates(fn *ssa.Function, hasSet, hasNull bool) string {
	recv := fn.Params[0]
	fieldOf := func(addr ssa.Value) string {
		fa, ok := addr.(*ssa.FieldAddr)
		if !ok {
			return ""
		}
		isRecv := fa.X == ssa.Value(recv)
		if ld, ok := fa.X.(*ssa.UnOp); ok && ld.Op == token.MUL && !isRecv {
			// the receiver is captured by a closure: it lives in a cell that is written once, with the parameter
			if al, ok := ld.X.(*ssa.Alloc); ok {
				for _, ref := range *al.Referrers() {
					if st, ok := ref.(*ssa.Store); ok && st.Addr == ssa.Value(al) && st.Val == ssa.Value(recv) {
						isRecv = true
					}
				}
			}
		}
		if !isRecv {
			return ""
		}
		st := recv.Type().Underlying().(*types.Pointer).Elem().Underlying().(*types.Struct)
		return st.Field(fa.Field).Name()
	}
	type state struct {
		set, null  string // "", "true", "false", "?"
		sawNull    bool
		resetCalls bool
	}
	var problem string
	paths := 0
	var walk func(b *ssa.BasicBlock, st state, visited map[*ssa.BasicBlock]bool)
	walk = func(b *ssa.BasicBlock, st state, visited map[*ssa.BasicBlock]bool) {
		if visited[b] || paths > 4000 || problem != "" {
			return
		}
		visited[b] = true
		defer delete(visited, b)
		for _, in := range b.Instrs {
			switch x := in.(type) {
			case *ssa.Store:
				f := fieldOf(x.Addr)
				if f == "Set" || f == "Null" {
					val := "?"
					if cst, ok := x.Val.(*ssa.Const); ok && cst.Value != nil {
						val = cst.Value.String()
					}
					if f == "Set" {
						st.set = val
					} else {
						st.null = val
					}
				}
			case *ssa.Call:
				cc := x.Common()
				if callee := cc.StaticCallee(); callee != nil {
					if callee.Name() == "Null" && callee.Signature.Recv() != nil && strings.HasSuffix(callee.Signature.Recv().Type().String(), "jx.Decoder") {
						st.sawNull = true
					}
					if callee.Name() == "Reset" && len(cc.Args) > 0 && cc.Args[0] == ssa.Value(recv) {
						st.set, st.null = "false", "false"
					}
				}
			case *ssa.Return:
				if len(x.Results) == 1 && core.IsNilConst(x.Results[0]) {
					paths++
					if hasSet && st.set != "true" {
						problem = fmt.Sprintf("a success path leaves Set = %q (null consumed: %v): a member that was present decodes as absent", st.set, st.sawNull)
					}
					if hasNull {
						want := map[bool]string{true: "true", false: "false"}[st.sawNull]
						if st.null != want {
							problem = fmt.Sprintf("a success path that %s a null token leaves Null = %q", map[bool]string{true: "consumed", false: "did not consume"}[st.sawNull], st.null)
						}
					}
				}
				return
			}
		}
		for _, s := range b.Succs {
			walk(s, st, visited)
		}
	}
	walk(fn.Blocks[0], state{}, map[*ssa.BasicBlock]bool{})
	if paths == 0 && problem == "" {
		return "no success path found"
	}
	return problem
}

// wrapperEncodeStates: every jx.Encoder call is dominated by Set == true (when there is a Set flag); Null() is
// called under Null == true and every other encoder call under Null == false.
func wrapperEncodeStates(fn *ssa.Function, hasSet, hasNull bool) string {
	// the receiver is a value: fields are read from the spilled copy or by Field instructions
	condOf := func(b *ssa.BasicBlock) map[string]string {
		// conditions established on the way to b: walk the dominator chain
		out := map[string]string{}
		for x := b; x.Idom() != nil; x = x.Idom() {
			d := x.Idom()
			iff, ok := d.Instrs[len(d.Instrs)-1].(*ssa.If)
			if !ok {
				continue
			}
			var branch string
			switch {
			case d.Succs[0] == x && len(x.Preds) == 1:
				branch = "true"
			case d.Succs[1] == x && len(x.Preds) == 1:
				branch = "false"
			case d.Succs[0].Dominates(b) && d.Succs[0] != d.Succs[1]:
				branch = "true"
			case d.Succs[1].Dominates(b):
				branch = "false"
			default:
				continue
			}
			name := condField(iff.Cond)
			if name != "" {
				if _, ok := out[name]; !ok {
					out[name] = branch
				}
			}
		}
		return out
	}
	for _, g := range core.AllFuncs(fn) {
		if g != fn {
			continue
		}
		for _, b := range g.Blocks {
			for _, in := range b.Instrs {
				call, ok := in.(*ssa.Call)
				if !ok {
					continue
				}
				callee := call.Common().StaticCallee()
				writes := false
				isNull := false
				if callee != nil && callee.Signature.Recv() != nil && strings.HasSuffix(callee.Signature.Recv().Type().String(), "jx.Encoder") {
					writes = true
					// a null written inside a loop is an element of the value (empty jx.Raw item), not the wrapper's null
					isNull = callee.Name() == "Null" && !blockInLoop(b)
				} else if callee != nil && (callee.Name() == "Encode" || strings.HasPrefix(callee.Name(), "Encode") || callee.Name() == "encodeFields") {
					writes = true
				} else if call.Common().IsInvoke() && call.Common().Method.Name() == "Encode" {
					writes = true
				}
				if !writes {
					continue
				}
				cs := condOf(b)
				if hasSet && cs["Set"] != "true" {
					return "writes to the encoder on a path where Set was not tested true: an absent member is emitted"
				}
				if hasNull {
					if isNull && cs["Null"] != "true" {
						return "writes null on a path where Null was not tested true"
					}
					if !isNull && cs["Null"] != "false" {
						return "writes the value on a path where Null was not tested false: null and present collapse"
					}
				}
			}
		}
	}
	return ""
}

// blockInLoop: b can reach itself.
func blockInLoop(b *ssa.BasicBlock) bool {
	seen := map[*ssa.BasicBlock]bool{}
	stack := append([]*ssa.BasicBlock{}, b.Succs...)
	for len(stack) > 0 {
		x := stack[len(stack)-1]
		stack = stack[:len(stack)-1]
		if x == b {
			return true
		}
		if seen[x] {
			continue
		}
		seen[x] = true
		stack = append(stack, x.Succs...)
	}
	return false
}

// condField names the wrapper field an If condition tests: o.Set, !o.Set (UnOp NOT is folded by go/ssa into swapped
// successors, so the condition is the load itself).
func condField(v ssa.Value) string {
	switch x := v.(type) {
	case *ssa.UnOp:
		if x.Op == token.NOT {
			return condField(x.X)
		}
		if x.Op == token.MUL {
			if fa, ok := x.X.(*ssa.FieldAddr); ok {
				st := fa.X.Type().Underlying().(*types.Pointer).Elem().Underlying().(*types.Struct)
				return st.Field(fa.Field).Name()
			}
		}
	case *ssa.Field:
		st := x.X.Type().Underlying().(*types.Struct)
		return st.Field(x.Field).Name()
	}
	return ""
}

// ---------------------------------------------------------------- R04.4 (S2)

// checkArrayInit (AST): a statement `if err := d.Arr(func…{ … X = append(X, elem) … })` is preceded, in the same
// block, by `X = make([]T, 0)`.
func checkArrayInit(c *core.Ctx, r *core.Rule, exp *core.Expansion, fx *core.Fixture) {
	p := exp.Prog.PkgBy[fx.PkgPath]
	if p == nil {
		return
	}
	bad := 0
	good := 0
	for _, f := range p.Syntax {
		if !strings.HasSuffix(p.Fset.Position(f.Pos()).Filename, "oas_json_gen.go") {
			continue
		}
		ast.Inspect(f, func(n ast.Node) bool {
			bs, ok := n.(*ast.BlockStmt)
			if !ok {
				return true
			}
			for i, st := range bs.List {
				ifs, ok := st.(*ast.IfStmt)
				if !ok || ifs.Init == nil {
					continue
				}
				as, ok := ifs.Init.(*ast.AssignStmt)
				if !ok || len(as.Rhs) != 1 {
					continue
				}
				call, ok := as.Rhs[0].(*ast.CallExpr)
				if !ok {
					continue
				}
				sel, ok := call.Fun.(*ast.SelectorExpr)
				if !ok || sel.Sel.Name != "Arr" || len(call.Args) != 1 {
					continue
				}
				lit, ok := call.Args[0].(*ast.FuncLit)
				if !ok {
					continue
				}
				// the appended target
				target := ""
				ast.Inspect(lit.Body, func(m ast.Node) bool {
					if a, ok := m.(*ast.AssignStmt); ok && len(a.Lhs) == 1 && len(a.Rhs) == 1 {
						if ce, ok := a.Rhs[0].(*ast.CallExpr); ok {
							if id, ok := ce.Fun.(*ast.Ident); ok && id.Name == "append" && len(ce.Args) >= 1 {
								if types.ExprString(a.Lhs[0]) == types.ExprString(ce.Args[0]) && target == "" {
									target = types.ExprString(a.Lhs[0])
								}
							}
						}
					}
					_, nested := m.(*ast.FuncLit)
					return !nested || m == ast.Node(lit)
				})
				if target == "" {
					continue
				}
				okInit := false
				if i > 0 {
					if prev, ok := bs.List[i-1].(*ast.AssignStmt); ok && len(prev.Lhs) == 1 && len(prev.Rhs) == 1 && types.ExprString(prev.Lhs[0]) == target {
						if mk, ok := prev.Rhs[0].(*ast.CallExpr); ok {
							if id, ok := mk.Fun.(*ast.Ident); ok && id.Name == "make" && len(mk.Args) >= 2 {
								if _, isSlice := mk.Args[0].(*ast.ArrayType); isSlice {
									okInit = true
								}
							}
						}
					}
				}
				if okInit {
					good++
					r.Ob(true, "")
				} else {
					bad++
					if bad <= 2 {
						r.Fail(fmt.Sprintf("array-init:%s:%s", fx.Name, target), c.Pos(ifs.Pos()), fmt.Sprintf("%s is filled by d.Arr without first being set to make([]T, 0): the empty JSON array decodes to a nil slice, which encodes as absent / null", target))
					} else {
						r.Ob(false, "")
					}
				}
			}
			return true
		})
	}
	if good > 0 && bad == 0 {
		r.Pass(fmt.Sprintf("%s: %d array decode sites start from make([]T, 0)", fx.Name, good))
	}
}

// ---------------------------------------------------------------- R04.5 (S2)

func checkStructKeys(c *core.Ctx, r *core.Rule, exp *core.Expansion, fx *core.Fixture) {
	p := exp.Prog.PkgBy[fx.PkgPath]
	if p == nil {
		return
	}
	tables := map[string][]string{}
	encKeys := map[string][]string{}
	encGuard := map[string]map[string]string{} // type → key → guard expr
	decKeys := map[string][]string{}
	encNull := map[string]map[string]bool{} // type → key → the encoder can write an explicit null for this member
	decNull := map[string]map[string]bool{} // type → key → the decoder looks for a null token (or delegates to a wrapper)
	masks := map[string][]uint8{}
	optFields := map[string]map[string]bool{} // type → Go field → is Opt wrapper with Set
	pos := map[string]token.Pos{}
	for _, f := range p.Syntax {
		for _, d := range f.Decls {
			switch x := d.(type) {
			case *ast.GenDecl:
				if x.Tok != token.VAR {
					continue
				}
				for _, sp := range x.Specs {
					vs := sp.(*ast.ValueSpec)
					for i, id := range vs.Names {
						if !strings.HasPrefix(id.Name, "jsonFieldsNameOf") || i >= len(vs.Values) {
							continue
						}
						if cl, ok := vs.Values[i].(*ast.CompositeLit); ok {
							var names []string
							for _, e := range cl.Elts {
								if kv, ok := e.(*ast.KeyValueExpr); ok {
									if bl, ok := kv.Value.(*ast.BasicLit); ok {
										s, _ := strconv.Unquote(bl.Value)
										names = append(names, s)
									}
								}
							}
							tables[strings.TrimPrefix(id.Name, "jsonFieldsNameOf")] = names
						}
					}
				}
			case *ast.FuncDecl:
				if x.Recv == nil || x.Body == nil {
					continue
				}
				tn := astRecvName(x.Recv.List[0].Type)
				switch x.Name.Name {
				case "encodeFields":
					pos[tn] = x.Pos()
					encGuard[tn] = map[string]string{}
					// top-level blocks: { [if guard {] e.FieldStart("k") … }
					for _, st := range x.Body.List {
						blk, ok := st.(*ast.BlockStmt)
						if !ok {
							continue
						}
						guard := ""
						var scan func(list []ast.Stmt, g string)
						scan = func(list []ast.Stmt, g string) {
							for _, s2 := range list {
								switch y := s2.(type) {
								case *ast.IfStmt:
									scan(y.Body.List, types.ExprString(y.Cond))
								case *ast.ExprStmt:
									if ce, ok := y.X.(*ast.CallExpr); ok {
										if sel, ok := ce.Fun.(*ast.SelectorExpr); ok && sel.Sel.Name == "FieldStart" && len(ce.Args) == 1 {
											if bl, ok := ce.Args[0].(*ast.BasicLit); ok {
												k, _ := strconv.Unquote(bl.Value)
												encKeys[tn] = append(encKeys[tn], k)
												encGuard[tn][k] = g
											}
										}
									}
								}
							}
						}
						before := len(encKeys[tn])
						scan(blk.List, guard)
						if len(encKeys[tn]) == before+1 {
							k := encKeys[tn][before]
							hasNull := false
							ast.Inspect(blk, func(m ast.Node) bool {
								// a null written inside a loop over the member's elements is an element (an empty
								// jx.Raw item or map value, fix 89157ffe), not the member
								switch m.(type) {
								case *ast.RangeStmt, *ast.ForStmt:
									return false
								}
								if ce, ok := m.(*ast.CallExpr); ok {
									if sel, ok := ce.Fun.(*ast.SelectorExpr); ok && sel.Sel.Name == "Null" && types.ExprString(sel.X) == "e" {
										hasNull = true
									}
								}
								return true
							})
							if hasNull {
								if encNull[tn] == nil {
									encNull[tn] = map[string]bool{}
								}
								encNull[tn][k] = true
							}
						}
					}
				case "Decode":
					// required mask literal: for i, mask := range [N]uint8{…}
					ast.Inspect(x.Body, func(n ast.Node) bool {
						rs, ok := n.(*ast.RangeStmt)
						if !ok {
							return true
						}
						cl, ok := rs.X.(*ast.CompositeLit)
						if !ok {
							return true
						}
						if at, ok := cl.Type.(*ast.ArrayType); !ok || fmt.Sprint(at.Elt) != "uint8" {
							return true
						}
						var m []uint8
						for _, e := range cl.Elts {
							if bl, ok := e.(*ast.BasicLit); ok {
								v, _ := strconv.ParseUint(strings.ReplaceAll(bl.Value, "_", ""), 0, 8)
								m = append(m, uint8(v))
							}
						}
						masks[tn] = m
						return false
					})
					hasBitset := false
					ast.Inspect(x.Body, func(n ast.Node) bool {
						if id, ok := n.(*ast.Ident); ok && id.Name == "ObjBytes" {
							hasBitset = true
						}
						return true
					})
					if !hasBitset {
						continue
					}
					// first switch string(k) in an ObjBytes callback
					done := false
					ast.Inspect(x.Body, func(n ast.Node) bool {
						if done {
							return false
						}
						sw, ok := n.(*ast.SwitchStmt)
						if !ok {
							return true
						}
						if ce, ok := sw.Tag.(*ast.CallExpr); !ok || types.ExprString(ce.Fun) != "string" {
							return true
						}
						for _, cs := range sw.Body.List {
							cc := cs.(*ast.CaseClause)
							for _, e := range cc.List {
								if bl, ok := e.(*ast.BasicLit); ok {
									k, _ := strconv.Unquote(bl.Value)
									decKeys[tn] = append(decKeys[tn], k)
									handles := false
									for _, st := range cc.Body {
										ast.Inspect(st, func(m ast.Node) bool {
											if sel, ok := m.(*ast.SelectorExpr); ok && sel.Sel.Name == "Null" {
												handles = true // jx.Null or d.Null()
											}
											return true
										})
									}
									if handles {
										if decNull[tn] == nil {
											decNull[tn] = map[string]bool{}
										}
										decNull[tn][k] = true
									}
								}
							}
						}
						done = true
						return false
					})
				}
			}
		}
	}
	// Opt-typed fields of structs
	for tn := range tables {
		obj := p.Types.Scope().Lookup(tn)
		if obj == nil {
			continue
		}
		st, ok := obj.Type().Underlying().(*types.Struct)
		if !ok {
			continue
		}
		optFields[tn] = map[string]bool{}
		for i := 0; i < st.NumFields(); i++ {
			if hs, _, ok := isGenericWrapper(st.Field(i).Type()); ok && hs {
				optFields[tn][st.Field(i).Name()] = true
			}
		}
	}
	var tns []string
	for tn := range tables {
		tns = append(tns, tn)
	}
	sort.Strings(tns)
	for _, tn := range tns {
		names := tables[tn]
		key := fx.Name + "/" + tn
		var problems []string
		if ek, ok := encKeys[tn]; ok {
			if strings.Join(ek, "\x00") != strings.Join(names, "\x00") {
				problems = append(problems, fmt.Sprintf("encodeFields writes %v, the name table lists %v", ek, names))
			}
			// optional members under their Set flag
			for k, g := range encGuard[tn] {
				_ = k
				if g != "" && strings.HasSuffix(g, ".Set") {
					continue
				}
			}
		}
		if dk, ok := decKeys[tn]; ok {
			if strings.Join(dk, "\x00") != strings.Join(names, "\x00") {
				problems = append(problems, fmt.Sprintf("Decode handles %v, the name table lists %v", dk, names))
			}
		}
		// a member the decoder does not demand (mask bit clear) is optional: the encoder must be able to leave it out
		if m, ok := masks[tn]; ok {
			for i, k := range names {
				if i/8 < len(m) && m[i/8]&(1<<(i%8)) == 0 {
					if g, ok := encGuard[tn][k]; ok && g == "" {
						r.Fail(fmt.Sprintf("optional-always-written:%s.%s", key, k), c.Pos(pos[tn]), fmt.Sprintf("%s: member %q is optional for Decode (not in the required mask) but encodeFields writes it unconditionally: an absent member comes back present", tn, k))
					}
				}
			}
		}
		// a member the encoder may write as null must be readable as null
		for k := range encNull[tn] {
			if !decNull[tn][k] {
				r.Fail(fmt.Sprintf("null-not-decodable:%s.%s", key, k), c.Pos(pos[tn]), fmt.Sprintf("%s: encodeFields writes member %q as null when it is nil, but the Decode case for it never looks for a null token: the type's own output cannot be read back", tn, k))
			} else {
				r.Ob(true, "")
			}
		}
		if len(problems) == 0 {
			r.Ob(true, "")
		} else {
			r.Fail("struct-keys:"+key, c.Pos(pos[tn]), fmt.Sprintf("%s: %s — a member is written under one name and read under another, or not read at all", tn, strings.Join(problems, "; ")))
		}
	}
	// optional members: the Go struct's Opt-typed fields are written under `if s.F.Set`
	nOpt, badOpt := 0, 0
	for _, f := range p.Syntax {
		for _, d := range f.Decls {
			x, ok := d.(*ast.FuncDecl)
			if !ok || x.Recv == nil || x.Body == nil || x.Name.Name != "encodeFields" {
				continue
			}
			tn := astRecvName(x.Recv.List[0].Type)
			for _, st := range x.Body.List {
				blk, ok := st.(*ast.BlockStmt)
				if !ok || len(blk.List) == 0 {
					continue
				}
				// unconditional: first stmt is e.FieldStart(...) and next is s.F.Encode(e)
				if es, ok := blk.List[0].(*ast.ExprStmt); ok {
					if ce, ok := es.X.(*ast.CallExpr); ok {
						if sel, ok := ce.Fun.(*ast.SelectorExpr); ok && sel.Sel.Name == "FieldStart" && len(blk.List) >= 2 {
							if es2, ok := blk.List[1].(*ast.ExprStmt); ok {
								if ce2, ok := es2.X.(*ast.CallExpr); ok {
									if sel2, ok := ce2.Fun.(*ast.SelectorExpr); ok && sel2.Sel.Name == "Encode" {
										if fs, ok := sel2.X.(*ast.SelectorExpr); ok {
											if optFields[tn][fs.Sel.Name] {
												badOpt++
												r.Fail(fmt.Sprintf("opt-unguarded:%s/%s.%s", fx.Name, tn, fs.Sel.Name), c.Pos(es.Pos()), fmt.Sprintf("%s.%s is an optional wrapper but encodeFields writes its key unconditionally: an unset member is emitted", tn, fs.Sel.Name))
											}
										}
									}
								}
							}
						}
					}
				}
				if ifs, ok := blk.List[0].(*ast.IfStmt); ok {
					if g := types.ExprString(ifs.Cond); strings.HasSuffix(g, ".Set") {
						nOpt++
					}
				}
			}
		}
	}
	if nOpt > 0 && badOpt == 0 {
		r.Pass(fmt.Sprintf("%s: %d optional members written under their Set flag, %d struct types with consistent key lists", fx.Name, nOpt, len(tns)))
	}
}

// ---------------------------------------------------------------- R04.6 (S2)

func checkSumTypes(c *core.Ctx, r *core.Rule, exp *core.Expansion, fx *core.Fixture) {
	pkg := exp.Prog.ByPath[fx.PkgPath]
	if pkg == nil {
		return
	}
	var names []string
	for n := range pkg.Members {
		names = append(names, n)
	}
	sort.Strings(names)
	for _, n := range names {
		tm, ok := pkg.Members[n].(*ssa.Type)
		if !ok {
			continue
		}
		f := structFieldNames(tm.Type())
		if f == nil || f["Type"] == nil {
			continue
		}
		tt, ok := f["Type"].(*types.Named)
		if !ok || tt.Obj().Name() != n+"Type" {
			continue
		}
		key := fx.Name + "/" + n
		dec := lookupMethodSafe(exp.Prog, types.NewPointer(tm.Type()), pkg.Pkg, "Decode")
		enc := lookupMethodSafe(exp.Prog, tm.Type(), pkg.Pkg, "Encode")
		if enc == nil {
			enc = lookupMethodSafe(exp.Prog, types.NewPointer(tm.Type()), pkg.Pkg, "Encode")
		}
		if dec == nil || enc == nil || dec.Blocks == nil || enc.Blocks == nil {
			continue
		}
		tagsOf := func(fn *ssa.Function, stores bool) map[string]bool {
			out := map[string]bool{}
			for _, g := range core.AllFuncs(fn) {
				for _, b := range g.Blocks {
					for _, in := range b.Instrs {
						switch x := in.(type) {
						case *ssa.Store:
							if !stores {
								continue
							}
							if fa, ok := x.Addr.(*ssa.FieldAddr); ok {
								st, ok := fa.X.Type().Underlying().(*types.Pointer).Elem().Underlying().(*types.Struct)
								if ok && st.Field(fa.Field).Name() == "Type" {
									if s, ok := core.ConstString(x.Val); ok && s != "" {
										out[s] = true
									}
								}
							}
						case *ssa.BinOp:
							if stores || x.Op != token.EQL {
								continue
							}
							for _, side := range []ssa.Value{x.X, x.Y} {
								if s, ok := core.ConstString(side); ok && types.Identical(side.Type(), tt) {
									out[s] = true
								}
							}
						}
					}
				}
			}
			return out
		}
		encTags := tagsOf(enc, false)
		decTags := tagsOf(dec, true)
		var miss []string
		for t := range encTags {
			if !decTags[t] {
				miss = append(miss, t)
			}
		}
		sort.Strings(miss)
		if len(encTags) == 0 {
			continue
		}
		if len(miss) > 0 {
			r.Fail("sum-tags:"+key, c.Pos(dec.Pos()), fmt.Sprintf("%s.Encode handles variants %v that %s.Decode never selects: such a value cannot come back", n, miss, n))
		} else {
			r.Pass(fmt.Sprintf("%s: %d variant tags handled by Encode are all assignable by Decode", key, len(encTags)))
		}
		// inference is value-independent: in the key callbacks no comparison of string(key) is dominated by a branch
		// on the decoder's next token
		for _, g := range core.AllFuncs(dec) {
			if g == dec {
				continue
			}
			for _, b := range g.Blocks {
				for _, in := range b.Instrs {
					bo, ok := in.(*ssa.BinOp)
					if !ok || bo.Op != token.EQL {
						continue
					}
					if _, isKeyCmp := core.ConstString(bo.Y); !isKeyCmp {
						continue
					}
					if cv, ok := bo.X.(*ssa.Convert); !ok || !isByteSlice(cv.X.Type()) {
						continue
					}
					for d := b.Idom(); d != nil; d = d.Idom() {
						iff, ok := d.Instrs[len(d.Instrs)-1].(*ssa.If)
						if !ok {
							continue
						}
						if dependsOnDecoderCall(iff.Cond, 0) {
							r.Fail("sum-inference-value:"+key, c.Pos(iff.Pos()), fmt.Sprintf("%s.Decode looks at a member's key only after branching on the member's value (decoder token): a variant whose distinguishing member is null (or of some type) is inferred as another variant", n))
							return
						}
					}
				}
			}
		}
	}
}

func isByteSlice(t types.Type) bool {
	s, ok := t.Underlying().(*types.Slice)
	if !ok {
		return false
	}
	b, ok := s.Elem().Underlying().(*types.Basic)
	return ok && b.Kind() == types.Uint8
}

func dependsOnDecoderCall(v ssa.Value, depth int) bool {
	if depth > 5 {
		return false
	}
	switch x := v.(type) {
	case *ssa.Call:
		if callee := x.Common().StaticCallee(); callee != nil && callee.Signature.Recv() != nil && strings.HasSuffix(callee.Signature.Recv().Type().String(), "jx.Decoder") {
			return true
		}
	case *ssa.BinOp:
		return dependsOnDecoderCall(x.X, depth+1) || dependsOnDecoderCall(x.Y, depth+1)
	case *ssa.UnOp:
		return dependsOnDecoderCall(x.X, depth+1)
	case *ssa.Phi:
		for _, e := range x.Edges {
			if dependsOnDecoderCall(e, depth+1) {
				return true
			}
		}
	case *ssa.Extract:
		return dependsOnDecoderCall(x.Tuple, depth+1)
	}
	return false
}

func lookupMethodSafe(prog *core.Prog, t types.Type, pkg *types.Package, name string) *ssa.Function {
	sel := prog.SSA.MethodSets.MethodSet(t).Lookup(pkg, name)
	if sel == nil {
		return nil
	}
	return prog.SSA.MethodValue(sel)
}

// ---------------------------------------------------------------- R04.1b

// switchTerms maps each string case label of the first `switch f := s.Format; f` (or `switch s.Format`) of a method
// to the set of symbolic terms its returns can produce.
func switchTerms(fd *ast.FuncDecl) map[string]map[string]bool {
	out := map[string]map[string]bool{}
	var target *ast.SwitchStmt
	ast.Inspect(fd.Body, func(n ast.Node) bool {
		sw, ok := n.(*ast.SwitchStmt)
		if !ok {
			return true
		}
		// the switch over the schema format has many string labels
		labels := 0
		for _, cs := range sw.Body.List {
			for _, e := range cs.(*ast.CaseClause).List {
				if _, ok := strLit(e); ok {
					labels++
				}
			}
		}
		if labels >= 8 && (target == nil) {
			target = sw
		}
		return true
	})
	if target == nil {
		return nil
	}
	for _, cs := range target.Body.List {
		cc := cs.(*ast.CaseClause)
		var labels []string
		for _, e := range cc.List {
			if sv, ok := strLit(e); ok {
				labels = append(labels, sv)
			}
		}
		if len(labels) == 0 {
			continue
		}
		var terms []string
		ast.Inspect(cc, func(n ast.Node) bool {
			if _, ok := n.(*ast.FuncLit); ok {
				return false
			}
			rs, ok := n.(*ast.ReturnStmt)
			if !ok || len(rs.Results) != 1 {
				return true
			}
			terms = append(terms, types.ExprString(rs.Results[0]))
			return true
		})
		for _, l := range labels {
			if out[l] == nil {
				out[l] = map[string]bool{}
			}
			for _, t := range terms {
				// a term that mentions the switch variable stands for a different string per label
				if strings.Contains(t, "(f)") || strings.HasSuffix(t, " f") || t == "f" {
					t = strings.ReplaceAll(t, "(f)", "("+strconv.Quote(l)+")")
					if t == "f" {
						t = strconv.Quote(l)
					}
				}
				out[l][t] = true
			}
		}
	}
	return out
}

func termKey(m map[string]bool) string {
	var ks []string
	for k := range m {
		ks = append(ks, k)
	}
	sort.Strings(ks)
	return strings.Join(ks, " | ")
}

// checkWrapperNaming: optional/nullable wrappers are stored by name (Opt<postfix>), and the codec a wrapper uses
// is chosen by JSON.Format(). Two formats that select different codecs must therefore get different name postfixes,
// or one wrapper type — with one codec — serves both.
func checkWrapperNaming(c *core.Ctx, prog *core.Prog) {
	r := c.NewRule("R04.1b", "S1", "wrapper naming is at least as fine as codec selection: formats with different JSON.Format() results have different Type.NamePostfix() results", 20)
	irp := prog.PkgBy[pkgIR]
	if irp == nil {
		r.Undecided("load", "-", "gen/ir not loaded")
		return
	}
	var format, postfix *ast.FuncDecl
	for _, f := range irp.Syntax {
		for _, d := range f.Decls {
			if x, ok := d.(*ast.FuncDecl); ok && x.Recv != nil && x.Body != nil {
				switch {
				case x.Name.Name == "Format" && astRecvName(x.Recv.List[0].Type) == "JSON":
					format = x
				case x.Name.Name == "NamePostfix" && astRecvName(x.Recv.List[0].Type) == "Type":
					postfix = x
				}
			}
		}
	}
	if format == nil || postfix == nil {
		r.Undecided("anchor:Format/NamePostfix", "-", "ir.JSON.Format or ir.Type.NamePostfix not found")
		return
	}
	ft := switchTerms(format)
	pt := switchTerms(postfix)
	if len(ft) == 0 || len(pt) == 0 {
		r.Undecided("anchor:format-switch", c.Pos(format.Pos()), "no switch over format labels recognised in Format / NamePostfix")
		return
	}
	var labels []string
	for l := range ft {
		labels = append(labels, l)
	}
	sort.Strings(labels)
	for i, a := range labels {
		for _, b := range labels[i+1:] {
			if termKey(ft[a]) == termKey(ft[b]) {
				continue // same codec: may share a wrapper
			}
			pa, okA := pt[a]
			pb, okB := pt[b]
			key := fmt.Sprintf("wrapper-name:%s/%s", a, b)
			switch {
			case !okA || !okB:
				// one of them falls into NamePostfix's default (primitive name): compare only when both known
				r.Ob(true, "")
			case termKey(pa) == termKey(pb):
				r.Fail(key, c.Pos(postfix.Pos()), fmt.Sprintf("formats %q and %q select different codecs (%s vs %s) but get the same wrapper name postfix (%s): the Opt/Nil wrapper is stored by name, so one of the two members is decoded with the other's codec", a, b, termKey(ft[a]), termKey(ft[b]), termKey(pa)))
			default:
				r.Ob(true, "")
			}
		}
	}
	r.Note("format labels with a codec: %d, with a postfix case: %d", len(ft), len(pt))
}

// ---------------------------------------------------------------- R04.6b (S2)

// checkDiscriminatedInlining: a discriminated sum inlines each variant's members into its own encodeFields. Whatever
// member (s.X) the variant's own encodeFields writes — except the discriminator property itself — must also be written
// in that variant's case of the sum's encodeFields.
func checkDiscriminatedInlining(c *core.Ctx, r *core.Rule, exp *core.Expansion, fx *core.Fixture) {
	p := exp.Prog.PkgBy[fx.PkgPath]
	if p == nil {
		return
	}
	encFields := map[string]*ast.FuncDecl{}
	for _, f := range p.Syntax {
		for _, d := range f.Decls {
			if x, ok := d.(*ast.FuncDecl); ok && x.Recv != nil && x.Body != nil && x.Name.Name == "encodeFields" {
				encFields[astRecvName(x.Recv.List[0].Type)] = x
			}
		}
	}
	members := func(n ast.Node) map[string]bool {
		out := map[string]bool{}
		ast.Inspect(n, func(m ast.Node) bool {
			if sel, ok := m.(*ast.SelectorExpr); ok {
				if id, ok := sel.X.(*ast.Ident); ok && id.Name == "s" {
					out[sel.Sel.Name] = true
				}
			}
			return true
		})
		return out
	}
	for tn, fd := range encFields {
		// discriminated: body is `switch s.Type { case XT: e.FieldStart("disc"); e.Str("key"); { s := s.X … } }`
		if len(fd.Body.List) != 1 {
			continue
		}
		sw, ok := fd.Body.List[0].(*ast.SwitchStmt)
		if !ok || sw.Tag == nil || types.ExprString(sw.Tag) != "s.Type" {
			continue
		}
		for _, cs := range sw.Body.List {
			cc := cs.(*ast.CaseClause)
			if len(cc.Body) < 2 {
				continue
			}
			// discriminator property written first
			disc := ""
			if es, ok := cc.Body[0].(*ast.ExprStmt); ok {
				if ce, ok := es.X.(*ast.CallExpr); ok && types.ExprString(ce.Fun) == "e.FieldStart" && len(ce.Args) == 1 {
					disc, _ = strLit(ce.Args[0])
				}
			}
			if disc == "" {
				continue
			}
			// inlined variant: { s := s.V … }
			variant := ""
			var block *ast.BlockStmt
			for _, st := range cc.Body {
				if blk, ok := st.(*ast.BlockStmt); ok && len(blk.List) > 0 {
					if as, ok := blk.List[0].(*ast.AssignStmt); ok && len(as.Lhs) == 1 && types.ExprString(as.Lhs[0]) == "s" {
						if sel, ok := as.Rhs[0].(*ast.SelectorExpr); ok {
							variant = sel.Sel.Name
							block = blk
						}
					}
				}
			}
			// the variant may have been left out entirely: find it from the case constant <Variant><Sum>
			if variant == "" && len(cc.List) == 1 {
				variant = strings.TrimSuffix(types.ExprString(cc.List[0]), tn)
			}
			own := encFields[variant]
			if own == nil {
				continue
			}
			want := members(own.Body)
			// the discriminator member of the variant struct: the one whose FieldStart key is disc
			ast.Inspect(own.Body, func(m ast.Node) bool {
				blk, ok := m.(*ast.BlockStmt)
				if !ok {
					return true
				}
				isDisc := false
				ast.Inspect(blk, func(k ast.Node) bool {
					if ce, ok := k.(*ast.CallExpr); ok && types.ExprString(ce.Fun) == "e.FieldStart" && len(ce.Args) == 1 {
						if sv, ok := strLit(ce.Args[0]); ok && sv == disc {
							isDisc = true
						}
					}
					return true
				})
				if isDisc && blk != own.Body {
					for f := range members(blk) {
						// only drop it if this block writes nothing but the discriminator
						n := 0
						ast.Inspect(blk, func(k ast.Node) bool {
							if ce, ok := k.(*ast.CallExpr); ok && types.ExprString(ce.Fun) == "e.FieldStart" {
								n++
							}
							return true
						})
						if n == 1 {
							delete(want, f)
						}
					}
					return false
				}
				return true
			})
			got := map[string]bool{}
			if block != nil {
				got = members(block)
			}
			var missing []string
			for f := range want {
				if !got[f] {
					missing = append(missing, f)
				}
			}
			sort.Strings(missing)
			key := fmt.Sprintf("%s/%s:%s", fx.Name, tn, variant)
			if len(missing) == 0 {
				r.Pass(fmt.Sprintf("%s: every member the variant's own encoder writes is inlined under the discriminator", key))
			} else {
				r.Fail("discriminated-inline:"+key, c.Pos(cc.Pos()), fmt.Sprintf("%s.encodeFields writes variant %s without its members %v, which %s.encodeFields (and the decoder) handle: they are lost on encode", tn, variant, missing, variant))
			}
		}
	}
}

// ---------------------------------------------------------------- R04.7

// checkValueFollowsKey (R04.7, S2). Well-formedness of what the generated encoders write has one local necessary
// condition that is visible in the shape of the code: after `e.FieldStart(k)` has written `"k":`, every path writes a
// value with the same encoder before it writes the next key, closes the object or leaves the function — otherwise the
// output is `{"k":}` or `{"k":,"j":…}`, which no JSON parser accepts, whatever the value was. A "write" is any call
// that receives the *jx.Encoder (as receiver or argument) other than FieldStart / ObjEnd / ArrEnd. The rule follows
// the flow graph of every function of the expansion that calls FieldStart; loops are followed back to their head, so
// the key written by one iteration of a map encoder must have its value before the next iteration's key.
func checkValueFollowsKey(c *core.Ctx, r *core.Rule, exp *core.Expansion, fx *core.Fixture) {
	pkg := exp.Prog.ByPath[fx.PkgPath]
	if pkg == nil {
		return
	}
	isEnc := func(t types.Type) bool {
		p, ok := t.Underlying().(*types.Pointer)
		if !ok {
			return false
		}
		n, ok := types.Unalias(p.Elem()).(*types.Named)
		return ok && n.Obj().Name() == "Encoder" && n.Obj().Pkg() != nil && n.Obj().Pkg().Path() == "github.com/go-faster/jx"
	}
	// classify a call: "key", "close", "write", ""
	classify := func(in ssa.Instruction) string {
		call, ok := in.(ssa.CallInstruction)
		if !ok {
			return ""
		}
		cc := call.Common()
		uses := false
		for _, a := range cc.Args {
			if isEnc(a.Type()) {
				uses = true
			}
		}
		if cc.IsInvoke() && isEnc(cc.Value.Type()) {
			uses = true
		}
		if !uses {
			return ""
		}
		if cal := cc.StaticCallee(); cal != nil && cal.Signature.Recv() != nil && isEnc(cal.Signature.Recv().Type()) {
			switch cal.Name() {
			case "FieldStart":
				return "key"
			case "ObjEnd", "ArrEnd":
				return "close"
			}
		}
		return "write"
	}
	for _, top := range core.PkgFuncs(exp.Prog.SSA, pkg) {
		for _, fn := range core.AllFuncs(top) {
			for _, b := range fn.Blocks {
				for i, in := range b.Instrs {
					if classify(in) != "key" {
						continue
					}
					// forward search for a path that meets a key / close / return before a write
					type pos struct {
						b *ssa.BasicBlock
						i int
					}
					seen := map[*ssa.BasicBlock]bool{}
					stack := []pos{{b, i + 1}}
					bad := ""
					var badPos token.Pos
					for len(stack) > 0 && bad == "" {
						p := stack[len(stack)-1]
						stack = stack[:len(stack)-1]
						done := false
						for j := p.i; j < len(p.b.Instrs) && !done; j++ {
							x := p.b.Instrs[j]
							switch classify(x) {
							case "write":
								done = true
							case "key":
								bad, badPos, done = "the next key is written", x.Pos(), true
							case "close":
								bad, badPos, done = "the object is closed", x.Pos(), true
							default:
								if _, isRet := x.(*ssa.Return); isRet {
									bad, badPos, done = "the function returns", in.Pos(), true
								}
							}
						}
						if done {
							continue
						}
						for _, s := range p.b.Succs {
							if !seen[s] {
								seen[s] = true
								stack = append(stack, pos{s, 0})
							}
						}
					}
					key := fmt.Sprintf("value-after-key:%s/%s", fx.Name, fnKey(fn))
					if bad == "" {
						r.Ob(true, "")
					} else {
						r.Fail(key, c.Pos(in.Pos()), fmt.Sprintf("%s: after FieldStart there is a path on which %s before any value is written (at %s): the output is `\"k\":` with nothing after it, malformed JSON for a value the type admits (e.g. an empty jx.Raw as a map value)", fn.Name(), bad, c.Pos(badPos)))
					}
				}
			}
			// (b) element loops: a loop that writes values and no keys writes one value per iteration — a path
			// round the loop without a write leaves an element out, and the ones after it shift down.
			for _, h := range fn.Blocks {
				var latches []*ssa.BasicBlock
				for _, p := range h.Preds {
					if h.Dominates(p) {
						latches = append(latches, p)
					}
				}
				if len(latches) == 0 {
					continue
				}
				// loop blocks: dominated by h and reaching a latch
				inLoop := map[*ssa.BasicBlock]bool{h: true}
				stack := append([]*ssa.BasicBlock{}, latches...)
				for len(stack) > 0 {
					x := stack[len(stack)-1]
					stack = stack[:len(stack)-1]
					if inLoop[x] || !h.Dominates(x) {
						continue
					}
					inLoop[x] = true
					stack = append(stack, x.Preds...)
				}
				writes, keys := 0, 0
				var firstWrite token.Pos
				for x := range inLoop {
					for _, in := range x.Instrs {
						switch classify(in) {
						case "write":
							writes++
							if firstWrite == token.NoPos || in.Pos() < firstWrite {
								firstWrite = in.Pos()
							}
						case "key":
							keys++
						}
					}
				}
				if writes == 0 || keys > 0 {
					continue
				}
				hasWrite := func(x *ssa.BasicBlock) bool {
					for _, in := range x.Instrs {
						if classify(in) == "write" {
							return true
						}
					}
					return false
				}
				skipped := false
				seen := map[*ssa.BasicBlock]bool{}
				var walk func(x *ssa.BasicBlock)
				walk = func(x *ssa.BasicBlock) {
					if skipped || hasWrite(x) {
						return
					}
					for _, s := range x.Succs {
						if !inLoop[s] {
							continue
						}
						if s == h {
							skipped = true
							return
						}
						if !seen[s] {
							seen[s] = true
							walk(s)
						}
					}
				}
				if hasWrite(h) {
					r.Ob(true, "")
					continue
				}
				walk(h)
				key := fmt.Sprintf("element-per-iteration:%s/%s", fx.Name, fnKey(fn))
				if !skipped {
					r.Ob(true, "")
				} else {
					r.Fail(key, c.Pos(firstWrite), fmt.Sprintf("%s: the loop that writes the elements has a path round it that writes nothing: an element the type admits (e.g. an empty jx.Raw) is left out and the later ones change position — the array read back is not the array written", fn.Name()))
				}
			}
		}
	}
}
