package rules

import (
	"fmt"
	"go/ast"
	"go/types"
	"sort"

	"golang.org/x/tools/go/cfg"
	"golang.org/x/tools/go/packages"

	"ogenverif/internal/core"
)

// R01.2 (optional-absent): a parameter the server treats as optional — its
// HasParam test has no else branch, so absence is accepted and anything present
// is decoded — must be omittable by the client: the closure handed to
// EncodeParam needs a path that returns without calling the uri.Encoder, which
// is the encoders' "not set, write nothing" path. A closure that always calls
// the encoder sends an empty value for an unset parameter, and the server then
// fails to decode it.

type paramSite struct {
	cfg      paramCfg
	optional bool         // server: HasParam-if without else
	closure  *ast.FuncLit // client: EncodeParam's function literal
}

// serverOptional maps kind|name → whether the decoder accepts absence.
func serverOptional(dec *ast.FuncDecl) map[string]bool {
	out := map[string]bool{}
	ast.Inspect(dec.Body, func(n ast.Node) bool {
		fl, ok := n.(*ast.FuncLit)
		if !ok {
			return true
		}
		cfgs := collectParamCfgsIn(fl.Body)
		if len(cfgs) != 1 {
			return true // an outer literal; descend
		}
		var has *ast.IfStmt
		ast.Inspect(fl.Body, func(m ast.Node) bool {
			is, ok := m.(*ast.IfStmt)
			if !ok || is.Init == nil {
				return true
			}
			as, ok := is.Init.(*ast.AssignStmt)
			if !ok || len(as.Rhs) != 1 {
				return true
			}
			call, ok := as.Rhs[0].(*ast.CallExpr)
			if !ok {
				return true
			}
			if sel, ok := call.Fun.(*ast.SelectorExpr); ok && sel.Sel.Name == "HasParam" && has == nil {
				has = is
			}
			return true
		})
		if has != nil {
			out[cfgs[0].kind+"|"+cfgs[0].name] = has.Else == nil
		}
		return false
	})
	return out
}

func collectParamCfgsIn(body *ast.BlockStmt) []paramCfg {
	return collectParamCfgs(&ast.FuncDecl{Body: body})
}

// clientClosures maps kind|name → the function literal passed to EncodeParam in the block that declares the cfg.
func clientClosures(send *ast.FuncDecl) map[string]*ast.FuncLit {
	out := map[string]*ast.FuncLit{}
	ast.Inspect(send.Body, func(n ast.Node) bool {
		bs, ok := n.(*ast.BlockStmt)
		if !ok {
			return true
		}
		var own []paramCfg
		for _, st := range bs.List {
			as, ok := st.(*ast.AssignStmt)
			if !ok || len(as.Rhs) != 1 {
				continue
			}
			if cl, ok := as.Rhs[0].(*ast.CompositeLit); ok {
				own = append(own, collectParamCfgs(&ast.FuncDecl{Body: &ast.BlockStmt{List: []ast.Stmt{&ast.ExprStmt{X: cl}}}})...)
			}
		}
		if len(own) != 1 {
			return true
		}
		ast.Inspect(bs, func(m ast.Node) bool {
			call, ok := m.(*ast.CallExpr)
			if !ok {
				return true
			}
			sel, ok := call.Fun.(*ast.SelectorExpr)
			if !ok || sel.Sel.Name != "EncodeParam" || len(call.Args) != 2 {
				return true
			}
			if fl, ok := call.Args[1].(*ast.FuncLit); ok {
				out[own[0].kind+"|"+own[0].name] = fl
			}
			return false
		})
		return true
	})
	return out
}

// canReturnWithoutEncoder: the closure's flow graph has a path entry → return that calls no method on its uri.Encoder parameter.
func canReturnWithoutEncoder(info *types.Info, fl *ast.FuncLit) (ok bool, decided bool) {
	if fl.Type.Params == nil || len(fl.Type.Params.List) != 1 || len(fl.Type.Params.List[0].Names) != 1 {
		return false, false
	}
	encObj := info.Defs[fl.Type.Params.List[0].Names[0]]
	if encObj == nil {
		return false, false
	}
	g := cfg.New(fl.Body, func(*ast.CallExpr) bool { return true })
	usesEnc := func(b *cfg.Block) bool {
		for _, n := range b.Nodes {
			found := false
			ast.Inspect(n, func(m ast.Node) bool {
				if _, isLit := m.(*ast.FuncLit); isLit {
					return false // a nested literal runs only if it is handed to the encoder
				}
				call, ok := m.(*ast.CallExpr)
				if !ok {
					return true
				}
				if sel, ok := call.Fun.(*ast.SelectorExpr); ok {
					if id, ok := sel.X.(*ast.Ident); ok && info.Uses[id] == encObj {
						found = true
					}
				}
				// the encoder handed to another function counts as a use too
				for _, a := range call.Args {
					if id, ok := a.(*ast.Ident); ok && info.Uses[id] == encObj {
						found = true
					}
				}
				return true
			})
			if found {
				return true
			}
		}
		return false
	}
	if len(g.Blocks) == 0 {
		return false, false
	}
	seen := map[*cfg.Block]bool{}
	var stack []*cfg.Block
	if !usesEnc(g.Blocks[0]) {
		stack = append(stack, g.Blocks[0])
		seen[g.Blocks[0]] = true
	}
	for len(stack) > 0 {
		b := stack[len(stack)-1]
		stack = stack[:len(stack)-1]
		if len(b.Succs) == 0 && b.Live {
			// an exit: a return statement (or the end of the body)
			return true, true
		}
		for _, s := range b.Succs {
			if !seen[s] && !usesEnc(s) {
				seen[s] = true
				stack = append(stack, s)
			}
		}
	}
	return false, true
}

func checkOptionalAbsent(c *core.Ctx, r *core.Rule, fx *core.Fixture, p *packages.Package, gi *genIndex) {
	for _, op := range gi.opsWithPrefix("decode", "Params") {
		dec := gi.funcs["decode"+op+"Params"]
		send := gi.funcs["send"+op]
		if send == nil || send.Recv == nil {
			continue
		}
		opt := serverOptional(dec)
		cls := clientClosures(send)
		var keys []string
		for k := range opt {
			keys = append(keys, k)
		}
		sort.Strings(keys)
		for _, k := range keys {
			if !opt[k] {
				continue
			}
			key := fmt.Sprintf("%s/%s:%s", fx.Name, op, k)
			fl := cls[k]
			if fl == nil {
				continue // R01.2 param-cfg reports a parameter the client never encodes
			}
			ok, decided := canReturnWithoutEncoder(p.TypesInfo, fl)
			switch {
			case !decided:
				r.Undecided("optional-absent:"+key, c.Pos(fl.Pos()), "the EncodeParam closure does not have the expected shape (one uri.Encoder parameter)")
			case ok:
				r.Ob(true, "")
			default:
				r.Fail("optional-absent:"+key, c.Pos(fl.Pos()), fmt.Sprintf("decode%sParams accepts %s as absent, but every path of the client's EncodeParam closure calls the encoder: an unset value is sent as an empty one and the server fails to decode it", op, k))
			}
		}
	}
}
