package rules

import (
	"fmt"
	"go/ast"
	"go/token"
	"go/types"
	"regexp"
	"sort"
	"strconv"
	"strings"
	"text/template/parse"

	"golang.org/x/tools/go/packages"
	"golang.org/x/tools/go/ssa"

	"ogenverif/internal/core"
	"ogenverif/internal/tmpl"
)

func init() {
	register(&Property{
		ID: "C01",
		Meta: core.Meta{
			Level: "other",
			Explanation: "Structural agreement of the two generated sides, on every go:generate expansion (and the verification's own fixture specs) produced by the generator built from the current tree; the value-level round trip is NOT decided. " +
				"(R01.1) per operation the path the client assembles (constant pathParts with {param} for each encoded part) equals the route pattern the server's router reports, and each path parameter's decoder reads args[i] with i = the position of that parameter in the pattern; " +
				"(R01.2) per operation and parameter the constant codec configuration is the same on both sides (location codec, name, style, explode), and the sets of parameters agree; " +
				"(R01.3) response variants: every (status, content type) → type the server encoder writes is what the client decoder maps back to that type; a value of a type with a StatusCode field is returned by the decoder only after StatusCode was taken from the response; " +
				"(R01.4) defaults: setDefaults() dominates member decoding in every generated decoder of a type that has it, and the generator's selection of defaulted members depends on Default.Set only, never on the default's value; " +
				"(R01.5) middleware: the keys of the middleware.Parameters literal in the handler equal the keys unpack<Op>Params looks up, each bound to the same params field. " +
				"Refusal of ambiguous values and delimiter handling are decided under C06, text forms under C13. NOT covered: equality of delivered values, escaping inside net/url and net/http, request bodies (C04), specs outside the expansions.",
			Assumptions: []string{"generated code has the shape the templates give it today (function names send<Op>, decode<Op>Params, unpack<Op>Params, encode/decode<Op>Response); a missing anchor is reported as undecided, not passed"},
			TrustedBase: []string{"go/parser, go/types, go/ssa over the expansions"},
		},
		Run: runC01,
	})
}

func runC01(c *core.Ctx) error {
	prog, err := c.Program("./gen/ir")
	if err != nil {
		return err
	}
	checkDefaultSelection(c, prog)
	checkTimeFormatPrecedence(c)
	if err := checkHeaderCanonical(c); err != nil {
		return err
	}
	exp, err := c.Expand(nil)
	r1 := c.NewRule("R01.1", "S2", "client path = server route pattern; path parameter decoders read the argument at the parameter's position", 100)
	r2 := c.NewRule("R01.2", "S2", "parameter codec configuration agrees between client encoder and server decoder", 300)
	r3 := c.NewRule("R01.3", "S2", "response variants: encoder (status, content type) ↔ decoder type; StatusCode carried", 200)
	r4 := c.NewRule("R01.4", "S2", "setDefaults() dominates member decoding", 10)
	r5 := c.NewRule("R01.5", "S2", "middleware parameter map keys = keys unpacked for the handler", 100)
	r6 := c.NewRule("R01.6", "S2", "transport details: stream encoders are closed, response headers are set before WriteHeader, object-field configs only on object decoders", 100)
	if err != nil {
		for _, r := range []*core.Rule{r1, r2, r3, r4, r5, r6} {
			r.Undecided("expand", "-", trimPosMsg(err.Error(), 500))
		}
		return nil
	}
	for _, fx := range exp.Fixtures {
		p := exp.Prog.PkgBy[fx.PkgPath]
		if p == nil {
			continue
		}
		gi := indexGenerated(p)
		checkPaths(c, r1, fx, p, gi)
		checkParamConfigs(c, r2, fx, p, gi)
		checkOptionalAbsent(c, r2, fx, p, gi)
		checkResponseVariants(c, r3, exp, fx, p, gi)
		checkSetDefaultsFirst(c, r4, exp, fx)
		checkMiddlewareKeys(c, r5, fx, p, gi)
		checkTransport(c, r6, exp, fx, p)
	}
	return nil
}

// ---------------------------------------------------------------- index of generated functions

type genIndex struct {
	funcs map[string]*ast.FuncDecl // name (methods: just the method name) → decl
}

func indexGenerated(p *packages.Package) *genIndex {
	gi := &genIndex{funcs: map[string]*ast.FuncDecl{}}
	for _, f := range p.Syntax {
		for _, d := range f.Decls {
			if fd, ok := d.(*ast.FuncDecl); ok && fd.Body != nil {
				gi.funcs[fd.Name.Name] = fd
			}
		}
	}
	return gi
}

func (gi *genIndex) opsWithPrefix(prefix, suffix string) []string {
	var out []string
	for n := range gi.funcs {
		if strings.HasPrefix(n, prefix) && strings.HasSuffix(n, suffix) && len(n) > len(prefix)+len(suffix) {
			out = append(out, n[len(prefix):len(n)-len(suffix)])
		}
	}
	sort.Strings(out)
	return out
}

func strLit(e ast.Expr) (string, bool) {
	bl, ok := e.(*ast.BasicLit)
	if !ok || bl.Kind != token.STRING {
		return "", false
	}
	s, err := strconv.Unquote(bl.Value)
	return s, err == nil
}

// ---------------------------------------------------------------- R01.1

var braceParam = regexp.MustCompile(`\{([^}]*)\}`)

// routePatterns: operation constant name → pathPattern, from the router's leaf assignments.
func routePatterns(gi *genIndex) map[string]string {
	out := map[string]string{}
	for _, name := range []string{"FindPath", "FindWebhookRoute", "FindRoute"} {
		fd := gi.funcs[name]
		if fd == nil {
			continue
		}
		ast.Inspect(fd.Body, func(n ast.Node) bool {
			bs, ok := n.(*ast.BlockStmt)
			var list []ast.Stmt
			if ok {
				list = bs.List
			} else if cc, ok := n.(*ast.CaseClause); ok {
				list = cc.Body
			} else {
				return true
			}
			op, pat := "", ""
			havePat := false
			for _, st := range list {
				as, ok := st.(*ast.AssignStmt)
				if !ok || len(as.Lhs) != 1 || len(as.Rhs) != 1 {
					continue
				}
				switch types.ExprString(as.Lhs[0]) {
				case "r.name":
					op = strings.TrimSuffix(types.ExprString(as.Rhs[0]), "Operation")
				case "r.pathPattern":
					if s, ok := strLit(as.Rhs[0]); ok {
						pat, havePat = s, true
					}
				}
			}
			if op != "" && havePat {
				out[op] = pat
			}
			return true
		})
	}
	return out
}

func checkPaths(c *core.Ctx, r *core.Rule, fx *core.Fixture, p *packages.Package, gi *genIndex) {
	patterns := routePatterns(gi)
	ops := gi.opsWithPrefix("decode", "Params")
	// server side: args index per path parameter
	for _, op := range ops {
		fd := gi.funcs["decode"+op+"Params"]
		pat, ok := patterns[op]
		if !ok {
			continue // webhook or no router
		}
		var order []string
		for _, m := range braceParam.FindAllStringSubmatch(pat, -1) {
			order = append(order, m[1])
		}
		// each immediately-invoked closure that builds a uri.PathDecoderConfig{Param: "x"} and reads args[i]
		ast.Inspect(fd.Body, func(n ast.Node) bool {
			fl, ok := n.(*ast.FuncLit)
			if !ok {
				return true
			}
			param := ""
			idx := map[int]bool{}
			ast.Inspect(fl.Body, func(m ast.Node) bool {
				switch x := m.(type) {
				case *ast.CompositeLit:
					if strings.HasSuffix(types.ExprString(x.Type), "PathDecoderConfig") {
						for _, e := range x.Elts {
							if kv, ok := e.(*ast.KeyValueExpr); ok && types.ExprString(kv.Key) == "Param" {
								param, _ = strLit(kv.Value)
							}
						}
					}
				case *ast.IndexExpr:
					if id, ok := x.X.(*ast.Ident); ok && id.Name == "args" {
						if bl, ok := x.Index.(*ast.BasicLit); ok {
							i, _ := strconv.Atoi(bl.Value)
							idx[i] = true
						}
					}
				}
				return true
			})
			if param == "" {
				return true
			}
			key := fmt.Sprintf("%s/%s:%s", fx.Name, op, param)
			want := -1
			for i, n := range order {
				if n == param {
					want = i
				}
			}
			switch {
			case want < 0:
				r.Fail("path-arg:"+key, c.Pos(fl.Pos()), fmt.Sprintf("decode%sParams decodes path parameter %q, which does not occur in the route pattern %q", op, param, pat))
			case len(idx) != 1 || !idx[want]:
				var got []int
				for i := range idx {
					got = append(got, i)
				}
				sort.Ints(got)
				r.Fail("path-arg:"+key, c.Pos(fl.Pos()), fmt.Sprintf("decode%sParams reads path parameter %q from args%v, but it is parameter #%d of the route pattern %q: the handler receives another segment's value", op, param, got, want, pat))
			default:
				r.Ob(true, "")
			}
			return false
		})
	}
	// client side: the assembled path
	for _, op := range gi.opsWithPrefix("send", "") {
		fd := gi.funcs["send"+op]
		if fd.Recv == nil {
			continue
		}
		pat, ok := patterns[op]
		if !ok {
			continue
		}
		parts := map[int]string{}
		n := -1
		ast.Inspect(fd.Body, func(m ast.Node) bool {
			// var pathParts [N]string
			if vs, ok := m.(*ast.ValueSpec); ok && len(vs.Names) == 1 && vs.Names[0].Name == "pathParts" {
				if at, ok := vs.Type.(*ast.ArrayType); ok {
					if bl, ok := at.Len.(*ast.BasicLit); ok {
						n, _ = strconv.Atoi(bl.Value)
					}
				}
			}
			return true
		})
		if n < 0 {
			continue
		}
		// walk statements in order: pathParts[i] = "const" | encoded (preceded by a PathEncoderConfig{Param})
		lastParam := ""
		ast.Inspect(fd.Body, func(m ast.Node) bool {
			switch x := m.(type) {
			case *ast.CompositeLit:
				if strings.HasSuffix(types.ExprString(x.Type), "PathEncoderConfig") {
					for _, e := range x.Elts {
						if kv, ok := e.(*ast.KeyValueExpr); ok && types.ExprString(kv.Key) == "Param" {
							lastParam, _ = strLit(kv.Value)
						}
					}
				}
			case *ast.AssignStmt:
				if len(x.Lhs) == 1 && len(x.Rhs) == 1 {
					if ix, ok := x.Lhs[0].(*ast.IndexExpr); ok {
						if id, ok := ix.X.(*ast.Ident); ok && id.Name == "pathParts" {
							if bl, ok := ix.Index.(*ast.BasicLit); ok {
								i, _ := strconv.Atoi(bl.Value)
								if s, ok := strLit(x.Rhs[0]); ok {
									parts[i] = s
								} else {
									parts[i] = "{" + lastParam + "}"
								}
							}
						}
					}
				}
			}
			return true
		})
		var b strings.Builder
		for i := 0; i < n; i++ {
			b.WriteString(parts[i])
		}
		key := fx.Name + "/" + op
		if b.String() == pat {
			r.Pass(fmt.Sprintf("%s: client assembles %q = route pattern", key, pat))
		} else {
			r.Fail("client-path:"+key, c.Pos(fd.Pos()), fmt.Sprintf("send%s assembles the path %q but the server routes %q to this operation", op, b.String(), pat))
		}
	}
}

// ---------------------------------------------------------------- R01.2

type paramCfg struct {
	kind, name, style, explode string
}

func (p paramCfg) String() string {
	return fmt.Sprintf("%s %q style=%s explode=%s", p.kind, p.name, p.style, p.explode)
}

var cfgType = regexp.MustCompile(`^uri\.(Path|Query|Header|Cookie)(Parameter)?(Encoder|Decoder|Encoding|Decoding)Config$`)

func collectParamCfgs(fd *ast.FuncDecl) []paramCfg {
	var out []paramCfg
	ast.Inspect(fd.Body, func(n ast.Node) bool {
		cl, ok := n.(*ast.CompositeLit)
		if !ok || cl.Type == nil {
			return true
		}
		m := cfgType.FindStringSubmatch(types.ExprString(cl.Type))
		if m == nil {
			return true
		}
		pc := paramCfg{kind: strings.ToLower(m[1])}
		for _, e := range cl.Elts {
			kv, ok := e.(*ast.KeyValueExpr)
			if !ok {
				continue
			}
			switch types.ExprString(kv.Key) {
			case "Param", "Name":
				pc.name, _ = strLit(kv.Value)
			case "Style":
				pc.style = types.ExprString(kv.Value)
			case "Explode":
				pc.explode = types.ExprString(kv.Value)
			}
		}
		out = append(out, pc)
		return true
	})
	return out
}

func checkParamConfigs(c *core.Ctx, r *core.Rule, fx *core.Fixture, p *packages.Package, gi *genIndex) {
	for _, op := range gi.opsWithPrefix("decode", "Params") {
		dec := gi.funcs["decode"+op+"Params"]
		send := gi.funcs["send"+op]
		if send == nil || send.Recv == nil {
			continue // client not generated for this operation
		}
		d := collectParamCfgs(dec)
		e := collectParamCfgs(send)
		dm := map[string]paramCfg{}
		for _, x := range d {
			dm[x.kind+"|"+x.name] = x
		}
		em := map[string]paramCfg{}
		for _, x := range e {
			em[x.kind+"|"+x.name] = x
		}
		var keys []string
		for k := range dm {
			keys = append(keys, k)
		}
		for k := range em {
			if _, ok := dm[k]; !ok {
				keys = append(keys, k)
			}
		}
		sort.Strings(keys)
		for _, k := range keys {
			key := fmt.Sprintf("%s/%s:%s", fx.Name, op, k)
			dv, dok := dm[k]
			ev, eok := em[k]
			switch {
			case !dok:
				r.Fail("param-cfg:"+key, c.Pos(send.Pos()), fmt.Sprintf("send%s encodes %s but decode%sParams has no decoder for it: the value is dropped on the server", op, ev, op))
			case !eok:
				r.Fail("param-cfg:"+key, c.Pos(dec.Pos()), fmt.Sprintf("decode%sParams expects %s but send%s never encodes it", op, dv, op))
			case dv.style != ev.style || dv.explode != ev.explode:
				r.Fail("param-cfg:"+key, c.Pos(dec.Pos()), fmt.Sprintf("%s: the client encodes %s, the server decodes %s: the same text is split differently on the two sides", op, ev, dv))
			default:
				r.Ob(true, "")
			}
		}
	}
}

// ---------------------------------------------------------------- R01.3

type respEntry struct {
	status string // "200", "dynamic"
	ct     string
}

func checkResponseVariants(c *core.Ctx, r *core.Rule, exp *core.Expansion, fx *core.Fixture, p *packages.Package, gi *genIndex) {
	for _, op := range gi.opsWithPrefix("encode", "Response") {
		enc := gi.funcs["encode"+op+"Response"]
		dec := gi.funcs["decode"+op+"Response"]
		if dec == nil || enc.Recv != nil {
			continue
		}
		// encoder: type → (status, ct)
		encMap := map[string]respEntry{}
		scan := func(typ string, body []ast.Stmt) {
			ent := respEntry{}
			for _, st := range body {
				ast.Inspect(st, func(n ast.Node) bool {
					ce, ok := n.(*ast.CallExpr)
					if !ok {
						return true
					}
					switch types.ExprString(ce.Fun) {
					case "w.WriteHeader":
						if len(ce.Args) == 1 {
							if bl, ok := ce.Args[0].(*ast.BasicLit); ok {
								ent.status = bl.Value
							} else {
								ent.status = "dynamic"
							}
						}
					case "w.Header().Set":
						if len(ce.Args) == 2 {
							if k, ok := strLit(ce.Args[0]); ok && k == "Content-Type" {
								if v, ok := strLit(ce.Args[1]); ok {
									ent.ct = strings.TrimSuffix(v, "; charset=utf-8")
								} else {
									ent.ct = "dynamic"
								}
							}
						}
					}
					return true
				})
			}
			encMap[typ] = ent
		}
		var ts *ast.TypeSwitchStmt
		ast.Inspect(enc.Body, func(n ast.Node) bool {
			if x, ok := n.(*ast.TypeSwitchStmt); ok && ts == nil {
				ts = x
				return false
			}
			return true
		})
		if ts != nil {
			for _, cs := range ts.Body.List {
				cc := cs.(*ast.CaseClause)
				if len(cc.List) == 1 {
					scan(strings.TrimPrefix(types.ExprString(cc.List[0]), "*"), cc.Body)
				}
			}
		} else if len(enc.Type.Params.List) > 0 {
			scan(strings.TrimPrefix(types.ExprString(enc.Type.Params.List[0].Type), "*"), enc.Body.List)
		}
		// decoder: (status, ct) → returned types
		decMap := map[respEntry]map[string]bool{}
		add := func(e respEntry, typ string) {
			if decMap[e] == nil {
				decMap[e] = map[string]bool{}
			}
			decMap[e][typ] = true
		}
		var walk func(list []ast.Stmt, status, ct string, locals map[string]string)
		walk = func(list []ast.Stmt, status, ct string, locals map[string]string) {
			for _, st := range list {
				switch x := st.(type) {
				case *ast.DeclStmt:
					if gd, ok := x.Decl.(*ast.GenDecl); ok {
						for _, sp := range gd.Specs {
							if vs, ok := sp.(*ast.ValueSpec); ok && vs.Type != nil {
								for _, id := range vs.Names {
									locals[id.Name] = types.ExprString(vs.Type)
								}
							}
						}
					}
				case *ast.SwitchStmt:
					tag := ""
					if x.Tag != nil {
						tag = types.ExprString(x.Tag)
					}
					for _, cs := range x.Body.List {
						cc := cs.(*ast.CaseClause)
						s2, ct2 := status, ct
						switch {
						case tag == "resp.StatusCode" && len(cc.List) == 1:
							s2 = types.ExprString(cc.List[0])
						case tag == "resp.StatusCode / 100" && len(cc.List) == 1:
							s2 = "dynamic"
						case tag == "" && len(cc.List) == 1:
							if be, ok := cc.List[0].(*ast.BinaryExpr); ok && types.ExprString(be.X) == "ct" {
								ct2, _ = strLit(be.Y)
							} else if ce, ok := cc.List[0].(*ast.CallExpr); ok && strings.Contains(types.ExprString(ce.Fun), "MatchContentType") && len(ce.Args) == 2 {
								ct2, _ = strLit(ce.Args[0])
							}
						}
						cp := map[string]string{}
						for k, v := range locals {
							cp[k] = v
						}
						walk(cc.Body, s2, ct2, cp)
					}
				case *ast.ReturnStmt:
					if len(x.Results) != 2 || types.ExprString(x.Results[1]) != "nil" {
						continue
					}
					typ := ""
					switch e := x.Results[0].(type) {
					case *ast.UnaryExpr:
						switch y := e.X.(type) {
						case *ast.Ident:
							typ = locals[y.Name]
						case *ast.CompositeLit:
							typ = types.ExprString(y.Type)
						}
					case *ast.Ident:
						typ = locals[e.Name]
					case *ast.CompositeLit:
						typ = types.ExprString(e.Type)
					}
					if typ != "" {
						st := status
						if st == "" {
							st = "dynamic"
						}
						add(respEntry{st, ct}, typ)
					}
				case *ast.IfStmt:
					walk(x.Body.List, status, ct, locals)
				case *ast.BlockStmt:
					walk(x.List, status, ct, locals)
				case *ast.AssignStmt:
					// response := T{…} / response := &T{…}
					if x.Tok == token.DEFINE && len(x.Lhs) == 1 && len(x.Rhs) == 1 {
						if id, ok := x.Lhs[0].(*ast.Ident); ok {
							switch e := x.Rhs[0].(type) {
							case *ast.CompositeLit:
								locals[id.Name] = types.ExprString(e.Type)
							case *ast.UnaryExpr:
								if cl, ok := e.X.(*ast.CompositeLit); ok {
									locals[id.Name] = types.ExprString(cl.Type)
								}
							}
						}
					}
					// res, err := func() (…) { … }()   — the default / pattern branch lives in an immediately invoked closure
					for _, rhs := range x.Rhs {
						if ce, ok := rhs.(*ast.CallExpr); ok {
							if fl, ok := ce.Fun.(*ast.FuncLit); ok && fl.Type.Results != nil && len(fl.Type.Results.List) == 2 {
								cp := map[string]string{}
								for k, v := range locals {
									cp[k] = v
								}
								walk(fl.Body.List, status, ct, cp)
							}
						}
					}
				}
			}
		}
		walk(dec.Body.List, "", "", map[string]string{})
		var tns []string
		for t := range encMap {
			tns = append(tns, t)
		}
		sort.Strings(tns)
		for _, t := range tns {
			e := encMap[t]
			key := fmt.Sprintf("%s/%s:%s", fx.Name, op, t)
			if e.status == "" {
				continue // encoder shape not recognised (streams, error types): not judged
			}
			if e.ct == "dynamic" || e.ct == "" {
				// no content / content type taken from the value: match on status only
				found := false
				for de, tys := range decMap {
					if de.status == e.status && tys[t] {
						found = true
					}
				}
				if found {
					r.Ob(true, "")
				} else {
					r.Fail("resp-variant:"+key, c.Pos(dec.Pos()), fmt.Sprintf("encode%sResponse writes %s with status %s, but decode%sResponse never returns that type for that status: the caller receives another variant", op, t, e.status, op))
				}
				continue
			}
			if decMap[e][t] {
				r.Ob(true, "")
				continue
			}
			// masks: the decoder may match the content type by pattern
			found := false
			for de, tys := range decMap {
				if de.status == e.status && tys[t] {
					found = true
				}
			}
			if found {
				r.Ob(true, "")
			} else {
				r.Fail("resp-variant:"+key, c.Pos(dec.Pos()), fmt.Sprintf("encode%sResponse writes %s as status %s, %q, but decode%sResponse does not map that back to %s", op, t, e.status, e.ct, op, t))
			}
		}
	}
	// StatusCode carried: SSA
	pkg := exp.Prog.ByPath[fx.PkgPath]
	if pkg == nil {
		return
	}
	for _, fn := range core.PkgFuncs(exp.Prog.SSA, pkg) {
		if fn.Parent() != nil || !strings.HasPrefix(fn.Name(), "decode") || !strings.HasSuffix(fn.Name(), "Response") || fn.Signature.Recv() != nil {
			continue
		}
		top := fn
		for _, fn := range core.AllFuncs(top) {
			for _, b := range fn.Blocks {
				ret, ok := b.Instrs[len(b.Instrs)-1].(*ssa.Return)
				if !ok || len(ret.Results) != 2 || !core.IsNilConst(ret.Results[1]) {
					continue
				}
				v := ret.Results[0]
				if mi, ok := v.(*ssa.MakeInterface); ok {
					v = mi.X
				}
				al, ok := v.(*ssa.Alloc)
				if !ok {
					continue
				}
				st, ok := al.Type().(*types.Pointer).Elem().Underlying().(*types.Struct)
				if !ok {
					continue
				}
				fidx := -1
				for i := 0; i < st.NumFields(); i++ {
					// the wrapper's field has no struct tag; a schema property that happens to be called status_code has one
					if st.Field(i).Name() == "StatusCode" && st.Tag(i) == "" {
						fidx = i
					}
				}
				if fidx < 0 {
					continue
				}
				stored := false
				for _, ref := range *al.Referrers() {
					fa, ok := ref.(*ssa.FieldAddr)
					if !ok || fa.Field != fidx {
						continue
					}
					for _, r2 := range *fa.Referrers() {
						if s, ok := r2.(*ssa.Store); ok && (s.Block() == b || s.Block().Dominates(b)) {
							// from resp.StatusCode
							if ld, ok := s.Val.(*ssa.UnOp); ok {
								if sfa, ok := ld.X.(*ssa.FieldAddr); ok {
									sst := sfa.X.Type().Underlying().(*types.Pointer).Elem().Underlying().(*types.Struct)
									if sst.Field(sfa.Field).Name() == "StatusCode" {
										stored = true
									}
								}
							}
						}
					}
				}
				key := fmt.Sprintf("%s/%s:%s", fx.Name, top.Name(), types.TypeString(al.Type().(*types.Pointer).Elem(), func(*types.Package) string { return "" }))
				if stored {
					r.Ob(true, "")
				} else {
					r.Fail("status-lost:"+key, c.Pos(ret.Pos()), fmt.Sprintf("%s returns a value with a StatusCode field without taking it from resp.StatusCode on that path: the caller sees status 0", top.Name()))
				}
			}
		}
	}
}

// ---------------------------------------------------------------- R01.4

func checkSetDefaultsFirst(c *core.Ctx, r *core.Rule, exp *core.Expansion, fx *core.Fixture) {
	pkg := exp.Prog.ByPath[fx.PkgPath]
	if pkg == nil {
		return
	}
	var names []string
	for n := range pkg.Members {
		names = append(names, n)
	}
	sort.Strings(names)
	for _, n := range names {
		tm, ok := pkg.Members[n].(*ssa.Type)
		if !ok {
			continue
		}
		pt := types.NewPointer(tm.Type())
		sd := lookupMethodSafe(exp.Prog, pt, pkg.Pkg, "setDefaults")
		if sd == nil {
			continue
		}
		for _, mname := range []string{"Decode", "DecodeURI"} {
			dec := lookupMethodSafe(exp.Prog, pt, pkg.Pkg, mname)
			if dec == nil || dec.Blocks == nil {
				continue
			}
			key := fmt.Sprintf("%s/%s.%s", fx.Name, n, mname)
			var sdBlock *ssa.BasicBlock
			sdIdx := -1
			for _, b := range dec.Blocks {
				for i, in := range b.Instrs {
					if call, ok := in.(*ssa.Call); ok && call.Common().StaticCallee() == sd {
						sdBlock, sdIdx = b, i
					}
				}
			}
			if sdBlock == nil {
				r.Fail("defaults-not-applied:"+key, c.Pos(dec.Pos()), fmt.Sprintf("%s.%s never calls setDefaults(): an absent member with a schema default arrives as the zero value", n, mname))
				continue
			}
			// every call that hands a closure to the decoder (ObjBytes, DecodeField …) comes after it
			bad := false
			for _, b := range dec.Blocks {
				for i, in := range b.Instrs {
					call, ok := in.(*ssa.Call)
					if !ok {
						continue
					}
					hasClosure := false
					for _, a := range call.Common().Args {
						if _, ok := a.(*ssa.MakeClosure); ok {
							hasClosure = true
						}
					}
					if !hasClosure {
						continue
					}
					after := (b == sdBlock && i > sdIdx) || (b != sdBlock && sdBlock.Dominates(b))
					if !after {
						bad = true
					}
				}
			}
			if bad {
				r.Fail("defaults-after-decode:"+key, c.Pos(dec.Pos()), fmt.Sprintf("%s.%s decodes members before (or without passing) setDefaults(): a decoded value is overwritten by the default, or the default is skipped", n, mname))
			} else {
				r.Pass(fmt.Sprintf("%s: setDefaults() dominates member decoding", key))
			}
		}
	}
}

// checkDefaultSelection (S1): which members get a default assignment is decided by Default.Set alone.
func checkDefaultSelection(c *core.Ctx, prog *core.Prog) {
	r := c.NewRule("R01.4a", "S1", "the generator selects defaulted members by Default.Set only, never by the default's value", 2)
	for _, name := range []string{"Type.DefaultFields", "Type.HasDefaultFields"} {
		fn := prog.Func(pkgIR, name)
		if fn == nil {
			r.Undecided("anchor:ir."+name, "-", "ir."+name+" not found")
			continue
		}
		// functions reachable through static calls inside gen/ir, closures included
		seen := map[*ssa.Function]bool{}
		var reach func(f *ssa.Function, d int)
		var valueReads []string
		reach = func(f *ssa.Function, d int) {
			if f == nil || seen[f] || f.Blocks == nil || d > 5 || core.FuncPkgPath(f) != pkgIR {
				return
			}
			seen[f] = true
			for _, g := range core.AllFuncs(f) {
				for _, b := range g.Blocks {
					for _, in := range b.Instrs {
						switch x := in.(type) {
						case *ssa.Field:
							if isDefaultValueField(x.X.Type(), x.Field) {
								valueReads = append(valueReads, c.Pos(x.Pos()))
							}
						case *ssa.FieldAddr:
							if isDefaultValueField(x.X.Type(), x.Field) {
								for _, ref := range *x.Referrers() {
									if ld, ok := ref.(*ssa.UnOp); ok && ld.Op == token.MUL {
										valueReads = append(valueReads, c.Pos(ld.Pos()))
									}
								}
							}
						case ssa.CallInstruction:
							reach(x.Common().StaticCallee(), d+1)
						}
					}
				}
			}
		}
		reach(fn, 0)
		if len(valueReads) == 0 {
			r.Pass(fmt.Sprintf("ir.%s: %d functions reachable, none reads Default.Value", name, len(seen)))
		} else {
			sort.Strings(valueReads)
			r.Fail("default-selection:"+name, valueReads[0], fmt.Sprintf("ir.%s looks at the default's value (%s): members whose default happens to equal some value (false, 0, \"\") get no default assignment, so an absent member is delivered as unset instead of as its default", name, strings.Join(uniqStrings(valueReads), ", ")))
		}
	}
}

func isDefaultValueField(t types.Type, idx int) bool {
	if p, ok := t.Underlying().(*types.Pointer); ok {
		t = p.Elem()
	}
	n, ok := types.Unalias(t).(*types.Named)
	if !ok || n.Obj().Name() != "Default" || n.Obj().Pkg() == nil || n.Obj().Pkg().Path() != pkgIR {
		return false
	}
	st, ok := n.Underlying().(*types.Struct)
	return ok && st.Field(idx).Name() == "Value"
}

// ---------------------------------------------------------------- R01.5

type mwKey struct{ name, in string }

func keyOfLit(cl *ast.CompositeLit) (mwKey, bool) {
	var k mwKey
	for _, e := range cl.Elts {
		kv, ok := e.(*ast.KeyValueExpr)
		if !ok {
			return k, false
		}
		v, ok := strLit(kv.Value)
		if !ok {
			return k, false
		}
		switch types.ExprString(kv.Key) {
		case "Name":
			k.name = v
		case "In":
			k.in = v
		}
	}
	return k, k.in != ""
}

func checkMiddlewareKeys(c *core.Ctx, r *core.Rule, fx *core.Fixture, p *packages.Package, gi *genIndex) {
	for _, op := range gi.opsWithPrefix("unpack", "Params") {
		unpack := gi.funcs["unpack"+op+"Params"]
		handler := gi.funcs["handle"+op+"Request"]
		if handler == nil {
			continue
		}
		// unpack: key literal → params.Field
		un := map[mwKey]string{}
		for _, st := range unpack.Body.List {
			blk, ok := st.(*ast.BlockStmt)
			if !ok {
				continue
			}
			var k mwKey
			have := false
			field := ""
			ast.Inspect(blk, func(n ast.Node) bool {
				switch x := n.(type) {
				case *ast.CompositeLit:
					if strings.HasSuffix(types.ExprString(x.Type), "ParameterKey") {
						k, have = keyOfLit(x)
					}
				case *ast.AssignStmt:
					if len(x.Lhs) == 1 {
						if s := types.ExprString(x.Lhs[0]); strings.HasPrefix(s, "params.") {
							field = strings.TrimPrefix(s, "params.")
						}
					}
				}
				return true
			})
			if have {
				un[k] = field
			}
		}
		// handler: middleware.Parameters{ {Name, In}: params.F }
		hd := map[mwKey]string{}
		found := false
		ast.Inspect(handler.Body, func(n ast.Node) bool {
			cl, ok := n.(*ast.CompositeLit)
			if !ok || !strings.HasSuffix(types.ExprString(cl.Type), "middleware.Parameters") {
				return true
			}
			found = true
			for _, e := range cl.Elts {
				kv, ok := e.(*ast.KeyValueExpr)
				if !ok {
					continue
				}
				if kl, ok := kv.Key.(*ast.CompositeLit); ok {
					if k, ok := keyOfLit(kl); ok {
						hd[k] = strings.TrimPrefix(types.ExprString(kv.Value), "params.")
					}
				}
			}
			return false
		})
		if !found {
			continue
		}
		key := fx.Name + "/" + op
		var problems []string
		for k, f := range hd {
			if uf, ok := un[k]; !ok {
				problems = append(problems, fmt.Sprintf("the handler packs %s %q but unpack%sParams never looks that key up", k.in, k.name, op))
			} else if uf != f {
				problems = append(problems, fmt.Sprintf("%s %q is packed from params.%s and unpacked into params.%s", k.in, k.name, f, uf))
			}
		}
		for k := range un {
			if _, ok := hd[k]; !ok {
				problems = append(problems, fmt.Sprintf("unpack%sParams looks up %s %q, which the handler never packs", op, k.in, k.name))
			}
		}
		sort.Strings(problems)
		if len(problems) == 0 {
			r.Pass(fmt.Sprintf("%s: %d parameter keys agree", key, len(hd)))
		} else {
			r.Fail("middleware-keys:"+key, c.Pos(handler.Pos()), fmt.Sprintf("with a middleware installed the handler of %s gets different parameters than the middleware saw: %s", op, strings.Join(problems, "; ")))
		}
	}
}

// ---------------------------------------------------------------- R01.6 (S2)

func checkTransport(c *core.Ctx, r *core.Rule, exp *core.Expansion, fx *core.Fixture, p *packages.Package) {
	pkg := exp.Prog.ByPath[fx.PkgPath]
	if pkg == nil {
		return
	}
	nEnc, nHdr := 0, 0
	for _, fn := range core.PkgFuncs(exp.Prog.SSA, pkg) {
		for _, b := range fn.Blocks {
			for _, in := range b.Instrs {
				call, ok := in.(*ssa.Call)
				if !ok {
					continue
				}
				cc := call.Common()
				callee := cc.StaticCallee()
				// (a) base64.NewEncoder: the returned WriteCloser buffers up to two bytes until Close
				if callee != nil && callee.Pkg != nil && callee.Pkg.Pkg.Path() == "encoding/base64" && callee.Name() == "NewEncoder" {
					nEnc++
					closed := false
					var visit func(v ssa.Value, d int)
					seen := map[ssa.Value]bool{}
					visit = func(v ssa.Value, d int) {
						if seen[v] || d > 5 {
							return
						}
						seen[v] = true
						for _, ref := range *v.Referrers() {
							switch x := ref.(type) {
							case ssa.CallInstruction:
								if x.Common().IsInvoke() && x.Common().Value == v && x.Common().Method.Name() == "Close" {
									closed = true
								}
							case *ssa.Store:
								// captured by the deferred closure: follow the cell
								if x.Val == v {
									if al, ok := x.Addr.(*ssa.Alloc); ok {
										for _, r2 := range *al.Referrers() {
											if ld, ok := r2.(*ssa.UnOp); ok && ld.Op == token.MUL {
												visit(ld, d+1)
											}
											if mc, ok := r2.(*ssa.MakeClosure); ok {
												if g, ok := mc.Fn.(*ssa.Function); ok {
													for bi, bnd := range mc.Bindings {
														if bnd == ssa.Value(al) && bi < len(g.FreeVars) {
															for _, r3 := range *g.FreeVars[bi].Referrers() {
																if ld, ok := r3.(*ssa.UnOp); ok && ld.Op == token.MUL {
																	visit(ld, d+1)
																}
															}
														}
													}
												}
											}
										}
									}
								}
							case *ssa.Phi:
								visit(x, d+1)
							case *ssa.MakeInterface:
								visit(x, d+1)
							case *ssa.ChangeInterface:
								visit(x, d+1)
							}
						}
					}
					visit(call, 0)
					key := fmt.Sprintf("%s/%s", fx.Name, fnKey(fn))
					if closed {
						r.Pass(fmt.Sprintf("%s: base64 stream encoder is closed", key))
					} else {
						r.Fail("encoder-not-closed:"+key, c.Pos(call.Pos()), fmt.Sprintf("%s creates a base64.NewEncoder and never calls Close on it: the last 1–2 bytes of any body whose length is not a multiple of 3 are not written, with no error on either side", fn.Name()))
					}
				}
				// (b) w.Header() after w.WriteHeader(code) is ignored by net/http
				if cc.IsInvoke() && cc.Method.Name() == "WriteHeader" && strings.HasSuffix(cc.Value.Type().String(), "http.ResponseWriter") {
					// only the response encoders (functions that take the response value and the writer)
					if !strings.HasPrefix(fn.Name(), "encode") || !strings.HasSuffix(fn.Name(), "Response") {
						continue
					}
					nHdr++
					bad := token.NoPos
					reach := map[*ssa.BasicBlock]bool{}
					var walk func(x *ssa.BasicBlock)
					walk = func(x *ssa.BasicBlock) {
						for _, sc := range x.Succs {
							if !reach[sc] {
								reach[sc] = true
								walk(sc)
							}
						}
					}
					walk(b)
					check := func(blk *ssa.BasicBlock, from int) {
						for i, in2 := range blk.Instrs {
							if i < from {
								continue
							}
							if c2, ok := in2.(*ssa.Call); ok && c2.Common().IsInvoke() && c2.Common().Method.Name() == "Header" && c2.Common().Value == cc.Value {
								bad = c2.Pos()
							}
						}
					}
					for i, in2 := range b.Instrs {
						if in2 == in {
							check(b, i+1)
						}
					}
					for blk := range reach {
						if blk != b {
							check(blk, 0)
						}
					}
					key := fmt.Sprintf("%s/%s", fx.Name, fnKey(fn))
					if bad != token.NoPos {
						r.Fail("header-after-writeheader:"+key, c.Pos(bad), fmt.Sprintf("%s touches w.Header() on a path after w.WriteHeader: net/http has already sent the header block, so the declared response headers of that variant never reach the client", fn.Name()))
					} else {
						r.Ob(true, "")
					}
				}
			}
		}
	}
	// (c) AST: a parameter config with object Fields belongs to an object decoder (DecodeURI / DecodeFields), never to a
	// scalar DecodeValue — HasParam looks for the listed member names instead of the parameter's own key
	nCfg := 0
	for _, f := range p.Syntax {
		for _, d := range f.Decls {
			fd, ok := d.(*ast.FuncDecl)
			if !ok || fd.Body == nil || !strings.HasPrefix(fd.Name.Name, "decode") {
				continue
			}
			ast.Inspect(fd.Body, func(n ast.Node) bool {
				fl, ok := n.(*ast.FuncLit)
				if !ok {
					return true
				}
				var cfgPos token.Pos
				hasFields := false
				name := ""
				for _, st := range fl.Body.List {
					as, ok := st.(*ast.AssignStmt)
					if !ok || len(as.Rhs) != 1 {
						continue
					}
					cl, ok := as.Rhs[0].(*ast.CompositeLit)
					if !ok || !strings.HasSuffix(types.ExprString(cl.Type), "DecodingConfig") {
						continue
					}
					cfgPos = cl.Pos()
					for _, e := range cl.Elts {
						if kv, ok := e.(*ast.KeyValueExpr); ok {
							switch types.ExprString(kv.Key) {
							case "Fields":
								if types.ExprString(kv.Value) != "nil" {
									hasFields = true
								}
							case "Name":
								name, _ = strLit(kv.Value)
							}
						}
					}
				}
				if cfgPos == token.NoPos {
					return true
				}
				nCfg++
				scalar := false
				ast.Inspect(fl.Body, func(m ast.Node) bool {
					if ce, ok := m.(*ast.CallExpr); ok {
						if sel, ok := ce.Fun.(*ast.SelectorExpr); ok && sel.Sel.Name == "DecodeValue" {
							scalar = true
						}
					}
					return true
				})
				if hasFields && scalar {
					r.Fail(fmt.Sprintf("fields-on-scalar:%s/%s:%s", fx.Name, fd.Name.Name, name), c.Pos(cfgPos), fmt.Sprintf("%s gives the decoder of %q a list of object members (Fields) although the value is read as one scalar (DecodeValue, e.g. JSON content): HasParam then looks for the member names instead of %q and the parameter is taken as absent", fd.Name.Name, name, name))
				} else {
					r.Ob(true, "")
				}
				return false
			})
		}
	}
	_ = nEnc
	_ = nHdr
	_ = nCfg
}

// ---------------------------------------------------------------- R01.7 (S1)

// checkTimeFormatPrecedence: a schema with x-ogen-time-format has both a TimeFormat and a Format; every template
// that dispatches on them must ask for TimeFormat first, on the encoding side, the decoding side and for defaults
// alike (sibling agreement), or one of them uses the standard layout for a value the other wrote with the custom one.
func checkTimeFormatPrecedence(c *core.Ctx) { checkCodecPrecedence(c, "R01.7") }

// checkCodecPrecedence: in a template dispatch over the JSON view of a type the more specific representation is
// asked for first: TimeFormat (custom layout) before Format (named codec) before Fn (the raw jx method of the Go
// primitive). Fn is set for every primitive, so a chain that asks for it first never reaches the codec the schema
// declared (a string-typed number is written as a bare number, a formatted time with the default layout).
func checkCodecPrecedence(c *core.Ctx, ruleID string) {
	r := c.NewRule(ruleID, "S1", "every template dispatch over the JSON view tests TimeFormat before Format before Fn", 3)
	ts, err := tmpl.Load(c.Repo)
	if err != nil {
		r.Undecided("load:templates", "-", err.Error())
		return
	}
	// the JSON view's TimeFormat / Format: `….JSON.F` or `$j.F` (templates bind $j := ….JSON); ir.Type has an unrelated
	// boolean field also called Format
	endsJSON := func(ids []string, field string) bool {
		n := len(ids)
		if n == 0 || ids[n-1] != field {
			return false
		}
		return (n >= 2 && ids[n-2] == "JSON") || (n == 2 && ids[0] == "$j")
	}
	mentions := func(p *parse.PipeNode, field string) bool {
		found := false
		tmpl.Walk(p, func(n parse.Node) bool {
			switch x := n.(type) {
			case *parse.FieldNode:
				if endsJSON(x.Ident, field) {
					found = true
				}
			case *parse.VariableNode:
				if endsJSON(x.Ident, field) {
					found = true
				}
			case *parse.ChainNode:
				if endsJSON(x.Field, field) {
					found = true
				}
			}
			return true
		})
		return found
	}
	var names []string
	for n := range ts.Trees {
		names = append(names, n)
	}
	sort.Strings(names)
	for _, name := range names {
		tr := ts.Trees[name]
		tmpl.Walk(tr.Root, func(n parse.Node) bool {
			top, ok := n.(*parse.IfNode)
			if !ok {
				return true
			}
			// flatten the else-if chain
			var conds []*parse.PipeNode
			for cur := top; cur != nil; {
				conds = append(conds, cur.Pipe)
				next := (*parse.IfNode)(nil)
				if cur.ElseList != nil && len(cur.ElseList.Nodes) == 1 {
					if in, ok := cur.ElseList.Nodes[0].(*parse.IfNode); ok {
						next = in
					}
				}
				cur = next
			}
			iT, iF, iFn := -1, -1, -1
			for i, p := range conds {
				if iT < 0 && mentions(p, "TimeFormat") {
					iT = i
				}
				if iF < 0 && mentions(p, "Format") && !mentions(p, "TimeFormat") {
					iF = i
				}
				if iFn < 0 && mentions(p, "Fn") {
					iFn = i
				}
			}
			if iFn >= 0 && (iF >= 0 || iT >= 0) {
				key := fmt.Sprintf("fn-order:%s", name)
				pos := fmt.Sprintf("gen/_template/%s:%d", ts.FileOf[name], ts.Line(name, top.Pos))
				if (iF < 0 || iF < iFn) && (iT < 0 || iT < iFn) {
					r.Pass(fmt.Sprintf("%s at %s: Fn tested after the format codecs", key, pos))
				} else {
					r.Fail(key, pos, fmt.Sprintf("template %q asks for the raw jx method (Fn) before Format / TimeFormat: every primitive has one, so a declared format (string-typed number, unix time, custom layout) is written in the primitive's default representation while the sibling decoder expects the declared one", name))
				}
			}
			if iT < 0 || iF < 0 {
				return iFn < 0
			}
			key := fmt.Sprintf("timeformat-order:%s", name)
			pos := fmt.Sprintf("gen/_template/%s:%d", ts.FileOf[name], ts.Line(name, top.Pos))
			if iT < iF {
				r.Pass(fmt.Sprintf("%s at %s: TimeFormat tested before Format", key, pos))
			} else {
				r.Fail(key, pos, fmt.Sprintf("template %q asks for Format before TimeFormat: a value with x-ogen-time-format is handled with the standard layout here while its siblings use the custom layout (a default fails to parse and the zero time is delivered, or encode and decode disagree)", name))
			}
			return false
		})
	}
}

// ---------------------------------------------------------------- R01.8 (S1)

// checkHeaderCanonical: net/http stores header names in canonical form. Indexing an http.Header map directly with a
// name taken from the document (X-Request-ID, ETag) misses the entry; Get/Values/Set canonicalise.
func checkHeaderCanonical(c *core.Ctx) error {
	r := c.NewRule("R01.8", "S1", "http.Header maps are accessed through canonicalising methods (or with a canonicalised key) in the runtime packages", 3)
	prog, err := c.Program("./uri", "./http", "./middleware", "./ogenerrors")
	if err != nil {
		return err
	}
	isHeader := func(t types.Type) bool {
		n, ok := types.Unalias(t).(*types.Named)
		return ok && n.Obj().Pkg() != nil && (n.Obj().Pkg().Path() == "net/http" || n.Obj().Pkg().Path() == "net/textproto") && (n.Obj().Name() == "Header" || n.Obj().Name() == "MIMEHeader")
	}
	canonical := func(v ssa.Value) bool {
		for i := 0; i < 4; i++ {
			switch x := v.(type) {
			case *ssa.Const:
				return true // a literal is the author's responsibility and visible in review
			case *ssa.Call:
				if callee := x.Common().StaticCallee(); callee != nil {
					switch callee.Name() {
					case "CanonicalHeaderKey", "CanonicalMIMEHeaderKey":
						return true
					}
				}
				return false
			case *ssa.Convert:
				v = x.X
			case *ssa.ChangeType:
				v = x.X
			case *ssa.Extract:
				// a key obtained by ranging over another header map is canonical already
				if nx, ok := x.Tuple.(*ssa.Next); ok && x.Index == 1 {
					if rg, ok := nx.Iter.(*ssa.Range); ok && isHeader(rg.X.Type()) {
						return true
					}
				}
				return false
			default:
				return false
			}
		}
		return false
	}
	uses, direct := 0, 0
	for _, sp := range prog.SSAPkgs {
		if sp == nil || !core.InModulePath(sp.Pkg.Path()) {
			continue
		}
		for _, fn := range core.PkgFuncs(prog.SSA, sp) {
			for _, b := range fn.Blocks {
				for _, in := range b.Instrs {
					switch x := in.(type) {
					case *ssa.Lookup:
						if !isHeader(x.X.Type()) {
							continue
						}
						direct++
						if canonical(x.Index) {
							r.Pass(fmt.Sprintf("%s: direct header lookup with a canonical key", core.FuncName(fn)))
						} else {
							r.Fail("header-direct-lookup:"+core.FuncName(fn), c.Pos(x.Pos()), fmt.Sprintf("%s indexes an http.Header map directly with a non-canonicalised name: a parameter declared as X-Request-ID or ETag is never found although it was sent, and an optional one is silently treated as absent", core.FuncName(fn)))
						}
					case *ssa.MapUpdate:
						if !isHeader(x.Map.Type()) {
							continue
						}
						direct++
						if canonical(x.Key) {
							r.Pass(fmt.Sprintf("%s: direct header store with a canonical key", core.FuncName(fn)))
						} else {
							r.Fail("header-direct-store:"+core.FuncName(fn), c.Pos(x.Pos()), fmt.Sprintf("%s stores into an http.Header map directly with a non-canonicalised name: Get/Values on the other side will not find it", core.FuncName(fn)))
						}
					case ssa.CallInstruction:
						if callee := x.Common().StaticCallee(); callee != nil && callee.Signature.Recv() != nil && isHeader(callee.Signature.Recv().Type()) {
							uses++
						}
					}
				}
			}
		}
	}
	r.Note("http.Header accesses in uri/http/middleware: %d through methods, %d direct", uses, direct)
	for i := 0; i < uses; i++ {
		r.Ob(true, "")
	}
	return nil
}
