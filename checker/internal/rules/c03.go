package rules

import (
	"encoding/json"
	"fmt"
	"go/ast"
	"go/constant"
	"go/token"
	"go/types"
	"os"
	"regexp"
	"sort"
	"strconv"
	"strings"
	"text/template/parse"

	"golang.org/x/tools/go/packages"
	"golang.org/x/tools/go/ssa"

	"ogenverif/internal/core"
	"ogenverif/internal/effects"
	"ogenverif/internal/peval"
	"ogenverif/internal/tmpl"
)

const pkgValidate = core.Module + "/validate"

func init() {
	register(&Property{
		ID: "C03",
		Meta: core.Meta{
			Level: "other",
			Explanation: "Structural necessary conditions of 'accepted ⇔ valid': the keyword → validator pipeline is complete and every comparison has the JSON-Schema boundary. " +
				"(R03.1) field-granular pipeline completeness for validate.{Int,Float,String,Array,Object}: every field is assigned on the way from jsonschema.Schema (ir.Validators.Set* and the setters they call, on SSA), is copied by the generated literal (validators.tmpl: key F ← $v.F, or a sole {{if $v.F}} guard), is read by the runtime method, and every activation field is read by Set(); " +
				"(R03.2) the accept/reject table of Int.Validate, Float.validate, Array.ValidateLength, Object.ValidateProperties, evaluated by partial evaluation of the source over representatives of every ordering class (v<Min, v=Min, Min<v<Max, …) × every flag combination, equals the table written from JSON Schema (inclusive bounds, exclusive flags, |v| mod multipleOf); String.Validate hands its four length fields to Array.ValidateLength field-for-field and measures []rune; " +
				"(R03.3, S2) in every generated request / parameter decoder a value whose type has a Validate method reaches the success return only past a call of it whose error returns; " +
				"(R03.4) the predicates that decide whether validation code is generated at all (NeedValidation and the Set() methods) write nothing, so no memo can go stale; needValidation covers every ir.Kind; " +
				"(R03.5) allOf merging reads the same fields from both operands. " +
				"NOT decided: schema × instance equivalence, oneOf/anyOf discrimination, pattern semantics (C08), uniqueItems element equality, multipleOf arithmetic on big.Rat, recursion.",
			Assumptions: []string{"the validators only compare (checked: no arithmetic on v outside the multipleOf arm)", "text/template prints $v.F as the Go literal of the field value"},
			TrustedBase: []string{"the reference tables in rules/c03.go (written from JSON Schema Validation draft 4 §5)", "AST partial evaluator (internal/peval)"},
		},
		Run: runC03,
	})
}

func runC03(c *core.Ctx) error {
	prog, err := c.Program("./validate", "./gen/ir", "./gen", "./jsonschema")
	if err != nil {
		return err
	}
	checkValidatorPipeline(c, prog)
	if err := checkBoundaryTables(c, prog); err != nil {
		return err
	}
	checkPredicatePurity(c, prog)
	checkMergeSymmetry(c, prog)
	checkUniqueFieldInference(c, prog)
	r9 := c.NewRule("R03.9", "S1", "member schemas are generated through schemaGen.generate, the only place that boxes a nullable / optional type (and counts the depth)", 2)
	checkWhoMayCall(c, r9, prog, pkgGen, "schemaGen.generate2", map[string]string{
		"ogen/gen.schemaGen.generate":           "the boxing wrapper itself",
		"ogen/gen.schemaGen.collectSumVariants": "a sum variant cannot be optional, and a nullable variant is represented by the Null member collectSumVariants adds to the sum",
	}, "generate2 returns the bare type: `nullable: true` of the member schema is lost (null is then rejected by the generated decoder although the schema admits it) and the recursion depth counter is bypassed")
	return checkValidateAfterDecode(c)
}

// ---------------------------------------------------------------- R03.1

var validatorTypes = []string{"Int", "Float", "String", "Array", "Object"}

// fieldsTouched collects the fields of validate.<V> stored (write=true) or loaded by fn and its static callees.
func fieldsTouched(fn *ssa.Function, vname string, write bool, seen map[*ssa.Function]bool, out map[string]bool) {
	if fn == nil || seen[fn] || fn.Blocks == nil {
		return
	}
	seen[fn] = true
	isV := func(t types.Type) (*types.Struct, bool) {
		if p, ok := t.Underlying().(*types.Pointer); ok {
			t = p.Elem()
		}
		n, ok := types.Unalias(t).(*types.Named)
		if !ok || n.Obj().Pkg() == nil || n.Obj().Pkg().Path() != pkgValidate || n.Obj().Name() != vname {
			return nil, false
		}
		st, ok := n.Underlying().(*types.Struct)
		return st, ok
	}
	for _, b := range fn.Blocks {
		for _, in := range b.Instrs {
			switch x := in.(type) {
			case *ssa.FieldAddr:
				st, ok := isV(x.X.Type())
				if !ok {
					continue
				}
				name := st.Field(x.Field).Name()
				for _, ref := range *x.Referrers() {
					switch r := ref.(type) {
					case *ssa.Store:
						if write && r.Addr == ssa.Value(x) {
							out[name] = true
						}
					case *ssa.UnOp:
						if !write && r.Op == token.MUL {
							out[name] = true
						}
					}
				}
			case *ssa.Field:
				if st, ok := isV(x.X.Type()); ok && !write {
					out[st.Field(x.Field).Name()] = true
				}
			case ssa.CallInstruction:
				if callee := x.Common().StaticCallee(); callee != nil && core.InModule(callee) {
					fieldsTouched(callee, vname, write, seen, out)
				}
				// method values handed to a helper (set(num, v.Int.SetMaximum))
				for _, a := range x.Common().Args {
					if mc, ok := a.(*ssa.MakeClosure); ok {
						if g, ok := mc.Fn.(*ssa.Function); ok {
							fieldsTouched(g, vname, write, seen, out)
						}
					}
				}
			case *ssa.MakeClosure:
				if g, ok := x.Fn.(*ssa.Function); ok {
					fieldsTouched(g, vname, write, seen, out)
				}
			}
		}
	}
	// bound method wrappers ($bound) call the real method
	for _, af := range fn.AnonFuncs {
		fieldsTouched(af, vname, write, seen, out)
	}
}

func structFields(prog *core.Prog, pkgPath, name string) []*types.Var {
	p := prog.PkgBy[pkgPath]
	if p == nil {
		return nil
	}
	obj := p.Types.Scope().Lookup(name)
	if obj == nil {
		return nil
	}
	st, ok := obj.Type().Underlying().(*types.Struct)
	if !ok {
		return nil
	}
	var out []*types.Var
	for i := 0; i < st.NumFields(); i++ {
		out = append(out, st.Field(i))
	}
	return out
}

func checkValidatorPipeline(c *core.Ctx, prog *core.Prog) {
	r := c.NewRule("R03.1", "S1", "keyword pipeline: every field of validate.{Int,Float,String,Array,Object} is assigned from the schema, copied by the generated literal, read by the runtime check; activation fields are read by Set()", 100)
	ts, err := tmpl.Load(c.Repo)
	if err != nil {
		r.Undecided("load:templates", "-", err.Error())
		return
	}
	lits := validatorLiterals(ts)
	runtimeMethods := map[string][]string{
		"Int":    {"Int.Validate"},
		"Float":  {"Float.Validate", "Float.ValidateStringified"},
		"String": {"String.Validate"},
		"Array":  {"Array.ValidateLength"},
		"Object": {"Object.ValidateProperties"},
	}
	for _, vn := range validatorTypes {
		fields := structFields(prog, pkgValidate, vn)
		if len(fields) == 0 {
			r.Undecided("anchor:validate."+vn, "-", "struct validate."+vn+" not found")
			continue
		}
		// (a) assigned from the schema
		setter := prog.Func(pkgIR, "Validators.Set"+vn)
		written := map[string]bool{}
		if setter == nil {
			r.Undecided("anchor:Validators.Set"+vn, "-", "ir.Validators.Set"+vn+" not found")
		} else {
			fieldsTouched(setter, vn, true, map[*ssa.Function]bool{}, written)
		}
		// (c) read by the runtime method
		read := map[string]bool{}
		for _, m := range runtimeMethods[vn] {
			fn := prog.Func(pkgValidate, m)
			if fn == nil {
				r.Undecided("anchor:validate."+m, "-", "validate."+m+" not found")
				continue
			}
			one := map[string]bool{}
			fieldsTouched(fn, vn, false, map[*ssa.Function]bool{}, one)
			for k := range one {
				read[k] = true
			}
			// every runtime entry reads the same fields (Validate vs ValidateStringified)
			if len(runtimeMethods[vn]) > 1 {
				for _, f := range fields {
					if !one[f.Name()] && f.Name() != "UniqueItems" {
						r.Fail(fmt.Sprintf("runtime-read:%s:%s", m, f.Name()), c.Pos(fn.Pos()), fmt.Sprintf("validate.%s does not read field %s: the keyword is assigned and generated but never enforced on this entry point", m, f.Name()))
					}
				}
			}
		}
		// (d) Set() reads activation fields
		setFn := prog.Func(pkgValidate, vn+".Set")
		act := map[string]bool{}
		if setFn == nil {
			r.Undecided("anchor:validate."+vn+".Set", "-", "validate."+vn+".Set not found")
		} else {
			fieldsTouched(setFn, vn, false, map[*ssa.Function]bool{}, act)
		}
		for _, f := range fields {
			name := f.Name()
			key := "validate." + vn + "." + name
			// (a)
			if setter != nil {
				if written[name] {
					r.Pass(fmt.Sprintf("%s: assigned on the way from jsonschema.Schema (ir.Validators.Set%s)", key, vn))
				} else {
					r.Fail("assign:"+key, c.Pos(setter.Pos()), fmt.Sprintf("ir.Validators.Set%s (with the setters it calls) never assigns validate.%s.%s: the schema keyword behind it is silently dropped", vn, vn, name))
				}
			}
			// (b) generated literal
			lit := lits[vn]
			switch {
			case lit == nil:
				if vn != "Object" {
					r.Undecided("literal:"+vn, "-", "no validate."+vn+"{…} literal found in validators.tmpl")
				}
			case lit.keys[name] == "$v."+name || (lit.keys[name] != "" && strings.Contains(lit.keys[name], "$v."+name)):
				r.Pass(fmt.Sprintf("%s: generated literal copies it (%s: {{%s}})", key, name, lit.keys[name]))
			case lit.guards[name]:
				r.Pass(fmt.Sprintf("%s: generated code is emitted under the sole guard {{if $v.%s}}", key, name))
			default:
				r.Fail("literal:"+key, fmt.Sprintf("gen/_template/%s:%d", lit.file, lit.line), fmt.Sprintf("the generated validate.%s literal has no key %s fed from $v.%s (and no {{if $v.%s}} guard alone decides a check): the keyword never reaches the runtime", vn, name, name, name))
			}
			// (c)
			if vn == "Array" && name == "UniqueItems" {
				// enforced by validate.UniqueItems(arr), emitted under the guard checked in (b)
			} else if read[name] {
				r.Pass(fmt.Sprintf("%s: read by the runtime check", key))
			} else {
				r.Fail("runtime-read:"+key, "-", fmt.Sprintf("no runtime method of validate.%s reads field %s", vn, name))
			}
			// (d) activation: <X>Set flags, and bool / interface fields without a value twin
			isAct := false
			if b, ok := f.Type().Underlying().(*types.Basic); ok && b.Info()&types.IsBoolean != 0 {
				isAct = strings.HasSuffix(name, "Set") || !strings.HasSuffix(name, "Exclusive")
			}
			if _, ok := f.Type().Underlying().(*types.Interface); ok {
				isAct = true
			}
			if isAct && setFn != nil {
				if act[name] {
					r.Pass(fmt.Sprintf("%s: activation field read by %s.Set()", key, vn))
				} else {
					r.Fail("set-reads:"+key, c.Pos(setFn.Pos()), fmt.Sprintf("validate.%s.Set() does not look at %s: a schema that only uses this keyword gets no validation code at all", vn, name))
				}
			}
		}
	}
	// Object literals live in the JSON templates
	if n := objectLiteralSites(ts); n < 2 {
		r.Fail("literal:validate.Object", "gen/_template/json", fmt.Sprintf("expected validate.Object{…} literals with all four fields in the struct and map decoders, found %d complete ones", n))
	} else {
		r.Pass(fmt.Sprintf("validate.Object literals with MinProperties/MinPropertiesSet/MaxProperties/MaxPropertiesSet fed field-for-field: %d sites", n))
	}
}

type litInfo struct {
	file   string
	line   int
	keys   map[string]string // key → action text
	guards map[string]bool   // fields that alone guard a block
}

var litKey = regexp.MustCompile(`^\s*([A-Za-z]+)\s*:\s*(.*?),?\s*$`)

// validatorLiterals reads the validate.<V>{ … } literals of the "validate" define as key → action text, and the
// {{if $v.F}} guards whose condition is that field alone.
func validatorLiterals(ts *tmpl.Set) map[string]*litInfo {
	out := map[string]*litInfo{}
	file := ts.FileOf["validate"]
	src := ts.Source[file]
	lines := strings.Split(src, "\n")
	cur := ""
	for i, ln := range lines {
		if m := regexp.MustCompile(`validate\.(Int|Float|String|Array|Object)\{`).FindStringSubmatch(ln); m != nil && cur == "" {
			cur = m[1]
			if out[cur] == nil {
				out[cur] = &litInfo{file: file, line: i + 1, keys: map[string]string{}, guards: map[string]bool{}}
			}
			continue
		}
		if cur != "" {
			if strings.Contains(ln, "})") {
				cur = ""
				continue
			}
			if m := litKey.FindStringSubmatch(ln); m != nil {
				val := m[2]
				// normalise {{ $v.F }} → $v.F ; keep other text (regexMap[...]) as is
				if am := regexp.MustCompile(`^\{\{\s*(.*?)\s*\}\}$`).FindStringSubmatch(val); am != nil {
					val = am[1]
				}
				if prev, ok := out[cur].keys[m[1]]; ok {
					val = prev + " | " + val
				}
				out[cur].keys[m[1]] = val
			}
		}
	}
	// guards: {{ if $v.F }} with F alone, where $v := $va.<V>
	tr := ts.Trees["validate"]
	if tr != nil {
		var walk func(n parse.Node, vOf string)
		walk = func(n parse.Node, vOf string) {
			switch x := n.(type) {
			case *parse.ListNode:
				if x == nil {
					return
				}
				cur := vOf
				for _, c := range x.Nodes {
					if a, ok := c.(*parse.ActionNode); ok && len(a.Pipe.Decl) == 1 && a.Pipe.Decl[0].Ident[0] == "$v" && len(a.Pipe.Cmds) == 1 && len(a.Pipe.Cmds[0].Args) == 1 {
						if vn, ok := a.Pipe.Cmds[0].Args[0].(*parse.VariableNode); ok && len(vn.Ident) == 3 && vn.Ident[0] == "$va" {
							cur = vn.Ident[1]
						} else if vn, ok := a.Pipe.Cmds[0].Args[0].(*parse.VariableNode); ok && len(vn.Ident) == 2 && vn.Ident[0] == "$va" {
							cur = vn.Ident[1]
						}
					}
					walk(c, cur)
				}
			case *parse.IfNode:
				if vOf != "" && len(x.Pipe.Cmds) == 1 && len(x.Pipe.Cmds[0].Args) == 1 {
					if vn, ok := x.Pipe.Cmds[0].Args[0].(*parse.VariableNode); ok && len(vn.Ident) == 2 && vn.Ident[0] == "$v" {
						if out[vOf] != nil {
							out[vOf].guards[vn.Ident[1]] = true
						}
					}
				}
				walk(x.List, vOf)
				walk(x.ElseList, vOf)
			case *parse.RangeNode:
				walk(x.List, vOf)
				walk(x.ElseList, vOf)
			case *parse.WithNode:
				walk(x.List, vOf)
				walk(x.ElseList, vOf)
			}
		}
		walk(tr.Root, "")
	}
	return out
}

// objectLiteralSites counts validate.Object literals in all templates that feed the four fields identically.
func objectLiteralSites(ts *tmpl.Set) int {
	n := 0
	re := regexp.MustCompile(`(?s)validate\.Object\{(.*?)\}\)`)
	for _, f := range ts.Files {
		for _, m := range re.FindAllStringSubmatch(ts.Source[f], -1) {
			body := m[1]
			ok := true
			for _, k := range []string{"MinProperties", "MinPropertiesSet", "MaxProperties", "MaxPropertiesSet"} {
				if !regexp.MustCompile(`\b` + k + `:\s*\{\{\s*\$[A-Za-z.]*\.` + k + `\s*\}\}`).MatchString(body) {
					ok = false
				}
			}
			if ok {
				n++
			}
		}
	}
	return n
}

// ---------------------------------------------------------------- R03.2

func kInt(n int64) peval.Val     { return peval.K(constant.MakeInt64(n)) }
func kBool(b bool) peval.Val     { return peval.K(constant.MakeBool(b)) }
func kFloat(f float64) peval.Val { return peval.K(constant.MakeFloat64(f)) }

func bools(n int) [][]bool {
	var out [][]bool
	for m := 0; m < 1<<n; m++ {
		row := make([]bool, n)
		for i := range row {
			row[i] = m&(1<<i) != 0
		}
		out = append(out, row)
	}
	return out
}

// rejects interprets the evaluator's answer: the single result is an error value.
func rejects(res *peval.Result) (reject, decided bool) {
	if len(res.Returns) == 0 {
		return false, false
	}
	first := true
	var val bool
	for _, r := range res.Returns {
		if len(r) != 1 {
			return false, false
		}
		var v bool
		switch r[0].Kind {
		case peval.Nil:
			v = false
		case peval.NonNil, peval.Struct:
			v = true
		default:
			return false, false
		}
		if first {
			val, first = v, false
		} else if v != val {
			return false, false
		}
	}
	return val, true
}

func checkBoundaryTables(c *core.Ctx, prog *core.Prog) error {
	r := c.NewRule("R03.2", "S1", "accept/reject tables of the numeric and length validators equal the JSON-Schema reference over every ordering class × flag combination", 1000)
	vp := prog.PkgBy[pkgValidate]
	if vp == nil {
		return fmt.Errorf("package validate not loaded")
	}
	ev := peval.New(vp)
	type cfgRow struct {
		desc   string
		recv   peval.Val
		v      peval.Val
		expect bool
	}
	run := func(label, typ, method string, rows []cfgRow) {
		fn, _ := ev.FindFunc(pkgValidate, typ+"."+method)
		if fn == nil {
			r.Undecided("anchor:validate."+typ+"."+method, "-", "not found")
			return
		}
		bad := 0
		und := 0
		for _, row := range rows {
			res := ev.Run(fn, []peval.Val{row.recv, row.v})
			got, ok := rejects(res)
			switch {
			case !ok:
				und++
				if und <= 2 {
					r.Undecided(fmt.Sprintf("table:%s:undecided#%d", label, und), "-", fmt.Sprintf("partial evaluation of validate.%s.%s could not decide %s (returns: %v, imprecise: %v)", typ, method, row.desc, res.Returns, res.Imprecise))
				} else {
					r.Ob(false, "")
				}
			case got != row.expect:
				bad++
				if bad <= 3 {
					verdict := map[bool]string{true: "rejects", false: "accepts"}
					r.Fail(fmt.Sprintf("table:%s:%s", label, row.desc), "validate/"+strings.ToLower(typ)+".go", fmt.Sprintf("validate.%s.%s %s %s, JSON Schema %s it", typ, method, verdict[got], row.desc, verdict[row.expect]))
				} else {
					r.Ob(false, "")
				}
			default:
				r.Ob(true, "")
			}
		}
		if bad == 0 && und == 0 {
			r.Pass(fmt.Sprintf("%s: %d configurations agree with the reference", label, len(rows)))
		}
	}
	// ---- Int
	{
		var rows []cfgRow
		for _, mn := range []int64{1, 3} {
			for _, mx := range []int64{1, 3} {
				for _, v := range []int64{-4, -3, 0, 1, 2, 3, 4, 6} {
					for _, fl := range bools(5) {
						minSet, minEx, maxSet, maxEx, mulSet := fl[0], fl[1], fl[2], fl[3], fl[4]
						recv := peval.Val{Kind: peval.Struct, Fields: map[string]peval.Val{
							"Min": kInt(mn), "MinSet": kBool(minSet), "MinExclusive": kBool(minEx),
							"Max": kInt(mx), "MaxSet": kBool(maxSet), "MaxExclusive": kBool(maxEx),
							"MultipleOf": peval.K(constant.MakeUint64(3)), "MultipleOfSet": kBool(mulSet),
						}}
						abs := v
						if abs < 0 {
							abs = -abs
						}
						expect := (minSet && (v < mn || (minEx && v == mn))) || (maxSet && (v > mx || (maxEx && v == mx))) || (mulSet && abs%3 != 0)
						rows = append(rows, cfgRow{fmt.Sprintf("v=%d with minimum=%d(set=%v,exclusive=%v) maximum=%d(set=%v,exclusive=%v) multipleOf=3(set=%v)", v, mn, minSet, minEx, mx, maxSet, maxEx, mulSet), recv, kInt(v), expect})
					}
				}
			}
		}
		run("Int.Validate", "Int", "Validate", rows)
	}
	// ---- Float (bounds only; multipleOf is big.Rat arithmetic, out of reach)
	{
		var rows []cfgRow
		for _, mn := range []float64{1.5} {
			for _, mx := range []float64{1.5, 2.5} {
				for _, v := range []float64{1.0, 1.5, 2.0, 2.5, 3.0} {
					for _, fl := range bools(4) {
						minSet, minEx, maxSet, maxEx := fl[0], fl[1], fl[2], fl[3]
						recv := peval.Val{Kind: peval.Struct, Fields: map[string]peval.Val{
							"Min": kFloat(mn), "MinSet": kBool(minSet), "MinExclusive": kBool(minEx),
							"Max": kFloat(mx), "MaxSet": kBool(maxSet), "MaxExclusive": kBool(maxEx),
							"MultipleOf": {Kind: peval.Nil}, "MultipleOfSet": kBool(false),
						}}
						expect := (minSet && (v < mn || (minEx && v == mn))) || (maxSet && (v > mx || (maxEx && v == mx)))
						rows = append(rows, cfgRow{fmt.Sprintf("v=%g with minimum=%g(set=%v,exclusive=%v) maximum=%g(set=%v,exclusive=%v)", v, mn, minSet, minEx, mx, maxSet, maxEx), recv, kFloat(v), expect})
					}
				}
			}
		}
		run("Float.validate", "Float", "validate", rows)
	}
	// ---- Array length / Object properties: inclusive both ways
	for _, spec := range []struct{ typ, method, lo, loSet, hi, hiSet string }{
		{"Array", "ValidateLength", "MinLength", "MinLengthSet", "MaxLength", "MaxLengthSet"},
		{"Object", "ValidateProperties", "MinProperties", "MinPropertiesSet", "MaxProperties", "MaxPropertiesSet"},
	} {
		var rows []cfgRow
		for _, mn := range []int64{1, 3} {
			for _, mx := range []int64{1, 3} {
				for _, v := range []int64{0, 1, 2, 3, 4} {
					for _, fl := range bools(2) {
						recv := peval.Val{Kind: peval.Struct, Fields: map[string]peval.Val{
							spec.lo: kInt(mn), spec.loSet: kBool(fl[0]), spec.hi: kInt(mx), spec.hiSet: kBool(fl[1]), "UniqueItems": kBool(false),
						}}
						expect := (fl[0] && v < mn) || (fl[1] && v > mx)
						rows = append(rows, cfgRow{fmt.Sprintf("n=%d with %s=%d(set=%v) %s=%d(set=%v)", v, spec.lo, mn, fl[0], spec.hi, mx, fl[1]), recv, kInt(v), expect})
					}
				}
			}
		}
		run(spec.typ+"."+spec.method, spec.typ, spec.method, rows)
	}
	// ---- String.Validate delegates its four length fields to Array.ValidateLength field-for-field, over []rune
	sv := prog.Func(pkgValidate, "String.Validate")
	if sv == nil {
		r.Undecided("anchor:validate.String.Validate", "-", "not found")
		return nil
	}
	// First by evaluation: String.Validate (helpers of the package are followed) over strings of n two-byte code points,
	// with no format and no pattern, must reject exactly when (MinLengthSet && n < MinLength) || (MaxLengthSet && n > MaxLength).
	// That decides the clause however the function is organised; the structural form below is the fallback when the
	// evaluator cannot follow the code.
	if fn, _ := ev.FindFunc(pkgValidate, "String.Validate"); fn != nil {
		bad, und, n := 0, 0, 0
		for _, mn := range []int64{1, 3} {
			for _, mx := range []int64{1, 3} {
				for _, ln := range []int64{0, 1, 2, 3, 4} {
					for _, fl := range bools(2) {
						recv := peval.Val{Kind: peval.Struct, Fields: map[string]peval.Val{
							"MinLength": kInt(mn), "MinLengthSet": kBool(fl[0]), "MaxLength": kInt(mx), "MaxLengthSet": kBool(fl[1]),
							"Email": kBool(false), "Hostname": kBool(false), "Regex": {Kind: peval.Nil},
						}}
						str := strings.Repeat("\u00e9", int(ln))
						res := ev.Run(fn, []peval.Val{recv, peval.K(constant.MakeString(str))})
						got, ok := rejects(res)
						expect := (fl[0] && ln < mn) || (fl[1] && ln > mx)
						n++
						switch {
						case !ok:
							und++
						case got != expect:
							bad++
							if bad <= 3 {
								verdict := map[bool]string{true: "rejects", false: "accepts"}
								r.Fail(fmt.Sprintf("table:String.Validate:len=%d min=%d(set=%v) max=%d(set=%v)", ln, mn, fl[0], mx, fl[1]), c.Pos(sv.Pos()), fmt.Sprintf("validate.String.Validate %s a string of %d code points (%d bytes) with minLength=%d(set=%v) maxLength=%d(set=%v), JSON Schema %s it", verdict[got], ln, 2*ln, mn, fl[0], mx, fl[1], verdict[expect]))
							} else {
								r.Ob(false, "")
							}
						default:
							r.Ob(true, "")
						}
					}
				}
			}
		}
		if und == 0 {
			if bad == 0 {
				r.Pass(fmt.Sprintf("String.Validate: %d length configurations over multi-byte strings agree with the reference (code points, inclusive bounds)", n))
			}
			return nil
		}
		r.Note("String.Validate could not be tabulated by partial evaluation (%d of %d rows undecided): structural form checked instead", und, n)
	}
	okDeleg, okRune := false, false
	for _, call := range core.Calls(sv) {
		if !core.IsCallTo(call.Common(), pkgValidate, "Array.ValidateLength") {
			continue
		}
		okDeleg = true
		// argument: len([]rune(v))
		if lc, ok := call.Common().Args[len(call.Common().Args)-1].(*ssa.Call); ok {
			if b, ok := lc.Common().Value.(*ssa.Builtin); ok && b.Name() == "len" {
				if cv, ok := lc.Common().Args[0].(*ssa.Convert); ok {
					if sl, ok := cv.Type().Underlying().(*types.Slice); ok {
						if bt, ok := sl.Elem().Underlying().(*types.Basic); ok && bt.Kind() == types.Int32 {
							okRune = true
						}
					}
				}
			}
		}
	}
	// field-for-field copy: stores into the Array literal from the same-named String field
	copies := map[string]string{}
	for _, b := range sv.Blocks {
		for _, in := range b.Instrs {
			st, ok := in.(*ssa.Store)
			if !ok {
				continue
			}
			fa, ok := st.Addr.(*ssa.FieldAddr)
			if !ok {
				continue
			}
			dst := fa.X.Type().Underlying().(*types.Pointer).Elem()
			if n, ok := dst.(*types.Named); !ok || n.Obj().Name() != "Array" {
				continue
			}
			dname := dst.Underlying().(*types.Struct).Field(fa.Field).Name()
			if ld, ok := st.Val.(*ssa.UnOp); ok && ld.Op == token.MUL {
				if sfa, ok := ld.X.(*ssa.FieldAddr); ok {
					sst := sfa.X.Type().Underlying().(*types.Pointer).Elem().Underlying().(*types.Struct)
					copies[dname] = sst.Field(sfa.Field).Name()
				}
			}
		}
	}
	for _, f := range []string{"MinLength", "MinLengthSet", "MaxLength", "MaxLengthSet"} {
		if copies[f] == f {
			r.Pass("String.Validate: Array." + f + " ← String." + f)
		} else {
			r.Fail("string-length-copy:"+f, c.Pos(sv.Pos()), fmt.Sprintf("String.Validate builds the length validator with %s ← %q instead of the same-named field", f, copies[f]))
		}
	}
	if okDeleg && okRune {
		r.Pass("String.Validate measures len([]rune(v)) (code points) and delegates to Array.ValidateLength")
	} else {
		r.Fail("string-length-unit", c.Pos(sv.Pos()), "String.Validate does not hand len([]rune(v)) to Array.ValidateLength: minLength/maxLength count code points in JSON Schema, not bytes")
	}
	return nil
}

// ---------------------------------------------------------------- R03.4

func checkPredicatePurity(c *core.Ctx, prog *core.Prog) {
	r := c.NewRule("R03.4", "S1", "the predicates deciding whether validation is generated write nothing; needValidation handles every ir.Kind", 8)
	scope := map[string]bool{pkgIR: true, pkgValidate: true}
	an := effects.Analyze(prog, func(f *ssa.Function) bool { return scope[core.FuncPkgPath(f)] })
	names := [][2]string{{pkgIR, "Type.NeedValidation"}, {pkgIR, "Type.needValidation"}}
	for _, vn := range validatorTypes {
		names = append(names, [2]string{pkgValidate, vn + ".Set"})
	}
	for _, n := range names {
		fn := prog.Func(n[0], n[1])
		if fn == nil {
			r.Undecided("anchor:"+n[1], "-", n[1]+" not found")
			continue
		}
		s := an.Sum[fn]
		var bad []string
		var pos token.Pos
		if s != nil {
			for _, e := range s.Effects {
				// the walk path is a local set handed down the recursion: writes into it are the cycle guard itself
				if strings.Contains(e.String(), "walkpath") || (e.Root == effects.Param && strings.Contains(e.Via, "walkpath")) {
					continue
				}
				bad = append(bad, e.String())
				pos = e.Pos
			}
		}
		// direct check, including deferred / nested closures: a store into a field of anything that is not a local
		// copy (the spilled value receiver of Set(), the walk path)
		for _, g := range core.AllFuncs(fn) {
			for _, b := range g.Blocks {
				for _, in := range b.Instrs {
					st, ok := in.(*ssa.Store)
					if !ok {
						continue
					}
					fa, ok := st.Addr.(*ssa.FieldAddr)
					if !ok {
						continue
					}
					if al, ok := fa.X.(*ssa.Alloc); ok && !al.Heap {
						continue
					}
					owner := fa.X.Type().Underlying().(*types.Pointer).Elem()
					if n, ok := types.Unalias(owner).(*types.Named); ok && n.Obj().Name() == "walkpath" {
						continue
					}
					st2 := owner.Underlying().(*types.Struct)
					bad = append(bad, fmt.Sprintf("store to %s.%s", types.TypeString(owner, func(p *types.Package) string { return p.Name() }), st2.Field(fa.Field).Name()))
					pos = st.Pos()
				}
			}
		}
		if len(bad) == 0 {
			r.Pass(n[1] + ": no write through its receiver, arguments or package state")
		} else {
			sort.Strings(bad)
			r.Fail("predicate-writes:"+n[1], c.Pos(pos), fmt.Sprintf("%s writes state (%s): a result cached while a recursive walk was cut short, or computed before the type was complete, switches validation off for good", n[1], strings.Join(uniqStrings(bad), "; ")))
		}
	}
	// exhaustiveness of needValidation over ir.Kind: reuse the exhaustive-switch default discharge idea on SSA:
	// the function compares t.Kind with every Kind constant of package ir
	nv := prog.Func(pkgIR, "Type.needValidation")
	irp := prog.PkgBy[pkgIR]
	if nv != nil && irp != nil {
		kinds := map[string]bool{}
		sc := irp.Types.Scope()
		for _, nm := range sc.Names() {
			if k, ok := sc.Lookup(nm).(*types.Const); ok {
				if named, ok := k.Type().(*types.Named); ok && named.Obj().Name() == "Kind" {
					kinds[constant.StringVal(k.Val())] = false
				}
			}
		}
		for _, b := range nv.Blocks {
			for _, in := range b.Instrs {
				if bo, ok := in.(*ssa.BinOp); ok && bo.Op == token.EQL {
					for _, side := range []ssa.Value{bo.X, bo.Y} {
						if s, ok := core.ConstString(side); ok {
							if _, isKind := kinds[s]; isKind {
								kinds[s] = true
							}
						}
					}
				}
			}
		}
		var missing []string
		for k, seen := range kinds {
			if !seen {
				missing = append(missing, k)
			}
		}
		sort.Strings(missing)
		if len(kinds) == 0 {
			r.Undecided("anchor:ir.Kind", "-", "no ir.Kind constants found")
		} else if len(missing) == 0 {
			r.Pass(fmt.Sprintf("needValidation compares t.Kind with all %d ir.Kind constants", len(kinds)))
		} else {
			r.Fail("needValidation:kinds", c.Pos(nv.Pos()), fmt.Sprintf("needValidation has no case for ir.Kind %s", strings.Join(missing, ", ")))
		}
	}
}

func uniqStrings(in []string) []string {
	var out []string
	for i, s := range in {
		if i == 0 || s != in[i-1] {
			out = append(out, s)
		}
	}
	return out
}

// ---------------------------------------------------------------- R03.5

// mergeReference: schema fields each merge function read from both operands on the reviewed tree.
var mergeReference = map[string][]string{
	"mergeProperties": {"Properties", "Required"},
	"mergeSchemes": {"AdditionalProperties", "AllOf", "AnyOf", "Default", "DefaultSet", "Discriminator", "Enum", "ExclusiveMaximum", "ExclusiveMinimum",
		"Format", "Item", "Items", "MaxItems", "MaxLength", "MaxProperties", "Maximum", "MinItems", "MinLength", "MinProperties", "Minimum", "MultipleOf",
		"Nullable", "OneOf", "Pattern", "PatternProperties", "Properties", "Required", "Type", "UniqueItems"},
}

// classifierExempt: merge keywords the branch classifier need not test, with the reason.
var classifierExempt = map[string]string{
	"Default": "the classifier tests DefaultSet, the flag that says a default is present",
	"Items":   "tuple items are only read by the merge to refuse them (not-implemented error); a branch that states only tuple items has no effect on the generated type today",
}

// checkMergeSymmetry: allOf merging takes two schemas; whatever field it reads from one it reads from the other.
// checkInferredTypeNames: a type name the parser infers from a value (infer_types) must be one of the declared
// SchemaType constants, or every later switch over the type rejects the schema.
func checkInferredTypeNames(c *core.Ctx, r *core.Rule, prog *core.Prog) {
	jp := prog.ByPath[pkgJS]
	fn := prog.Func(pkgJS, "inferJSONType")
	if jp == nil || fn == nil {
		r.Undecided("anchor:inferJSONType", "-", "jsonschema.inferJSONType not found")
		return
	}
	declared := map[string]bool{}
	for _, m := range jp.Members {
		if k, ok := m.(*ssa.NamedConst); ok {
			if _, tn := core.NamedOf(k.Type()); tn == "SchemaType" && k.Value.Value != nil && k.Value.Value.Kind() == constant.String {
				declared[constant.StringVal(k.Value.Value)] = true
			}
		}
	}
	n := 0
	for _, b := range fn.Blocks {
		ret, ok := b.Instrs[len(b.Instrs)-1].(*ssa.Return)
		if !ok || len(ret.Results) == 0 {
			continue
		}
		k, ok := ret.Results[0].(*ssa.Const)
		if !ok || k.Value == nil || k.Value.Kind() != constant.String || constant.StringVal(k.Value) == "" {
			continue
		}
		n++
		name := constant.StringVal(k.Value)
		if declared[name] {
			r.Pass(fmt.Sprintf("inferJSONType can return %q, a declared SchemaType", name))
		} else {
			r.Fail("inferred-type-name:"+name, c.Pos(ret.Pos()), fmt.Sprintf("inferJSONType returns the type name %q, which is not among the declared SchemaType constants: a schema whose type is inferred from such a value is rejected later as an unexpected schema type", name))
		}
	}
	if n == 0 || len(declared) == 0 {
		r.Undecided("inferred-type-name:none", c.Pos(fn.Pos()), "no constant type names / no SchemaType constants found")
	}
}

func checkMergeSymmetry(c *core.Ctx, prog *core.Prog) {
	r := c.NewRule("R03.5", "S1", "allOf merging reads the same schema fields from both operands", 2)
	checkInferredTypeNames(c, r, prog)
	for _, name := range []string{"mergeProperties", "mergeSchemes", "mergeNSchemes"} {
		fn := prog.Func(pkgGen, name)
		if fn == nil {
			continue
		}
		// two parameters of type *jsonschema.Schema
		var ps []*ssa.Parameter
		for _, p := range fn.Params {
			if ptr, ok := p.Type().Underlying().(*types.Pointer); ok {
				if n, ok := ptr.Elem().(*types.Named); ok && n.Obj().Name() == "Schema" {
					ps = append(ps, p)
				}
			}
		}
		if len(ps) != 2 {
			continue
		}
		// (w) the operands are inputs: nothing is stored through them (a result field assigned to an operand by
		// mistake is lost for the result and changes the operand's schema for every other user of it), and
		// (d) nothing the merge computes into a local slice is dropped: a slice that is only ever written
		for _, g := range core.AllFuncs(fn) {
			for _, b := range g.Blocks {
				for _, in := range b.Instrs {
					switch x := in.(type) {
					case *ssa.Store:
						root := effects.RootOf(x.Addr)
						if root.Kind == effects.Param {
							for _, p := range ps {
								if root.Val == ssa.Value(p) {
									r.Fail(fmt.Sprintf("merge-writes-operand:%s:%s", name, p.Name()), c.Pos(x.Pos()), fmt.Sprintf("%s stores into its operand %s: the merged value is lost for the result and the operand's schema (shared with every other reference to it) is modified", name, p.Name()))
								}
							}
						}
					case *ssa.MakeSlice:
						onlyWritten := true
						nWrites := 0
						for _, ref := range *x.Referrers() {
							switch u := ref.(type) {
							case *ssa.IndexAddr:
								for _, uu := range *u.Referrers() {
									if st, ok := uu.(*ssa.Store); ok && st.Addr == ssa.Value(u) {
										nWrites++
									} else {
										onlyWritten = false
									}
								}
							case *ssa.DebugRef:
							default:
								onlyWritten = false
							}
						}
						if onlyWritten && nWrites > 0 {
							r.Fail(fmt.Sprintf("merge-drops-result:%s", name), c.Pos(x.Pos()), fmt.Sprintf("%s fills a local slice and never reads, stores or returns it: what was merged into it is dropped from the result", name))
						}
					}
				}
			}
		}
		r.Pass(fmt.Sprintf("%s: operands are not written; no merged slice is dropped", name))
		// (q) in mergeProperties the `required` lists of both members count for every property, whichever member
		// declares it: each container that a property's Required flag is decided from (a set that is looked up, a
		// list handed to slices.Contains) holds names of s1.Required AND of s2.Required
		if name == "mergeProperties" {
			operandOf := func(v ssa.Value) int { // which operand's Required list does the value come from: 0, 1, -1
				seen := map[ssa.Value]bool{}
				var walk func(v ssa.Value, d int) int
				walk = func(v ssa.Value, d int) int {
					if d > 8 || seen[v] {
						return -1
					}
					seen[v] = true
					switch x := v.(type) {
					case *ssa.UnOp:
						if fa, ok := x.X.(*ssa.FieldAddr); ok && fieldName(fa.X.Type(), fa.Field) == "Required" {
							for i, p := range ps {
								if fa.X == ssa.Value(p) {
									return i
								}
							}
						}
						if ia, ok := x.X.(*ssa.IndexAddr); ok {
							return walk(ia.X, d+1)
						}
						return walk(x.X, d+1)
					case *ssa.Extract:
						return walk(x.Tuple, d+1)
					case *ssa.Next:
						return walk(x.Iter, d+1)
					case *ssa.Range:
						return walk(x.X, d+1)
					case *ssa.Index:
						return walk(x.X, d+1)
					case *ssa.Phi:
						for _, e := range x.Edges {
							if k := walk(e, d+1); k >= 0 {
								return k
							}
						}
					}
					return -1
				}
				return walk(v, 0)
			}
			nDec := 0
			for _, g := range core.AllFuncs(fn) {
				for _, b := range g.Blocks {
					for _, in := range b.Instrs {
						prov := map[int]bool{}
						what := ""
						switch x := in.(type) {
						case *ssa.Lookup:
							// a set keyed by property names, filled in this function
							mm, ok := x.X.(*ssa.MakeMap)
							if !ok || !x.CommaOk {
								continue
							}
							if mt, ok := mm.Type().Underlying().(*types.Map); !ok || mt.Elem().String() != "struct{}" {
								continue
							}
							what = "a set"
							for _, ref := range *mm.Referrers() {
								if mu, ok := ref.(*ssa.MapUpdate); ok {
									if k := operandOf(mu.Key); k >= 0 {
										prov[k] = true
									}
								}
							}
							if len(prov) == 0 {
								continue // not a set of required names
							}
						case *ssa.Call:
							if !strings.HasPrefix(core.CalleeName(x.Common()), "slices.Contains") || len(x.Common().Args) < 1 {
								continue
							}
							k := operandOf(x.Common().Args[0])
							if k < 0 {
								continue
							}
							what = "a list handed to slices.Contains"
							prov[k] = true
						default:
							continue
						}
						nDec++
						if prov[0] && prov[1] {
							r.Pass("mergeProperties: required names of both members are consulted together")
						} else {
							r.Fail("merge-required-one-sided", c.Pos(in.Pos()), fmt.Sprintf("mergeProperties decides a property's requiredness from %s that holds the `required` names of one allOf member only: a property declared in one member and listed as required in the other (allOf: [$ref Base, {required: [name]}]) becomes optional", what))
						}
					}
				}
			}
			if nDec == 0 {
				r.Undecided("merge-required:none", c.Pos(fn.Pos()), "no place found where mergeProperties consults the `required` lists")
			}
		}
		reads := []map[string]bool{{}, {}}
		for i, p := range ps {
			var visit func(v ssa.Value, depth int)
			seen := map[ssa.Value]bool{}
			visit = func(v ssa.Value, depth int) {
				if seen[v] || depth > 6 {
					return
				}
				seen[v] = true
				for _, ref := range *v.Referrers() {
					switch x := ref.(type) {
					case *ssa.FieldAddr:
						st := x.X.Type().Underlying().(*types.Pointer).Elem().Underlying().(*types.Struct)
						reads[i][st.Field(x.Field).Name()] = true
					case *ssa.Phi:
						visit(x, depth+1)
					case ssa.CallInstruction:
						// handed to a helper (mergeEnums(s1, s2), mergeProperties(s1, s2)): follow into its parameter
						if callee := x.Common().StaticCallee(); callee != nil && core.InModule(callee) && callee.Blocks != nil && callee != fn {
							for ai, a := range x.Common().Args {
								if a == v && ai < len(callee.Params) {
									visit(callee.Params[ai], depth+1)
								}
							}
						}
					case *ssa.MakeClosure:
						// captured by a closure: look at the free variable's uses
						if g, ok := x.Fn.(*ssa.Function); ok {
							for bi, bnd := range x.Bindings {
								if bnd == v && bi < len(g.FreeVars) {
									visit(g.FreeVars[bi], depth+1)
								}
							}
						}
					case *ssa.Store:
						// spilled to a local: follow the loads
						if al, ok := x.Addr.(*ssa.Alloc); ok && x.Val == v {
							for _, r2 := range *al.Referrers() {
								if ld, ok := r2.(*ssa.UnOp); ok && ld.Op == token.MUL {
									visit(ld, depth+1)
								}
								if mc, ok := r2.(*ssa.MakeClosure); ok {
									if g, ok := mc.Fn.(*ssa.Function); ok {
										for bi, bnd := range mc.Bindings {
											if bnd == ssa.Value(al) && bi < len(g.FreeVars) {
												for _, r3 := range *g.FreeVars[bi].Referrers() {
													if ld, ok := r3.(*ssa.UnOp); ok && ld.Op == token.MUL {
														visit(ld, depth+1)
													}
												}
											}
										}
									}
								}
							}
						}
					}
				}
			}
			visit(p, 0)
		}
		var only0, only1 []string
		for f := range reads[0] {
			if !reads[1][f] {
				only0 = append(only0, f)
			}
		}
		for f := range reads[1] {
			if !reads[0][f] {
				only1 = append(only1, f)
			}
		}
		sort.Strings(only0)
		sort.Strings(only1)
		var all []string
		for f := range reads[0] {
			all = append(all, f)
		}
		sort.Strings(all)
		if os.Getenv("OGENVERIF_TRACE") != "" {
			fmt.Fprintf(os.Stderr, "MERGEFIELDS\t%s\t%s\n", name, strings.Join(all, ","))
		}
		// the keyword fields confirmed on the reviewed tree are the reference: a merge that stops looking at one of
		// them silently drops that keyword from allOf
		var lost []string
		for _, f := range mergeReference[name] {
			if !reads[0][f] || !reads[1][f] {
				lost = append(lost, f)
			}
		}
		if len(lost) > 0 {
			r.Fail("merge-dropped:"+name, c.Pos(fn.Pos()), fmt.Sprintf("%s no longer reads %v of its operands: that keyword of an allOf branch is ignored (e.g. `required` stated next to a $ref is lost and the member becomes optional)", name, lost))
		} else if len(mergeReference[name]) > 0 {
			r.Pass(fmt.Sprintf("%s: reads every reference keyword field (%d) from both operands", name, len(mergeReference[name])))
		}
		// classifier closures of the merge (func(*Schema) bool, e.g. containsValidators): a branch is kept or thrown
		// away by what they look at, so they must look at every keyword the merge itself handles
		for _, cl := range fn.AnonFuncs {
			if len(cl.Params) != 1 || cl.Signature.Results().Len() != 1 {
				continue
			}
			if bt, ok := cl.Signature.Results().At(0).Type().Underlying().(*types.Basic); !ok || bt.Kind() != types.Bool {
				continue
			}
			ptr, ok := cl.Params[0].Type().Underlying().(*types.Pointer)
			if !ok {
				continue
			}
			if n, ok := ptr.Elem().(*types.Named); !ok || n.Obj().Name() != "Schema" {
				continue
			}
			looked := map[string]bool{}
			for _, b := range cl.Blocks {
				for _, in := range b.Instrs {
					if fa, ok := in.(*ssa.FieldAddr); ok && fa.X == ssa.Value(cl.Params[0]) {
						st := ptr.Elem().Underlying().(*types.Struct)
						looked[st.Field(fa.Field).Name()] = true
					}
				}
			}
			if len(looked) < 5 {
				continue // not a keyword classifier
			}
			var blind []string
			for _, f := range mergeReference[name] {
				if !looked[f] {
					if _, ok := classifierExempt[f]; ok {
						continue
					}
					blind = append(blind, f)
				}
			}
			sort.Strings(blind)
			ck := fmt.Sprintf("merge-classifier:%s%s", name, closureSuffix(cl))
			if len(blind) == 0 {
				r.Pass(fmt.Sprintf("%s: the branch classifier looks at %d schema fields, covering every keyword the merge handles", ck, len(looked)))
			} else {
				r.Fail(ck, c.Pos(cl.Pos()), fmt.Sprintf("the classifier closure of %s that decides whether an allOf branch carries any constraint does not look at %v, which the merge itself handles: a branch that only states that keyword (e.g. {required: [name]}) is treated as annotation-only and dropped", name, blind))
			}
		}
		if len(only0)+len(only1) == 0 {
			r.Pass(fmt.Sprintf("%s: %d fields read from each operand", name, len(reads[0])))
		} else {
			r.Fail("merge-asymmetry:"+name, c.Pos(fn.Pos()), fmt.Sprintf("%s reads %v only from %s and %v only from %s: a keyword stated in one branch of allOf is lost depending on the order of the branches", name, only0, ps[0].Name(), only1, ps[1].Name()))
		}
	}
}

// ---------------------------------------------------------------- R03.6

// checkUniqueFieldInference: oneOf variants without a discriminator are told apart by fields unique to one variant.
// The per-variant field sets live in one map of sets; finding the fields shared by two variants must not edit
// those sets while it is still comparing them (two phases: collect, then delete), or the outcome depends on the
// order of the variants.
func checkUniqueFieldInference(c *core.Ctx, prog *core.Prog) {
	r := c.NewRule("R03.6", "S1", "oneOf unique-field inference never deletes from the per-variant field sets inside a loop that is still ranging over them", 1)
	fn := prog.Func(pkgGen, "schemaGen.oneOf")
	if fn == nil {
		r.Undecided("anchor:schemaGen.oneOf", "-", "gen.(*schemaGen).oneOf not found")
		return
	}
	// maps of sets built in this function: make(map[K]map[K2]struct{})
	isSetOfSets := func(t types.Type) bool {
		m, ok := t.Underlying().(*types.Map)
		if !ok {
			return false
		}
		inner, ok := m.Elem().Underlying().(*types.Map)
		if !ok {
			return false
		}
		st, ok := inner.Elem().Underlying().(*types.Struct)
		return ok && st.NumFields() == 0
	}
	elemOf := func(v ssa.Value) ssa.Value {
		for i := 0; i < 4; i++ {
			switch x := v.(type) {
			case *ssa.Lookup:
				if isSetOfSets(x.X.Type()) {
					return x.X
				}
				return nil
			case *ssa.Extract:
				v = x.Tuple
			case *ssa.Phi:
				if len(x.Edges) > 0 {
					v = x.Edges[0]
				} else {
					return nil
				}
			default:
				return nil
			}
		}
		return nil
	}
	sites := 0
	for _, g := range core.AllFuncs(fn) {
		// ranges over an element of a set-of-sets, with their body entry
		type rng struct {
			over  ssa.Value
			entry *ssa.BasicBlock
			pos   token.Pos
		}
		var ranges []rng
		for _, b := range g.Blocks {
			for _, in := range b.Instrs {
				rg, ok := in.(*ssa.Range)
				if !ok {
					continue
				}
				u := elemOf(rg.X)
				if u == nil {
					continue
				}
				for _, ref := range *rg.Referrers() {
					nx, ok := ref.(*ssa.Next)
					if !ok {
						continue
					}
					for _, r2 := range *nx.Referrers() {
						if ex, ok := r2.(*ssa.Extract); ok && ex.Index == 0 {
							for _, r3 := range *ex.Referrers() {
								if iff, ok := r3.(*ssa.If); ok {
									ranges = append(ranges, rng{u, iff.Block().Succs[0], rg.Pos()})
								}
							}
						}
					}
				}
			}
		}
		for _, b := range g.Blocks {
			for _, in := range b.Instrs {
				call, ok := in.(*ssa.Call)
				if !ok {
					continue
				}
				bi, ok := call.Common().Value.(*ssa.Builtin)
				if !ok || bi.Name() != "delete" {
					continue
				}
				u := elemOf(call.Common().Args[0])
				if u == nil {
					continue
				}
				sites++
				conflict := false
				for _, rg := range ranges {
					if rg.over == u && (rg.entry == b || rg.entry.Dominates(b)) {
						conflict = true
						r.Fail("unique-fields:delete-while-comparing", c.Pos(call.Pos()), fmt.Sprintf("delete from one variant's field set inside the loop (%s) that ranges over another variant's set of the same table: which fields count as unique depends on the order of the variants, and documents of earlier variants are refused", c.Pos(rg.pos)))
					}
				}
				if !conflict {
					r.Pass(fmt.Sprintf("delete at %s: not inside a loop ranging over the same table of field sets", c.Pos(call.Pos())))
				}
			}
		}
	}
	if sites == 0 {
		r.Undecided("unique-fields:no-site", c.Pos(fn.Pos()), "no delete from a per-variant field set found in oneOf: the inference was restructured, re-anchor the rule")
	}
}

// ---------------------------------------------------------------- R03.3 (S2)

// hasValidate: does T (or *T) have a method Validate() error?
func hasValidate(t types.Type) bool {
	for _, tt := range []types.Type{t, types.NewPointer(t)} {
		ms := types.NewMethodSet(tt)
		for i := 0; i < ms.Len(); i++ {
			if ms.At(i).Obj().Name() == "Validate" {
				if sig, ok := ms.At(i).Type().(*types.Signature); ok && sig.Params().Len() == 0 && sig.Results().Len() == 1 {
					return true
				}
			}
		}
	}
	return false
}

// validatable: the static type carries something with a Validate method (directly, or inside an Opt/Nil wrapper,
// slice, pointer or map).
func validatable(t types.Type, depth int) bool {
	if depth > 4 {
		return false
	}
	if hasValidate(t) {
		return true
	}
	switch u := t.Underlying().(type) {
	case *types.Pointer:
		return validatable(u.Elem(), depth+1)
	case *types.Slice:
		return validatable(u.Elem(), depth+1)
	case *types.Map:
		return validatable(u.Elem(), depth+1)
	case *types.Struct:
		// generic wrappers: struct{Value T; Set bool; Null bool}
		if u.NumFields() <= 3 {
			for i := 0; i < u.NumFields(); i++ {
				if u.Field(i).Name() == "Value" {
					return validatable(u.Field(i).Type(), depth+1)
				}
			}
		}
	}
	return false
}

// callsValidate: fn (or closures created in it) calls a method named Validate or validate.X{…}.Validate*.
func callsValidate(fn *ssa.Function, seen map[*ssa.Function]bool) bool {
	if fn == nil || seen[fn] || fn.Blocks == nil {
		return false
	}
	seen[fn] = true
	for _, call := range core.Calls(fn) {
		cc := call.Common()
		if cc.IsInvoke() && cc.Method.Name() == "Validate" {
			return true
		}
		if callee := cc.StaticCallee(); callee != nil {
			if strings.HasPrefix(callee.Name(), "Validate") && callee.Signature.Recv() != nil {
				return true
			}
			if callee.Name() == "UniqueItems" {
				return true
			}
		}
		if mc, ok := cc.Value.(*ssa.MakeClosure); ok {
			if g, ok := mc.Fn.(*ssa.Function); ok && callsValidate(g, seen) {
				return true
			}
		}
	}
	return false
}

func checkValidateAfterDecode(c *core.Ctx) error {
	r := c.NewRule("R03.3", "S2", "generated request decoders: a decoded value whose type can be validated reaches the success return only past a validation whose error returns", 20)
	// all go:generate fixtures in both tiers: only the large examples have enough validated request bodies
	exp, err := c.Expand(nil)
	if err != nil {
		r.Undecided("expand", "-", trimPosMsg(err.Error(), 600))
		return nil
	}
	checkRequiredMasks(c, exp)
	checkParamValidation(c, r, exp)
	checkGeneratedValidators(c, exp)
	for _, fx := range exp.Fixtures {
		pkg := exp.Prog.ByPath[fx.PkgPath]
		if pkg == nil {
			continue
		}
		for _, fn := range core.PkgFuncs(exp.Prog.SSA, pkg) {
			if fn.Parent() != nil || fn.Signature.Recv() == nil {
				continue
			}
			name := fn.Name()
			if !strings.HasPrefix(name, "decode") || !strings.HasSuffix(name, "Request") {
				continue
			}
			checkDecoderValidation(c, r, fx, fn)
		}
	}
	return nil
}

// checkDecoderValidation: every `return <value>, close, nil` of a request decoder where <value> is a freshly decoded
// local of a validatable type is dominated by the success edge of an immediately-invoked closure that validates.
func checkDecoderValidation(c *core.Ctx, r *core.Rule, fx *core.Fixture, fn *ssa.Function) {
	key := fx.Name + "/" + fn.Name()
	// validation closures: immediately invoked closures that (transitively) call Validate; success edge = err == nil
	var vcalls []vcall
	for _, b := range fn.Blocks {
		for _, in := range b.Instrs {
			call, ok := in.(*ssa.Call)
			if !ok {
				continue
			}
			mc, ok := call.Common().Value.(*ssa.MakeClosure)
			if !ok {
				continue
			}
			g, _ := mc.Fn.(*ssa.Function)
			if g == nil || !callsValidate(g, map[*ssa.Function]bool{}) {
				continue
			}
			// if err != nil { return …, errors.Wrap(err, "validate") }
			for _, ref := range *call.Referrers() {
				if bo, ok := ref.(*ssa.BinOp); ok && bo.Op == token.NEQ && core.IsNilConst(bo.Y) {
					for _, r2 := range *bo.Referrers() {
						if iff, ok := r2.(*ssa.If); ok {
							vcalls = append(vcalls, vcall{call, iff.Block().Succs[1]})
						}
					}
				}
			}
		}
	}
	// success returns: last result nil, first result is a load of a local of validatable type written by a Decode
	nRet := 0
	for _, b := range fn.Blocks {
		// returns are spilled to named results (the decoder has a defer): look at stores into result 0 of a non-zero local
		for _, in := range b.Instrs {
			st, ok := in.(*ssa.Store)
			if !ok {
				continue
			}
			al, ok := st.Addr.(*ssa.Alloc)
			if !ok || al.Comment != "req" {
				continue
			}
			ld, ok := st.Val.(*ssa.UnOp)
			if !ok || ld.Op != token.MUL {
				// interface-typed request: MakeInterface of a load / of a pointer
				if mi, ok := st.Val.(*ssa.MakeInterface); ok {
					if l2, ok := mi.X.(*ssa.UnOp); ok && l2.Op == token.MUL {
						ld = l2
					} else if _, ok := mi.X.(*ssa.Alloc); ok {
						ld = nil
						srcT := mi.X.Type()
						if !validatable(srcT, 0) {
							continue
						}
						nRet++
						if !dominatedByValidation(b, vcallsBlocks(vcalls)) {
							r.Fail("novalidate:"+key, c.Pos(st.Pos()), fmt.Sprintf("%s returns a decoded %s without passing a validation step: an instance violating the schema reaches the handler", fn.Name(), types.TypeString(srcT, nil)))
						} else {
							r.Pass(fmt.Sprintf("%s: %s validated before the success return", key, types.TypeString(srcT, nil)))
						}
						continue
					} else {
						continue
					}
				} else {
					continue
				}
			}
			if ld == nil {
				continue
			}
			src, ok := ld.X.(*ssa.Alloc)
			if !ok || src == al {
				continue
			}
			srcT := src.Type().(*types.Pointer).Elem()
			if !validatable(srcT, 0) {
				continue
			}
			nRet++
			if !dominatedByValidation(b, vcallsBlocks(vcalls)) {
				r.Fail("novalidate:"+key, c.Pos(st.Pos()), fmt.Sprintf("%s returns a decoded %s without passing a validation step: an instance violating the schema reaches the handler", fn.Name(), types.TypeString(srcT, nil)))
			} else {
				r.Pass(fmt.Sprintf("%s: %s validated before the success return", key, types.TypeString(srcT, nil)))
			}
		}
	}
	_ = nRet
}

type vcall struct {
	call *ssa.Call
	ok   *ssa.BasicBlock // block reached when the closure returned nil
}

func vcallsBlocks(v []vcall) []*ssa.BasicBlock {
	var out []*ssa.BasicBlock
	for _, x := range v {
		out = append(out, x.ok)
	}
	return out
}

func dominatedByValidation(b *ssa.BasicBlock, oks []*ssa.BasicBlock) bool {
	for _, ok := range oks {
		if ok == b || ok.Dominates(b) {
			return true
		}
	}
	return false
}

// ---------------------------------------------------------------- R03.7 (S2)

// checkRequiredMasks: in every generated struct decoder the bit set on `case "name":` is bit i%8 of byte i/8 for
// the i-th entry of jsonFieldsNameOf<T>, distinct cases set distinct bits, the mask array has ceil(n/8) bytes and
// no mask bit beyond the last field — so a required member can be satisfied only by its own key, and is demanded.
func checkRequiredMasks(c *core.Ctx, exp *core.Expansion) {
	r := c.NewRule("R03.7", "S2", "required-member bitmask of generated struct decoders: case → bit index agrees with the field-name table, mask within bounds", 50)
	for _, fx := range exp.Fixtures {
		p := exp.Prog.PkgBy[fx.PkgPath]
		if p == nil {
			continue
		}
		// name tables
		tables := map[string][]string{}
		for _, f := range p.Syntax {
			for _, d := range f.Decls {
				gd, ok := d.(*ast.GenDecl)
				if !ok || gd.Tok != token.VAR {
					continue
				}
				for _, sp := range gd.Specs {
					vs := sp.(*ast.ValueSpec)
					for i, id := range vs.Names {
						if !strings.HasPrefix(id.Name, "jsonFieldsNameOf") || i >= len(vs.Values) {
							continue
						}
						cl, ok := vs.Values[i].(*ast.CompositeLit)
						if !ok {
							continue
						}
						var names []string
						for _, e := range cl.Elts {
							if kv, ok := e.(*ast.KeyValueExpr); ok {
								if bl, ok := kv.Value.(*ast.BasicLit); ok {
									sv, _ := strconv.Unquote(bl.Value)
									names = append(names, sv)
								}
							}
						}
						tables[strings.TrimPrefix(id.Name, "jsonFieldsNameOf")] = names
					}
				}
			}
		}
		for _, f := range p.Syntax {
			for _, d := range f.Decls {
				fd, ok := d.(*ast.FuncDecl)
				if !ok || fd.Name.Name != "Decode" || fd.Recv == nil || fd.Body == nil {
					continue
				}
				tname := astRecvName(fd.Recv.List[0].Type)
				// var requiredBitSet [N]uint8
				nBytes := -1
				ast.Inspect(fd.Body, func(n ast.Node) bool {
					if vs, ok := n.(*ast.ValueSpec); ok && len(vs.Names) == 1 && vs.Names[0].Name == "requiredBitSet" {
						if at, ok := vs.Type.(*ast.ArrayType); ok {
							if bl, ok := at.Len.(*ast.BasicLit); ok {
								nBytes, _ = strconv.Atoi(bl.Value)
							}
						}
					}
					return true
				})
				if nBytes < 0 {
					continue
				}
				key := fx.Name + "/" + tname
				names := tables[tname]
				if names == nil {
					r.Undecided("mask:notable:"+key, c.Pos(fd.Pos()), "decoder uses requiredBitSet but jsonFieldsNameOf"+tname+" was not found")
					continue
				}
				var problems []string
				if want := (len(names) + 7) / 8; nBytes != want {
					problems = append(problems, fmt.Sprintf("requiredBitSet has %d bytes for %d fields (want %d)", nBytes, len(names), want))
				}
				// cases
				seenBit := map[int]string{}
				ast.Inspect(fd.Body, func(n ast.Node) bool {
					cc, ok := n.(*ast.CaseClause)
					if !ok || len(cc.List) != 1 || len(cc.Body) == 0 {
						return true
					}
					bl, ok := cc.List[0].(*ast.BasicLit)
					if !ok || bl.Kind != token.STRING {
						return true
					}
					name, _ := strconv.Unquote(bl.Value)
					as, ok := cc.Body[0].(*ast.AssignStmt)
					if !ok || as.Tok != token.OR_ASSIGN {
						return true
					}
					ix, ok := as.Lhs[0].(*ast.IndexExpr)
					if !ok {
						return true
					}
					if id, ok := ix.X.(*ast.Ident); !ok || id.Name != "requiredBitSet" {
						return true
					}
					byteIdx, shift := -1, -1
					if b, ok := ix.Index.(*ast.BasicLit); ok {
						byteIdx, _ = strconv.Atoi(b.Value)
					}
					if be, ok := as.Rhs[0].(*ast.BinaryExpr); ok && be.Op == token.SHL {
						if one, ok := be.X.(*ast.BasicLit); ok && one.Value == "1" {
							if sh, ok := be.Y.(*ast.BasicLit); ok {
								shift, _ = strconv.Atoi(sh.Value)
							}
						}
					}
					if byteIdx < 0 || shift < 0 || shift > 7 {
						problems = append(problems, fmt.Sprintf("case %q: unrecognised bit expression", name))
						return true
					}
					idx := byteIdx*8 + shift
					if idx >= len(names) || names[idx] != name {
						got := "<out of range>"
						if idx < len(names) {
							got = names[idx]
						}
						problems = append(problems, fmt.Sprintf("case %q sets bit %d, which the name table assigns to %q", name, idx, got))
					}
					if prev, dup := seenBit[idx]; dup {
						problems = append(problems, fmt.Sprintf("cases %q and %q set the same bit %d", prev, name, idx))
					}
					seenBit[idx] = name
					return true
				})
				// mask literal: [N]uint8{0b…}
				ast.Inspect(fd.Body, func(n ast.Node) bool {
					rs, ok := n.(*ast.RangeStmt)
					if !ok {
						return true
					}
					cl, ok := rs.X.(*ast.CompositeLit)
					if !ok {
						return true
					}
					if at, ok := cl.Type.(*ast.ArrayType); !ok || fmt.Sprint(at.Elt) != "uint8" {
						return true
					}
					if len(cl.Elts) != nBytes {
						problems = append(problems, fmt.Sprintf("mask literal has %d bytes, bit set has %d", len(cl.Elts), nBytes))
					}
					for bi, e := range cl.Elts {
						bl, ok := e.(*ast.BasicLit)
						if !ok {
							continue
						}
						v, err := strconv.ParseUint(strings.ReplaceAll(bl.Value, "_", ""), 0, 8)
						if err != nil {
							problems = append(problems, "mask byte "+bl.Value+" is not a uint8 literal")
							continue
						}
						for bit := 0; bit < 8; bit++ {
							if v&(1<<bit) == 0 {
								continue
							}
							idx := bi*8 + bit
							if idx >= len(names) {
								problems = append(problems, fmt.Sprintf("mask demands bit %d but the type has %d fields: every document is refused", idx, len(names)))
							} else if _, ok := seenBit[idx]; !ok {
								problems = append(problems, fmt.Sprintf("mask demands %q (bit %d) but no case sets that bit: every document is refused", names[idx], idx))
							}
						}
					}
					return false
				})
				if len(problems) == 0 {
					r.Pass(fmt.Sprintf("%s: %d fields, %d cases, bits and mask consistent", key, len(names), len(seenBit)))
				} else {
					r.Fail("mask:"+key, c.Pos(fd.Pos()), fmt.Sprintf("required-member mask of %s.Decode is inconsistent: %s", tname, strings.Join(problems, "; ")))
				}
			}
		}
	}
}

func astRecvName(e ast.Expr) string {
	switch x := e.(type) {
	case *ast.StarExpr:
		return astRecvName(x.X)
	case *ast.Ident:
		return x.Name
	case *ast.IndexExpr:
		return astRecvName(x.X)
	}
	return "?"
}

// checkParamValidation (R03.3, parameters): in decode<Op>Params every parameter is handled by one top-level
// immediately-invoked closure; if the params field it fills has a type that can be validated, that closure must
// contain a validation call (X.Validate(), validate.T{…}.Validate*(…), validate.UniqueItems).
func checkParamValidation(c *core.Ctx, r *core.Rule, exp *core.Expansion) {
	for _, fx := range exp.Fixtures {
		p := exp.Prog.PkgBy[fx.PkgPath]
		if p == nil {
			continue
		}
		for _, f := range p.Syntax {
			for _, d := range f.Decls {
				fd, ok := d.(*ast.FuncDecl)
				if !ok || fd.Body == nil || fd.Recv != nil || !strings.HasPrefix(fd.Name.Name, "decode") || !strings.HasSuffix(fd.Name.Name, "Params") {
					continue
				}
				for _, st := range fd.Body.List {
					ifs, ok := st.(*ast.IfStmt)
					if !ok || ifs.Init == nil {
						continue
					}
					as, ok := ifs.Init.(*ast.AssignStmt)
					if !ok || len(as.Rhs) != 1 {
						continue
					}
					call, ok := as.Rhs[0].(*ast.CallExpr)
					if !ok {
						continue
					}
					lit, ok := call.Fun.(*ast.FuncLit)
					if !ok {
						continue
					}
					// params fields written in this closure
					fields := map[string]types.Type{}
					validates := false
					ast.Inspect(lit.Body, func(n ast.Node) bool {
						switch x := n.(type) {
						case *ast.SelectorExpr:
							if id, ok := x.X.(*ast.Ident); ok && id.Name == "params" {
								if t := p.TypesInfo.TypeOf(x); t != nil {
									fields[x.Sel.Name] = t
								}
							}
						case *ast.CallExpr:
							if sel, ok := x.Fun.(*ast.SelectorExpr); ok {
								if strings.HasPrefix(sel.Sel.Name, "Validate") || sel.Sel.Name == "UniqueItems" {
									validates = true
								}
							}
						}
						return true
					})
					for name, t := range fields {
						if !validatable(t, 0) {
							continue
						}
						key := fmt.Sprintf("%s/%s:%s", fx.Name, fd.Name.Name, name)
						if validates {
							r.Pass(fmt.Sprintf("%s: parameter of type %s validated inside its decoding step", key, types.TypeString(t, func(*types.Package) string { return "" })))
						} else {
							r.Fail("param-novalidate:"+key, c.Pos(ifs.Pos()), fmt.Sprintf("%s decodes params.%s (%s, which has a Validate method) without validating it: a parameter violating its schema reaches the handler", fd.Name.Name, name, types.TypeString(t, func(*types.Package) string { return "" })))
						}
					}
				}
			}
		}
	}
}

// ---------------------------------------------------------------- R03.8 (S2)

// checkGeneratedValidators: consistency of the generated validation code itself.
//
//	(a) every regexMap["k"] / ratMap["k"] index uses a key the package-level map literal defines (a missing key yields
//	    a nil matcher, which validate.String treats as "no pattern");
//	(b) no call of validate.Array.ValidateLength(len(x)) sits behind a branch on len(x): the emptiness of the value must
//	    not decide whether its length is checked;
//	(c) a struct member outside the required mask whose type is a named slice / pointer type with its own Validate
//	    method is acceptable when nil: that method must not start by refusing the nil receiver;
//	(d) oneOf inference by unique members looks at every key: the key switch is not skipped once a variant was found
//	    (otherwise a document matching two variants is accepted).
func checkGeneratedValidators(c *core.Ctx, exp *core.Expansion) {
	r := c.NewRule("R03.8", "S2", "generated validators: map keys defined, length checks unconditional on length, optional members may be nil, unique-member inference scans every key", 40)
	for _, fx := range exp.Fixtures {
		p := exp.Prog.PkgBy[fx.PkgPath]
		pkg := exp.Prog.ByPath[fx.PkgPath]
		if p == nil || pkg == nil {
			continue
		}
		// (a) map keys
		defined := map[string]map[string]bool{"regexMap": {}, "ratMap": {}}
		declared := map[string]bool{}
		for _, f := range p.Syntax {
			for _, d := range f.Decls {
				gd, ok := d.(*ast.GenDecl)
				if !ok || gd.Tok != token.VAR {
					continue
				}
				for _, sp := range gd.Specs {
					vs := sp.(*ast.ValueSpec)
					for i, id := range vs.Names {
						if m, ok := defined[id.Name]; ok && i < len(vs.Values) {
							declared[id.Name] = true
							if cl, ok := vs.Values[i].(*ast.CompositeLit); ok {
								for _, e := range cl.Elts {
									if kv, ok := e.(*ast.KeyValueExpr); ok {
										if k, ok := strLit(kv.Key); ok {
											m[k] = true
										}
									}
								}
							}
						}
					}
				}
			}
		}
		used := 0
		for _, f := range p.Syntax {
			ast.Inspect(f, func(n ast.Node) bool {
				ix, ok := n.(*ast.IndexExpr)
				if !ok {
					return true
				}
				id, ok := ix.X.(*ast.Ident)
				if !ok {
					return true
				}
				m, ok := defined[id.Name]
				if !ok || !declared[id.Name] {
					return true
				}
				k, ok := strLit(ix.Index)
				if !ok {
					return true
				}
				used++
				if m[k] {
					r.Ob(true, "")
				} else {
					r.Fail(fmt.Sprintf("map-key:%s:%s[%q]", fx.Name, id.Name, k), c.Pos(ix.Pos()), fmt.Sprintf("%s[%q] is used but the %s literal has no such key: the lookup yields nil and the keyword is silently not enforced (or dereferenced)", id.Name, k, id.Name))
				}
				return true
			})
		}
		if used > 0 {
			r.Pass(fmt.Sprintf("%s: %d regexMap/ratMap lookups use defined keys", fx.Name, used))
		}
		// (e) the verifier's own fixtures use every schema they declare: each `pattern` (and patternProperties key)
		// written in the document must be compiled into regexMap — a pattern the generator decided not to compile is
		// a pattern that is never executed
		if strings.HasPrefix(fx.Name, "vf_") {
			if raw, err := os.ReadFile(fx.Spec); err == nil {
				var doc any
				if json.Unmarshal(raw, &doc) == nil {
					var pats []string
					var walkDoc func(v any)
					walkDoc = func(v any) {
						switch x := v.(type) {
						case map[string]any:
							for k, vv := range x {
								if k == "pattern" {
									if str, ok := vv.(string); ok {
										pats = append(pats, str)
										continue
									}
								}
								if k == "patternProperties" {
									if m, ok := vv.(map[string]any); ok {
										for pk := range m {
											pats = append(pats, pk)
										}
									}
								}
								walkDoc(vv)
							}
						case []any:
							for _, vv := range x {
								walkDoc(vv)
							}
						}
					}
					walkDoc(doc)
					sort.Strings(pats)
					for _, pt := range pats {
						if defined["regexMap"][pt] {
							r.Ob(true, "")
						} else {
							r.Fail(fmt.Sprintf("pattern-not-compiled:%s:%q", fx.Name, pt), fx.Name+"/oas_cfg_gen.go", fmt.Sprintf("the fixture declares pattern %q but the generated regexMap has no entry for it: the pattern is never executed (every value is accepted)", pt))
						}
					}
				}
			}
		}
		// (b), (d): SSA
		for _, fn := range core.PkgFuncs(exp.Prog.SSA, pkg) {
			for _, b := range fn.Blocks {
				for _, in := range b.Instrs {
					call, ok := in.(*ssa.Call)
					if !ok {
						continue
					}
					callee := call.Common().StaticCallee()
					if callee == nil || callee.Name() != "ValidateLength" || len(call.Common().Args) != 2 {
						continue
					}
					lenCall, ok := call.Common().Args[1].(*ssa.Call)
					if !ok {
						continue
					}
					bi, ok := lenCall.Common().Value.(*ssa.Builtin)
					if !ok || bi.Name() != "len" {
						continue
					}
					subject := lenCall.Common().Args[0]
					bad := false
					for d := b.Idom(); d != nil; d = d.Idom() {
						iff, ok := d.Instrs[len(d.Instrs)-1].(*ssa.If)
						if !ok {
							continue
						}
						if condOnLenOf(iff.Cond, subject, 0) {
							bad = true
						}
					}
					if bad {
						r.Fail(fmt.Sprintf("length-guarded:%s/%s", fx.Name, fnKey(fn)), c.Pos(call.Pos()), fmt.Sprintf("%s checks the length of a value only on a branch that already depends on that length: e.g. an empty array skips minItems", fn.Name()))
					} else {
						r.Ob(true, "")
					}
				}
			}
		}
		// (c) optional members of named nil-able types
		checkOptionalNilable(c, r, exp, fx, p, pkg)
		// (d)
		checkInferenceScansAll(c, r, exp, fx, pkg)
	}
}

func condOnLenOf(v ssa.Value, subject ssa.Value, depth int) bool {
	if depth > 4 {
		return false
	}
	switch x := v.(type) {
	case *ssa.BinOp:
		return condOnLenOf(x.X, subject, depth+1) || condOnLenOf(x.Y, subject, depth+1)
	case *ssa.UnOp:
		return condOnLenOf(x.X, subject, depth+1)
	case *ssa.Call:
		if bi, ok := x.Common().Value.(*ssa.Builtin); ok && bi.Name() == "len" {
			a := x.Common().Args[0]
			return a == subject || sameLoadOrValue(a, subject)
		}
	}
	return false
}

func sameLoadOrValue(a, b ssa.Value) bool {
	la, ok1 := a.(*ssa.UnOp)
	lb, ok2 := b.(*ssa.UnOp)
	if ok1 && ok2 && la.Op == token.MUL && lb.Op == token.MUL {
		if la.X == lb.X {
			return true
		}
		fa, ok1 := la.X.(*ssa.FieldAddr)
		fb, ok2 := lb.X.(*ssa.FieldAddr)
		return ok1 && ok2 && fa.Field == fb.Field && fa.X == fb.X
	}
	return false
}

// checkOptionalNilable: members outside the required mask of struct decoders, of a named slice/pointer type whose
// Validate() begins with `if s == nil { return error }`.
func checkOptionalNilable(c *core.Ctx, r *core.Rule, exp *core.Expansion, fx *core.Fixture, p *packages.Package, pkg *ssa.Package) {
	// required masks and name tables (AST), as in R03.7
	tables := map[string][]string{}
	masks := map[string][]uint8{}
	for _, f := range p.Syntax {
		for _, d := range f.Decls {
			switch x := d.(type) {
			case *ast.GenDecl:
				if x.Tok != token.VAR {
					continue
				}
				for _, sp := range x.Specs {
					vs := sp.(*ast.ValueSpec)
					for i, id := range vs.Names {
						if strings.HasPrefix(id.Name, "jsonFieldsNameOf") && i < len(vs.Values) {
							if cl, ok := vs.Values[i].(*ast.CompositeLit); ok {
								var names []string
								for _, e := range cl.Elts {
									if kv, ok := e.(*ast.KeyValueExpr); ok {
										if sv, ok := strLit(kv.Value); ok {
											names = append(names, sv)
										}
									}
								}
								tables[strings.TrimPrefix(id.Name, "jsonFieldsNameOf")] = names
							}
						}
					}
				}
			case *ast.FuncDecl:
				if x.Recv == nil || x.Body == nil || x.Name.Name != "Decode" {
					continue
				}
				tn := astRecvName(x.Recv.List[0].Type)
				ast.Inspect(x.Body, func(n ast.Node) bool {
					rs, ok := n.(*ast.RangeStmt)
					if !ok {
						return true
					}
					cl, ok := rs.X.(*ast.CompositeLit)
					if !ok {
						return true
					}
					if at, ok := cl.Type.(*ast.ArrayType); !ok || fmt.Sprint(at.Elt) != "uint8" {
						return true
					}
					var m []uint8
					for _, e := range cl.Elts {
						if bl, ok := e.(*ast.BasicLit); ok {
							v, _ := strconv.ParseUint(strings.ReplaceAll(bl.Value, "_", ""), 0, 8)
							m = append(m, uint8(v))
						}
					}
					masks[tn] = m
					return false
				})
			}
		}
	}
	for tn, names := range tables {
		obj := p.Types.Scope().Lookup(tn)
		if obj == nil {
			continue
		}
		st, ok := obj.Type().Underlying().(*types.Struct)
		if !ok {
			continue
		}
		m := masks[tn] // nil when the type has no required members at all
		for i := 0; i < st.NumFields(); i++ {
			tag := reflectTag(st.Tag(i), "json")
			idx := -1
			for j, nm := range names {
				if nm == tag {
					idx = j
				}
			}
			if idx < 0 {
				continue
			}
			required := idx/8 < len(m) && m[idx/8]&(1<<(idx%8)) != 0
			if required {
				continue
			}
			ft := st.Field(i).Type()
			named, ok := ft.(*types.Named)
			if !ok {
				continue
			}
			switch named.Underlying().(type) {
			case *types.Slice, *types.Pointer:
			default:
				continue
			}
			val := lookupMethodSafe(exp.Prog, ft, pkg.Pkg, "Validate")
			if val == nil || val.Blocks == nil {
				continue
			}
			// entry: if s == nil → return non-nil error
			refuses := false
			if iff, ok := val.Blocks[0].Instrs[len(val.Blocks[0].Instrs)-1].(*ssa.If); ok {
				if bo, ok := iff.Cond.(*ssa.BinOp); ok && bo.Op == token.EQL && core.IsNilConst(bo.Y) && (bo.X == ssa.Value(val.Params[0]) || isParamConv(bo.X, val.Params[0], 0)) {
					nilSide := val.Blocks[0].Succs[0]
					if ret, ok := nilSide.Instrs[len(nilSide.Instrs)-1].(*ssa.Return); ok && len(ret.Results) == 1 && !core.IsNilConst(ret.Results[0]) {
						refuses = true
					}
				}
			}
			key := fmt.Sprintf("%s/%s.%s", fx.Name, tn, st.Field(i).Name())
			if refuses {
				r.Fail("optional-refuses-nil:"+key, c.Pos(val.Pos()), fmt.Sprintf("%s.%s is optional (not in the required mask) and absent means nil, but %s.Validate() refuses a nil value: a valid document that leaves the member out is rejected", tn, st.Field(i).Name(), named.Obj().Name()))
			} else {
				r.Pass(fmt.Sprintf("%s: optional member of type %s may be nil for its validator", key, named.Obj().Name()))
			}
		}
	}
}

func isParamConv(v ssa.Value, p *ssa.Parameter, depth int) bool {
	if depth > 3 {
		return false
	}
	switch x := v.(type) {
	case *ssa.Parameter:
		return x == p
	case *ssa.ChangeType:
		return isParamConv(x.X, p, depth+1)
	case *ssa.Convert:
		return isParamConv(x.X, p, depth+1)
	}
	return false
}

func reflectTag(tag, key string) string {
	i := strings.Index(tag, key+`:"`)
	if i < 0 {
		return ""
	}
	rest := tag[i+len(key)+2:]
	j := strings.IndexByte(rest, '"')
	if j < 0 {
		return ""
	}
	v := rest[:j]
	if k := strings.IndexByte(v, ','); k >= 0 {
		v = v[:k]
	}
	return v
}

// checkInferenceScansAll: in the key callback of a sum Decode that infers the variant from unique members (the
// callback never reads a member's string value), no comparison of string(key) is dominated by a branch on the
// captured `found` flag.
func checkInferenceScansAll(c *core.Ctx, r *core.Rule, exp *core.Expansion, fx *core.Fixture, pkg *ssa.Package) {
	for n, m := range pkg.Members {
		tm, ok := m.(*ssa.Type)
		if !ok {
			continue
		}
		f := structFieldNames(tm.Type())
		if f == nil || f["Type"] == nil {
			continue
		}
		dec := lookupMethodSafe(exp.Prog, types.NewPointer(tm.Type()), pkg.Pkg, "Decode")
		if dec == nil || dec.Blocks == nil {
			continue
		}
		for _, g := range core.AllFuncs(dec) {
			if g == dec {
				continue
			}
			readsValue := false
			var keyCmps []*ssa.BinOp
			for _, b := range g.Blocks {
				for _, in := range b.Instrs {
					switch x := in.(type) {
					case *ssa.Call:
						if callee := x.Common().StaticCallee(); callee != nil && callee.Signature.Recv() != nil && strings.HasSuffix(callee.Signature.Recv().Type().String(), "jx.Decoder") {
							switch callee.Name() {
							case "Str", "StrBytes", "StrAppend":
								readsValue = true
							}
						}
					case *ssa.BinOp:
						if x.Op == token.EQL {
							if _, isKey := core.ConstString(x.Y); isKey {
								if cv, ok := x.X.(*ssa.Convert); ok && isByteSlice(cv.X.Type()) {
									keyCmps = append(keyCmps, x)
								}
							}
						}
					}
				}
			}
			if readsValue || len(keyCmps) == 0 {
				continue // discriminator by value, or not the key callback
			}
			bad := false
			for _, kc := range keyCmps {
				for d := kc.Block().Idom(); d != nil; d = d.Idom() {
					iff, ok := d.Instrs[len(d.Instrs)-1].(*ssa.If)
					if !ok {
						continue
					}
					if dependsOnFreeBool(iff.Cond, 0) {
						bad = true
					}
				}
			}
			key := fx.Name + "/" + n
			if bad {
				r.Fail("inference-stops-early:"+key, c.Pos(g.Pos()), fmt.Sprintf("%s.Decode stops looking at keys once one variant was found: a document that has the distinguishing members of two variants is accepted as the first", n))
			} else {
				r.Pass(fmt.Sprintf("%s: unique-member inference compares every key (%d key tests)", key, len(keyCmps)))
			}
		}
	}
}

func dependsOnFreeBool(v ssa.Value, depth int) bool {
	if depth > 4 {
		return false
	}
	switch x := v.(type) {
	case *ssa.UnOp:
		if x.Op == token.MUL {
			if fv, ok := x.X.(*ssa.FreeVar); ok {
				if p, ok := fv.Type().Underlying().(*types.Pointer); ok {
					if b, ok := p.Elem().Underlying().(*types.Basic); ok && b.Kind() == types.Bool {
						return true
					}
				}
			}
			return false
		}
		return dependsOnFreeBool(x.X, depth+1)
	case *ssa.BinOp:
		return dependsOnFreeBool(x.X, depth+1) || dependsOnFreeBool(x.Y, depth+1)
	}
	return false
}
