package rules

import (
	"encoding/json"
	"fmt"
	"go/ast"
	"go/token"
	"go/types"
	"os"
	"path/filepath"
	"regexp"
	"sort"
	"strings"
	"text/template/parse"

	"golang.org/x/tools/go/ssa"

	"ogenverif/internal/core"
	"ogenverif/internal/effects"
	"ogenverif/internal/tmpl"
)

func init() {
	register(&Property{
		ID: "C10",
		Meta: core.Meta{
			Level: "other",
			Explanation: "No map-iteration order can reach the generated files and the concurrent template phase writes no shared state — statements about all iteration orders and all schedules. " +
				"(R10.1) map-order lint over the generator path (ogen, gen, gen/ir, gen/genfs, openapi, openapi/parser, jsonschema, jsonpointer, location, internal helpers): every `range` over a map is classified on SSA by the effects of its body (engine E8 on top of the who-may-write summaries of E9): writes into maps, element-local mutation, commutative accumulation, constant flags, append-then-sort, error/constant returns are order-insensitive; any other effect that can leave the loop must be in the reviewed exception table or it is a violation; " +
				"(R10.2) templates only read: every method of the IR / TemplateConfig types whose name occurs in a template selector, and every FuncMap function, has an empty who-may-write summary (no store through its receiver, arguments or globals, transitively), and the goroutine bodies spawned by WriteSource store to no captured variable except their own result; " +
				"(R10.3) package-level variables of the generator path are written only at initialisation, and a pooled buffer is Reset before use; " +
				"(R10.4) every sort whose comparator is not a plain total order on the elements (sort.Sort / sort.Slice / slices.SortFunc, stable variants on map-derived input) is enumerated and must be in the reviewed table with the reason its key is unique. " +
				"NOT decided: nondeterminism inside dependencies (imports.Process, yaml), and byte-identity itself.",
			Assumptions: []string{"maps written in a loop receive at most one value per key, or the same value (insert-only caches: the cache-key rule is checked under C07/R07.3)", "text/template ranges over maps in sorted key order"},
			TrustedBase: []string{"tables/maporder_exceptions.json (reviewed reasons)", "E9 address-root approximation of aliasing"},
		},
		Run: runC10,
	})
}

var c10Pkgs = []string{".", "./gen", "./gen/ir", "./gen/genfs", "./openapi", "./openapi/parser", "./jsonschema", "./jsonpointer", "./location",
	"./internal/xmaps", "./internal/xslices", "./internal/naming", "./internal/bitset", "./internal/jsonmeta", "./internal/urlpath"}

type orderExc struct {
	Key    string `json:"key"`
	Reason string `json:"reason"`
	// Order is required for sort: entries. "unique-key": two distinct elements never compare equal, so the
	// sort erases the input order and may follow a map range. "input-order": ties are possible, the entry's
	// reason explains why the input order is deterministic — such a sort does not sanitise map-derived input.
	Order string `json:"order,omitempty"`
	// Effects is the reviewed set of order-sensitive-looking effects of a range site (normalised, without
	// positions). The exception excuses exactly these: a body that grows a new kind of effect is reported.
	Effects []string `json:"effects,omitempty"`
}

// excEffects[key] = reviewed effect fingerprints of range-site exceptions.
var excEffects = map[string]map[string]bool{}

// commutativeCallees: functions whose effects on their receiver are reviewed to be independent of the order of
// calls (keyed set inserts): an effect that happens inside one of them does not make a loop order-sensitive, at
// whatever site the loop stands.
var commutativeCallees = map[string]string{}

// sortClass[key] for the sort: entries of the table.
var sortClass = map[string]string{}

func loadOrderExceptions(verif string) (map[string]string, error) {
	b, err := os.ReadFile(filepath.Join(verif, "tables", "maporder_exceptions.json"))
	if err != nil {
		return nil, err
	}
	var t struct {
		Entries     []orderExc `json:"entries"`
		Commutative []struct {
			Func   string `json:"func"`
			Reason string `json:"reason"`
		} `json:"commutative_callees"`
	}
	if err := json.Unmarshal(b, &t); err != nil {
		return nil, err
	}
	commutativeCallees = map[string]string{}
	for _, cc := range t.Commutative {
		if strings.TrimSpace(cc.Reason) == "" {
			return nil, fmt.Errorf("maporder_exceptions.json: commutative callee %q has no reason", cc.Func)
		}
		commutativeCallees[cc.Func] = cc.Reason
	}
	out := map[string]string{}
	for _, e := range t.Entries {
		if strings.TrimSpace(e.Reason) == "" {
			return nil, fmt.Errorf("maporder_exceptions.json: entry %q has no reason", e.Key)
		}
		out[e.Key] = e.Reason
		if len(e.Effects) > 0 {
			m := map[string]bool{}
			for _, x := range e.Effects {
				m[effectFingerprint(x)] = true
			}
			excEffects[e.Key] = m
		}
		if strings.HasPrefix(e.Key, "sort:") {
			if e.Order != "unique-key" && e.Order != "input-order" {
				return nil, fmt.Errorf("maporder_exceptions.json: sort entry %q needs order = unique-key | input-order", e.Key)
			}
			sortClass[e.Key] = e.Order
		}
	}
	return out, nil
}

var sortFuncs = map[string]bool{
	"slices.Sort": true, "slices.SortFunc": true, "slices.SortStableFunc": true, "sort.Strings": true, "sort.Ints": true,
	"sort.Slice": true, "sort.SliceStable": true, "sort.Sort": true, "sort.Stable": true,
}

func runC10(c *core.Ctx) error {
	var existing []string
	for _, p := range c10Pkgs {
		if _, err := c.Load(p); err == nil {
			existing = append(existing, p)
		}
	}
	prog, err := c.Program(existing...)
	if err != nil {
		return err
	}
	scopePaths := map[string]bool{}
	for _, p := range prog.Pkgs {
		scopePaths[p.PkgPath] = true
	}
	inScope := func(f *ssa.Function) bool { return scopePaths[core.FuncPkgPath(f)] }
	an := effects.Analyze(prog, inScope)
	exc, err := loadOrderExceptions(c.VerifDir)
	if err != nil {
		return err
	}
	used := map[string]bool{}

	r1 := c.NewRule("R10.1", "S1", "every range over a map in the generator path is order-insensitive", 60)
	r2 := c.NewRule("R10.2", "S1", "functions callable from templates write nothing; WriteSource goroutines write no shared variable", 100)
	r3 := c.NewRule("R10.3", "S1", "package-level state of the generator path written only at initialisation; pooled buffers reset", 10)
	r4 := c.NewRule("R10.4", "S1", "comparator sorts have unique keys (reviewed)", 3)

	// sort wrappers: functions that hand one of their parameters straight to a comparator sort
	c10prog = prog
	sortWrappers = map[*ssa.Function]string{}
	for f := range an.Sum {
		if !inScope(f) {
			continue
		}
		for _, call := range core.Calls(f) {
			name := core.CalleeName(call.Common())
			if !comparatorSorts[name] && !totalSorts[name] {
				continue
			}
			if len(call.Common().Args) == 0 {
				continue
			}
			if _, ok := stripSliceConv(call.Common().Args[0]).(*ssa.Parameter); !ok {
				continue
			}
			if totalSorts[name] {
				sortWrappers[f] = "total"
			} else {
				sortWrappers[f] = sortKey(f, call.Common())
			}
		}
	}

	// the ranged expression as written, for stable site keys
	rangeExpr := map[token.Pos]string{}
	for _, p := range prog.Pkgs {
		for _, f := range p.Syntax {
			ast.Inspect(f, func(n ast.Node) bool {
				if rs, ok := n.(*ast.RangeStmt); ok {
					rangeExpr[rs.For] = types.ExprString(rs.X)
				}
				return true
			})
		}
	}

	// ---- R10.1
	var fns []*ssa.Function
	for f := range an.Sum {
		fns = append(fns, f)
	}
	sort.Slice(fns, func(i, j int) bool {
		if fns[i].Pos() != fns[j].Pos() {
			return fns[i].Pos() < fns[j].Pos()
		}
		return fns[i].String() < fns[j].String()
	})
	allRangeKeys := map[string]bool{}
	for _, fn := range fns {
		if !inScope(fn) {
			continue
		}
		ordOf := map[string]int{}
		for _, b := range fn.Blocks {
			for _, in := range b.Instrs {
				rg, ok := in.(*ssa.Range)
				if !ok {
					continue
				}
				if _, isMap := rg.X.Type().Underlying().(*types.Map); !isMap {
					continue
				}
				xs := rangeExpr[rg.Pos()]
				if xs == "" {
					xs = "?"
				}
				base := fmt.Sprintf("%s:range %s", fnKeyFull(fn), xs)
				allRangeKeys[fmt.Sprintf("%s#%d", base, ordOf[base])] = true
				ordOf[base]++
			}
		}
	}
	for _, fn := range fns {
		if !inScope(fn) {
			continue
		}
		ordOf := map[string]int{}
		for _, b := range fn.Blocks {
			for _, in := range b.Instrs {
				rg, ok := in.(*ssa.Range)
				if !ok {
					continue
				}
				if _, isMap := rg.X.Type().Underlying().(*types.Map); !isMap {
					continue
				}
				xs := rangeExpr[rg.Pos()]
				if xs == "" {
					xs = "?"
				}
				base := fmt.Sprintf("%s:range %s", fnKeyFull(fn), xs)
				key := fmt.Sprintf("%s#%d", base, ordOf[base])
				ordOf[base]++
				problems := classifyMapRange(c, an, fn, rg)
				if len(problems) > 0 && len(commutativeCallees) > 0 {
					kept := problems[:0:0]
					for _, p := range problems {
						comm := false
						for f := range commutativeCallees {
							if strings.Contains(p.what, "(in "+f+")") {
								comm = true
							}
						}
						if !comm {
							kept = append(kept, p)
						}
					}
					if len(kept) == 0 {
						r1.Justified++
						r1.Pass(fmt.Sprintf("%s at %s: the only order-sensitive-looking effects happen inside reviewed commutative callees", key, c.Pos(core.InstrPos(rg))))
						continue
					}
					problems = kept
				}
				if len(problems) > 0 && rangedMapHasOneEntry(rg) {
					r1.Pass(fmt.Sprintf("%s at %s: the map is tested to have exactly one entry before the loop (len == 1 on every path to it), there is one order", key, c.Pos(core.InstrPos(rg))))
					continue
				}
				if len(problems) == 0 {
					r1.Pass(fmt.Sprintf("%s at %s: body effects are order-insensitive", key, c.Pos(core.InstrPos(rg))))
					continue
				}
				// exceptions: the whole site, with one reason. A site inside a function literal whose number changed
				// (an unrelated literal was added or removed) is matched by the entry that differs in closure numbers
				// only, provided that entry's own site does not exist in this run.
				if _, ok := exc[key]; !ok && closureNumRe.MatchString(key) {
					nk := closureNumRe.ReplaceAllString(key, "$$")
					cand := ""
					for ek := range exc {
						if closureNumRe.ReplaceAllString(ek, "$$") != nk || allRangeKeys[ek] {
							continue
						}
						if cand != "" {
							cand = "?"
							break
						}
						cand = ek
					}
					if cand != "" && cand != "?" {
						exc[key] = exc[cand]
						excEffects[key] = excEffects[cand]
						used[cand] = true
					}
				}
				if why, ok := exc[key]; ok {
					used[key] = true
					var fresh []orderProblem
					for _, p := range problems {
						if !excEffects[key][effectFingerprint(p.what)] {
							fresh = append(fresh, p)
						}
					}
					if os.Getenv("OGENVERIF_TRACE") != "" {
						for _, p := range problems {
							fmt.Fprintf(os.Stderr, "EFFECT\t%s\t%s\n", key, effectFingerprint(p.what))
						}
					}
					if len(fresh) == 0 {
						r1.Justified++
						r1.Pass(fmt.Sprintf("%s at %s: %d order-sensitive-looking effects, all reviewed: %s", key, c.Pos(core.InstrPos(rg)), len(problems), why))
						continue
					}
					for i, p := range fresh {
						if i >= 3 {
							break
						}
						r1.Fail(key, c.Pos(p.pos), fmt.Sprintf("iteration over a map (%s) is in the reviewed table, but its body now has an effect the review did not cover: %s", c.Pos(core.InstrPos(rg)), p.what))
					}
					continue
				}
				for i, p := range problems {
					if i >= 3 {
						break
					}
					r1.Fail(key, c.Pos(p.pos), fmt.Sprintf("iteration over a map (%s) has an effect that depends on iteration order: %s", c.Pos(core.InstrPos(rg)), p.what))
				}
			}
		}
	}
	// maps.Keys / maps.Values hand back the map's elements in iteration order: the slice is as good as a range
	// over the map and must be sorted (by a call in the same function) before anything else looks at it
	for _, fn := range fns {
		if !inScope(fn) {
			continue
		}
		for _, call := range core.Calls(fn) {
			name := core.CalleeName(call.Common())
			if !(strings.HasPrefix(name, "golang.org/x/exp/maps.Keys") || strings.HasPrefix(name, "golang.org/x/exp/maps.Values") ||
				strings.HasPrefix(name, "maps.Keys") || strings.HasPrefix(name, "maps.Values") || strings.HasPrefix(name, "maps.All")) {
				continue
			}
			cv, ok := call.(*ssa.Call)
			if !ok {
				continue
			}
			key := fmt.Sprintf("%s:%s", fnKeyFull(fn), name[strings.LastIndex(name, "/")+1:])
			sorted := false
			var visit func(v ssa.Value, d int)
			seenV := map[ssa.Value]bool{}
			visit = func(v ssa.Value, d int) {
				if d > 4 || seenV[v] || v.Referrers() == nil {
					return
				}
				seenV[v] = true
				for _, ref := range *v.Referrers() {
					switch x := ref.(type) {
					case ssa.CallInstruction:
						n := core.CalleeName(x.Common())
						if sortFuncs[strings.SplitN(n, "[", 2)[0]] || strings.HasPrefix(n, "slices.Sorted") {
							sorted = true
						}
						if strings.HasPrefix(n, "slices.Collect") {
							if xv, ok := x.(*ssa.Call); ok {
								visit(xv, d+1)
							}
						}
					case *ssa.Store:
						// through a local variable
						if al, ok := x.Addr.(*ssa.Alloc); ok {
							for _, r2 := range *al.Referrers() {
								if ld, ok := r2.(*ssa.UnOp); ok && ld.Op == token.MUL {
									visit(ld, d+1)
								}
							}
						}
					case *ssa.ChangeType:
						visit(x, d+1)
					case *ssa.Slice:
						visit(x, d+1)
					case *ssa.MakeInterface:
						visit(x, d+1)
					}
				}
			}
			visit(cv, 0)
			if sorted {
				r1.Pass(fmt.Sprintf("%s at %s: the keys / values slice is sorted in the same function", key, c.Pos(call.Pos())))
			} else {
				r1.Fail(key, c.Pos(call.Pos()), fmt.Sprintf("%s returns the map's elements in iteration order and the result is not sorted in %s: whatever is derived from its order (indexes assigned by first appearance, emitted lists) differs between runs", name, fn.Name()))
			}
		}
	}
	for k := range exc {
		if !used[k] && !strings.HasPrefix(k, "sort:") && !strings.HasPrefix(k, "template-write:") {
			r1.Note("unused exception entry: %s", k)
		}
	}

	// ---- R10.2
	checkTemplatesOnlyRead(c, r2, prog, an, exc)
	checkWriteSourceGoroutines(c, r2, prog)

	// ---- R10.3
	for _, p := range prog.Pkgs {
		checkGlobalWrites(c, r3, prog, p.PkgPath, core.ShortPkg(p.PkgPath))
	}
	for _, p := range prog.Pkgs {
		checkGlobalRefEscapeOpt(c, r3, prog, p.PkgPath, core.ShortPkg(p.PkgPath), true)
		checkGlobalMethodCalls(c, r3, prog, p.PkgPath, core.ShortPkg(p.PkgPath))
	}
	checkBufferReset(c, r3, prog)
	checkGlobalMutationDeep(c, r3, prog, an, inScope)

	// ---- R10.4
	for _, fn := range fns {
		if !inScope(fn) {
			continue
		}
		for _, call := range core.Calls(fn) {
			name := core.CalleeName(call.Common())
			switch name {
			case "sort.Sort", "sort.Slice", "slices.SortFunc", "sort.Stable", "sort.SliceStable", "slices.SortStableFunc":
			default:
				continue
			}
			key := sortKey(fn, call.Common())
			if why, ok := exc[key]; ok {
				r4.Justified++
				r4.Pass(fmt.Sprintf("%s at %s: %s", key, c.Pos(call.Pos()), why))
			} else {
				r4.Fail(key, c.Pos(call.Pos()), fmt.Sprintf("%s with a comparator: if two elements can compare equal, their output order depends on the input order (map-derived) or is unspecified (unstable sort); not in the reviewed table", name))
			}
		}
	}
	return nil
}

func fnKeyFull(fn *ssa.Function) string {
	return core.ShortPkg(core.FuncPkgPath(fn)) + "." + fnKey(fn) + closureSuffix(fn)
}

func closureSuffix(fn *ssa.Function) string {
	if fn.Parent() == nil {
		return ""
	}
	// index among the parent's anonymous functions
	for i, a := range fn.Parent().AnonFuncs {
		if a == fn {
			return fmt.Sprintf("%d", i+1)
		}
	}
	return "?"
}

type orderProblem struct {
	pos  token.Pos
	what string
}

// classifyMapRange returns the effects of the loop body that may depend on
// the iteration order.
// rangedMapHasOneEntry: the range instruction is dominated by the edge of a test `len(m) == 1` / `len(m) != 1` on
// which the length is one, for the same map value m (same SSA value, or a reload of the same field path with no call
// in between that could have changed it is not attempted: identity or structural equality only).
func rangedMapHasOneEntry(rg *ssa.Range) bool {
	fn := rg.Parent()
	for _, b := range fn.Blocks {
		for _, in := range b.Instrs {
			bo, ok := in.(*ssa.BinOp)
			if !ok || (bo.Op != token.EQL && bo.Op != token.NEQ) {
				continue
			}
			k, isC := core.ConstInt(bo.Y)
			lc, isCall := bo.X.(*ssa.Call)
			if !isC || !isCall || k != 1 {
				continue
			}
			bi, isB := lc.Common().Value.(*ssa.Builtin)
			if !isB || bi.Name() != "len" || len(lc.Common().Args) != 1 {
				continue
			}
			m := lc.Common().Args[0]
			if m != rg.X && !sameFieldLoadDeep(m, rg.X) {
				continue
			}
			for _, eb := range core.EdgeBlocks(bo, bo.Op == token.EQL) {
				if eb == rg.Block() || eb.Dominates(rg.Block()) {
					return true
				}
			}
		}
	}
	return false
}

// sameFieldLoadDeep: two loads of the same field chain rooted at the same value (cfg.Error.Contents read twice).
func sameFieldLoadDeep(a, b ssa.Value) bool {
	la, ok1 := a.(*ssa.UnOp)
	lb, ok2 := b.(*ssa.UnOp)
	if !ok1 || !ok2 || la.Op != token.MUL || lb.Op != token.MUL {
		return false
	}
	fa, ok1 := la.X.(*ssa.FieldAddr)
	fb, ok2 := lb.X.(*ssa.FieldAddr)
	if !ok1 || !ok2 || fa.Field != fb.Field {
		return false
	}
	return fa.X == fb.X || sameFieldLoadDeep(fa.X, fb.X)
}

func classifyMapRange(c *core.Ctx, an *effects.Analysis, fn *ssa.Function, rg *ssa.Range) []orderProblem {
	var next *ssa.Next
	for _, ref := range *rg.Referrers() {
		if n, ok := ref.(*ssa.Next); ok {
			next = n
		}
	}
	if next == nil {
		return nil
	}
	var okVal ssa.Value
	for _, ref := range *next.Referrers() {
		if ex, ok := ref.(*ssa.Extract); ok && ex.Index == 0 {
			okVal = ex
		}
	}
	if okVal == nil {
		return nil
	}
	var bodyEntry *ssa.BasicBlock
	for _, ref := range *okVal.Referrers() {
		if iff, ok := ref.(*ssa.If); ok {
			bodyEntry = iff.Block().Succs[0]
		}
	}
	if bodyEntry == nil {
		return nil
	}
	inBody := func(b *ssa.BasicBlock) bool { return b != nil && bodyEntry.Dominates(b) }

	// classify an address / reference: element, body-local, or outer root
	type cls int
	const (
		clsLocal cls = iota
		clsElement
		clsOuter
	)
	phiSeen := map[*ssa.Phi]bool{}
	var classify func(v ssa.Value, depth int) (cls, ssa.Value)
	cellSeen := map[*ssa.Alloc]bool{}
	cellContent := func(al *ssa.Alloc, depth int) (cls, ssa.Value) {
		worst, wv := clsLocal, ssa.Value(al)
		if cellSeen[al] {
			return worst, wv
		}
		cellSeen[al] = true
		defer delete(cellSeen, al)
		for _, ref := range *al.Referrers() {
			if st, ok := ref.(*ssa.Store); ok && st.Addr == ssa.Value(al) {
				if k, r := classify(st.Val, depth+1); k > worst {
					worst, wv = k, r
				}
			}
		}
		return worst, wv
	}
	classify = func(v ssa.Value, depth int) (cls, ssa.Value) {
		if depth == 0 {
			phiSeen = map[*ssa.Phi]bool{}
		}
		for depth < 64 {
			depth++
			switch x := v.(type) {
			case *ssa.Extract:
				if x.Tuple == ssa.Value(next) {
					return clsElement, x
				}
				v = x.Tuple
			case *ssa.Alloc:
				if inBody(x.Block()) {
					return clsLocal, x
				}
				return clsOuter, x
			case *ssa.MakeMap, *ssa.MakeSlice, *ssa.MakeClosure, *ssa.Const, *ssa.Function, *ssa.MakeChan:
				if in, ok := v.(ssa.Instruction); ok && in.Block() != nil && !inBody(in.Block()) {
					return clsOuter, v
				}
				return clsLocal, v
			case *ssa.Call:
				if inBody(x.Block()) {
					return clsLocal, x // fresh value produced inside the body
				}
				return clsOuter, x
			case *ssa.FieldAddr:
				v = x.X
			case *ssa.IndexAddr:
				v = x.X
			case *ssa.Field:
				v = x.X
			case *ssa.Index:
				v = x.X
			case *ssa.Slice:
				v = x.X
			case *ssa.UnOp:
				if x.Op != token.MUL {
					return clsLocal, x
				}
				// a reference loaded out of a body-local variable cell (a per-iteration copy captured by a
				// closure): what is written through it is what the cell refers to
				if al, ok := x.X.(*ssa.Alloc); ok && inBody(al.Block()) && isRefLike(x.Type()) {
					return cellContent(al, depth)
				}
				v = x.X
			case *ssa.ChangeType:
				v = x.X
			case *ssa.ChangeInterface:
				v = x.X
			case *ssa.MakeInterface:
				v = x.X
			case *ssa.Convert:
				v = x.X
			case *ssa.Lookup:
				v = x.X
			case *ssa.TypeAssert:
				v = x.X
			case *ssa.Phi:
				worst, wv := clsLocal, ssa.Value(x)
				if phiSeen[x] {
					return worst, wv
				}
				phiSeen[x] = true
				for _, e := range x.Edges {
					if k, r := classify(e, depth); k > worst {
						worst, wv = k, r
					}
				}
				return worst, wv
			case *ssa.BinOp:
				return clsLocal, x
			default:
				return clsOuter, v
			}
		}
		return clsOuter, v
	}

	// the element root is the map VALUE (not the key) and it is a reference: objects may be shared between keys
	sharedElem := func(root ssa.Value) bool {
		ex, ok := root.(*ssa.Extract)
		return ok && ex.Tuple == ssa.Value(next) && ex.Index == 2 && isRefLike(ex.Type())
	}
	sortedLaterAddr := func(addr ssa.Value) bool {
		for _, b := range fn.Blocks {
			if inBody(b) {
				continue
			}
			for _, in := range b.Instrs {
				call, ok := in.(ssa.CallInstruction)
				if !ok || !sanitisingSort(fn, call) {
					continue
				}
				for _, a := range call.Common().Args {
					x := a
					for i := 0; i < 6; i++ {
						switch y := x.(type) {
						case *ssa.Slice:
							x = y.X
							continue
						case *ssa.MakeInterface:
							x = y.X
							continue
						case *ssa.ChangeType:
							x = y.X
							continue
						case *ssa.Convert:
							x = y.X
							continue
						}
						break
					}
					if ld, ok := x.(*ssa.UnOp); ok && ld.Op == token.MUL && sameAddr(ld.X, addr) {
						return true
					}
				}
			}
		}
		return false
	}
	sortedLater := func(al ssa.Value) bool {
		// a sort call outside the body whose argument is (a slice of) a load of al
		for _, b := range fn.Blocks {
			if inBody(b) {
				continue
			}
			for _, in := range b.Instrs {
				call, ok := in.(ssa.CallInstruction)
				if !ok || !sanitisingSort(fn, call) {
					continue
				}
				for _, a := range call.Common().Args {
					x := a
					for i := 0; i < 6; i++ {
						switch y := x.(type) {
						case *ssa.Slice:
							x = y.X
							continue
						case *ssa.MakeInterface:
							x = y.X
							continue
						case *ssa.ChangeType:
							x = y.X
							continue
						case *ssa.Convert:
							x = y.X
							continue
						}
						break
					}
					if ld, ok := x.(*ssa.UnOp); ok && ld.Op == token.MUL && ld.X == al {
						return true
					}
					if x == al {
						return true
					}
				}
			}
		}
		return false
	}

	var probs []orderProblem
	add := func(pos token.Pos, format string, a ...any) {
		probs = append(probs, orderProblem{pos, fmt.Sprintf(format, a...)})
	}
	// blocks of the body, plus closures created in the body are handled through call summaries
	for _, b := range fn.Blocks {
		if !inBody(b) {
			continue
		}
		for _, in := range b.Instrs {
			switch x := in.(type) {
			case *ssa.Store:
				k, root := classify(x.Addr, 0)
				if k == clsElement && sharedElem(root) && x.Addr != root && !isConstLike(x.Val) {
					add(core.InstrPos(x), "element-pointee: store through the map value (a reference): two keys that hold the same object see each other's writes, so which write comes first depends on the order")
				}
				if k != clsOuter {
					continue
				}
				// outer variable / outer object field
				al, isAlloc := root.(*ssa.Alloc)
				val := x.Val
				// diagnostics: an error value stored into an error-typed variable (which error is reported
				// first is not generation output)
				if isAlloc && x.Addr == ssa.Value(al) && core.IsErrorType(al.Type().(*types.Pointer).Elem()) {
					continue
				}
				// `return a, b` in a function with named results and a defer is spilled into stores to the result
				// variables followed by a jump to the exit block: treat it as the return it is
				if isAlloc && x.Addr == ssa.Value(al) && isSpilledReturnBlock(x.Block(), fn) {
					if spilledReturnIsDiagnostic(x.Block(), fn) || isConstLike(val) {
						continue
					}
				}
				switch {
				case isConstLike(val):
					continue // idempotent flag / constant
				case isCommutativeUpdate(val, x.Addr):
					continue
				case isAppendTo(val, x.Addr):
					if isAlloc && sortedLater(al) {
						continue
					}
					if sortedLaterAddr(x.Addr) {
						continue
					}
					// a field of an outer object (x.items = append(x.items, …)): needs a later sort we cannot see
					add(core.InstrPos(x), "append to %s, which is not sorted afterwards in %s", describeRoot(root), fn.Name())
				default:
					if !isAlloc {
						// store into a field of an outer object that is not the element
						add(core.InstrPos(x), "assignment to %s (last writer wins)", describeRoot(root))
						continue
					}
					// plain outer variable overwritten per element: harmless only if the variable is dead after the loop
					if usedOutsideBody(al, inBody) {
						add(core.InstrPos(x), "assignment to outer variable %s that is read after the loop (last / first element wins)", al.Comment)
					}
				}
			case *ssa.MapUpdate:
				// insertion into any map: order-insensitive under the single-value-per-key assumption
				if k, root := classify(x.Map, 0); k == clsElement && sharedElem(root) && x.Map != root {
					add(core.InstrPos(x), "element-pointee: map insert through the map value (a reference): two keys that hold the same object see each other's writes, so which write comes first depends on the order")
				}
				continue
			case *ssa.Send, *ssa.Go, *ssa.Defer:
				add(core.InstrPos(x), "%T inside the loop body", x)
			case *ssa.Return:
				// error returns and constant returns are order-insensitive
				okRet := true
				for i, res := range x.Results {
					t := fn.Signature.Results().At(i).Type()
					if core.IsErrorType(t) {
						continue
					}
					if isConstLike(res) {
						continue
					}
					if k, _ := classify(res, 0); k == clsElement || k == clsLocal {
						// returns something derived from the current element: first match wins — fine only when
						// an error is returned alongside (diagnostic), i.e. some error result is non-nil
						nonNilErr := false
						for j, r2 := range x.Results {
							if core.IsErrorType(fn.Signature.Results().At(j).Type()) && !core.IsNilConst(r2) {
								nonNilErr = true
							}
						}
						if !nonNilErr {
							okRet = false
						}
					}
				}
				if !okRet {
					add(core.InstrPos(x), "returns a value derived from the current element (the first element that matches wins)")
				}
			case ssa.CallInstruction:
				if _, isCall := in.(*ssa.Call); !isCall {
					continue
				}
				for _, ce := range an.CalleeEffects(x) {
					if ce.Effect.Kind == "append" {
						continue // the result's fate is judged where it is stored
					}
					if ce.On != nil {
						k, root := classify(ce.On, 0)
						if al, ok := ce.On.(*ssa.Alloc); ok && ce.Effect.Root == effects.Free && ce.Effect.Deep && inBody(al.Block()) {
							k, root = cellContent(al, 1)
						}
						if k == clsElement && sharedElem(root) {
							add(core.InstrPos(x), "element-pointee: call of %s performs a %s through the map value (a reference): two keys that hold the same object see each other's writes, so which write comes first depends on the order", core.CalleeName(x.Common()), ce.Effect.String())
						}
					}
					if ce.Effect.Kind == "mapinsert" {
						continue
					}
					if ce.On != nil {
						k, _ := classify(ce.On, 0)
						if al, ok := ce.On.(*ssa.Alloc); ok && ce.Effect.Root == effects.Free && ce.Effect.Deep && inBody(al.Block()) {
							k, _ = cellContent(al, 1)
						}
						if k != clsOuter {
							continue
						}
						add(core.InstrPos(x), "call of %s performs a %s", core.CalleeName(x.Common()), ce.Effect.String())
						continue
					}
					if ce.Effect.Root == effects.Global || ce.Effect.Root == effects.Unknown {
						add(core.InstrPos(x), "call of %s performs a %s", core.CalleeName(x.Common()), ce.Effect.String())
					}
				}
			}
		}
	}

	// ---- loop-carried SSA values. A local variable that is not address-taken has no Store: its per-element
	// update is a phi in the loop header with a back edge from the body.
	head := next.Block()
	for _, in := range head.Instrs {
		phi, ok := in.(*ssa.Phi)
		if !ok {
			break
		}
		var upd []ssa.Value
		for i, e := range phi.Edges {
			if inBody(head.Preds[i]) && e != ssa.Value(phi) {
				upd = append(upd, e)
			}
		}
		if len(upd) == 0 {
			continue
		}
		kind, chain := carriedKind(phi, upd, inBody)
		name := phi.Comment
		if name == "" {
			name = phi.Name()
		}
		// uses of the carried value inside the body other than its own update observe "how far the loop got"
		observed := token.NoPos
		for v := range chain {
			for _, ref := range *v.Referrers() {
				rv, isVal := ref.(ssa.Value)
				if isVal && chain[rv] {
					continue
				}
				if !inBody(ref.Block()) {
					continue
				}
				if _, isDbg := ref.(*ssa.DebugRef); isDbg {
					continue
				}
				if kind == "append" {
					if call, ok := ref.(*ssa.Call); ok {
						if b, ok := call.Common().Value.(*ssa.Builtin); ok && (b.Name() == "len" || b.Name() == "cap") {
							observed = core.InstrPos(ref)
						}
					}
					continue // reading elements appended so far is caught by its own effects
				}
				observed = core.InstrPos(ref)
			}
		}
		switch kind {
		case "lazyinit":
			// the container is allocated once; what is put into it is judged by the insert's own effect
		case "flag", "commutative":
			if observed != token.NoPos {
				add(observed, "loop-carried variable %s is read inside the body (its value depends on how many elements were visited before)", name)
			}
		case "append":
			if !sanitisedAfterLoop(fn, chain, inBody) {
				pos := core.InstrPos(phi)
				if iv, ok := upd[0].(ssa.Instruction); ok {
					pos = core.InstrPos(iv)
				}
				add(pos, "append to local %s in map order, and no order-erasing sort (total order, or reviewed unique-key comparator) precedes its other uses", name)
			}
		default:
			pos := core.InstrPos(phi)
			if iv, ok := upd[0].(ssa.Instruction); ok && iv.Pos() != token.NoPos {
				pos = core.InstrPos(iv)
			}
			if !liveOutside(chain, inBody, head) && observed == token.NoPos {
				continue
			}
			add(pos, "loop-carried variable %s is reassigned per element (last / first element wins)", name)
		}
	}
	// values that leave the loop through a break: phis outside the body with an edge from a body block
	for _, b := range fn.Blocks {
		if inBody(b) || b == head {
			continue
		}
		for _, in := range b.Instrs {
			phi, ok := in.(*ssa.Phi)
			if !ok {
				break
			}
			for i, e := range phi.Edges {
				if !inBody(b.Preds[i]) || isConstLike(e) {
					continue
				}
				ev, isInstr := e.(ssa.Instruction)
				if !isInstr || !(inBody(ev.Block()) || ev.Block() == head) {
					continue // defined before the loop
				}
				if hp, ok := e.(*ssa.Phi); ok && hp.Block() == head {
					continue // the carried variable itself: judged above
				}
				if k, _ := classify(e, 0); k == clsElement || k == clsLocal {
					if onlyDiagnosticUses(phi, fn) {
						continue
					}
					name := phi.Comment
					if name == "" {
						name = phi.Name()
					}
					add(core.InstrPos(ev), "value of %s chosen by the element that breaks out of the loop (first match wins)", name)
				}
			}
		}
	}
	// the loop mutates the map it ranges over while its decisions read that map
	mutPos := token.NoPos
	readsOtherwise := false
	sameMap := func(v ssa.Value) bool {
		if v == rg.X {
			return true
		}
		a, ok1 := v.(*ssa.UnOp)
		b, ok2 := rg.X.(*ssa.UnOp)
		return ok1 && ok2 && a.Op == token.MUL && b.Op == token.MUL && sameAddr(a.X, b.X)
	}
	var mapAddr ssa.Value
	if ld, ok := rg.X.(*ssa.UnOp); ok && ld.Op == token.MUL {
		mapAddr = ld.X
	}
	for _, b := range fn.Blocks {
		if !inBody(b) {
			continue
		}
		for _, in := range b.Instrs {
			switch x := in.(type) {
			case *ssa.MapUpdate:
				if ex, ok := x.Key.(*ssa.Extract); ok && ex.Tuple == ssa.Value(next) && ex.Index == 1 {
					continue // replaces the value of the current key: the key set is unchanged
				}
				if sameMap(x.Map) {
					mutPos = core.InstrPos(x)
				}
			case *ssa.Lookup:
				if sameMap(x.X) {
					readsOtherwise = true
				}
			case *ssa.Range:
				if sameMap(x.X) {
					readsOtherwise = true
				}
			case *ssa.Call:
				if bi, ok := x.Common().Value.(*ssa.Builtin); ok {
					if bi.Name() == "delete" && sameMap(x.Common().Args[0]) {
						mutPos = core.InstrPos(x)
					}
					if bi.Name() == "len" && sameMap(x.Common().Args[0]) {
						readsOtherwise = true
					}
					continue
				}
				for _, a := range x.Common().Args {
					if sameMap(a) {
						readsOtherwise = true
					}
				}
				if mc, ok := x.Common().Value.(*ssa.MakeClosure); ok && mapAddr != nil {
					for _, bnd := range mc.Bindings {
						if sameAddr(bnd, mapAddr) {
							readsOtherwise = true
						}
					}
				}
			}
		}
	}
	// a container the loop fills is also read in the body: what the read sees depends on which elements came before
	{
		type filled struct {
			m   ssa.Value
			pos token.Pos
		}
		var fills []filled
		for _, b := range fn.Blocks {
			if !inBody(b) {
				continue
			}
			for _, in := range b.Instrs {
				if mu, ok := in.(*ssa.MapUpdate); ok {
					if k, _ := classify(mu.Map, 0); k == clsOuter && !sameMap(mu.Map) {
						fills = append(fills, filled{mu.Map, core.InstrPos(mu)})
					}
				}
			}
		}
		reported := map[string]bool{}
		for _, f := range fills {
			alias := func(v ssa.Value) bool {
				if v == f.m {
					return true
				}
				a, ok1 := v.(*ssa.UnOp)
				b, ok2 := f.m.(*ssa.UnOp)
				if ok1 && ok2 && a.Op == token.MUL && b.Op == token.MUL && sameAddr(a.X, b.X) {
					return true
				}
				// both are members of one loop-carried chain (phi of the header / lazily allocated)
				pa, okA := v.(*ssa.Phi)
				pb, okB := f.m.(*ssa.Phi)
				if okA && okB && (phiFeeds(pa, pb) || phiFeeds(pb, pa)) {
					return true
				}
				return false
			}
			for _, b := range fn.Blocks {
				if !inBody(b) {
					continue
				}
				for _, in := range b.Instrs {
					what := ""
					switch x := in.(type) {
					case *ssa.Lookup:
						if alias(x.X) {
							what = "looked up"
						}
					case *ssa.Range:
						if alias(x.X) {
							what = "ranged over"
						}
					case *ssa.Call:
						if bi, ok := x.Common().Value.(*ssa.Builtin); ok {
							if bi.Name() == "len" && alias(x.Common().Args[0]) {
								what = "measured with len"
							}
							break
						}
						for _, a := range x.Common().Args {
							if alias(a) {
								what = "passed to " + core.CalleeName(x.Common())
							}
						}
					}
					if what != "" {
						key := fmt.Sprint(f.pos, what)
						if !reported[key] {
							reported[key] = true
							add(core.InstrPos(in), "a map filled by this loop (%s) is %s inside the body: the result depends on which elements were visited before", c.Pos(f.pos), what)
						}
					}
				}
			}
		}
	}
	if mutPos != token.NoPos && readsOtherwise {
		add(mutPos, "the loop inserts into / deletes from the map it ranges over while the body also reads that map: which entries survive depends on the visiting order")
	}
	return probs
}

// carriedKind classifies how a loop-carried phi is updated per element: the
// leaves of the update (through merging phis inside the body) are the phi itself
// (unchanged), one repeated constant (flag), a commutative accumulation, or an
// append. It returns the set of values that carry the variable.
func carriedKind(phi *ssa.Phi, upd []ssa.Value, inBody func(*ssa.BasicBlock) bool) (string, map[ssa.Value]bool) {
	chain := map[ssa.Value]bool{phi: true}
	kinds := map[string]bool{}
	var consts []*ssa.Const
	var visit func(v ssa.Value)
	visit = func(v ssa.Value) {
		if chain[v] {
			return
		}
		switch x := v.(type) {
		case *ssa.Phi:
			if inBody(x.Block()) {
				chain[x] = true
				for _, e := range x.Edges {
					visit(e)
				}
				return
			}
		case *ssa.Const:
			consts = append(consts, x)
			kinds["flag"] = true
			return
		case *ssa.MakeMap:
			// `if v == nil { v = make(map…) }`: idempotent lazy allocation
			if b := x.Block(); inBody(b) && len(b.Preds) == 1 {
				if iff, ok := b.Preds[0].Instrs[len(b.Preds[0].Instrs)-1].(*ssa.If); ok && b.Preds[0].Succs[0] == b {
					if cmp, ok := iff.Cond.(*ssa.BinOp); ok && cmp.Op == token.EQL && chain[cmp.X] && core.IsNilConst(cmp.Y) {
						chain[x] = true
						kinds["lazyinit"] = true
						return
					}
				}
			}
		case *ssa.BinOp:
			switch x.Op {
			case token.ADD, token.OR, token.AND, token.MUL, token.XOR:
				if b, ok := x.Type().Underlying().(*types.Basic); ok && b.Info()&(types.IsInteger|types.IsBoolean) != 0 {
					if chain[x.X] || chain[x.Y] || isChainPhi(x.X, chain, inBody) || isChainPhi(x.Y, chain, inBody) {
						chain[x] = true
						kinds["commutative"] = true
						if !chain[x.X] {
							visitOperand(x.X, chain, inBody)
						}
						if !chain[x.Y] {
							visitOperand(x.Y, chain, inBody)
						}
						return
					}
				}
			}
		case *ssa.Call:
			if b, ok := x.Common().Value.(*ssa.Builtin); ok && b.Name() == "append" {
				a0 := x.Common().Args[0]
				if !chain[a0] {
					visit(a0)
				}
				if chain[a0] {
					chain[x] = true
					kinds["append"] = true
					return
				}
			}
		}
		kinds["other"] = true
	}
	for _, u := range upd {
		visit(u)
	}
	for i := 1; i < len(consts); i++ {
		if consts[i].Value != consts[0].Value && (consts[i].Value == nil || consts[0].Value == nil || consts[i].Value.ExactString() != consts[0].Value.ExactString()) {
			kinds["other"] = true
		}
	}
	switch {
	case kinds["other"]:
		return "other", chain
	case kinds["lazyinit"]:
		if len(kinds) == 1 {
			return "lazyinit", chain
		}
		return "other", chain
	case kinds["append"] && !kinds["commutative"] && !kinds["flag"]:
		return "append", chain
	case kinds["append"]:
		return "other", chain
	case kinds["commutative"] && !kinds["flag"]:
		return "commutative", chain
	case kinds["commutative"]:
		return "other", chain
	default:
		return "flag", chain
	}
}

func isChainPhi(v ssa.Value, chain map[ssa.Value]bool, inBody func(*ssa.BasicBlock) bool) bool {
	p, ok := v.(*ssa.Phi)
	if !ok || !inBody(p.Block()) {
		return false
	}
	for _, e := range p.Edges {
		if !chain[e] {
			if q, ok := e.(*ssa.Phi); !ok || !isChainPhi(q, chain, inBody) {
				return false
			}
		}
	}
	chain[p] = true
	return true
}

func visitOperand(v ssa.Value, chain map[ssa.Value]bool, inBody func(*ssa.BasicBlock) bool) {}

// liveOutside: some member of the chain is used outside the body (other than by the header phi).
func liveOutside(chain map[ssa.Value]bool, inBody func(*ssa.BasicBlock) bool, head *ssa.BasicBlock) bool {
	for v := range chain {
		for _, ref := range *v.Referrers() {
			if rv, ok := ref.(ssa.Value); ok && chain[rv] {
				continue
			}
			if _, ok := ref.(*ssa.DebugRef); ok {
				continue
			}
			if !inBody(ref.Block()) {
				return true
			}
		}
	}
	return false
}

// sanitisedAfterLoop: every use outside the body of the accumulated slice (and of what is derived from it by
// further appends, slicing and merging) is an order-erasing sort, is dominated by one, or only asks for its length.
func sanitisedAfterLoop(fn *ssa.Function, chain map[ssa.Value]bool, inBody func(*ssa.BasicBlock) bool) bool {
	derived := map[ssa.Value]bool{}
	var work []ssa.Value
	for v := range chain {
		derived[v] = true
		work = append(work, v)
	}
	type use struct {
		in ssa.Instruction
	}
	var uses []ssa.Instruction
	var sorts []ssa.Instruction
	for len(work) > 0 {
		v := work[len(work)-1]
		work = work[:len(work)-1]
		for _, ref := range *v.Referrers() {
			if _, ok := ref.(*ssa.DebugRef); ok {
				continue
			}
			if inBody(ref.Block()) {
				continue
			}
			switch x := ref.(type) {
			case *ssa.Phi:
				if !derived[x] {
					derived[x] = true
					work = append(work, x)
				}
				continue
			case *ssa.Slice:
				if !derived[x] {
					derived[x] = true
					work = append(work, x)
				}
				continue
			case *ssa.ChangeType:
				if !derived[x] {
					derived[x] = true
					work = append(work, x)
				}
				continue
			case *ssa.MakeInterface:
				if !derived[x] {
					derived[x] = true
					work = append(work, x)
				}
				continue
			case *ssa.Call:
				if b, ok := x.Common().Value.(*ssa.Builtin); ok {
					switch b.Name() {
					case "append":
						if x.Common().Args[0] == v {
							if !derived[x] {
								derived[x] = true
								work = append(work, x)
							}
							continue
						}
					case "len", "cap":
						continue
					}
				}
				if sanitisingSort(fn, x) {
					sorts = append(sorts, x)
					continue
				}
			}
			uses = append(uses, ref)
		}
	}
	if len(sorts) == 0 {
		return false
	}
	for _, u := range uses {
		ok := false
		for _, s := range sorts {
			if s.Block() == u.Block() {
				for _, in := range s.Block().Instrs {
					if in == s {
						ok = true
						break
					}
					if in == u {
						break
					}
				}
			} else if s.Block().Dominates(u.Block()) {
				ok = true
			}
			if ok {
				break
			}
		}
		if !ok {
			return false
		}
	}
	return true
}

// onlyDiagnosticUses: the value only feeds a return that also carries a non-nil error, or an error/format call.
func onlyDiagnosticUses(v ssa.Value, fn *ssa.Function) bool {
	refs := v.Referrers()
	if refs == nil || len(*refs) == 0 {
		return true
	}
	for _, ref := range *refs {
		switch x := ref.(type) {
		case *ssa.DebugRef:
		case *ssa.Return:
			nonNil := false
			for j, r2 := range x.Results {
				if core.IsErrorType(fn.Signature.Results().At(j).Type()) && !core.IsNilConst(r2) {
					nonNil = true
				}
			}
			if !nonNil {
				return false
			}
		default:
			return false
		}
	}
	return true
}

func isRefLike(t types.Type) bool {
	switch t.Underlying().(type) {
	case *types.Pointer, *types.Slice, *types.Map, *types.Interface, *types.Chan, *types.Signature:
		return true
	}
	return false
}

func describeRoot(v ssa.Value) string {
	switch x := v.(type) {
	case *ssa.Alloc:
		return "variable " + x.Comment
	case *ssa.Parameter:
		return "an object reachable from parameter " + x.Name()
	case *ssa.FreeVar:
		return "captured variable " + x.Name()
	case *ssa.Global:
		return "package variable " + x.Name()
	}
	return strings.TrimSpace(v.String())
}

func isConstLike(v ssa.Value) bool {
	switch x := v.(type) {
	case *ssa.Const:
		return true
	case *ssa.MakeInterface:
		return isConstLike(x.X)
	case *ssa.Convert:
		return isConstLike(x.X)
	}
	return false
}

// isCommutativeUpdate: val = load(addr) op x with op ∈ {+,|,&,*,^} on numbers or booleans,
// or max/min style phi is not recognised.
func isCommutativeUpdate(val, addr ssa.Value) bool {
	bo, ok := val.(*ssa.BinOp)
	if !ok {
		return false
	}
	switch bo.Op {
	case token.ADD, token.OR, token.AND, token.MUL, token.XOR, token.LOR, token.LAND:
	default:
		return false
	}
	if b, ok := bo.Type().Underlying().(*types.Basic); !ok || b.Info()&(types.IsNumeric|types.IsBoolean) == 0 {
		return false
	}
	isLoad := func(v ssa.Value) bool {
		ld, ok := v.(*ssa.UnOp)
		return ok && ld.Op == token.MUL && sameAddr(ld.X, addr)
	}
	return isLoad(bo.X) || isLoad(bo.Y)
}

func sameAddr(a, b ssa.Value) bool {
	if a == b {
		return true
	}
	fa, ok1 := a.(*ssa.FieldAddr)
	fb, ok2 := b.(*ssa.FieldAddr)
	if ok1 && ok2 && fa.Field == fb.Field {
		return sameAddr(fa.X, fb.X) || samePtrLoad(fa.X, fb.X)
	}
	return false
}

func samePtrLoad(a, b ssa.Value) bool {
	la, ok1 := a.(*ssa.UnOp)
	lb, ok2 := b.(*ssa.UnOp)
	return ok1 && ok2 && la.Op == token.MUL && lb.Op == token.MUL && la.X == lb.X
}

// isAppendTo: val = append(load(addr), …).
func isAppendTo(val, addr ssa.Value) bool {
	call, ok := val.(*ssa.Call)
	if !ok {
		return false
	}
	b, ok := call.Common().Value.(*ssa.Builtin)
	if !ok || b.Name() != "append" {
		return false
	}
	ld, ok := call.Common().Args[0].(*ssa.UnOp)
	return ok && ld.Op == token.MUL && sameAddr(ld.X, addr)
}

func usedOutsideBody(al *ssa.Alloc, inBody func(*ssa.BasicBlock) bool) bool {
	for _, ref := range *al.Referrers() {
		if ld, ok := ref.(*ssa.UnOp); ok && ld.Op == token.MUL && !inBody(ld.Block()) {
			return true
		}
		if _, ok := ref.(*ssa.MakeClosure); ok {
			return true
		}
	}
	return false
}

// checkTemplatesOnlyRead implements R10.2.
func checkTemplatesOnlyRead(c *core.Ctx, r *core.Rule, prog *core.Prog, an *effects.Analysis, exc map[string]string) {
	ts, err := tmpl.Load(c.Repo)
	if err != nil {
		r.Undecided("load:templates", "-", err.Error())
		return
	}
	// names[id] = set of argument counts the selector is invoked with. text/template calls a method only
	// with exactly the arguments written after it (plus the piped value), so a method whose parameter count
	// is never written cannot be invoked by any template (it would be an execution error, which the
	// generator's own tests would hit).
	names := map[string]map[int]bool{}
	funcs := map[string]bool{}
	note := func(ids []string, lastArgs []int) {
		for i, id := range ids {
			if names[id] == nil {
				names[id] = map[int]bool{}
			}
			if i == len(ids)-1 {
				for _, a := range lastArgs {
					names[id][a] = true
				}
			} else {
				names[id][0] = true
			}
		}
	}
	idsOf := func(n parse.Node) []string {
		switch x := n.(type) {
		case *parse.FieldNode:
			return x.Ident
		case *parse.ChainNode:
			return x.Field
		case *parse.VariableNode:
			return x.Ident[1:]
		}
		return nil
	}
	for _, tr := range ts.Trees {
		head := map[parse.Node]bool{}
		tmpl.Walk(tr.Root, func(n parse.Node) bool {
			switch x := n.(type) {
			case *parse.PipeNode:
				for ci, cmd := range x.Cmds {
					if len(cmd.Args) == 0 {
						continue
					}
					if ids := idsOf(cmd.Args[0]); len(ids) > 0 {
						head[cmd.Args[0]] = true
						k := len(cmd.Args) - 1
						if ci > 0 {
							note(ids, []int{k + 1})
						} else {
							note(ids, []int{k})
						}
					}
				}
			case *parse.FieldNode, *parse.ChainNode, *parse.VariableNode:
				if !head[n] {
					note(idsOf(n), []int{0})
				}
			case *parse.IdentifierNode:
				funcs[x.Ident] = true
			}
			return true
		})
	}
	r.Note("distinct selector names in templates: %d; function identifiers: %d", len(names), len(funcs))
	// entry methods
	var entries []*ssa.Function
	arity := 0
	for f := range an.Sum {
		if f.Parent() != nil || f.Signature.Recv() == nil || !token.IsExported(f.Name()) || names[f.Name()] == nil {
			continue
		}
		if np := f.Signature.Params().Len(); !f.Signature.Variadic() && !names[f.Name()][np] {
			arity++
			continue
		}
		p := core.FuncPkgPath(f)
		if p != pkgIR && p != pkgGen && p != pkgOpenAPI && p != pkgJS && p != core.Module+"/internal/bitset" {
			continue
		}
		entries = append(entries, f)
	}
	// FuncMap functions: values of the map literal returned by templateFunctions
	if tf := prog.Func(pkgGen, "templateFunctions"); tf != nil {
		for _, b := range tf.Blocks {
			for _, in := range b.Instrs {
				mu, ok := in.(*ssa.MapUpdate)
				if !ok {
					continue
				}
				v := mu.Value
				if mi, ok := v.(*ssa.MakeInterface); ok {
					v = mi.X
				}
				switch f := v.(type) {
				case *ssa.Function:
					if _, ok := an.Sum[f]; ok {
						entries = append(entries, f)
					}
				case *ssa.MakeClosure:
					if g, ok := f.Fn.(*ssa.Function); ok {
						entries = append(entries, g)
					}
				}
			}
		}
	} else {
		r.Undecided("anchor:templateFunctions", "-", "gen.templateFunctions not found")
	}
	r.Note("methods whose name occurs in a template but never with their parameter count (not invocable): %d", arity)
	sort.Slice(entries, func(i, j int) bool { return entries[i].String() < entries[j].String() })
	for _, f := range entries {
		s := an.Sum[f]
		if s == nil {
			continue
		}
		var bad []string
		var pos token.Pos
		for _, e := range s.Effects {
			if e.Kind == "mapinsert" && e.Root == effects.Param {
				// a method filling a map reachable from its receiver/argument is a write too
			}
			if strings.HasPrefix(e.Kind, "unknown:") && strings.Contains(e.Kind, "Error") {
				continue
			}
			bad = append(bad, e.String())
			pos = e.Pos
		}
		sort.Strings(bad)
		key := "template-write:" + core.FuncName(f)
		if len(bad) == 0 {
			r.Pass(fmt.Sprintf("%s: no write outside its own allocations", core.FuncName(f)))
			continue
		}
		if why, ok := exc[key]; ok {
			// an entry with an effects list covers exactly those effects
			if fp := excEffects[key]; fp != nil {
				var fresh []string
				for _, b := range bad {
					if !fp[b] {
						fresh = append(fresh, b)
					}
				}
				if len(fresh) > 0 {
					r.Fail(key, c.Pos(pos), fmt.Sprintf("%s is in the reviewed table, but now has an effect the review did not cover: %s", core.FuncName(f), strings.Join(fresh, "; ")))
					continue
				}
			}
			r.Justified++
			r.Pass(fmt.Sprintf("%s: %d effects, reviewed: %s", core.FuncName(f), len(bad), why))
			continue
		}
		if len(bad) > 3 {
			bad = bad[:3]
		}
		r.Fail(key, c.Pos(pos), fmt.Sprintf("%s can be called from a template (its name occurs as a selector) and may write shared state while templates execute concurrently: %s", core.FuncName(f), strings.Join(bad, "; ")))
	}
}

// checkWriteSourceGoroutines: closures handed to errgroup.Go in WriteSource
// store to no captured variable other than their own results.
func checkWriteSourceGoroutines(c *core.Ctx, r *core.Rule, prog *core.Prog) {
	ws := prog.Func(pkgGen, "Generator.WriteSource")
	if ws == nil {
		r.Undecided("anchor:WriteSource", "-", "gen.(*Generator).WriteSource not found")
		return
	}
	n := 0
	for _, f := range core.AllFuncs(ws) {
		for _, call := range core.Calls(f) {
			if !core.IsCallTo(call.Common(), "golang.org/x/sync/errgroup", "Group.Go") {
				continue
			}
			mc, ok := call.Common().Args[1].(*ssa.MakeClosure)
			if !ok {
				r.Undecided("WriteSource:go-arg", c.Pos(call.Pos()), "errgroup.Go argument is not a closure literal")
				continue
			}
			n++
			body := mc.Fn.(*ssa.Function)
			bad := false
			for _, g := range core.AllFuncs(body) {
				for _, b := range g.Blocks {
					for _, in := range b.Instrs {
						st, ok := in.(*ssa.Store)
						if !ok {
							continue
						}
						root := effects.RootOf(st.Addr)
						if root.Kind == effects.Free {
							fv := root.Val.(*ssa.FreeVar)
							// the goroutine's own named result captured by its inner closure
							if fv.Parent() != body {
								if bindingIsLocalOf(fv, body) {
									continue
								}
							}
							bad = true
							r.Fail("WriteSource:goroutine-write:"+fv.Name(), c.Pos(st.Pos()), fmt.Sprintf("a template-writer goroutine stores to the captured variable %s: unsynchronised write shared between concurrent writers", fv.Name()))
						}
						if root.Kind == effects.Global {
							bad = true
							r.Fail("WriteSource:goroutine-global", c.Pos(st.Pos()), "a template-writer goroutine stores to a package-level variable")
						}
					}
				}
			}
			if !bad {
				r.Pass("WriteSource: goroutine body stores to no shared captured variable")
			}
		}
	}
	if n == 0 {
		r.Undecided("WriteSource:goroutines", c.Pos(ws.Pos()), "no errgroup.Go call found in WriteSource")
	}
}

// bindingIsLocalOf: the free variable of an inner closure is bound to an Alloc
// of `owner` (e.g. the goroutine's own named result).
func bindingIsLocalOf(fv *ssa.FreeVar, owner *ssa.Function) bool {
	inner := fv.Parent()
	p := inner.Parent()
	if p == nil {
		return false
	}
	for _, b := range p.Blocks {
		for _, in := range b.Instrs {
			if mc, ok := in.(*ssa.MakeClosure); ok && mc.Fn == inner {
				for i, f := range inner.FreeVars {
					if f == fv && i < len(mc.Bindings) {
						if al, ok := mc.Bindings[i].(*ssa.Alloc); ok && al.Parent() == owner {
							return true
						}
						if f2, ok := mc.Bindings[i].(*ssa.FreeVar); ok {
							return bindingIsLocalOf(f2, owner)
						}
					}
				}
			}
		}
	}
	return false
}

func checkBufferReset(c *core.Ctx, r *core.Rule, prog *core.Prog) {
	gb := prog.Func(pkgGen, "getBuffer")
	if gb == nil {
		r.Undecided("anchor:getBuffer", "-", "gen.getBuffer not found")
		return
	}
	var get, reset ssa.CallInstruction
	for _, call := range core.Calls(gb) {
		if core.IsCallTo(call.Common(), "sync", "Pool.Get") {
			get = call
		}
		if core.IsCallTo(call.Common(), "bytes", "Buffer.Reset") {
			reset = call
		}
	}
	ok := get != nil && reset != nil
	if ok {
		for _, b := range gb.Blocks {
			if _, isRet := b.Instrs[len(b.Instrs)-1].(*ssa.Return); isRet && !reset.Block().Dominates(b) {
				ok = false
			}
		}
	}
	if ok {
		r.Pass("getBuffer resets the pooled buffer before handing it out (a previous generation cannot leak into the next)")
	} else {
		r.Fail("getBuffer:reset", c.Pos(gb.Pos()), "a pooled buffer is handed out without Reset on some path: bytes of a previous generation leak into the next file")
	}
	// every use of bufPool.Get goes through getBuffer
	for _, p := range prog.Pkgs {
		sp := prog.ByPath[p.PkgPath]
		for _, fn := range core.PkgFuncs(prog.SSA, sp) {
			if fn == gb {
				continue
			}
			for _, call := range core.Calls(fn) {
				if core.IsCallTo(call.Common(), "sync", "Pool.Get") && core.FuncPkgPath(fn) == pkgGen {
					r.Fail("bufPool.Get-outside-getBuffer:"+fn.Name(), c.Pos(call.Pos()), "a pooled buffer is obtained without going through getBuffer (no Reset)")
				}
			}
		}
	}
}

// isSpilledReturnBlock: the block jumps to a block consisting of RunDefers,
// loads of the result variables and a Return.
func isSpilledReturnBlock(b *ssa.BasicBlock, fn *ssa.Function) bool {
	if len(b.Succs) != 1 {
		return false
	}
	e := b.Succs[0]
	if _, ok := e.Instrs[len(e.Instrs)-1].(*ssa.Return); !ok {
		return false
	}
	for _, in := range e.Instrs {
		switch x := in.(type) {
		case *ssa.RunDefers, *ssa.Return:
		case *ssa.UnOp:
			if x.Op != token.MUL {
				return false
			}
		default:
			return false
		}
	}
	return true
}

// spilledReturnIsDiagnostic: the block stores a non-nil value into an
// error-typed result variable.
func spilledReturnIsDiagnostic(b *ssa.BasicBlock, fn *ssa.Function) bool {
	for _, in := range b.Instrs {
		st, ok := in.(*ssa.Store)
		if !ok {
			continue
		}
		al, ok := st.Addr.(*ssa.Alloc)
		if !ok {
			continue
		}
		if core.IsErrorType(al.Type().(*types.Pointer).Elem()) && !core.IsNilConst(st.Val) {
			return true
		}
	}
	return false
}

// comparatorFields names what a sort's comparator looks at: the fields read
// and the methods called in the comparator closure (or the Less method of the
// sort.Interface value). It is part of the table key, so a comparator that
// starts comparing something else is a new, unreviewed obligation.
func comparatorFields(prog *core.Prog, cc *ssa.CallCommon) string {
	var cmp *ssa.Function
	switch core.CalleeName(cc) {
	case "sort.Sort", "sort.Stable":
		if len(cc.Args) == 1 {
			v := cc.Args[0]
			if mi, ok := v.(*ssa.MakeInterface); ok {
				v = mi.X
			}
			cmp = prog.SSA.LookupMethod(v.Type(), nil, "Less")
			if cmp == nil {
				if ms := prog.SSA.MethodSets.MethodSet(v.Type()); ms != nil {
					for i := 0; i < ms.Len(); i++ {
						if ms.At(i).Obj().Name() == "Less" {
							cmp = prog.SSA.MethodValue(ms.At(i))
						}
					}
				}
			}
		}
	default:
		if len(cc.Args) >= 2 {
			switch f := cc.Args[len(cc.Args)-1].(type) {
			case *ssa.MakeClosure:
				cmp, _ = f.Fn.(*ssa.Function)
			case *ssa.Function:
				cmp = f
			}
		}
	}
	if cmp == nil {
		return "?"
	}
	set := map[string]bool{}
	seen := map[*ssa.Function]bool{}
	var visit func(f *ssa.Function, depth int)
	visit = func(f *ssa.Function, depth int) {
		if f == nil || seen[f] || depth > 2 || f.Blocks == nil {
			return
		}
		seen[f] = true
		for _, b := range f.Blocks {
			for _, in := range b.Instrs {
				switch x := in.(type) {
				case *ssa.FieldAddr:
					if st, ok := x.X.Type().Underlying().(*types.Pointer).Elem().Underlying().(*types.Struct); ok {
						set[st.Field(x.Field).Name()] = true
					}
				case *ssa.Field:
					if st, ok := x.X.Type().Underlying().(*types.Struct); ok {
						set[st.Field(x.Field).Name()] = true
					}
				case ssa.CallInstruction:
					if callee := x.Common().StaticCallee(); callee != nil {
						if core.InModule(callee) {
							if callee.Signature.Recv() != nil {
								set[callee.Name()+"()"] = true
							}
							visit(callee, depth+1)
						}
					} else if x.Common().IsInvoke() {
						set[x.Common().Method.Name()+"()"] = true
					}
				}
			}
		}
	}
	visit(cmp, 0)
	var out []string
	for k := range set {
		out = append(out, k)
	}
	sort.Strings(out)
	if len(out) == 0 {
		return "elements"
	}
	return strings.Join(out, ",")
}

var (
	c10prog      *core.Prog
	sortWrappers map[*ssa.Function]string
)

var totalSorts = map[string]bool{"slices.Sort": true, "sort.Strings": true, "sort.Ints": true}
var comparatorSorts = map[string]bool{"sort.Sort": true, "sort.Slice": true, "slices.SortFunc": true, "sort.Stable": true, "sort.SliceStable": true, "slices.SortStableFunc": true}

func sortKey(fn *ssa.Function, cc *ssa.CallCommon) string {
	return fmt.Sprintf("sort:%s:%s:by=%s", fnKeyFull(fn), core.CalleeName(cc), comparatorFields(c10prog, cc))
}

func stripSliceConv(x ssa.Value) ssa.Value {
	for i := 0; i < 8; i++ {
		switch y := x.(type) {
		case *ssa.Slice:
			x = y.X
			continue
		case *ssa.MakeInterface:
			x = y.X
			continue
		case *ssa.ChangeType:
			x = y.X
			continue
		case *ssa.Convert:
			x = y.X
			continue
		}
		break
	}
	return x
}

// sanitisingSort reports whether the call erases the order of its argument:
// a total-order sort of the elements, a comparator sort whose reviewed entry
// says its key is unique, or a wrapper of one of these.
func sanitisingSort(fn *ssa.Function, call ssa.CallInstruction) bool {
	cc := call.Common()
	name := core.CalleeName(cc)
	if totalSorts[name] {
		return true
	}
	if comparatorSorts[name] {
		return sortClass[sortKey(fn, cc)] == "unique-key"
	}
	if callee := cc.StaticCallee(); callee != nil {
		if k, ok := sortWrappers[callee]; ok {
			return k == "total" || sortClass[k] == "unique-key"
		}
	}
	return false
}

// phiFeeds: a is (transitively) an edge of b.
func phiFeeds(a, b *ssa.Phi) bool {
	seen := map[*ssa.Phi]bool{}
	var walk func(p *ssa.Phi) bool
	walk = func(p *ssa.Phi) bool {
		if p == a {
			return true
		}
		if seen[p] {
			return false
		}
		seen[p] = true
		for _, e := range p.Edges {
			if q, ok := e.(*ssa.Phi); ok && walk(q) {
				return true
			}
		}
		return false
	}
	return walk(b)
}

// checkGlobalMutationDeep: outside package initialisation nothing inserts into, deletes from or stores through
// state rooted at a package-level variable — directly, or by handing it to a callee whose summary writes through
// that argument. (A cached default table that a later generation edits in place leaks from one run into the next.)
func checkGlobalMutationDeep(c *core.Ctx, r *core.Rule, prog *core.Prog, an *effects.Analysis, inScope func(*ssa.Function) bool) {
	sites := 0
	var fns []*ssa.Function
	for f := range an.Sum {
		if inScope(f) && !isInitFunc(f) && !inOnceBody(f) {
			fns = append(fns, f)
		}
	}
	sort.Slice(fns, func(i, j int) bool { return fns[i].String() < fns[j].String() })
	for _, fn := range fns {
		for _, b := range fn.Blocks {
			for _, in := range b.Instrs {
				call, ok := in.(*ssa.Call)
				if !ok {
					continue
				}
				if bi, ok := call.Common().Value.(*ssa.Builtin); ok {
					if bi.Name() == "delete" {
						sites++
						if k, root := addrRoot(call.Common().Args[0], 0); k == rootGlobal {
							r.Fail(fmt.Sprintf("global-mutation:%s:delete:%s", fnKeyFull(fn), root.Name()), c.Pos(call.Pos()), fmt.Sprintf("delete from a map rooted at package-level state %s outside initialisation (in %s): one generation changes what the next one starts from", root.Name(), fn.Name()))
						}
					}
					continue
				}
				for _, ce := range an.CalleeEffects(call) {
					if ce.On == nil {
						continue
					}
					sites++
					k, root := addrRoot(ce.On, 0)
					if al, ok := ce.On.(*ssa.Alloc); ok && k != rootGlobal && ce.Effect.Kind == "mapinsert" {
						// the callee writes through the pointer it was given: what the variable holds matters
						k, root = allocContentRoot(al, 0, map[*ssa.Phi]bool{})
					}
					if k == rootGlobal {
						r.Fail(fmt.Sprintf("global-mutation:%s:%s:%s", fnKeyFull(fn), core.CalleeName(call.Common()), root.Name()), c.Pos(call.Pos()), fmt.Sprintf("%s writes through its argument (%s), which is rooted at package-level state %s, outside initialisation: one generation changes what the next one starts from", core.CalleeName(call.Common()), ce.Effect.String(), root.Name()))
					}
				}
			}
		}
	}
	r.Note("argument-write / delete sites examined for a package-level root: %d", sites)
	if sites > 0 {
		r.Pass(fmt.Sprintf("%d argument-write and delete sites: none rooted at package-level state", sites))
	}
}

var posInText = regexp.MustCompile(`[A-Za-z0-9_/.\-]+\.go:\d+`)

// effectFingerprint strips positions from a problem description.
func effectFingerprint(what string) string {
	return closureNumRe.ReplaceAllString(posInText.ReplaceAllString(what, "<pos>"), "$$")
}

// closureNumRe: the ordinal of a function literal inside its parent ($3): renumbered whenever an unrelated literal is
// added or removed, so neither site keys nor effect fingerprints may depend on it alone.
var closureNumRe = regexp.MustCompile(`\$\d+`)
