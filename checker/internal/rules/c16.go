package rules

import (
	"fmt"
	"go/token"
	"go/types"
	"sort"
	"strings"

	"golang.org/x/tools/go/packages"
	"golang.org/x/tools/go/ssa"

	"ogenverif/internal/core"
	"ogenverif/internal/panicob"
)

func init() {
	register(&Property{
		ID: "C16",
		Meta: core.Meta{
			Level:       "other",
			Explanation: "Five narrow structural obligations of RFC 6901 resolution, each a necessary condition: (R16.1) the tilde table is exactly {~1→/, ~0→~}, applied in one simultaneous pass (one strings.Replacer) or ~1 before ~0, and the identity fast path is guarded by a Contains test for every key; (R16.2) unescaping is applied per token, to the piece produced by the '/' split, and its result is what member/index lookup receives — never to the unsplit pointer; (R16.3) for the '#' form percent-decoding happens before the split (find receives url.PathUnescape's result or url.Parse().Fragment, never a raw slice of a '#' pointer); (R16.4) member lookup is string equality of key.Value with the token, returning the value adjacent to that key; sequence lookup refuses a leading zero, parses base-10 unsigned and indexes the same children; (R16.5) every bounds check of package jsonpointer the compiler cannot prove is discharged by a guard or a reviewed table entry. Which node an arbitrary (document, pointer) pair designates is a runtime-value relation and is NOT decided.",
			Assumptions: []string{"yaml mapping nodes have an even number of children (key/value pairs) — yaml.v3 invariant"},
			TrustedBase: []string{"tables/panic_justified.json", "compiler check_bce"},
		},
		Run: runC16,
	})
}

func runC16(c *core.Ctx) error {
	prog, err := c.Program("./jsonpointer")
	if err != nil {
		return err
	}
	pkg := prog.ByPath[pkgJP]
	r1 := c.NewRule("R16.1", "S1", "tilde table {~1→/, ~0→~} in one pass or ~1 first; identity fast path guarded for every key", 3)
	r2 := c.NewRule("R16.2", "S1", "unescape applied per '/'-split token and its result is what lookup receives", 3)
	r3 := c.NewRule("R16.3", "S1", "fragment form is percent-decoded before splitting", 2)
	r4 := c.NewRule("R16.4", "S1", "member lookup is string equality returning the adjacent value; index lookup is base-10 unsigned", 3)
	r5 := c.NewRule("R16.5", "S1", "unproven bounds checks of package jsonpointer discharged", 2)

	unesc := pkg.Func("unescape")
	findFn := pkg.Func("find")
	resolve := pkg.Func("Resolve")
	findKey := pkg.Func("findKey")
	findIdx := pkg.Func("findIdx")
	splitFn := pkg.Func("splitFunc")
	// splitFunc is optional: the split on '/' may be written with strings.Cut / Split / IndexByte where the tokens are used
	for n, f := range map[string]*ssa.Function{"unescape": unesc, "find": findFn, "Resolve": resolve, "findKey": findKey, "findIdx": findIdx} {
		if f == nil {
			r1.Undecided("anchor:"+n, "-", "jsonpointer."+n+" not found")
		}
	}
	if unesc == nil || findFn == nil || resolve == nil || findKey == nil || findIdx == nil {
		return nil
	}

	// ---- R16.1
	want := map[string]string{"~1": "/", "~0": "~"}
	var tableKeys []string
	tableOK := false
	// (a) a global Replacer
	for _, call := range core.Calls(unesc) {
		if !core.IsCallTo(call.Common(), "strings", "Replacer.Replace") {
			continue
		}
		ld, ok := call.Common().Args[0].(*ssa.UnOp)
		if !ok {
			continue
		}
		g, ok := ld.X.(*ssa.Global)
		if !ok {
			continue
		}
		// find the initialising NewReplacer call in package init
		initFn := pkg.Func("init")
		for _, ic := range core.Calls(initFn) {
			if !core.IsCallTo(ic.Common(), "strings", "NewReplacer") {
				continue
			}
			stored := false
			for _, ref := range *ic.Value().Referrers() {
				if st, ok := ref.(*ssa.Store); ok && st.Addr == ssa.Value(g) {
					stored = true
				}
			}
			if !stored {
				continue
			}
			elems := variadicElems(ic.Common().Args[0])
			got := map[string]string{}
			okAll := len(elems)%2 == 0 && len(elems) > 0
			for i := 0; i+1 < len(elems); i += 2 {
				k, ok1 := core.ConstString(elems[i])
				v, ok2 := core.ConstString(elems[i+1])
				if !ok1 || !ok2 {
					okAll = false
					break
				}
				got[k] = v
				tableKeys = append(tableKeys, k)
			}
			if okAll && len(got) == len(want) && got["~1"] == "/" && got["~0"] == "~" {
				tableOK = true
				r1.Pass("unescape uses one strings.Replacer{~1→/, ~0→~} (simultaneous pass)")
			} else {
				r1.Fail("unescape:table", c.Pos(ic.Pos()), fmt.Sprintf("tilde table is %v, RFC 6901 §4 prescribes {~1→/, ~0→~}", got))
				tableOK = true
			}
		}
	}
	// (b) sequential ReplaceAll
	if !tableOK {
		var seq [][2]string
		var calls []ssa.CallInstruction
		for _, call := range core.Calls(unesc) {
			if core.IsCallTo(call.Common(), "strings", "ReplaceAll") {
				calls = append(calls, call)
			}
		}
		sort.Slice(calls, func(i, j int) bool { return calls[i].Pos() < calls[j].Pos() })
		for _, call := range calls {
			k, _ := core.ConstString(call.Common().Args[1])
			v, _ := core.ConstString(call.Common().Args[2])
			seq = append(seq, [2]string{k, v})
			tableKeys = append(tableKeys, k)
		}
		if len(seq) == 2 && seq[0] == [2]string{"~1", "/"} && seq[1] == [2]string{"~0", "~"} &&
			calls[1].Common().Args[0] == calls[0].Value() {
			tableOK = true
			r1.Pass("unescape replaces ~1 first, then ~0 on its result")
		} else if len(seq) > 0 {
			tableOK = true
			r1.Fail("unescape:order", c.Pos(calls[0].Pos()), fmt.Sprintf("sequential replacement %v: RFC 6901 §4 requires ~1→/ before ~0→~ (otherwise ~01 becomes / instead of ~1)", seq))
		}
	}
	if !tableOK {
		r1.Undecided("unescape:mechanism", c.Pos(unesc.Pos()), "unescape uses neither a strings.Replacer global nor a ReplaceAll sequence")
	}
	// identity fast path: for each key, assuming Contains(part,key) is true the identity return is unreachable
	part := unesc.Params[0]
	for _, b := range unesc.Blocks {
		ret, ok := b.Instrs[len(b.Instrs)-1].(*ssa.Return)
		if !ok || ret.Results[0] != ssa.Value(part) {
			continue
		}
		for _, k := range []string{"~0", "~1"} {
			k := k
			un := unreachableAssuming(unesc, b, func(cond ssa.Value) (bool, bool) {
				call, ok := cond.(*ssa.Call)
				if !ok || !core.IsCallTo(call.Common(), "strings", "Contains") || call.Common().Args[0] != ssa.Value(part) {
					return false, false
				}
				if s, ok := core.ConstString(call.Common().Args[1]); ok && s == k {
					return true, true
				}
				return false, false
			})
			if un {
				r1.Pass("identity fast path is not taken when the token contains " + k)
			} else {
				r1.Fail("unescape:fastpath:"+k, c.Pos(ret.Pos()), "the token is returned unchanged although it may contain "+k)
			}
		}
	}

	// ---- R16.2
	// callers of unescape: only closures passed to splitFunc with sep '/'
	var unescCalls []ssa.CallInstruction
	for _, fn := range core.PkgFuncs(prog.SSA, pkg) {
		for _, call := range core.Calls(fn) {
			if call.Common().StaticCallee() == unesc {
				unescCalls = append(unescCalls, call)
			}
		}
	}
	if len(unescCalls) == 0 {
		r2.Fail("unescape:unused", c.Pos(unesc.Pos()), "unescape is never applied: ~0/~1 are not honoured")
	}
	for _, call := range unescCalls {
		fn := call.Parent()
		key := "unescape-in:" + fn.Name()
		okTok := false
		if splitFn != nil && fn.Parent() != nil && len(fn.Params) >= 1 && call.Common().Args[0] == ssa.Value(fn.Params[0]) {
			// is this closure passed to splitFunc(…, '/', closure)?
			for _, pc := range core.Calls(fn.Parent()) {
				if pc.Common().StaticCallee() != splitFn {
					continue
				}
				sep, _ := core.ConstInt(pc.Common().Args[1])
				if mc, ok := pc.Common().Args[2].(*ssa.MakeClosure); ok && mc.Fn == fn && sep == '/' {
					okTok = true
				}
			}
		}
		if !okTok && isSlashToken(call.Common().Args[0], pkgFuncCallSites(prog, pkg), 0) {
			okTok = true
		}
		if okTok {
			r2.Pass(fmt.Sprintf("unescape at %s is applied to a token of the '/' split", c.Pos(call.Pos())))
		} else {
			r2.Fail(key, c.Pos(call.Pos()), "unescape is applied to something other than a '/'-split token (unescaping the unsplit pointer turns ~1 into a separator)")
		}
		// lookups in this closure receive unescape's result
		for _, lc := range core.Calls(fn) {
			cal := lc.Common().StaticCallee()
			if cal != findKey && cal != findIdx {
				continue
			}
			if lc.Common().Args[1] == call.Value() {
				r2.Pass(cal.Name() + " receives the unescaped token")
			} else if ph, isPhi := lc.Common().Args[1].(*ssa.Phi); isPhi && phiOnlyOf(ph, call.Value()) {
				r2.Pass(cal.Name() + " receives the unescaped token")
			} else {
				r2.Fail(key+":"+cal.Name(), c.Pos(lc.Pos()), cal.Name()+" does not receive the unescaped token")
			}
		}
	}
	// lookups outside the functions that call unescape (a helper that evaluates one token): their token argument is a
	// parameter that every call site in the package feeds with unescape's result
	{
		sites := pkgFuncCallSites(prog, pkg)
		unescFns := map[*ssa.Function]bool{}
		for _, call := range unescCalls {
			unescFns[call.Parent()] = true
		}
		for _, fn := range core.PkgFuncs(prog.SSA, pkg) {
			for _, g := range core.AllFuncs(fn) {
				if unescFns[g] {
					continue
				}
				for _, lc := range core.Calls(g) {
					cal := lc.Common().StaticCallee()
					if cal != findKey && cal != findIdx {
						continue
					}
					arg := lc.Common().Args[1]
					ok := false
					if prm, isP := arg.(*ssa.Parameter); isP {
						idx := paramIndex(g, prm)
						ok = idx >= 0 && len(sites[g]) > 0
						for _, cs := range sites[g] {
							a := cs.Common().Args[idx]
							ac, isCall := a.(*ssa.Call)
							if !isCall || ac.Common().StaticCallee() != unesc {
								ok = false
							}
						}
					}
					if ok {
						r2.Pass(cal.Name() + " in " + g.Name() + " receives the unescaped token through its caller")
					} else {
						r2.Fail("lookup-token:"+g.Name()+":"+cal.Name(), c.Pos(lc.Pos()), cal.Name()+" in "+g.Name()+" does not receive unescape's result (directly or as the parameter every caller feeds with it): ~0 / ~1 in a member name are compared undecoded")
					}
				}
			}
		}
	}
	// the split callback sees exactly the pieces between separators
	if splitFn != nil {
		checkSplit(c, r2, splitFn)
	}

	// ---- R16.3
	n3 := 0
	for _, call := range core.Calls(resolve) {
		if call.Common().StaticCallee() != findFn {
			continue
		}
		n3++
		arg := call.Common().Args[0]
		pos := c.Pos(call.Pos())
		switch a := arg.(type) {
		case *ssa.Parameter:
			// plain form: must be dominated by ptr[0] == '/'
			r3.Pass("find(ptr) at " + pos + ": plain pointer passed unchanged")
		case *ssa.Extract:
			if cl, ok := a.Tuple.(*ssa.Call); ok && core.IsCallTo(cl.Common(), "net/url", "PathUnescape") && a.Index == 0 {
				r3.Pass("find at " + pos + " receives url.PathUnescape's result")
			} else {
				r3.Fail("Resolve:find-arg", pos, "find receives a value that is not percent-decoded")
			}
		case *ssa.UnOp:
			if isFieldLoad(a, "Fragment") {
				r3.Pass("find at " + pos + " receives url.Parse().Fragment (decoded by net/url)")
			} else {
				r3.Fail("Resolve:find-arg", pos, "find receives an undecoded value")
			}
		default:
			r3.Fail("Resolve:find-arg", pos, fmt.Sprintf("find receives %s: for the URI-fragment form the pointer must be percent-decoded before it is split", strings.TrimSpace(arg.String())))
		}
	}
	if n3 == 0 {
		r3.Undecided("Resolve:find", c.Pos(resolve.Pos()), "Resolve does not call find")
	}
	// the spelling is decided by the first byte: a pointer that starts with '/' is a plain pointer whatever else it
	// contains ('#' is an ordinary character of a member name there), so nothing searches ptr for '#' or parses it as
	// a URL unless the "starts with '/'" test has failed
	{
		ptr := resolve.Params[0]
		var plainFalse []*ssa.BasicBlock
		for _, b := range resolve.Blocks {
			for _, in := range b.Instrs {
				switch x := in.(type) {
				case *ssa.BinOp:
					if x.Op != token.EQL && x.Op != token.NEQ {
						continue
					}
					idx, isIdx := x.X.(*ssa.Index)
					k, isK := core.ConstInt(x.Y)
					if isIdx && isK && k == '/' && idx.X == ssa.Value(ptr) {
						if i0, ok := core.ConstInt(idx.Index); ok && i0 == 0 {
							plainFalse = append(plainFalse, core.EdgeBlocks(x, x.Op == token.NEQ)...)
						}
					}
				case *ssa.Call:
					if core.IsCallTo(x.Common(), "strings", "HasPrefix") && x.Common().Args[0] == ssa.Value(ptr) {
						if cs, ok := core.ConstString(x.Common().Args[1]); ok && cs == "/" {
							plainFalse = append(plainFalse, core.EdgeBlocks(x, false)...)
						}
					}
				}
			}
		}
		notPlain := func(b *ssa.BasicBlock) bool {
			for _, pf := range plainFalse {
				if pf == b || pf.Dominates(b) {
					return true
				}
			}
			return false
		}
		nSearch := 0
		for _, call := range core.Calls(resolve) {
			cc := call.Common()
			name := core.CalleeName(cc)
			searches := false
			switch name {
			case "strings.Cut", "strings.Index", "strings.IndexByte", "strings.IndexRune", "strings.Contains", "strings.ContainsRune", "strings.LastIndex", "strings.LastIndexByte",
				"strings.Split", "strings.SplitN", "strings.IndexAny", "strings.ContainsAny":
				if len(cc.Args) >= 2 && cc.Args[0] == ssa.Value(ptr) {
					if cs, ok := core.ConstString(cc.Args[1]); ok && strings.Contains(cs, "#") {
						searches = true
					}
					if k, ok := core.ConstInt(cc.Args[1]); ok && k == '#' {
						searches = true
					}
				}
			case "net/url.Parse", "net/url.ParseRequestURI":
				searches = len(cc.Args) >= 1 && cc.Args[0] == ssa.Value(ptr)
			}
			if !searches {
				continue
			}
			nSearch++
			if notPlain(call.Block()) {
				r3.Pass(fmt.Sprintf("Resolve: %s at %s runs only after the pointer was found not to start with '/'", core.ShortPkg(name), c.Pos(call.Pos())))
			} else {
				r3.Fail("Resolve:fragment-search-before-plain-test", c.Pos(call.Pos()), fmt.Sprintf("Resolve looks for a fragment in the pointer (%s) before it has established that the pointer does not start with '/': in a plain JSON Pointer '#' is an ordinary character of a member name, \"/a#/b\" designates member \"b\" of member \"a#\" and not the node \"/b\" of the document", core.ShortPkg(name)))
			}
		}
		_ = nSearch
	}

	// ---- R16.4
	checkFindKey(c, r4, findKey)
	checkFindIdx(c, r4, findIdx)

	// ---- R16.5
	table, err := panicob.LoadTable(c.VerifDir, "panic_justified.json")
	if err != nil {
		return err
	}
	sites, err := panicob.Bounds(c, []*packages.Package{prog.PkgBy[pkgJP]})
	if err != nil {
		return err
	}
	panicob.Discharge(c, r5, sites, panicob.Options{Table: table})

	// ---- R16.3 (second half): a RefKey built from a URL keeps the fragment ESCAPED, because Resolve decodes the
	// "#…" form itself; storing url.URL.Fragment (already decoded) makes nested references decode twice
	if fu := prog.Func(pkgJP, "RefKey.FromURL"); fu == nil {
		r3.Undecided("anchor:FromURL", "-", "jsonpointer.(*RefKey).FromURL not found")
	} else {
		found := false
		for _, b := range fu.Blocks {
			for _, in := range b.Instrs {
				st, ok := in.(*ssa.Store)
				if !ok {
					continue
				}
				fa, ok := st.Addr.(*ssa.FieldAddr)
				if !ok || fieldName(fa.X.Type(), fa.Field) != "Ptr" {
					continue
				}
				found = true
				var src func(v ssa.Value, depth int) string
				src = func(v ssa.Value, depth int) string {
					if depth > 4 {
						return "?"
					}
					switch x := v.(type) {
					case *ssa.BinOp:
						if a := src(x.X, depth+1); a != "const" {
							return a
						}
						return src(x.Y, depth+1)
					case *ssa.Const:
						return "const"
					case *ssa.Call:
						return core.CalleeName(x.Common())
					case *ssa.UnOp:
						if f, ok := x.X.(*ssa.FieldAddr); ok {
							return "field " + fieldName(f.X.Type(), f.Field)
						}
					}
					return "?"
				}
				switch got := src(st.Val, 0); got {
				case "(*net/url.URL).EscapedFragment":
					r3.Pass("RefKey.FromURL stores the escaped fragment")
				default:
					r3.Fail("FromURL:fragment-form", c.Pos(st.Pos()), fmt.Sprintf("RefKey.FromURL builds the pointer from %s instead of URL.EscapedFragment(): Resolve percent-decodes the '#' form again, so a reference followed from inside another reference (or from an external file) is decoded twice and designates a different node than the same text at the top level", got))
				}
			}
		}
		if !found {
			r3.Undecided("FromURL:shape", c.Pos(fu.Pos()), "no store to RefKey.Ptr found in FromURL")
		}
	}

	// ---- R16.6: the packages that call Resolve
	r6 := c.NewRule("R16.6", "S1", "callers of jsonpointer.Resolve do not memoise resolved nodes under a lossy function of the pointer text", 1)
	if cprog, err := c.Program("./jsonschema", "./openapi/parser", "./jsonpointer"); err != nil {
		r6.Undecided("load:callers", "-", err.Error())
	} else {
		checkMemoKeyIsArgument(c, r6, cprog, pkgJS, pkgParser, pkgJP)
		checkComponentShortcutWholeRemainder(c, cprog)
		nCalls := 0
		for _, pp := range []string{pkgJS, pkgParser} {
			for _, top := range core.PkgFuncs(cprog.SSA, cprog.ByPath[pp]) {
				for _, fn := range core.AllFuncs(top) {
					for _, call := range core.Calls(fn) {
						if core.IsCallTo(call.Common(), pkgJP, "Resolve") {
							nCalls++
							// the spelling of a pointer ("#…" percent-encoded, "/…" plain) is a property of the whole
							// reference: a piece cut out of a reference (a substring, the result of Cut / Split / Trim)
							// that starts with '/' is read as the plain spelling and its percent escapes stay undecoded
							if via := cutOutOfString(call.Common().Args[0], 0); via != "" {
								r6.Fail("resolve-piece:"+fnKeyFull(fn), c.Pos(call.Pos()), fmt.Sprintf("%s hands jsonpointer.Resolve a piece of a reference (%s) instead of the reference: the piece of a \"#/a/b%%25c\" reference that starts at a '/' is taken for the plain spelling and %%25 is not decoded, so the member \"b%%25c\" is looked up instead of \"b%%c\"", fn.Name(), via))
							} else {
								r6.Pass(fmt.Sprintf("%s: jsonpointer.Resolve receives a whole reference", fnKeyFull(fn)))
							}
						}
					}
				}
			}
		}
		if nCalls == 0 {
			r6.Undecided("anchor:Resolve-callers", "-", "no call of jsonpointer.Resolve found in jsonschema / openapi/parser")
		} else {
			r6.Pass(fmt.Sprintf("%d call sites of jsonpointer.Resolve in jsonschema and openapi/parser", nCalls))
		}
	}
	return nil
}

// checkSplit: every callback invocation in splitFunc receives s[:idx] with
// idx = IndexByte(s, sep), or the remainder s; the remainder is s[idx+1:].
func checkSplit(c *core.Ctx, r *core.Rule, fn *ssa.Function) {
	cb := fn.Params[2]
	n := 0
	for _, call := range core.Calls(fn) {
		if call.Common().Value != ssa.Value(cb) {
			continue
		}
		n++
		arg := call.Common().Args[0]
		ok := false
		switch a := arg.(type) {
		case *ssa.Slice:
			// s[:idx]
			if a.Low == nil && a.High != nil {
				if ic, isCall := a.High.(*ssa.Call); isCall && core.IsCallTo(ic.Common(), "strings", "IndexByte") && ic.Common().Args[0] == a.X && ic.Common().Args[1] == ssa.Value(fn.Params[1]) {
					ok = true
				}
			}
		case *ssa.Phi, *ssa.Parameter:
			ok = true // the remainder
		}
		if ok {
			r.Pass(fmt.Sprintf("splitFunc callback at %s receives a piece delimited by IndexByte(s, sep)", c.Pos(call.Pos())))
		} else {
			r.Fail("splitFunc:piece", c.Pos(call.Pos()), "callback argument is not s[:IndexByte(s, sep)] or the remainder")
		}
	}
	// remainder: s[idx+1:]
	for _, b := range fn.Blocks {
		for _, in := range b.Instrs {
			sl, ok := in.(*ssa.Slice)
			if !ok || sl.Low == nil || sl.High != nil {
				continue
			}
			bo, ok := sl.Low.(*ssa.BinOp)
			one, isOne := int64(0), false
			if ok {
				one, isOne = core.ConstInt(bo.Y)
			}
			if ok && bo.Op == token.ADD && isOne && one == 1 {
				if ic, isCall := bo.X.(*ssa.Call); isCall && core.IsCallTo(ic.Common(), "strings", "IndexByte") {
					r.Pass("splitFunc continues after the separator (s[idx+1:])")
					continue
				}
			}
			r.Fail("splitFunc:remainder", c.Pos(sl.Pos()), "the remainder after a separator is not s[idx+1:]")
		}
	}
	if n == 0 {
		r.Undecided("splitFunc:callback", c.Pos(fn.Pos()), "splitFunc never calls its callback")
	}
	// every exit either returns a callback result (the final piece was delivered) or the non-nil error
	// of a callback: a constant nil return would end the scan without delivering the last (possibly
	// empty) piece, e.g. the "" member designated by a trailing "/"
	for _, b := range fn.Blocks {
		ret, ok := b.Instrs[len(b.Instrs)-1].(*ssa.Return)
		if !ok {
			continue
		}
		okRet := false
		for _, v := range core.PhiClosure(ret.Results[0]) {
			if call, isCall := v.(*ssa.Call); isCall && call.Common().Value == ssa.Value(cb) {
				okRet = true
			} else {
				okRet = false
				break
			}
		}
		if okRet {
			r.Pass(fmt.Sprintf("splitFunc exit at %s returns a callback result", c.Pos(ret.Pos())))
		} else {
			r.Fail("splitFunc:exit", c.Pos(ret.Pos()), "splitFunc can finish without handing the final piece to the callback: a trailing empty token (pointer ending in \"/\") is dropped and the parent node is returned")
		}
	}
}

func checkFindKey(c *core.Ctx, r *core.Rule, fn *ssa.Function) {
	part := fn.Params[1]
	var eq *ssa.BinOp
	for _, b := range fn.Blocks {
		for _, in := range b.Instrs {
			bo, ok := in.(*ssa.BinOp)
			if !ok || bo.Op != token.EQL {
				continue
			}
			if (bo.X == ssa.Value(part) && isFieldLoad(bo.Y, "Value")) || (bo.Y == ssa.Value(part) && isFieldLoad(bo.X, "Value")) {
				eq = bo
			}
		}
	}
	if eq == nil {
		r.Fail("findKey:equality", c.Pos(fn.Pos()), "member lookup does not compare key.Value == token with string equality (fold/prefix/other comparison selects a different member)")
		return
	}
	r.Pass("findKey compares key.Value == token (string equality)")
	// the key node is children[i], the returned node children[i+1]
	var keyIdx ssa.Value
	keyLoad := eq.X
	if eq.X == ssa.Value(part) {
		keyLoad = eq.Y
	}
	if ld, ok := keyLoad.(*ssa.UnOp); ok {
		if fa, ok := ld.X.(*ssa.FieldAddr); ok {
			if kl, ok := fa.X.(*ssa.UnOp); ok {
				if ia, ok := kl.X.(*ssa.IndexAddr); ok {
					keyIdx = ia.Index
				}
			}
		}
	}
	okRet := false
	for _, eb := range core.EdgeBlocks(eq, true) {
		for _, b := range fn.Blocks {
			if !eb.Dominates(b) {
				continue
			}
			ret, ok := b.Instrs[len(b.Instrs)-1].(*ssa.Return)
			if !ok {
				continue
			}
			if ld, ok := ret.Results[0].(*ssa.UnOp); ok {
				if ia, ok := ld.X.(*ssa.IndexAddr); ok {
					if bo, ok := ia.Index.(*ssa.BinOp); ok && bo.Op == token.ADD && bo.X == keyIdx {
						if one, ok := core.ConstInt(bo.Y); ok && one == 1 && isConstBool(ret.Results[1], true) {
							okRet = true
						}
					}
				}
			}
		}
	}
	if okRet && keyIdx != nil {
		r.Pass("findKey returns children[i+1] for the matching key children[i]")
	} else {
		r.Fail("findKey:adjacent", c.Pos(eq.Pos()), "on a match findKey does not return the value node adjacent to the matching key (children[i+1], true)")
	}
}

func checkFindIdx(c *core.Ctx, r *core.Rule, fn *ssa.Function) {
	part := fn.Params[1]
	for _, call := range core.Calls(fn) {
		if core.IsCallTo(call.Common(), "strconv", "ParseUint") {
			base, _ := core.ConstInt(call.Common().Args[1])
			if call.Common().Args[0] == ssa.Value(part) && base == 10 {
				r.Pass("findIdx parses the token as base-10 unsigned")
				// RFC 6901 §4: array-index = "0" / (%x31-39 *DIGIT) — strconv.ParseUint takes "01" for 1, so the
				// token's first byte has to be compared with '0' on a branch whose true edge does not reach the parse
				guarded := false
				for _, b := range fn.Blocks {
					for _, in := range b.Instrs {
						bo, ok := in.(*ssa.BinOp)
						if !ok || (bo.Op != token.EQL && bo.Op != token.NEQ) {
							continue
						}
						idx, isIdx := bo.X.(*ssa.Index)
						k, isC := core.ConstInt(bo.Y)
						if !isIdx || !isC || k != '0' || idx.X != ssa.Value(part) {
							continue
						}
						if i0, ok := core.ConstInt(idx.Index); !ok || i0 != 0 {
							continue
						}
						for _, eb := range core.EdgeBlocks(bo, bo.Op == token.EQL) {
							if !blockReaches(eb, call.Block()) {
								guarded = true
							}
						}
					}
				}
				if guarded {
					r.Pass("findIdx refuses a token with a leading zero before it parses it")
				} else {
					r.Fail("findIdx:leading-zero", c.Pos(call.Pos()), "the array index token goes to strconv.ParseUint without a leading-zero test: \"/a/01\" designates element 1 and \"/a/000\" element 0, where RFC 6901 (array-index = %x30 / ( %x31-39 *(%x30-39) )) says the pointer does not resolve")
				}
			} else {
				r.Fail("findIdx:parse", c.Pos(call.Pos()), fmt.Sprintf("array index parsed with base %d (RFC 6901: decimal digits only)", base))
			}
			return
		}
		if core.IsCallTo(call.Common(), "strconv", "ParseInt") || core.IsCallTo(call.Common(), "strconv", "Atoi") {
			r.Fail("findIdx:parse", c.Pos(call.Pos()), "array index parsed as a signed integer: \"-1\" or \"+1\" are accepted as indices")
			return
		}
	}
	r.Undecided("findIdx:parse", c.Pos(fn.Pos()), "no strconv parse of the token found in findIdx")
}

// checkComponentShortcutWholeRemainder (R16.7, S1). The OpenAPI parser answers a reference of the form
// `#/components/<section>/<name>` from the typed Components maps instead of evaluating the pointer. That shortcut
// designates the node RFC 6901 designates only if the map is asked for the WHOLE remainder after the section prefix:
// component names cannot contain '/' or '~' (parse_components validates them), so a remainder with further tokens
// (`A/properties/b`) misses and falls through to real pointer evaluation. A key that is only part of the remainder
// (the last token, the first token) turns a pointer below a component into a hit on some other component.
func checkComponentShortcutWholeRemainder(c *core.Ctx, prog *core.Prog) {
	r := c.NewRule("R16.7", "S1", "the components shortcut looks up the whole remainder of the reference after the section prefix", 1)
	sp := prog.ByPath[pkgParser]
	if sp == nil {
		r.Undecided("load:openapi/parser", "-", "package not loaded")
		return
	}
	n := 0
	for _, top := range core.PkgFuncs(prog.SSA, sp) {
		for _, fn := range core.AllFuncs(top) {
			for _, b := range fn.Blocks {
				for _, in := range b.Instrs {
					lk, ok := in.(*ssa.Lookup)
					if !ok {
						continue
					}
					ld, ok := lk.X.(*ssa.UnOp)
					if !ok {
						continue
					}
					isComponents := false
					switch fa := ld.X.(type) {
					case *ssa.FieldAddr:
						isComponents = fieldName(fa.X.Type(), fa.Field) == "components"
					}
					if f, ok := lk.X.(*ssa.Field); ok {
						isComponents = fieldName(f.X.Type(), f.Field) == "components"
					}
					if !isComponents {
						continue
					}
					n++
					key := "component-shortcut-key:" + fnKeyFull(fn)
					if wholeRemainderOfParam(lk.Index, 0) {
						r.Pass(fmt.Sprintf("%s looks up the whole remainder of its reference parameter after the prefix", fnKeyFull(fn)))
						continue
					}
					r.Fail(key, c.Pos(lk.Pos()), "the components map is not asked for strings.TrimPrefix(ref, prefix), the whole remainder of the reference: with a partial key (`A/properties/b` → `b`) a pointer below a component returns a different component instead of the node RFC 6901 designates")
				}
			}
		}
	}
	if n == 0 {
		r.Undecided("anchor:components-lookup", "-", "no lookup in a `components` map found in openapi/parser")
	}
}

// wholeRemainderOfParam: v is a parameter p of the enclosing function with a prefix cut off and nothing else:
// strings.TrimPrefix(p, _), p[len(_):], or the first result of a module function all of whose returns are such an
// expression of the parameter p is handed to.
func wholeRemainderOfParam(v ssa.Value, depth int) bool {
	if depth > 3 {
		return false
	}
	if ex, ok := v.(*ssa.Extract); ok && ex.Index == 0 {
		v = ex.Tuple
	}
	switch x := v.(type) {
	case *ssa.Slice:
		if _, isParam := x.X.(*ssa.Parameter); !isParam || x.High != nil || x.Low == nil {
			return false
		}
		if call, ok := x.Low.(*ssa.Call); ok {
			if bi, ok := call.Call.Value.(*ssa.Builtin); ok && bi.Name() == "len" {
				return true
			}
		}
		_, isConst := x.Low.(*ssa.Const)
		return isConst
	case *ssa.Call:
		if core.IsCallTo(x.Common(), "strings", "TrimPrefix") {
			_, isParam := x.Common().Args[0].(*ssa.Parameter)
			return isParam
		}
		callee := x.Common().StaticCallee()
		if callee == nil || callee.Blocks == nil || !strings.HasPrefix(core.FuncPkgPath(callee), core.Module) {
			return false
		}
		// which of the callee's parameters receive a parameter of the caller
		nRet := 0
		for _, b := range callee.Blocks {
			ret, ok := b.Instrs[len(b.Instrs)-1].(*ssa.Return)
			if !ok || len(ret.Results) == 0 {
				continue
			}
			res := ret.Results[0]
			if _, isConst := res.(*ssa.Const); isConst {
				continue // a constant ("" for "not in this section") is no component name
			}
			nRet++
			if !wholeRemainderOfParam(res, depth+1) {
				return false
			}
			// the parameter the result is cut from must be fed by a caller parameter
			var p *ssa.Parameter
			switch y := res.(type) {
			case *ssa.Slice:
				p, _ = y.X.(*ssa.Parameter)
			case *ssa.Call:
				if len(y.Common().Args) > 0 {
					p, _ = y.Common().Args[0].(*ssa.Parameter)
				}
			}
			if p == nil {
				return false
			}
			fed := false
			for i, cp := range callee.Params {
				if cp == p && i < len(x.Common().Args) {
					_, fed = x.Common().Args[i].(*ssa.Parameter)
				}
			}
			if !fed {
				return false
			}
		}
		return nRet > 0
	}
	return false
}

// cutOutOfString: v is a substring of another string value or the result of a cutting function applied to one.
func cutOutOfString(v ssa.Value, d int) string {
	if d > 5 {
		return ""
	}
	switch x := v.(type) {
	case *ssa.Slice:
		if bt, ok := x.X.Type().Underlying().(*types.Basic); ok && bt.Info()&types.IsString != 0 {
			return "a substring"
		}
	case *ssa.Call:
		switch n := core.CalleeName(x.Common()); n {
		case "strings.TrimPrefix", "strings.TrimSuffix", "strings.TrimLeft", "strings.TrimRight", "strings.Trim", "strings.Cut", "strings.CutPrefix", "strings.CutSuffix",
			"strings.Split", "strings.SplitN", "strings.SplitAfter", "strings.SplitAfterN", "path.Base", "path.Dir":
			return n
		}
	case *ssa.Extract:
		return cutOutOfString(x.Tuple, d+1)
	case *ssa.Phi:
		for _, e := range x.Edges {
			if via := cutOutOfString(e, d+1); via != "" {
				return via
			}
		}
	case *ssa.UnOp:
		if x.Op == token.MUL {
			if ia, ok := x.X.(*ssa.IndexAddr); ok {
				// element of a split result
				if ld, ok := ia.X.(*ssa.Call); ok {
					return cutOutOfString(ld, d+1)
				}
			}
		}
	}
	return ""
}

// pkgFuncCallSites: static call sites of the package's functions inside the package.
func pkgFuncCallSites(prog *core.Prog, pkg *ssa.Package) map[*ssa.Function][]ssa.CallInstruction {
	out := map[*ssa.Function][]ssa.CallInstruction{}
	for _, fn := range core.PkgFuncs(prog.SSA, pkg) {
		for _, g := range core.AllFuncs(fn) {
			for _, call := range core.Calls(g) {
				if cal := call.Common().StaticCallee(); cal != nil {
					out[cal] = append(out[cal], call)
				}
			}
		}
	}
	return out
}

// isSlashToken: v is one piece of a string split on '/': the part before the separator of strings.Cut(_, "/"), an
// element of strings.Split(_, "/"), a substring bounded by strings.IndexByte(_, '/') / strings.Index(_, "/"), a phi of
// such, or a parameter that every call site feeds with one.
func isSlashToken(v ssa.Value, sites map[*ssa.Function][]ssa.CallInstruction, d int) bool {
	if d > 4 {
		return false
	}
	isSlash := func(a ssa.Value) bool {
		if s, ok := core.ConstString(a); ok {
			return s == "/"
		}
		if k, ok := core.ConstInt(a); ok {
			return k == '/'
		}
		return false
	}
	switch x := v.(type) {
	case *ssa.Extract:
		if call, ok := x.Tuple.(*ssa.Call); ok && core.IsCallTo(call.Common(), "strings", "Cut") && x.Index == 0 {
			return isSlash(call.Common().Args[1])
		}
	case *ssa.UnOp:
		if x.Op == token.MUL {
			if ia, ok := x.X.(*ssa.IndexAddr); ok {
				if call, ok := ia.X.(*ssa.Call); ok && (core.IsCallTo(call.Common(), "strings", "Split") || core.IsCallTo(call.Common(), "strings", "SplitN")) {
					return isSlash(call.Common().Args[1])
				}
			}
		}
	case *ssa.Slice:
		for _, b := range []ssa.Value{x.Low, x.High} {
			if b == nil {
				continue
			}
			found := false
			var walk func(y ssa.Value, dd int)
			walk = func(y ssa.Value, dd int) {
				if dd > 4 || y == nil {
					return
				}
				switch z := y.(type) {
				case *ssa.Call:
					if (core.IsCallTo(z.Common(), "strings", "IndexByte") || core.IsCallTo(z.Common(), "strings", "Index")) && isSlash(z.Common().Args[1]) {
						found = true
					}
				case *ssa.BinOp:
					walk(z.X, dd+1)
					walk(z.Y, dd+1)
				case *ssa.Phi:
					for _, e := range z.Edges {
						walk(e, dd+1)
					}
				}
			}
			walk(b, 0)
			if found {
				return true
			}
		}
	case *ssa.Phi:
		n := 0
		for _, e := range x.Edges {
			if e == ssa.Value(x) {
				continue
			}
			if !isSlashToken(e, sites, d+1) {
				return false
			}
			n++
		}
		return n > 0
	case *ssa.Parameter:
		fn := x.Parent()
		idx := paramIndex(fn, x)
		if idx < 0 || len(sites[fn]) == 0 {
			return false
		}
		for _, cs := range sites[fn] {
			if idx >= len(cs.Common().Args) || !isSlashToken(cs.Common().Args[idx], sites, d+1) {
				return false
			}
		}
		return true
	}
	return false
}

func phiOnlyOf(ph *ssa.Phi, v ssa.Value) bool {
	for _, e := range ph.Edges {
		if e != v && e != ssa.Value(ph) {
			return false
		}
	}
	return true
}
